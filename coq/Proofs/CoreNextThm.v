(* Proofs/CoreNextThm.v — faithfulness is an invariant across builds: a Core build re-establishes, for the
   cache it commits and the tree it leaves, the hypotheses of the transparency theorem. *)
From Coq Require Import List String Ascii NArith ZArith Bool Arith Lia.
From FB.Base Require Import PyVal Fs.
From FB.Gen Require Import JsonUtilGen.
From FB.Spec Require Import JsonSpec Prog Ref Oracle Faithful.
From FB.Model Require Import Types SimpleOps Builder Persist Core CoreOracle CoreCache.
From FB.Proofs Require Import FsLemmas JsonLaws CleanLaws CoreLawsChildren CoreLawsJson CoreLaws1 CoreLaws2 CoreLaws3 CoreLaws4 CoreLaws5
     CoreLaws6 CoreLaws7 CoreNextDefs CoreNextJson CoreNextMono CoreNextFollows CoreNextRegs CoreNextState CoreNextAux
     CoreNextKeys CoreNextMain.
Import ListNotations.
Local Open Scope list_scope.

(* ------------------------------------------------------------------ *)
(* the function table of the next build                               *)
(* ------------------------------------------------------------------ *)
(* F' coincides with F on every name whose version is unchanged *)
Definition coherent (new : cache) (vers' : pyval) (F F' : ftable) : Prop :=
  forall f, vers_equal new vers' f = true -> ft_file F' f = ft_file F f /\ ft_sub F' f = ft_sub F f.

Lemma dfaith_coh : forall kp new vers' F F', coherent new vers' F F' ->
  forall o, replayable new vers' o = true -> dfaith kp F o -> dfaith kp F' o.
Proof.
  intros kp new vers' F F' Hc.
  induction o as [q r e|p c f a k subs r cr ra sf IH|f a k subs r ra sf IH] using op_ind'; intros Hr Hd; [exact I| |].
  - cbn [replayable] in Hr. apply andb_true_iff in Hr. destruct Hr as [Hr Hsubs]. apply andb_true_iff in Hr. destruct Hr as [_ Hv].
    apply dfaith_BF in Hd. destruct Hd as [H1 H2]. apply dfaith_BF. split.
    + destruct H1 as [H1|[H1|H1]]; auto. right. right. cbn [faithful_op] in *. rewrite (proj1 (Hc f Hv)). exact H1.
    + clear H1. induction subs as [|x rest IHl]; [exact I|]. inversion IH as [|? ? Hx Hrest]; subst.
      cbn [forallb] in Hsubs. apply andb_true_iff in Hsubs. destruct Hsubs as [A B]. destruct H2 as [D1 D2]. split; auto.
  - cbn [replayable] in Hr. apply andb_true_iff in Hr. destruct Hr as [Hr Hsubs]. apply andb_true_iff in Hr. destruct Hr as [_ Hv].
    apply dfaith_SB in Hd. destruct Hd as [H0 [H1 H2]]. apply dfaith_SB. split; [exact H0|]. split.
    + destruct H1 as [H1|[H1|H1]]; auto. right. right. intros sa skw S1 S2 E1 E2. specialize (H1 sa skw S1 S2 E1 E2).
      cbn [faithful_sub_at] in *. rewrite (proj2 (Hc f Hv)). exact H1.
    + clear H1. induction subs as [|x rest IHl]; [exact I|]. inversion IH as [|? ? Hx Hrest]; subst.
      cbn [forallb] in Hsubs. apply andb_true_iff in Hsubs. destruct Hsubs as [A B]. destruct H2 as [D1 D2]. split; auto.
Qed.

(* ------------------------------------------------------------------ *)
(* extending an oracle by a tree                                      *)
(* ------------------------------------------------------------------ *)
Lemma kpx_init : forall kp T fs, kp_init kp fs ->
  (forall q g, lookup fs q = Some (NFile g) -> lookup T q = Some (NFile g) \/ forall c r, kp_of T q c r = None) ->
  kp_init (kpx kp T) fs.
Proof.
  intros kp T fs Hi Hsame q g Hq c r x Hk Hcmp. unfold kpx in Hk. destruct (kp q c r) as [y|] eqn:E.
  - inversion Hk; subst. eapply Hi; eauto.
  - destruct (Hsame q g Hq) as [H|H]; [|rewrite H in Hk; discriminate].
    eapply (kp_of_init T q g H); eauto.
Qed.

Lemma kpx_new : forall kp T clock clock', kp_new kp clock -> (clock <= clock')%N -> files_old T clock' -> kp_new (kpx kp T) clock'.
Proof.
  intros kp T clock clock' Hn Hle Ho q g Hg c r x Hk Hcmp. unfold kpx in Hk. destruct (kp q c r) as [y|] eqn:E.
  - inversion Hk; subst. eapply (Hn q g); eauto. lia.
  - eapply (kp_of_new T clock' Ho q g Hg); eauto.
Qed.

Lemma kpx_def : forall kp T, kp_init kp T -> kp_def (kpx kp T) T.
Proof.
  intros kp T Hi q g c Hq. unfold kpx. destruct (kp q c (cmp_of c g)) as [y|] eqn:E.
  - f_equal. apply (Hi q g Hq c (cmp_of c g) y E). left. apply cmp_refl.
  - unfold kp_of. rewrite Hq, pyval_same_refl. reflexivity.
Qed.

Lemma kp_def_le : forall kp kp' fs, kp_le kp kp' -> kp_def kp fs -> kp_def kp' fs.
Proof. intros kp kp' fs L H q g c Hq. apply L. apply H. exact Hq. Qed.

(* any oracle that is right can be completed on the files of the tree it is right about *)
Lemma extend_oracle : forall kp fs clock, kp_init kp fs -> kp_new kp clock -> files_old fs clock ->
  kp_le kp (kpx kp fs) /\ kp_init (kpx kp fs) fs /\ kp_new (kpx kp fs) clock /\ kp_def (kpx kp fs) fs.
Proof.
  intros kp fs clock Hi Hn Ho. split; [apply kpx_le|]. split; [|split].
  - apply kpx_init; [exact Hi|]. intros q g Hq. left. exact Hq.
  - eapply kpx_new; eauto. lia.
  - apply kpx_def. exact Hi.
Qed.

(* ------------------------------------------------------------------ *)
(* the start of a build                                               *)
(* ------------------------------------------------------------------ *)
Lemma core_build_setup : forall kp fs cf old vers clock nextid root s1,
  kp_init kp fs -> fs_wf fs ->
  cr_state (core_build fs cf old vers clock nextid root) = Some s1 ->
  exists s0 r0 res pd sb r1 res_r pd_r,
    core_run root None None [] s0 = (s1, (res, pd, sb)) /\ ref_run root None None r0 = (r1, (res_r, pd_r)) /\
    sim s0 r0 /\ KInv kp old vers clock s0 /\ RInv' None r0 /\ sublog (k_log s0) (r_log r0) /\
    k_claimedF s0 = [] /\ k_claimedS s0 = [] /\ k_newF s0 = [] /\ k_newS s0 = [] /\ k_old s0 = old /\ k_vers s0 = vers /\
    (forall q g, lookup (k_fs s0) q = Some (NFile g) \/ stale_get (k_stale s0) q = Some g -> lookup fs q = Some (NFile g)) /\
    k_cachefile s0 = cf /\ (forall g, lookup (k_fs s0) cf <> Some (NFile g)) /\
    (forall q g, stale_get (k_stale s0) q = Some g -> In q (cache_created_files old)).
Proof.
  intros kp fs cf old vers clock nextid root s1 HI W Hs. unfold core_build in Hs.
  set (pv := prev_of_cache old) in *. set (t0 := ref_clean fs cf pv) in *.
  destruct (missing_dirs t0 cf (dirname cf)) as [dirs|c] eqn:Em; [|discriminate].
  destruct (mkdir_all t0 dirs) as [t1|e] eqn:Ek; [|discriminate].
  assert (W0 : fs_wf t0) by (apply ref_clean_wf; exact W).
  destruct (setup_dirs _ _ _ _ _ W0 Em Ek) as [_ [W1 [Hfr _]]].
  set (s0 := {| k_fs := t1;
                k_stale := flat_map (fun p => match lookup fs p with Some (NFile f) => [(p, f)] | _ => [] end) (pv_outputs pv);
                k_staledirs := filter (fun d => isdir fs d && negb (isdir t0 d)) (pv_dirs pv);
                k_claimedF := []; k_claimedS := []; k_need := []; k_made := dirs; k_clock := clock; k_nextid := nextid;
                k_log := [LInvoke "<root>" None PNone PNone]; k_cachefile := cf; k_old := old; k_vers := vers;
                k_newF := []; k_newS := [] |}) in *.
  set (r0 := {| r_fs := t1; r_claimedF := []; r_claimedS := []; r_need := []; r_made := dirs; r_clock := clock;
                r_nextid := nextid; r_log := [LInvoke "<root>" None PNone PNone]; r_cachefile := cf |}).
  assert (S0 : sim s0 r0) by (repeat split; try reflexivity; apply te_refl).
  assert (Hfile : forall q f, lookup t1 q = Some (NFile f) -> lookup fs q = Some (NFile f)).
  { intros q f Hq. apply (ref_clean_file fs cf pv). fold t0. destruct (Hfr q) as [E|[_ [E _]]]; congruence. }
  assert (Hvis : forall q g, lookup (k_fs s0) q = Some (NFile g) \/ stale_get (k_stale s0) q = Some g -> lookup fs q = Some (NFile g)).
  { intros q g [Hq|Hq]; [apply Hfile; exact Hq|eapply stale_init_get; exact Hq]. }
  assert (K0 : KInv kp old vers clock s0).
  { repeat split; try reflexivity.
    - intros q f Hq. apply HI. apply Hvis. exact Hq.
    - intros q o Ho Hr Hq. exfalso. cbn in Hq.
      assert (Hin : In q (pv_outputs pv)).
      { cbn. unfold cache_created_files. eapply created_files_In; [apply cache_get_file_files; exact Ho|exact Hr]. }
      pose proof (ref_clean_output fs cf pv q Hin) as Hx. fold t0 in Hx.
      unfold isfile in Hq, Hx. destruct (Hfr q) as [E|[E1 [E2 _]]].
      + rewrite E in Hq. congruence.
      + rewrite E2 in Hq. discriminate. }
  assert (I0 : RInv' None r0).
  { unfold r0. split; [split; [exact W1|split]|].
    - cbn. intros n Hn. destruct Hn.
    - intros p Hp. discriminate.
    - cbn. intros n Hn. destruct Hn. }
  destruct (core_run root None None [] s0) as [s1' [[res pd] sb]] eqn:Ec. cbn in Hs. inversion Hs; subst s1'.
  destruct (ref_run root None None r0) as [r1 [res_r pd_r]] eqn:Er.
  exists s0, r0, res, pd, sb, r1, res_r, pd_r.
  split; [exact Ec|]. split; [exact Er|]. split; [exact S0|]. split; [exact K0|]. split; [exact I0|].
  split; [apply sublog_refl|]. do 6 (split; [reflexivity|]). split; [exact Hvis|]. split; [reflexivity|]. split.
  - intros g Hg. cbn in Hg. destruct (Hfr cf) as [E|[_ [E _]]]; [|congruence]. rewrite E in Hg.
    unfold t0, ref_clean in Hg. apply fold_try_rmdir_file' in Hg.
    destruct (try_remove_char (fold_left try_remove (pv_outputs pv) fs) cf cf) as [E0|[_ [E0 _]]]; [|congruence].
    rewrite E0 in Hg. assert (Hi : isfile (fold_left try_remove (pv_outputs pv) fs) cf = true) by (apply isfile_lookup; eauto).
    rewrite (try_remove_removes _ _ Hi) in E0. congruence.
  - intros q g Hq. cbn [s0 k_stale] in Hq. change (pv_outputs pv) with (cache_created_files old) in Hq. clear -Hq.
    induction (cache_created_files old) as [|p l IH]; [discriminate|]. cbn [flat_map] in Hq.
    destruct (lookup fs p) as [[f|]|]; cbn [app] in Hq; try (right; apply IH; exact Hq).
    cbn [stale_get] in Hq. destruct (path_eqb p q) eqn:E; [apply path_eqb_eq in E; left; exact E|right; apply IH; exact Hq].
Qed.

(* ------------------------------------------------------------------ *)
(* keys of the records that can be served                             *)
(* ------------------------------------------------------------------ *)
Lemma deep_goodkeys : forall kp F l, dfaith_list kp F l -> Forall goodkey (snd (cll l)).
Proof.
  intros kp F l H. apply Forall_forall. intros x Hx.
  destruct (cll_keys_deep _ _ Hx) as (f & a & k & s' & r & ra & sf & Hin & ->).
  pose proof (dfaith_wfrec _ _ _ (dfaith_list_deep _ _ _ H _ Hin)) as [S1 [S2 _]]. exists f, a, k. auto.
Qed.

Section HitKeys.
  Variable kp : kappa.
  Variable F : ftable.
  Variable old : cache.
  Variable vers : pyval.
  Hypothesis HW : cache_wf old.
  Hypothesis HD : deep_cache kp F old vers.

  Definition Gst (s : kstate) : Prop := k_old s = old /\ k_vers s = vers.

  Lemma Gst_ext : forall s s', k_old s' = k_old s -> k_vers s' = k_vers s -> Gst s -> Gst s'.
  Proof. intros s s' E1 E2 [G1 G2]. split; congruence. Qed.

  Lemma hitF_keys : forall s s0 p fname sa skw f subs' ret' r,
    Gst s -> k_old s0 = k_old s -> k_vers s0 = k_vers s -> core_hit s s0 p fname sa skw = Some (f, subs', ret', r) ->
    kdl (snd (cll subs')) /\ Forall goodkey (snd (cll subs')).
  Proof.
    intros s s0 p fname sa skw f subs' ret' r [Hold Hvers] Eo Ev Hhit.
    unfold core_hit in Hhit. rewrite Hold in Hhit.
    destruct (cache_get_file old p) as [orec|] eqn:Eg; [|discriminate].
    destruct orec as [|p' c' fname' a' k' subs0 ret0 cmpres' raised' sf'|]; try discriminate.
    destruct raised'; [discriminate|].
    destruct (negb (String.eqb fname' fname)) eqn:Efn; [discriminate|]. apply negb_false_iff, String.eqb_eq in Efn. subst fname'.
    destruct (negb (kversion_equal s fname)) eqn:Evs; [discriminate|]. apply negb_false_iff in Evs.
    destruct (negb (is_equal a' sa) || negb (is_equal k' skw)); [discriminate|].
    destruct (phys (k_fs s0) (k_stale s0) p) as [f0|]; [|discriminate].
    destruct (negb (is_equal cmpres' (cmp_of c' f0))); [discriminate|].
    destruct (kreplay_list s0 subs0 (start_replay s0)) as [rpx|] eqn:Ekr; [|discriminate].
    inversion Hhit; subst f0 subs0 ret0 rpx. clear Hhit.
    pose proof (cache_get_file_files _ _ _ Eg) as Hfiles.
    destruct HW as [HWf _]. destruct (HWf p _ Hfiles) as (c2 & f2 & a2 & k2 & subs2 & ret2 & cmp2 & ra2 & sf2 & Heq & Hsf).
    inversion Heq; subst p' c2 f2 a2 k2 subs2 ret2 cmp2 ra2 sf2. clear Heq.
    destruct sf'; [specialize (Hsf eq_refl); discriminate|]. clear Hsf.
    assert (Hrep : replayable old vers (OBuildFile p c' fname a' k' subs' ret' cmpres' false false) = true).
    { cbn [replayable negb andb]. rewrite kversion_vers, Hold, Hvers in Evs. rewrite Evs. cbn [andb].
      pose proof (kreplay_list_replayable _ _ _ _ Ekr) as Hx. rewrite Eo, Ev, Hold, Hvers in Hx. exact Hx. }
    destruct HD as [HDf _]. pose proof (HDf p _ Hfiles eq_refl Hrep) as Hdf.
    apply dfaith_BF in Hdf. destruct Hdf as [[H|[H|H]] Hdl]; try discriminate.
    split; [|eapply deep_goodkeys; eauto].
    cbn [faithful_op] in H.
    destruct (follows kp (Some p) (ft_file F fname p a' k') subs' None ([p], [])) as [[[[out_n bytes_n] rest_n] cl2]|] eqn:Efo; [|discriminate].
    destruct rest_n; [|discriminate]. eapply follows_keys; eauto.
  Qed.

  Lemma hitS_keys : forall s fname sa skw subs' ret' r,
    Gst s -> sanitized sa = true -> sanitized skw = true ->
    core_subhit s fname (subbuild_key fname sa skw) = Some (subs', ret', r) ->
    kdl (subbuild_key fname sa skw :: snd (cll subs')) /\ Forall goodkey (snd (cll subs')).
  Proof.
    intros s fname sa skw subs' ret' r [Hold Hvers] Ssa Sskw Hhit.
    unfold core_subhit in Hhit. rewrite Hold in Hhit.
    destruct (subs_get (c_subs old) (subbuild_key fname sa skw)) as [[orec|]|] eqn:Eg; try discriminate.
    destruct orec as [| |f' a' k' subs0 ret0 raised' sf']; try discriminate.
    destruct raised'; [discriminate|].
    destruct (negb (kversion_equal s fname)) eqn:Ev; [discriminate|]. apply negb_false_iff in Ev.
    destruct (kreplay_list s subs0 (start_replay s)) as [rpx|] eqn:Ekr; [|discriminate].
    inversion Hhit; subst subs0 ret0 rpx. clear Hhit.
    destruct HW as [_ HWs]. destruct (HWs _ _ Eg) as (f2 & a2 & k2 & subs2 & ret2 & ra2 & sf2 & Heq & Hsf & Sa' & Sk' & Hkey).
    inversion Heq; subst f2 a2 k2 subs2 ret2 ra2 sf2. clear Heq.
    destruct sf'; [specialize (Hsf eq_refl); discriminate|]. clear Hsf.
    unfold subbuild_key in Hkey. rewrite (subbuild_key_iff f' a' k' fname sa skw Sa' Sk' Ssa Sskw) in Hkey.
    apply andb_true_iff in Hkey. destruct Hkey as [Hkey Ek]. apply andb_true_iff in Hkey. destruct Hkey as [Efn Ea].
    apply String.eqb_eq in Efn. subst f'.
    assert (Hrep : replayable old vers (OSubbuild fname a' k' subs' ret' false false) = true).
    { cbn [replayable negb andb]. rewrite kversion_vers, Hold, Hvers in Ev. rewrite Ev. cbn [andb].
      pose proof (kreplay_list_replayable _ _ _ _ Ekr) as Hx. rewrite Hold, Hvers in Hx. exact Hx. }
    destruct HD as [_ HDs]. pose proof (HDs _ _ Eg eq_refl Hrep) as Hdf.
    apply dfaith_SB in Hdf. destruct Hdf as [_ [[H|[H|H]] Hdl]]; try discriminate.
    split; [|eapply deep_goodkeys; eauto].
    specialize (H sa skw Ssa Sskw Ea Ek). cbn [faithful_sub_at] in H.
    destruct (follows kp None (ft_sub F fname sa skw) subs' None ([], [subbuild_key fname sa skw])) as [[[[out_n bytes_n] rest_n] cl2]|] eqn:Efo; [|discriminate].
    destruct rest_n; [|discriminate]. cbn [kdl]. split; [|eapply follows_keys; eauto].
    intros y Hy. pose proof (follows_keys_init _ _ _ _ _ _ _ _ _ Efo y Hy) as Hf. cbn [snd existsb] in Hf.
    rewrite orb_false_r in Hf. exact Hf.
  Qed.
End HitKeys.

(* ------------------------------------------------------------------ *)
(* Theorem: one build re-establishes the hypotheses for the next      *)
(* ------------------------------------------------------------------ *)
Theorem core_build_next : forall (kp : kappa) (F : ftable) fs cf old vers clock nextid root nm s1,
  Obeys F root -> WfArgs root -> Respects F -> RespectsS F ->
  cache_wf old -> deep_cache kp F old vers ->
  kp_init kp fs -> kp_new kp clock -> kp_def kp fs -> fs_wf fs ->
  cr_state (core_build fs cf old vers clock nextid root) = Some s1 ->
  let new := cache_of_state nm s1 in
  let kp' := kpx kp (k_fs s1) in
  (* (a) *) cache_wf new /\
  (* (b) *) kp_le kp kp' /\
            (forall F' vers', coherent new vers' F F' -> cache_tame new vers' -> deep_cache kp' F' new vers') /\
  (* (c) *) kp_init kp' (k_fs s1) /\ kp_def kp' (k_fs s1) /\
  c_fvers new = vers /\ c_name new = nm.
Proof.
  intros kp F fs cf old vers clock nextid root nm s1 HO HWa HR HRS HW HD HI HN Hdef W Hs new kp'.
  destruct (core_build_setup kp fs cf old vers clock nextid root s1 HI W Hs)
    as (s0 & r0 & res & pd & sb & r1 & res_r & pd_r & Ec & Er & S0 & K0 & I0 & L0 & EcF & EcS & EnF & EnS & Eold & Evers & Hvis & Ecf & Hnocf0 & Hstale0).
  pose proof (deep_faithful kp F old vers HW HD) as HF.
  destruct (core_run_ext _ _ _ _ _ _ _ _ _ Ec) as [produced [Epn X]]. cbn [app] in Epn.
  assert (N0 : NI kp s0).
  { split; intros q g Hq; [left|]; intro c; apply Hdef; apply Hvis; auto. }
  assert (P1 : PersT (k_fs s1) s1) by (intros q g _ Hl; exact Hl).
  destruct (TN kp F old vers clock HR HRS HW HD HN (k_fs s1) root HO HWa None None [] s0 r0 s1 res pd sb r1 res_r pd_r produced
               S0 K0 I0 L0 Ec Er N0 P1 Epn) as [G1 [G2 [G3 G4]]].
  destruct (T1 kp F old vers clock HR HW HF HN root HO _ _ _ _ _ _ _ _ _ _ _ _ S0 K0 I0 L0 Ec Er) as [_ [_ [S1 [K1 _]]]].
  destruct (x_newF _ _ _ _ _ X) as [nF [HnF HnF']]. rewrite EnF in HnF. cbn [app] in HnF.
  destruct (x_newS _ _ _ _ _ X) as [nS [HnS HnS']]. rewrite EnS in HnS. cbn [app] in HnS.
  assert (Hfile_reg : forall p o, files_get (c_files new) p = Some (Some o) -> In (p, o) nF).
  { intros p o Hg. cbn [new cache_of_state c_files] in Hg. apply files_fold_get in Hg. destruct Hg as [Hg|Hg]; [|discriminate].
    rewrite HnF in Hg. exact Hg. }
  assert (Hsub_reg : forall key o, subs_get (c_subs new) key = Some (Some o) -> exists k0, In (k0, o) nS).
  { intros key o Hg. cbn [new cache_of_state c_subs] in Hg. apply subs_fold_get_any in Hg. destruct Hg as [[k0 Hg]|Hg]; [|discriminate].
    exists k0. rewrite HnS in Hg. exact Hg. }
  assert (KD1 : KD s1).
  { apply (run_keys (Gst old vers) (Gst_ext old vers) (hitF_keys kp F old vers HW HD) (hitS_keys kp F old vers HW HD)
                    root None None [] s0 s1 res pd sb Ec); [split; assumption|].
    unfold KD. rewrite EcS, EnS. cbn. split; [exact I|]. split; [constructor|]. split; [exact I|]. intros x []. }
  split; [|split; [|split; [|split; [|split; [|split]]]]].
  - (* cache_wf *)
    split.
    + intros p o Hg. destruct (HnF' _ _ (Hfile_reg p o Hg)) as [_ [(c & f & a & k & subs & r & cr & ra & ->) _]].
      exists c, f, a, k, subs, r, cr, ra, false. split; [reflexivity|discriminate].
    + intros key o Hg. cbn [new cache_of_state c_subs] in Hg.
      destruct KD1 as [_ [_ [D3 _]]].
      rewrite subs_fold_distinct in Hg by (cbn [map app]; apply KDf_distinct; exact D3). cbn [app] in Hg.
      destruct (subs_get_map _ _ _ Hg) as [k0 [Hin Hpe]]. rewrite HnS in Hin.
      destruct (HnS' _ _ Hin) as [Hdeep [(f & a & k & subs & r & ra & -> & ->) _]].
      destruct (G4 _ Hdeep) as [S1' [S2' _]].
      exists f, a, k, subs, r, ra, false. split; [reflexivity|]. split; [discriminate|]. auto.
  - apply kpx_le.
  - intros F' vers' Hcoh [Tf Ts]. split.
    + intros p o Hg Hr Hp. eapply dfaith_coh; [exact Hcoh|exact Hp|].
      apply G2; [exact (proj1 (HnF' _ _ (Hfile_reg p o Hg)))|exact (Tf p o Hg Hr Hp)].
    + intros key o Hg Hr Hp. eapply dfaith_coh; [exact Hcoh|exact Hp|].
      destruct (Hsub_reg key o Hg) as [k0 Hin].
      apply G2; [exact (proj1 (HnS' _ _ Hin))|exact (Ts key o Hg Hr Hp)].
  - apply kpx_init; [|intros q g Hq; left; exact Hq].
    intros q g Hq. destruct K1 as [_ [_ [K3 _]]]. apply K3. left. exact Hq.
  - apply kpx_def. intros q g Hq. destruct K1 as [_ [_ [K3 _]]]. apply K3. left. exact Hq.
  - cbn. destruct (x_const _ _ _ _ _ X) as [_ [Hv _]]. congruence.
  - reflexivity.
Qed.

Print Assumptions core_build_next.

(* ------------------------------------------------------------------ *)
(* the cache file path stays free                                     *)
(* ------------------------------------------------------------------ *)
Definition nocf (c : cache) (cf : path) : Prop := forall x, ~ In (cf, x) (c_files c).

Lemma files_set_in : forall l p v q x, In (q, x) (files_set l p v) -> (q = p /\ x = v) \/ In (q, x) l.
Proof.
  induction l as [|[k0 v0] l IH]; intros p v q x H; cbn [files_set] in H.
  - destruct H as [H|[]]. inversion H. left. auto.
  - destruct (path_eqb k0 p) eqn:E.
    + apply path_eqb_eq in E. subst k0. destruct H as [H|H]; [inversion H; left; auto|right; right; exact H].
    + destruct H as [H|H]; [right; left; exact H|]. destruct (IH _ _ _ _ H) as [H'|H']; [left; exact H'|right; right; exact H'].
Qed.

Lemma files_fold_in : forall regs l q x,
  In (q, x) (fold_left (fun acc (e : path * op) => files_set acc (fst e) (Some (snd e))) regs l) ->
  (exists o, In (q, o) regs) \/ In (q, x) l.
Proof.
  induction regs as [|[p o] regs IH]; intros l q x H; cbn [fold_left] in H; [right; exact H|].
  destruct (IH _ _ _ H) as [[o' H']|H']; [left; exists o'; right; exact H'|].
  cbn [fst snd] in H'. destruct (files_set_in _ _ _ _ _ H') as [[-> _]|H'']; [left; exists o; left; reflexivity|right; exact H''].
Qed.

Theorem core_build_nocf : forall fs cf old vers clock nextid root nm s1,
  fs_wf fs -> nocf old cf ->
  cr_state (core_build fs cf old vers clock nextid root) = Some s1 ->
  isfile (k_fs s1) cf = false /\ nocf (cache_of_state nm s1) cf.
Proof.
  intros fs cf old vers clock nextid root nm s1 W Hno Hs.
  assert (HI : kp_init (fun _ _ _ => None) fs) by (intros q g _ c r x Hk; discriminate).
  destruct (core_build_setup _ fs cf old vers clock nextid root s1 HI W Hs)
    as (s0 & r0 & res & pd & sb & r1 & res_r & pd_r & Ec & Er & S0 & K0 & I0 & L0 & EcF & EcS & EnF & EnS & Eold & Evers & Hvis & Ecf & Hnocf0 & Hstale0).
  destruct (core_run_ext _ _ _ _ _ _ _ _ _ Ec) as [produced [_ X]].
  split.
  - destruct (isfile (k_fs s1) cf) eqn:Ei; [|reflexivity]. exfalso. apply isfile_lookup in Ei. destruct Ei as [g Hg].
    destruct (x_vis _ _ _ _ _ X cf g Hg) as [H|[H|H]].
    + exact (Hnocf0 g H).
    + apply Hstale0 in H. unfold cache_created_files in H. apply in_flat_map in H. destruct H as [[q x] [Hin Hq]].
      cbn [fst snd] in Hq. destruct x as [o|]; [|destruct Hq]. destruct (op_raised o); [destruct Hq|]. destruct Hq as [<-|[]].
      exact (Hno _ Hin).
    + apply (x_nocf _ _ _ _ _ X cf H). symmetry. exact Ecf.
  - intros x Hin. cbn [cache_of_state c_files] in Hin. destruct (files_fold_in _ _ _ _ Hin) as [[o Ho]|[]].
    destruct (x_newF _ _ _ _ _ X) as [nF [HnF HnF']]. rewrite EnF in HnF. cbn [app] in HnF. rewrite HnF in Ho.
    destruct (HnF' _ _ Ho) as [_ [_ Hc]]. apply (x_nocf _ _ _ _ _ X cf Hc). symmetry. exact Ecf.
Qed.

(* ------------------------------------------------------------------ *)
(* the tree the next build starts from                                *)
(* ------------------------------------------------------------------ *)
Lemma next_fs_init : forall kp cf s1,
  kp_init kp (k_fs s1) -> agrees kp cf cache_marker -> kp_init kp (next_fs cf s1).
Proof.
  intros kp cf s1 Hi Hm q g Hq. unfold next_fs in Hq. destruct (path_eqb q cf) eqn:E.
  - apply path_eqb_eq in E. subst q. destruct cf as [|x d]; [discriminate|].
    rewrite lookup_upd_eq in Hq by discriminate. inversion Hq; subst. exact Hm.
  - apply path_eqb_neq in E. rewrite lookup_upd_neq in Hq by exact E. apply Hi. exact Hq.
Qed.

Lemma marker_agrees : forall kp T cf, agrees kp cf cache_marker -> isfile T cf = false -> agrees (kpx kp T) cf cache_marker.
Proof.
  intros kp T cf Ha Hf c r x Hk Hcmp. unfold kpx in Hk. destruct (kp cf c r) as [y|] eqn:E.
  - inversion Hk; subst. eapply Ha; eauto.
  - unfold kp_of in Hk. unfold isfile in Hf. destruct (lookup T cf) as [[g|]|]; discriminate.
Qed.

(* when is the next tree a tree: the final tree is one; the directory of the cache file must still be there
   (it can be pruned during the build, see CoreNextEx.findingD) and nothing may lie below the cache file path *)
Theorem core_build_tree_wf : forall (kp : kappa) (F : ftable) fs cf old vers clock nextid root s1,
  Obeys F root -> Respects F -> cache_wf old -> faithful_cache kp F old vers ->
  kp_init kp fs -> kp_new kp clock -> fs_wf fs ->
  cr_state (core_build fs cf old vers clock nextid root) = Some s1 -> fs_wf (k_fs s1).
Proof.
  intros kp F fs cf old vers clock nextid root s1 HO HR HW HF HI HN W Hs.
  destruct (core_build_setup kp fs cf old vers clock nextid root s1 HI W Hs)
    as (s0 & r0 & res & pd & sb & r1 & res_r & pd_r & Ec & Er & S0 & K0 & I0 & L0 & _).
  destruct (T1 kp F old vers clock HR HW HF HN root HO _ _ _ _ _ _ _ _ _ _ _ _ S0 K0 I0 L0 Ec Er) as [_ [_ [S1 _]]].
  destruct (ref_run_inv _ _ _ _ _ _ _ I0 Er) as [I1 _].
  eapply te_wf; [apply te_sym; exact (proj1 S1)|]. exact (RInv_wf _ _ I1).
Qed.

Lemma next_fs_wf : forall cf s1, fs_wf (k_fs s1) -> cf <> [] ->
  lookup (k_fs s1) (dirname cf) = Some NDir -> (forall n, lookup (k_fs s1) (n :: cf) = None) ->
  fs_wf (next_fs cf s1).
Proof.
  intros cf s1 W Hne Hpar Hbelow q n Hq. unfold next_fs in *.
  assert (Hd : dirname cf <> cf) by (destruct cf; [congruence|apply cons_neq]).
  destruct (path_eqb q cf) eqn:E.
  - apply path_eqb_eq in E. subst q. rewrite lookup_upd_neq by exact Hd. exact Hpar.
  - apply path_eqb_neq in E. rewrite lookup_upd_neq in Hq by exact E.
    destruct (path_eqb (dirname q) cf) eqn:E2.
    + apply path_eqb_eq in E2. destruct q as [|x d]; [cbn in E2; congruence|]. cbn in E2. subst d.
      rewrite Hbelow in Hq. discriminate.
    + apply path_eqb_neq in E2. rewrite lookup_upd_neq by exact E2. eapply W; eauto.
Qed.

(* ------------------------------------------------------------------ *)
(* Corollary: two consecutive builds                                  *)
(* ------------------------------------------------------------------ *)
Theorem two_builds : forall (kp : kappa) (F : ftable) fs cf old vers clock nextid root nm s1
                            (F2 : ftable) vers2 clock2 nextid2 root2,
  (* the first build: user obligations, and the hypotheses on the previous cache and the tree *)
  Obeys F root -> WfArgs root -> Respects F -> RespectsS F ->
  cache_wf old -> deep_cache kp F old vers -> nocf old cf ->
  kp_init kp fs -> kp_new kp clock -> kp_def kp fs -> fs_wf fs -> agrees kp cf cache_marker ->
  cr_state (core_build fs cf old vers clock nextid root) = Some s1 ->
  let new := cache_of_state nm s1 in
  let fs2 := next_fs cf s1 in
  (* the second build: user obligations, coverage, time *)
  Obeys F2 root2 -> Respects F2 -> coherent new vers2 F F2 -> cache_tame new vers2 ->
  (clock <= clock2)%N -> files_old (k_fs s1) clock2 -> fs_wf fs2 ->
  let cr := core_build fs2 cf new vers2 clock2 nextid2 root2 in
  let rr := ref_build fs2 cf (prev_of_cache new) clock2 nextid2 root2 in
  cr_outcome cr = rr_outcome rr /\ tree_equiv (cr_tree cr) (rr_tree rr) /\ sublog (cr_log cr) (rr_log rr).
Proof.
  intros kp F fs cf old vers clock nextid root nm s1 F2 vers2 clock2 nextid2 root2
         HO HWa HR HRS HW HD Hno HI HN Hdef W Hm Hs new fs2 HO2 HR2 Hcoh Htame Hle Hold2 W2 cr rr.
  destruct (core_build_next kp F fs cf old vers clock nextid root nm s1 HO HWa HR HRS HW HD HI HN Hdef W Hs)
    as [Hwf [Hlekp [Hdeep [Hi1 [Hd1 _]]]]].
  destruct (core_build_nocf fs cf old vers clock nextid root nm s1 W Hno Hs) as [Hnf _].
  fold new in Hwf, Hdeep.
  apply (build_transparent (kpx kp (k_fs s1)) F2 fs2 cf new vers2 clock2 nextid2 root2 HO2 HR2 Hwf).
  - apply deep_faithful; [exact Hwf|]. apply Hdeep; assumption.
  - apply next_fs_init; [exact Hi1|]. apply marker_agrees; assumption.
  - eapply kpx_new; eauto.
  - exact W2.
Qed.

Print Assumptions core_build_nocf.
Print Assumptions two_builds.

(* ------------------------------------------------------------------ *)
(* n consecutive builds, starting from any cache that is ready        *)
(* ------------------------------------------------------------------ *)
Record bstep := { b_root : prog; b_vers : pyval; b_F : ftable; b_clock : N; b_nextid : N }.

(* what remains to be assumed: the user obligations (Obeys, WfArgs, Respects, RespectsS, coherence of the function
   tables with the versions), coverage by [follows] (cache_tame), and the content/time assumption (clocks do not run
   backwards, no file is newer than the start of the build, the tree is a tree) *)
Fixpoint chain_ok (cf : path) (nm : string) (Fprev : ftable) (clockprev : N) (fs : fsT) (old : cache) (l : list bstep) : Prop :=
  match l with
  | [] => True
  | b :: rest =>
      Obeys (b_F b) (b_root b) /\ WfArgs (b_root b) /\ Respects (b_F b) /\ RespectsS (b_F b) /\
      coherent old (b_vers b) Fprev (b_F b) /\ cache_tame old (b_vers b) /\
      (clockprev <= b_clock b)%N /\ files_old fs (b_clock b) /\ fs_wf fs /\
      match cr_state (core_build fs cf old (b_vers b) (b_clock b) (b_nextid b) (b_root b)) with
      | Some s1 => chain_ok cf nm (b_F b) (b_clock b) (next_fs cf s1) (cache_of_state nm s1) rest
      | None => True
      end
  end.

Fixpoint chain_transparent (cf : path) (nm : string) (fs : fsT) (old : cache) (l : list bstep) : Prop :=
  match l with
  | [] => True
  | b :: rest =>
      let cr := core_build fs cf old (b_vers b) (b_clock b) (b_nextid b) (b_root b) in
      let rr := ref_build fs cf (prev_of_cache old) (b_clock b) (b_nextid b) (b_root b) in
      (cr_outcome cr = rr_outcome rr /\ tree_equiv (cr_tree cr) (rr_tree rr) /\ sublog (cr_log cr) (rr_log rr)) /\
      match cr_state cr with
      | Some s1 => chain_transparent cf nm (next_fs cf s1) (cache_of_state nm s1) rest
      | None => True
      end
  end.

Definition Ready (cf : path) (kp : kappa) (Fprev : ftable) (clockprev : N) (fs : fsT) (old : cache) : Prop :=
  cache_wf old /\ nocf old cf /\
  (forall F' vers', coherent old vers' Fprev F' -> cache_tame old vers' -> deep_cache kp F' old vers') /\
  kp_init kp fs /\
  (forall clock', (clockprev <= clock')%N -> files_old fs clock' -> kp_new kp clock') /\
  agrees kp cf cache_marker /\
  (forall g, lookup fs cf = Some (NFile g) -> g = cache_marker).

Theorem chain : forall cf nm l kp Fprev clockprev fs old,
  Ready cf kp Fprev clockprev fs old -> chain_ok cf nm Fprev clockprev fs old l -> chain_transparent cf nm fs old l.
Proof.
  intros cf nm l. induction l as [|b rest IH]; intros kp Fprev clockprev fs old R Hok; [exact I|].
  destruct R as [Hwf [Hno [Hdeep [Hi [Hn [Hm Hcfm]]]]]].
  cbn [chain_ok] in Hok. destruct Hok as [HO [HWa [HR [HRS [Hcoh [Htame [Hle [Hold [W Hrest]]]]]]]]].
  pose proof (Hn _ Hle Hold) as Hn1.
  destruct (extend_oracle kp fs (b_clock b) Hi Hn1 Hold) as [L1 [Hi1 [Hn2 Hd1]]].
  set (kp1 := kpx kp fs) in *.
  pose proof (deep_mono _ _ _ _ _ L1 (Hdeep _ _ Hcoh Htame)) as Hdc.
  assert (Hm1 : agrees kp1 cf cache_marker).
  { intros c r x Hk Hcmp. unfold kp1, kpx in Hk. destruct (kp cf c r) as [y|] eqn:E.
    - inversion Hk; subst. eapply Hm; eauto.
    - unfold kp_of in Hk. destruct (lookup fs cf) as [[g|]|] eqn:Eg; try discriminate.
      rewrite (Hcfm g eq_refl) in Hk. destruct (pyval_same r (cmp_of c cache_marker)); inversion Hk. reflexivity. }
  cbn [chain_transparent]. split.
  - apply (build_transparent kp1 (b_F b) fs cf old (b_vers b) (b_clock b) (b_nextid b) (b_root b) HO HR Hwf); auto.
    apply deep_faithful; assumption.
  - destruct (cr_state (core_build fs cf old (b_vers b) (b_clock b) (b_nextid b) (b_root b))) as [s1|] eqn:Es; [|exact I].
    destruct (core_build_next kp1 (b_F b) fs cf old (b_vers b) (b_clock b) (b_nextid b) (b_root b) nm s1
                HO HWa HR HRS Hwf Hdc Hi1 Hn2 Hd1 W Es) as [Hwf' [Hlekp [Hdeep' [Hi' [Hd' _]]]]].
    destruct (core_build_nocf fs cf old (b_vers b) (b_clock b) (b_nextid b) (b_root b) nm s1 W Hno Es) as [Hnf Hno'].
    apply (IH (kpx kp1 (k_fs s1)) (b_F b) (b_clock b)); [|exact Hrest].
    split; [exact Hwf'|]. split; [exact Hno'|]. split; [exact Hdeep'|]. split; [|split; [|split]].
    + apply next_fs_init; [exact Hi'|]. apply marker_agrees; assumption.
    + intros clock' Hle' Hold'. eapply kpx_new; [exact Hn2|exact Hle'|].
      intros q g Hq. apply (Hold' q g). unfold next_fs. rewrite lookup_upd_neq; [exact Hq|].
      intro; subst q. unfold isfile in Hnf. rewrite Hq in Hnf. discriminate.
    + apply marker_agrees; assumption.
    + intros g Hg. unfold next_fs in Hg. destruct cf as [|x d]; [discriminate|].
      rewrite lookup_upd_eq in Hg by discriminate. inversion Hg. reflexivity.
Qed.

(* starting from the empty cache: every hypothesis about caches and oracles is discharged *)
Theorem chain_from_empty : forall cf nm vers0 fs l F0,
  (forall g, lookup fs cf <> Some (NFile g)) ->
  chain_ok cf nm F0 0 fs (empty_cache nm vers0) l -> chain_transparent cf nm fs (empty_cache nm vers0) l.
Proof.
  intros cf nm vers0 fs l F0 Hcf Hok. apply (chain cf nm l (fun _ _ _ => None) F0 0%N fs (empty_cache nm vers0)); [|exact Hok].
  split; [split; intros ? ? H; discriminate|]. split; [intros x []|]. split.
  { intros F' vers' _ _. split; intros ? ? H; discriminate. }
  split; [intros q g _ c r x Hk; discriminate|]. split; [intros clock' _ _ q g _ c r x Hk; discriminate|].
  split; [intros c r x Hk; discriminate|]. intros g Hg. exfalso. exact (Hcf g Hg).
Qed.

Print Assumptions chain.
Print Assumptions chain_from_empty.
