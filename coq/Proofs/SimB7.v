(* Proofs/SimB7.v — mechanism model vs Core, the hit/miss decision, part 7: the replay
   correspondence.  By induction on a recorded tree: the mechanism's validation (is_op_cached
   against the overlay) never raises, and it accepts the record exactly when Core's kreplay on
   the scratch copy does; when both accept, the final overlay and scratch state are related
   again (RRel of SimB4).                                                                 *)
From Coq Require Import List String Ascii NArith ZArith Bool Arith Lia.
From FB.Base Require Import PyVal Fs.
From FB.Gen Require Import JsonUtilGen.
From FB.Spec Require Import Prog Ref Oracle Faithful.
From FB.Model Require Import Types Monad CreatedFiles BuildDirs SimpleOps Builder Persist Core.
From FB.Proofs Require Import FsLemmas CleanLaws JsonLaws CoreLawsChildren ReplayLaws BuildFileLaws CoreLaws1 CoreLaws3 CoreLaws4
     ViewDefs ViewLemmas ViewScan ViewQueries ViewAnswers ViewPres ViewFrame ViewXDefs ViewXCount ViewXErr1 ViewXError
     ViewOverlay ViewOverlay2 ViewH1 ViewH2 ViewH4 ViewH5 ViewH6 ViewR2 ViewR5 ViewK3 ViewK4 ViewK5 ViewK6
     SimB2 SimB3 SimB4 SimB5 SimB6.
Import ListNotations.
Open Scope list_scope.
Open Scope m_scope.

(* ------------------------------------------------------------------ records that are covered *)
Definition nonroot (p : path) : bool := match p with [] => false | _ => true end.

(* static conditions on a recorded tree, [st] the targets of the enclosing build_file records:
   queries are covered (SimB2.qry_ok); a successful build_file record holds a comparison result,
   its target is creatable and shallow, and is not comparable (ancestor / descendant) with the
   target of an enclosing record *)
Fixpoint rec_ok (hk : bool) (st : list path) (o : op) : bool :=
  match o with
  | OSimple q _ _ => qry_ok hk q
  | OBuildFile p c _ _ _ subs _ cr ra _ =>
      (ra || negb (pnone cr)) && tgt_ok p && nonroot p && (ra || cmp_okb hk c) &&
      forallb (fun t => negb (is_ancestor t p) && negb (is_ancestor p t)) st &&
      forallb (rec_ok hk (p :: st)) subs
  | OSubbuild _ _ _ subs _ _ _ => forallb (rec_ok hk st) subs
  end.

Fixpoint nodes (o : op) : list op :=
  match o with
  | OSimple _ _ _ => [o]
  | OBuildFile _ _ _ _ _ subs _ _ _ _ => o :: flat_map nodes subs
  | OSubbuild _ _ _ subs _ _ _ => o :: flat_map nodes subs
  end.

(* the targets that an accepted validation leaves started in the overlay: the build_file records
   that succeeded (and did not fail in setup) *)
Fixpoint adp (o : op) : list path :=
  match o with
  | OSimple _ _ _ => []
  | OBuildFile p _ _ _ _ subs _ _ ra sf => (if ra || sf then [] else [p]) ++ flat_map adp subs
  | OSubbuild _ _ _ subs _ _ _ => flat_map adp subs
  end.

Lemma adp_regp : forall o t, In t (adp o) -> In t (regp o).
Proof.
  induction o as [q r e|p c f a k subs r cr ra sf IH|f a k subs r ra sf IH] using op_ind'; intros t Ht; cbn [adp regp] in *.
  - destruct Ht.
  - apply in_app_iff in Ht. apply in_app_iff. destruct Ht as [Ht|Ht].
    + left. destruct ra, sf; cbn in Ht; try destruct Ht. left. assumption. destruct H.
    + right. apply in_flat_map in Ht. destruct Ht as [sub [Hs Ht]]. rewrite Forall_forall in IH.
      apply in_flat_map. exists sub. split; [exact Hs|apply (IH sub Hs t Ht)].
  - apply in_flat_map in Ht. destruct Ht as [sub [Hs Ht]]. rewrite Forall_forall in IH.
    apply in_flat_map. exists sub. split; [exact Hs|apply (IH sub Hs t Ht)].
Qed.

Lemma nodes_sub : forall x subs sub, In sub subs -> In x (nodes sub) -> In x (flat_map nodes subs).
Proof. intros x subs sub H1 H2. apply in_flat_map. exists sub. auto. Qed.

Lemma rec_ok_cross : forall hk o st, rec_ok hk st o = true ->
  forall t, In t (regp o) -> forall u, In u st -> is_ancestor u t = false /\ is_ancestor t u = false.
Proof.
  intro hk. induction o as [q r e|p c f a k subs r cr ra sf IH|f a k subs r ra sf IH] using op_ind';
    intros st H t Ht u Hu; cbn [rec_ok regp] in *.
  - destruct Ht.
  - repeat (apply andb_true_iff in H; destruct H as [H ?]).
    apply in_app_iff in Ht. destruct Ht as [Ht|Ht].
    + destruct sf; [destruct Ht|]. destruct Ht as [<-|[]].
      match goal with K : forallb _ st = true |- _ => rewrite forallb_forall in K; specialize (K u Hu) end.
      apply andb_true_iff in H1. destruct H1 as [A B]. apply negb_true_iff in A. apply negb_true_iff in B. auto.
    + apply in_flat_map in Ht. destruct Ht as [sub [Hs Ht]]. rewrite Forall_forall in IH.
      match goal with K : forallb (rec_ok hk (p :: st)) subs = true |- _ => rewrite forallb_forall in K; specialize (K sub Hs) end.
      apply (IH sub Hs (p :: st) H0 t Ht u). right. exact Hu.
  - apply in_flat_map in Ht. destruct Ht as [sub [Hs Ht]]. rewrite Forall_forall in IH.
    rewrite forallb_forall in H. apply (IH sub Hs st (H sub Hs) t Ht u Hu).
Qed.

(* GO (ViewR5) is are_subs_cached *)
Lemma are_subs_cached_GO : forall subs cf w, are_subs_cached subs cf w = GO subs cf w.
Proof.
  induction subs as [|x rest IH]; intros cf w; cbn [are_subs_cached GO]; [reflexivity|].
  unfold bind. destruct (is_op_cached x cf w) as [w1 [[b c]|e]]; [|reflexivity]. cbn [fst snd].
  destruct b; [apply IH|reflexivity].
Qed.

Lemma NoDup_app_parts : forall (a b : list path), NoDup (a ++ b) ->
  NoDup a /\ NoDup b /\ (forall t, In t a -> In t b -> False).
Proof.
  induction a as [|x a IH]; intros b H; cbn [app] in H.
  - split; [constructor|]. split; [exact H|]. intros t [].
  - inversion H as [|? ? Hx Hr]; subst. destruct (IH b Hr) as (A & B & C). split; [|split; [exact B|]].
    + constructor; [|exact A]. intro K. apply Hx. apply in_or_app. left. exact K.
    + intros t [<-|Ht] Hb; [apply Hx; apply in_or_app; right; exact Hb|apply (C t Ht Hb)].
Qed.

(* monadic steps that are known to yield *)
Lemma bind_yields_inv : forall A B (m : M A) (f : A -> M B) w w' res a,
  yields m w (inl a) -> bind m f w = (w', res) -> exists w1, good w w1 /\ f a w1 = (w', res).
Proof. intros A B m f w w' res a [w1 [E G]] H. unfold bind in H. rewrite E in H. eauto. Qed.

Lemma good_fields : forall w0 w, good w0 w ->
  w_fs w = w_fs w0 /\ w_new w = w_new w0 /\ w_old w = w_old w0 /\ w_cachefile w = w_cachefile w0.
Proof. intros w0 w G. pose proof (good_sv _ _ G) as S. destruct S. auto. Qed.

Lemma is_equal_pnone_false : forall cr, pnone cr = false -> is_equal cr PNone = false.
Proof. intros cr H. destruct (is_equal cr PNone) eqn:E; [|reflexivity]. apply is_equal_none_r in E. subst cr. discriminate. Qed.

Section Replay.
  Variables (hk : bool) (W : list path) (w0 : world) (s : kstate) (p0 : option path).
  Hypothesis HS : Sim3 W w0 s.
  Hypothesis HB : BInv w0.
  Hypothesis HWcl : forall p, mem_path p W = true -> cache_has_file (w_new w0) p = true.
  Hypothesis Hml : maxlen (w_fs w0) < walk_fuel.
  Hypothesis Hhk : hk = true -> hash_ok w0.
  Hypothesis HK : KInv s p0.
  Hypothesis HSD1 : forall p, isdir (w_fs w0) p = true -> visible w0 p = false -> mem_path p (k_staledirs s) = true.
  Hypothesis HSD2 : forall p, mem_path p (k_staledirs s) = true -> lexists (w_fs w0) p = true.

  Notation RRel := (RRel W w0 s).

  (* dynamic conditions on the nodes of a recorded tree: a recorded METADATA result is not the
     comparison result of a file written in this build; a nested successful build_file record
     is registered as an output of the previous build *)
  Definition fresh (q : query) (rt : pyval) : Prop :=
    forall p f, q = QRead p METADATA -> mem_path p W = true ->
      lookup (w_fs w0) p = Some (NFile f) \/ lookup (k_fs s) p = Some (NFile f) ->
      is_equal (cmp_of METADATA f) rt = false.

  Definition node_sem (x : op) : Prop :=
    match x with
    | OSimple q rt _ => fresh q rt
    | OBuildFile p _ _ _ _ _ _ _ ra _ => ra = false -> cache_created_file (w_old w0) p = true
    | OSubbuild _ _ _ _ _ _ _ => True
    end.
  Definition sem_ok (o : op) : Prop := forall x, In x (nodes o) -> node_sem x.
  Definition sem_okl (l : list op) : Prop := forall x, In x (flat_map nodes l) -> node_sem x.

  (* the targets of the tree are new to the replay and are not the target being looked up *)
  Definition newt (Tl : list path) (ts : list path) : Prop := forall t, In t ts -> ~ In t Tl /\ Some t <> p0.

  Definition post1 (St Tl : list path) (cf : cfiles) (r : rstate') (ts ads : list path) (kr : option rstate')
             (w' : world) (res : (bool * cfiles) + exn) : Prop :=
    good w0 w' /\ exists b cf', res = inl (b, cf') /\
      if b then
        exists r' Tl' M', kr = Some r' /\ RRel St Tl' cf' r' M' /\
          (forall x, mem_path x (cf_files cf') = true -> mem_path x (cf_files cf) = true \/ In x ts) /\
          (forall t, In t Tl' -> In t Tl \/ In t ts) /\ (forall t, In t Tl -> In t Tl') /\
          (forall t, In t ads -> In t Tl')
      else kr = None.

  (* ---------------------------------------------------------------- lists *)
  Lemma go_corr : forall subs,
    Forall (fun o => forall St Tl cf r M w w' res,
              rec_ok hk St o = true -> sem_ok o -> NoDup (regp o) -> newt Tl (regp o) ->
              good w0 w -> RRel St Tl cf r M -> is_op_cached o cf w = (w', res) ->
              post1 St Tl cf r (regp o) (adp o) (kreplay s o r) w' res) subs ->
    forall St Tl cf r M w w' res,
      forallb (rec_ok hk St) subs = true -> sem_okl subs -> NoDup (flat_map regp subs) -> newt Tl (flat_map regp subs) ->
      good w0 w -> RRel St Tl cf r M -> GO subs cf w = (w', res) ->
      post1 St Tl cf r (flat_map regp subs) (flat_map adp subs) (kreplay_list s subs r) w' res.
  Proof.
    intros subs H. induction H as [|x rest Hx Hrest IH]; intros St Tl cf r M w w' res Hok Hsem Hnd Hnew G HR Hgo.
    - cbn [GO] in Hgo. inversion Hgo; subst. split; [exact G|]. exists true, cf. split; [reflexivity|].
      exists r, Tl, M. cbn [kreplay_list flat_map]. split; [reflexivity|]. split; [exact HR|].
      split; [intros y Hy; left; exact Hy|]. split; [intros t Ht; left; exact Ht|]. split; [intros t Ht; exact Ht|intros t []].
    - cbn [GO] in Hgo. cbn [forallb] in Hok. apply andb_true_iff in Hok. destruct Hok as [Hok1 Hok2].
      cbn [flat_map] in Hnd, Hnew |- *.
      destruct (NoDup_app_parts _ _ Hnd) as (Hnd1 & Hnd2 & Hdisj).
      assert (Hsem1: sem_ok x) by (intros y Hy; apply Hsem; cbn [flat_map]; apply in_or_app; left; exact Hy).
      assert (Hsem2: sem_okl rest) by (intros y Hy; apply Hsem; cbn [flat_map]; apply in_or_app; right; exact Hy).
      assert (Hnew1: newt Tl (regp x)) by (intros t Ht; apply Hnew; apply in_or_app; left; exact Ht).
      unfold bind in Hgo. destruct (is_op_cached x cf w) as [w1 r1] eqn:E1.
      destruct (Hx St Tl cf r M w w1 r1 Hok1 Hsem1 Hnd1 Hnew1 G HR E1) as (G1 & b1 & cf1 & -> & P1).
      cbn [fst snd] in Hgo. cbn [kreplay_list]. destruct b1.
      + destruct P1 as (r1' & Tl1 & M1 & K1 & R1 & F1 & T1 & T1' & A1).
        rewrite K1.
        assert (Hnew2: newt Tl1 (flat_map regp rest)).
        { intros t Ht. split; [|apply Hnew; apply in_or_app; right; exact Ht].
          intro Hin. destruct (T1 t Hin) as [K|K]; [|apply (Hdisj t K Ht)].
          destruct (Hnew t (in_or_app _ _ _ (or_intror Ht))) as [Kn _]. exact (Kn K). }
        destruct (IH St Tl1 cf1 r1' M1 w1 w' res Hok2 Hsem2 Hnd2 Hnew2 G1 R1 Hgo) as (G2 & b2 & cf2 & -> & P2).
        split; [exact G2|]. exists b2, cf2. split; [reflexivity|]. destruct b2; [|exact P2].
        destruct P2 as (r2' & Tl2 & M2 & K2 & R2 & F2 & T2 & T2' & A2).
        exists r2', Tl2, M2. split; [exact K2|]. split; [exact R2|]. split; [|split; [|split]].
        * intros y Hy. destruct (F2 y Hy) as [K|K]; [|right; apply in_or_app; right; exact K].
          destruct (F1 y K) as [K'|K']; [left; exact K'|right; apply in_or_app; left; exact K'].
        * intros t Ht. destruct (T2 t Ht) as [K|K]; [|right; apply in_or_app; right; exact K].
          destruct (T1 t K) as [K'|K']; [left; exact K'|right; apply in_or_app; left; exact K'].
        * intros t Ht. apply T2'. apply T1'. exact Ht.
        * intros t Ht. cbn [flat_map] in Ht. apply in_app_iff in Ht. destruct Ht as [Ht|Ht]; [apply T2'; apply A1; exact Ht|apply A2; exact Ht].
      + inversion Hgo; subst. split; [exact G1|]. exists false, cf1. split; [reflexivity|]. rewrite P1. reflexivity.
  Qed.

  (* ---------------------------------------------------------------- one record *)
  Lemma fresh_read_of : forall St Tl cf r M q rt, RRel St Tl cf r M -> fresh q rt ->
    fresh_read W (overlay_fs w0 cf) (rp_fs r) q rt.
  Proof.
    intros St Tl cf r M q rt HR HF p f g Eq Hw Hf Hg.
    pose proof (rr_cc _ _ _ _ _ _ _ _ HR) as HC.
    split; [apply (HF p f Eq Hw); left|apply (HF p g Eq Hw); right; apply (rr_w _ _ _ _ _ _ _ _ HR p g Hw Hg)].
    rewrite (lookup_overlay_ov _ _ _ p HC) in Hf. unfold ov in Hf.
    destruct (existsb (is_ancestor p) Tl); [discriminate|].
    destruct (mem_path p (cf_files cf)) eqn:Ef; [exact Hf|].
    destruct p as [|n d]; [cbn in Hf; discriminate|]. rewrite lookup_view in Hf by discriminate.
    destruct (visible w0 (n :: d)); [exact Hf|discriminate].
  Qed.

  Theorem replay_corr : forall o St Tl cf r M w w' res,
    rec_ok hk St o = true -> sem_ok o -> NoDup (regp o) -> newt Tl (regp o) ->
    good w0 w -> RRel St Tl cf r M -> is_op_cached o cf w = (w', res) ->
    post1 St Tl cf r (regp o) (adp o) (kreplay s o r) w' res.
  Proof.
    induction o as [q rt ex|p c f a k subs rt cr ra sf IH|f a k subs rt ra sf IH] using op_ind';
      intros St Tl cf r M w w' res Hok Hsem Hnd Hnew G HR H; cbn [is_op_cached] in H; cbn [rec_ok] in Hok.
    - (* a recorded query *)
      destruct (good_fields _ _ G) as (Ff & Fn & Fo & Fc).
      pose proof (good_BInv _ _ G) as Bw.
      pose proof (rr_cc _ _ _ _ _ _ _ _ HR) as HC.
      assert (Y: yields (is_simple_operation_cached q rt ex cf) w (inl (simple_verdict (rp_fs r) q rt ex))).
      { apply (simple_corr hk W w cf (rp_fs r) q rt ex Bw (CInv_good _ _ _ G (cc_cinv _ _ _ HC)) (rr_ovok _ _ _ _ _ _ _ _ HR)).
        - rewrite Ff. exact Hml.
        - intro E. destruct G as (_ & _ & Gh). apply Gh. apply Hhk. exact E.
        - exact Hok.
        - rewrite (overlay_fs_good _ _ _ G). apply (rr_tree _ _ _ _ _ _ _ _ HR).
        - rewrite (overlay_fs_good _ _ _ G). apply (fresh_read_of _ _ _ _ _ _ _ HR). apply (Hsem (OSimple q rt ex)). left. reflexivity. }
      destruct (bind_yields_inv _ _ _ _ _ _ _ _ Y H) as (w1 & G1 & H1). inversion H1; subst.
      split; [eapply good_trans; eassumption|]. eexists _, cf. split; [reflexivity|].
      rewrite kreplay_simple_verdict. destruct (simple_verdict (rp_fs r) q rt ex); [|reflexivity].
      exists r, Tl, M. split; [reflexivity|]. split; [exact HR|].
      split; [intros y Hy; left; exact Hy|]. split; [intros t Ht; left; exact Ht|]. split; [intros t Ht; exact Ht|intros t []].
    - (* a nested build_file record *)
      pose proof (go_corr subs IH) as Hgo. fold GO in H.
      repeat (apply andb_true_iff in Hok; destruct Hok as [Hok ?]).
      rename H0 into Hsubs, H1 into Hcross, H2 into Hcmp, H3 into Hroot, H4 into Htgt, Hok into Hnr.
      unfold tgt_ok in Htgt. apply andb_true_iff in Htgt. destruct Htgt as [Hpok Hplen]. apply Nat.ltb_lt in Hplen.
      destruct p as [|n d]; [discriminate|]. set (p := n :: d) in *.
      destruct (good_fields _ _ G) as (Ff & Fn & Fo & Fc).
      pose proof (rr_cc _ _ _ _ _ _ _ _ HR) as HC. pose proof (cc_cinv _ _ _ HC) as HCI.
      rewrite kreplay_BF.
      apply bind_inv in H. unfold get in H. destruct H as [[w1 [wx [E H]]]|[e [E _]]]; [|discriminate].
      inversion E; subst w1 wx. clear E. rewrite Fn, Fc in H.
      assert (Ecl: mem_path p (rp_claimedF r) || path_eqb p (k_cachefile s) =
                   cache_has_file (w_new w0) p || path_eqb p (w_cachefile w0)).
      { rewrite (rr_clF _ _ _ _ _ _ _ _ HR), (s3_claimsF _ _ _ HS), (s3_cf _ _ _ HS). reflexivity. }
      rewrite Ecl.
      destruct (cache_has_file (w_new w0) p || path_eqb p (w_cachefile w0)) eqn:Ecl0.
      { inversion H; subst. split; [exact G|]. exists false, cf. split; [reflexivity|].
        destruct (negb (kversion_equal s f)); [reflexivity|]. destruct sf; [reflexivity|]. destruct (on_disk s p c cr ra); reflexivity. }
      apply orb_false_iff in Ecl0. destruct Ecl0 as [Hunc Hncf].
      (* version *)
      apply bind_inv in H. rewrite version_equal_run in H. destruct H as [[w1 [ve [Ev H]]]|[e [Ev _]]]; [|discriminate].
      inversion Ev; subst w1 ve. clear Ev. rewrite Fo, Fn in H. rewrite (kversion_sim W w0 s f HS).
      destruct (is_equal (func_version (w_old w0) f) (func_version (w_new w0) f)); cbn [negb] in H |- *.
      2:{ inversion H; subst. split; [exact G|]. exists false, cf. split; reflexivity. }
      (* the output on disk *)
      pose proof (phys_unclaimed W w0 s HS HWcl p ltac:(discriminate) Hunc Hncf) as Ephys.
      pose proof (phys_exists_unclaimed W w0 s HS HWcl HSD1 HSD2 p ltac:(discriminate) Hunc Hncf) as Eex.
      assert (Hokv: exists w2, good w0 w2 /\
                (if ra then ret true else is_build_file_cached p c cr) w = (w2, inl (if ra then true else is_equal cr (disk_cmp w0 p c)))).
      { destruct ra; [exists w; split; [exact G|reflexivity]|]. cbn [orb] in Hcmp.
        assert (Y: yields (is_build_file_cached p c cr) w (inl (is_equal cr (disk_cmp w p c)))).
        { apply is_build_file_cached_spec; [apply (good_BInv _ _ G)|exact Hpok|].
          destruct c; [left; reflexivity|right]. destruct G as (_ & _ & Gh). apply Gh. apply Hhk. exact Hcmp. }
        destruct Y as [w2 [E2 G2]]. exists w2. split; [eapply good_trans; eassumption|].
        rewrite E2. unfold disk_cmp. rewrite Ff. reflexivity. }
      destruct Hokv as (w2 & G2 & Eok). unfold bind at 1 in H. rewrite Eok in H.
      destruct (good_fields _ _ G2) as (Ff2 & Fn2 & Fo2 & Fc2).
      assert (Eon: on_disk s p c cr ra = (if ra then true else is_equal cr (disk_cmp w0 p c)) && negb (ra && lexists (w_fs w0) p)).
      { unfold on_disk. rewrite Ephys, Eex. destruct ra; cbn [andb negb]; [reflexivity|]. rewrite andb_true_r.
        cbn [orb] in Hnr. apply negb_true_iff in Hnr. unfold disk_cmp.
        destruct (lookup (w_fs w0) p) as [[g|]|]; [reflexivity| |]; symmetry; apply is_equal_pnone_false; exact Hnr. }
      rewrite Eon.
      destruct (if ra then true else is_equal cr (disk_cmp w0 p c)) eqn:Eokv; cbn [negb andb] in H |- *.
      2:{ inversion H; subst. split; [exact G2|]. exists false, cf. split; [reflexivity|]. destruct sf; reflexivity. }
      apply bind_inv in H. unfold get in H. destruct H as [[w3 [wx [E H]]]|[e [E _]]]; [|discriminate].
      inversion E; subst w3 wx. clear E. rewrite Ff2 in H.
      destruct (ra && lexists (w_fs w0) p) eqn:Elex; cbn [negb] in H |- *.
      { inversion H; subst. split; [exact G2|]. exists false, cf. split; [reflexivity|]. destruct sf; reflexivity. }
      destruct sf.
      { inversion H; subst. split; [exact G2|]. exists false, cf. split; reflexivity. }
      cbn [regp app] in Hnd, Hnew |- *.
      (* the directories *)
      pose proof (RRel_te W w0 s _ _ _ _ _ HR) as TE.
      assert (Hpd: path_ok d = true) by (cbn [path_ok forallb] in Hpok; apply andb_true_iff in Hpok; apply Hpok).
      assert (Yd: yields (dirs_to_make (dirname p) (Some cf)) w2 (dtm_res w0 cf d)).
      { rewrite <- (dtm_res_good _ _ cf d G2). apply dirs_to_make_overlay; [apply (good_BInv _ _ G2)|apply (CInv_good _ _ _ G2 HCI)|exact Hpd]. }
      destruct Yd as [w3 [Ed G3]]. pose proof (good_trans _ _ _ G2 G3) as G03.
      apply bind_inv in H. unfold attempt in H. rewrite Ed in H.
      destruct H as [[w4 [dres [E H]]]|[e [E _]]]; [|discriminate]. inversion E; subst w4 dres. clear E.
      change (dirname p) with d. unfold dtm_res in H. rewrite (missing_dirs_te _ _ (w_cachefile w0) d TE), <- (s3_cf _ _ _ HS) in H.
      destruct (missing_dirs (rp_fs r) (k_cachefile s) d) as [dirs|e] eqn:Emiss.
      2:{ cbn [is_os] in H. inversion H; subst. split; [exact G03|]. exists false, cf. split; reflexivity. }
      destruct (missing_made _ _ _ _ Hpd Emiss) as (fs1 & Emk & _). rewrite Emk.
      (* facts about the target *)
      assert (Hfile: ra = false -> exists g, lookup (w_fs w0) p = Some (NFile g)).
      { intros ->. cbn [orb] in Hnr. apply negb_true_iff in Hnr. unfold disk_cmp in Eokv.
        destruct (lookup (w_fs w0) p) as [[g|]|]; [eauto| |]; rewrite (is_equal_pnone_false _ Hnr) in Eokv; discriminate. }
      assert (Hnone: ra = true -> lexists (w_fs w0) p = false) by (intros ->; exact Elex).
      assert (Hnb: existsb (is_ancestor p) Tl = false).
      { destruct (existsb (is_ancestor p) Tl) eqn:E; [|reflexivity]. exfalso.
        apply existsb_exists in E. destruct E as [t [Ht Ha]].
        destruct (rr_st _ _ _ _ _ _ _ _ HR t Ht) as [K|K].
        - rewrite forallb_forall in Hcross. specialize (Hcross t K). apply andb_true_iff in Hcross.
          destruct Hcross as [_ B]. apply negb_true_iff in B. congruence.
        - pose proof (ci_file _ _ HCI _ K) as Hft. apply isfile_lookup in Hft. destruct Hft as [g Hg].
          pose proof (wf_ancestor _ (bi_wf _ HB) t _ p Hg Ha) as Hd.
          destruct ra; [pose proof (Hnone eq_refl) as K2; unfold lexists in K2; rewrite Hd in K2; discriminate|].
          destruct (Hfile eq_refl) as [g' Hg']. congruence. }
      assert (Hnin: ~ In p Tl) by (apply (Hnew p); left; reflexivity).
      assert (Hvf: isfile (view_fs w0) p = false).
      { rewrite isfile_view. unfold vfile. destruct ra.
        - pose proof (Hnone eq_refl) as K. unfold lexists in K. unfold isfile. destruct (lookup (w_fs w0) p); [discriminate|reflexivity].
        - rewrite (hid_unclaimed w0 p Hunc Hncf).
          assert (Hc: cache_created_file (w_old w0) p = true).
          { apply (Hsem (OBuildFile p c f a k subs rt cr false false)); [left; reflexivity|reflexivity]. }
          rewrite Hc. apply andb_false_r. }
      pose proof (start_rel W w0 s HB HWcl St Tl cf r M n d dirs fs1 HR Hpok Hplen Hnin Hnb Hunc Hvf Emiss Emk) as HR1.
      fold p in HR1.
      (* the suboperations *)
      inversion Hnd as [|? ? Hpn Hnd']; subst.
      assert (Hsem': sem_okl subs) by (intros y Hy; apply Hsem; cbn [nodes]; right; exact Hy).
      assert (Hnew': newt (p :: Tl) (flat_map regp subs)).
      { intros t Ht. split; [|apply Hnew; right; exact Ht]. intros [<-|K]; [exact (Hpn Ht)|].
        destruct (Hnew t (or_intror Ht)) as [Kn _]. exact (Kn K). }
      apply bind_inv in H. destruct H as [[w4 [rr [Es H]]]|[e [Es Er]]].
      2:{ exfalso. destruct (Hgo (p :: St) (p :: Tl) _ _ _ w3 w' (inr e) Hsubs Hsem' Hnd' Hnew' G03 HR1 Es) as (_ & b & cfx & K & _). discriminate. }
      destruct (Hgo (p :: St) (p :: Tl) _ _ _ w3 w4 (inl rr) Hsubs Hsem' Hnd' Hnew' G03 HR1 Es) as (G4 & b1 & cf1 & Err & P1).
      inversion Err; subst rr. clear Err. cbn [fst snd] in H.
      destruct b1; cbn [negb] in H.
      2:{ inversion H; subst. split; [exact G4|]. exists false, cf1. split; [reflexivity|]. rewrite P1. reflexivity. }
      destruct P1 as (r2 & Tl2 & M2 & K2 & R2 & F2 & T2 & T2' & A2). rewrite K2.
      assert (Hin2: In p Tl2) by (apply T2'; left; reflexivity).
      assert (Hnb2: existsb (is_ancestor p) Tl2 = false).
      { destruct (existsb (is_ancestor p) Tl2) eqn:E; [|reflexivity]. exfalso.
        apply existsb_exists in E. destruct E as [t [Ht Ha]]. destruct (T2 t Ht) as [[<-|K]|K].
        - rewrite is_ancestor_irrefl in Ha. discriminate.
        - assert (existsb (is_ancestor p) Tl = true) by (apply existsb_exists; eauto). congruence.
        - apply in_flat_map in K. destruct K as [sub [Hs Kt]]. rewrite forallb_forall in Hsubs.
          destruct (rec_ok_cross hk sub (p :: St) (Hsubs sub Hs) t Kt p (or_introl eq_refl)) as [A _]. congruence. }
      assert (Hnf2: mem_path p (cf_files cf1) = false).
      { destruct (mem_path p (cf_files cf1)) eqn:E; [|reflexivity]. exfalso. destruct (F2 p E) as [K|K].
        - rewrite cf_started_files in K. apply Hnin. apply (rr_files _ _ _ _ _ _ _ _ HR). exact K.
        - exact (Hpn K). }
      destruct ra.
      + (* the record raised: error_building_file / prune *)
        assert (Hnneed: ~ In p (k_need s)).
        { intro Kn. destruct (ki_claim _ _ HK p Kn) as [Kc|Kc].
          - rewrite (s3_claimsF _ _ _ HS) in Kc. congruence.
          - destruct (Hnew p (or_introl eq_refl)) as [_ Kp]. exact (Kp Kc). }
        destruct (error_rel W w0 s HS HB p0 St Tl2 cf1 r2 M2 n d HK R2 Hin2 Hnf2 Hnb2 Hnneed) as (cf' & M' & Ecf & EF & R3).
        fold p in Ecf, R3. rewrite Ecf in H. inversion H; subst.
        split; [exact G4|]. exists true, cf'. split; [reflexivity|].
        exists (rp_prune r2 p), (rm1 p Tl2), M'. split; [reflexivity|]. split; [exact R3|]. split; [|split; [|split]].
        * intros x Hx. rewrite EF in Hx. destruct (F2 x Hx) as [K|K]; [left; rewrite cf_started_files in K; exact K|right; right; exact K].
        * intros t Ht. pose proof (rm1_in _ _ _ Ht) as Ht2.
          destruct (T2 t Ht2) as [[<-|K]|K]; [|left; exact K|right; right; exact K].
          exfalso. exact (notin_rm1 p Tl2 (rr_nodup _ _ _ _ _ _ _ _ R2) Ht).
        * intros t Ht. apply rm1_other; [apply T2'; right; exact Ht|]. intro; subst t. exact (Hnin Ht).
        * intros t Ht. cbn [adp orb app] in Ht. apply rm1_other; [apply A2; exact Ht|]. intro; subst t. apply Hpn.
          apply in_flat_map in Ht. destruct Ht as [sub [Hs Ht]]. apply in_flat_map. exists sub. split; [exact Hs|apply adp_regp; exact Ht].
      + (* the record succeeded: finished_building_file / the file is put back *)
        destruct (Hfile eq_refl) as [g Hg]. rewrite Ephys, Hg.
        inversion H; subst.
        pose proof (finish_rel W w0 s HWcl St Tl2 cf1 r2 M2 p g R2 Hin2 Hnb2 ltac:(discriminate) Hpok Hplen Hg) as R3.
        split; [exact G4|]. exists true, (cf_finished cf1 p). split; [reflexivity|].
        exists (rp_put r2 p g), Tl2, M2. split; [reflexivity|]. split; [exact R3|]. split; [|split; [|split]].
        * intros x Hx. rewrite cf_finished_files in Hx. apply orb_true_iff in Hx. destruct Hx as [Hx|Hx].
          -- apply path_eqb_eq in Hx. subst x. right. left. reflexivity.
          -- destruct (F2 x Hx) as [K|K]; [left; rewrite cf_started_files in K; exact K|right; right; exact K].
        * intros t Ht. destruct (T2 t Ht) as [[<-|K]|K]; [right; left; reflexivity|left; exact K|right; right; exact K].
        * intros t Ht. apply T2'. right. exact Ht.
        * intros t Ht. cbn [adp orb app] in Ht. destruct Ht as [<-|Ht]; [exact Hin2|apply A2; exact Ht].
    - (* a nested subbuild record *)
      pose proof (go_corr subs IH) as Hgo. fold GO in H.
      destruct (good_fields _ _ G) as (Ff & Fn & Fo & Fc).
      rewrite kreplay_SB.
      apply bind_inv in H. rewrite version_equal_run in H. destruct H as [[w1 [ve [Ev H]]]|[e [Ev _]]]; [|discriminate].
      inversion Ev; subst w1 ve. clear Ev. rewrite Fo, Fn in H. rewrite (kversion_sim W w0 s f HS).
      destruct (negb (is_equal (func_version (w_old w0) f) (func_version (w_new w0) f)) || sf) eqn:Et.
      { inversion H; subst. split; [exact G|]. exists false, cf. split; reflexivity. }
      apply bind_inv in H. unfold get in H. destruct H as [[w1 [wx [E H]]]|[e [E _]]]; [|discriminate].
      inversion E; subst w1 wx. clear E. rewrite Fn in H.
      rewrite (rr_clS _ _ _ _ _ _ _ _ HR), (s3_claimsS _ _ _ HS).
      destruct (cache_has_subbuild (w_new w0) (subbuild_key f a k)).
      { inversion H; subst. split; [exact G|]. exists false, cf. split; reflexivity. }
      cbn [regp adp] in Hnd, Hnew |- *.
      assert (Hsem': sem_okl subs) by (intros y Hy; apply Hsem; cbn [nodes]; right; exact Hy).
      apply (Hgo St Tl cf r M w w' res Hok Hsem' Hnd Hnew G HR H).
  Qed.

  Corollary replay_list_corr : forall subs St Tl cf r M w w' res,
    forallb (rec_ok hk St) subs = true -> sem_okl subs -> NoDup (flat_map regp subs) -> newt Tl (flat_map regp subs) ->
    good w0 w -> RRel St Tl cf r M -> are_subs_cached subs cf w = (w', res) ->
    post1 St Tl cf r (flat_map regp subs) (flat_map adp subs) (kreplay_list s subs r) w' res.
  Proof.
    intros subs St Tl cf r M w w' res H1 H2 H3 H4 G HR H. rewrite are_subs_cached_GO in H.
    apply (go_corr subs) with (M := M) (w := w); try assumption.
    apply Forall_forall. intros o _. intros. eapply replay_corr; eassumption.
  Qed.
End Replay.

Print Assumptions replay_corr.
Print Assumptions replay_list_corr.
