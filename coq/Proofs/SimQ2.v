(* Proofs/SimQ2.v — core_build_invariance (the statement left open in SimO2.v):
   a whole build of Core gives the same outcome, the same log and a pointwise equal tree when
     - the two start trees have the same node everywhere except at the cache-file path, where both have a
       regular file (its content is never looked at: ref_clean removes it before anything is read), and
     - the two previous caches answer alike (cache_get_file, subs_get of c_subs, c_dirs, c_fvers) and list
       every target once: the ORDER of their entries does not matter.
   Closed forms for the removal of the outputs (fold_try_remove_lookup) and for the stale store
   (stale_of_lookup) reduce the start of the build to SimQ1.KR; SimQ1.core_run_KR does the run. *)
From Coq Require Import List String Ascii NArith ZArith Bool Arith Lia.
From FB.Base Require Import PyVal Fs.
From FB.Gen Require Import JsonUtilGen.
From FB.Spec Require Import JsonSpec Prog Ref Oracle Faithful.
From FB.Model Require Import Types SimpleOps Builder Persist Core CoreOracle CoreCache.
From FB.Proofs Require Import FsLemmas CleanLaws CoreLawsChildren CoreLaws1 CoreLaws2 CoreLaws3 CoreLaws4 CoreRebuildDefs CoreRebuild1
     SimO2 SimQ1.
Import ListNotations.
Local Open Scope list_scope.

(* ------------------------------------------------------------------ closed forms *)
Lemma try_remove_lookup : forall fs p q,
  lookup (try_remove fs p) q = if path_eqb p q && isfile fs p then None else lookup fs q.
Proof.
  intros fs p q. unfold try_remove. destruct (isfile fs p) eqn:Ef; [|rewrite andb_false_r; reflexivity].
  unfold isfile in Ef. unfold remove. destruct (lookup fs p) as [[f|]|] eqn:El; try discriminate.
  destruct p as [|n d]; [cbn in El; discriminate|].
  rewrite andb_true_r. destruct (path_eqb (n :: d) q) eqn:E.
  - apply path_eqb_eq in E. subst q. apply lookup_upd_eq. discriminate.
  - apply path_eqb_neq in E. apply lookup_upd_neq. congruence.
Qed.

Lemma fold_try_remove_lookup : forall l fs q,
  lookup (fold_left try_remove l fs) q = if mem_path q l && isfile fs q then None else lookup fs q.
Proof.
  induction l as [|p l IH]; intros fs q; simpl; [reflexivity|].
  rewrite IH. unfold isfile. rewrite !try_remove_lookup. unfold isfile.
  destruct (path_eqb p q) eqn:E; simpl.
  - apply path_eqb_eq in E. subst p. destruct (lookup fs q) as [[f|]|]; simpl; destruct (mem_path q l); reflexivity.
  - destruct (mem_path q l); reflexivity.
Qed.

Lemma stale_of_lookup : forall fs outs q,
  stale_get (flat_map (fun p => match lookup fs p with Some (NFile f) => [(p, f)] | _ => [] end) outs) q =
  if mem_path q outs then match lookup fs q with Some (NFile f) => Some f | _ => None end else None.
Proof.
  induction outs as [|p outs IH]; intro q; [reflexivity|]. cbn [flat_map mem_path].
  destruct (path_eqb p q) eqn:E; cbn [orb].
  - apply path_eqb_eq in E. subst p. destruct (lookup fs q) as [[f|]|] eqn:El; cbn [app stale_get].
    + rewrite path_eqb_refl. reflexivity.
    + rewrite IH, El. destruct (mem_path q outs); reflexivity.
    + rewrite IH, El. destruct (mem_path q outs); reflexivity.
  - destruct (lookup fs p) as [[f|]|]; cbn [app stale_get]; rewrite ?E; apply IH.
Qed.

Lemma files_get_nodup : forall l q x, NoDup (map fst l) -> In (q, x) l -> files_get l q = Some x.
Proof.
  induction l as [|[k o] l IH]; intros q x N H; [contradiction|]. simpl in N. inversion N as [|k' l' N1 N2]; subst. simpl.
  destruct H as [H|H].
  - inversion H; subst. rewrite path_eqb_refl. reflexivity.
  - destruct (path_eqb k q) eqn:E; [|apply IH; assumption].
    apply path_eqb_eq in E. subst k. exfalso. apply N1. apply (in_map fst) in H. exact H.
Qed.

Lemma created_char : forall c q, NoDup (map fst (c_files c)) ->
  (In q (cache_created_files c) <-> exists o, cache_get_file c q = Some o /\ op_raised o = false).
Proof.
  intros c q N. unfold cache_created_files. rewrite created_files_iff. unfold cache_get_file.
  split; intros [o [H1 H2]]; exists o; split; auto.
  - rewrite (files_get_nodup _ _ _ N H1). reflexivity.
  - destruct (files_get (c_files c) q) as [x|] eqn:E; [|discriminate]. subst x. apply files_get_In. exact E.
Qed.

Lemma created_mem : forall cA cB q, NoDup (map fst (c_files cA)) -> NoDup (map fst (c_files cB)) ->
  (forall p, cache_get_file cA p = cache_get_file cB p) ->
  mem_path q (cache_created_files cA) = mem_path q (cache_created_files cB).
Proof.
  intros cA cB q NA NB H.
  destruct (mem_path q (cache_created_files cA)) eqn:EA, (mem_path q (cache_created_files cB)) eqn:EB; try reflexivity; exfalso.
  - apply mem_path_In in EA. apply (created_char cA q NA) in EA. destruct EA as [o [E1 E2]]. rewrite H in E1.
    assert (I : In q (cache_created_files cB)) by (apply (created_char cB q NB); eauto).
    apply mem_path_In in I. congruence.
  - apply mem_path_In in EB. apply (created_char cB q NB) in EB. destruct EB as [o [E1 E2]]. rewrite <- H in E1.
    assert (I : In q (cache_created_files cA)) by (apply (created_char cA q NA); eauto).
    apply mem_path_In in I. congruence.
Qed.

(* ------------------------------------------------------------------ core_build, named parts *)
Definition core_init (fs : fsT) (cf : path) (old : cache) (svers : pyval) (clock nextid : N) (t1 : fsT) (dirs : list path) : kstate :=
  let pv := prev_of_cache old in
  let t0 := ref_clean fs cf pv in
  {| k_fs := t1;
     k_stale := flat_map (fun p => match lookup fs p with Some (NFile f) => [(p, f)] | _ => [] end) (pv_outputs pv);
     k_staledirs := filter (fun d => isdir fs d && negb (isdir t0 d)) (pv_dirs pv);
     k_claimedF := []; k_claimedS := []; k_need := []; k_made := dirs; k_clock := clock; k_nextid := nextid;
     k_log := [LInvoke "<root>" None PNone PNone]; k_cachefile := cf; k_old := old;
     k_vers := svers; k_newF := []; k_newS := [] |}.

Lemma core_build_eq : forall fs cf old svers clock nextid root,
  core_build fs cf old svers clock nextid root =
  let t0 := ref_clean fs cf (prev_of_cache old) in
  match missing_dirs t0 cf (dirname cf) with
  | inr c => {| cr_outcome := inr (XOS c); cr_tree := t0; cr_log := []; cr_state := None |}
  | inl dirs =>
      match mkdir_all t0 dirs with
      | inr e => {| cr_outcome := inr (XOS (err_of e)); cr_tree := t0; cr_log := []; cr_state := None |}
      | inl t1 =>
          let r := core_run root None None [] (core_init fs cf old svers clock nextid t1 dirs) in
          {| cr_outcome := fst (fst (snd r)); cr_tree := k_fs (fst r); cr_log := rev (k_log (fst r)); cr_state := Some (fst r) |}
      end
  end.
Proof.
  intros. unfold core_build, core_init. cbv zeta.
  destruct (missing_dirs (ref_clean fs cf (prev_of_cache old)) cf (dirname cf)) as [dirs|c]; [|reflexivity].
  destruct (mkdir_all (ref_clean fs cf (prev_of_cache old)) dirs) as [t1|e]; [|reflexivity].
  match goal with |- (let '(_, _) := ?x in _) = _ => destruct x as [s1 [[res p1] p2]] end. reflexivity.
Qed.

Section Invariance.
  Variables (fsA fsB : fsT) (cf : path) (oldA oldB : cache).
  Hypothesis Hlk : forall p, p <> cf -> lookup fsA p = lookup fsB p.
  Hypothesis HfA : isfile fsA cf = true.
  Hypothesis HfB : isfile fsB cf = true.
  Hypothesis NA : NoDup (map fst (c_files oldA)).
  Hypothesis NB : NoDup (map fst (c_files oldB)).
  Hypothesis Hfiles : forall p, cache_get_file oldA p = cache_get_file oldB p.
  Hypothesis Hsubs : forall k, subs_get (c_subs oldA) k = subs_get (c_subs oldB) k.
  Hypothesis Hdirs : c_dirs oldA = c_dirs oldB.
  Hypothesis Hfv : c_fvers oldA = c_fvers oldB.

  Lemma clean_leq : leq (ref_clean fsA cf (prev_of_cache oldA)) (ref_clean fsB cf (prev_of_cache oldB)).
  Proof.
    unfold ref_clean, prev_of_cache; cbn [pv_outputs pv_dirs]. rewrite Hdirs. apply leq_fold; [apply leq_try_rmdir|].
    intro q. rewrite !try_remove_lookup. unfold isfile. rewrite !fold_try_remove_lookup.
    rewrite ?(created_mem oldA oldB q NA NB Hfiles), ?(created_mem oldA oldB cf NA NB Hfiles).
    unfold isfile in *.
    destruct (path_eqb cf q) eqn:E; simpl.
    - apply path_eqb_eq in E. subst q.
      destruct (lookup fsA cf) as [[fa|]|]; try discriminate. destruct (lookup fsB cf) as [[fb|]|]; try discriminate.
      destruct (mem_path cf (cache_created_files oldB)); reflexivity.
    - apply path_eqb_neq in E. rewrite (Hlk q) by congruence. reflexivity.
  Qed.

  Lemma isdir_AB : forall d, isdir fsA d = isdir fsB d.
  Proof.
    intro d. unfold isdir. destruct (path_eqb d cf) eqn:E.
    - apply path_eqb_eq in E. subst d. unfold isfile in HfA, HfB.
      destruct (lookup fsA cf) as [[fa|]|]; try discriminate. destruct (lookup fsB cf) as [[fb|]|]; try discriminate. reflexivity.
    - apply path_eqb_neq in E. rewrite (Hlk d E). reflexivity.
  Qed.

  Lemma KR_init : forall svers clock nextid tA tB dirs, leq tA tB ->
    KR cf (core_init fsA cf oldA svers clock nextid tA dirs) (core_init fsB cf oldB svers clock nextid tB dirs).
  Proof.
    intros svers clock nextid tA tB dirs L. unfold core_init. cbv zeta.
    pose proof clean_leq as CL. revert CL.
    generalize (ref_clean fsA cf (prev_of_cache oldA)) (ref_clean fsB cf (prev_of_cache oldB)). intros cA cB CL.
    constructor; cbn; try reflexivity; try assumption.
    - intros p Hp. rewrite !stale_of_lookup. rewrite (created_mem oldA oldB p NA NB Hfiles), (Hlk p Hp). reflexivity.
    - rewrite Hdirs. apply filter_ext. intro d. rewrite (isdir_AB d). f_equal. f_equal. apply leq_isdir. exact CL.
  Qed.

  Theorem core_build_invariance_sec : forall vers clock nextid root,
    CoreSame (core_build fsA cf oldA vers clock nextid root) (core_build fsB cf oldB vers clock nextid root).
  Proof.
    intros vers clock nextid root. rewrite !core_build_eq. cbv zeta.
    pose proof clean_leq as L0.
    rewrite (leq_missing_dirs _ _ cf (dirname cf) L0).
    destruct (missing_dirs (ref_clean fsB cf (prev_of_cache oldB)) cf (dirname cf)) as [dirs|c].
    2: { unfold CoreSame; cbn. auto. }
    pose proof (leq_mkdir_all dirs _ _ L0) as M.
    destruct (mkdir_all (ref_clean fsA cf (prev_of_cache oldA)) dirs) as [tA|eA],
             (mkdir_all (ref_clean fsB cf (prev_of_cache oldB)) dirs) as [tB|eB]; simpl in M; try contradiction.
    2: { subst eB. unfold CoreSame; cbn. auto. }
    destruct (core_run_KR cf root None None [] _ _ (KR_init vers clock nextid tA tB dirs M)) as [K E].
    unfold CoreSame; cbn. rewrite E. split; [reflexivity|]. split.
    - rewrite (kr_log _ _ _ K). reflexivity.
    - exact (kr_fs _ _ _ K).
  Qed.
End Invariance.

Theorem core_build_invariance : core_build_invariance_statement.
Proof.
  intros fsA fsB cf oldA oldB vers clock nextid root Hlk HfA HfB NA NB Hfiles Hsubs Hdirs Hfv.
  apply core_build_invariance_sec; assumption.
Qed.

Print Assumptions core_build_invariance.
