(* Proofs/SimR1.v — the keys of the file table of the new cache are targets, along any run (any
   program whose build_file targets satisfy P, any faults, any outcome):
     every path that has an entry in c_files (w_new w) is a target of this build (P) or a
     build_file target recorded somewhere in the previous cache (cache_targets old)
   [run_keys].  In particular in a build that starts without a previous cache every key is in P
   [keys_first].  Same script as SimH5.run_cr / SimP3.run_K; the only steps that add a key are
   new_start_building_file / new_finish_building_file (the target of the build_file call) and
   new_use_cached_operation (the target and the targets of the nested records of a record found in
   the previous cache).
   New file; edits nothing. *)
From Coq Require Import List String Ascii NArith ZArith Bool Arith Lia.
From FB.Base Require Import PyVal Fs.
From FB.Gen Require Import JsonUtilGen.
From FB.Spec Require Import Prog.
From FB.Model Require Import Types Monad CreatedFiles BuildDirs SimpleOps Builder Persist Build Run Frame.
From FB.Proofs Require Import FsLemmas ReplayLaws FrameLaws RollbackDirsLaws RollbackDirsBase CommitDirsInv BuildFileLaws.
Import ListNotations.
Local Open Scope list_scope.

#[local] Hint Resolve m_handle_dir_exists_svb m_is_removed_svb is_file_no_read_svb is_cache_file_svb
  file_metadata_svb file_hash_svb list_dir_superset_svb file_comparison_result_svb
  m_is_file_svb m_is_dir_svb m_exists_svb noneable_cmp_svb version_equal_svb
  is_build_file_cached_svb dirs_to_make_svb build_file_cache_lookup_svb subbuild_cache_lookup_svb
  m_bd_started_svb m_bd_error_svb new_assert_no_file_svb new_assert_no_subbuild_svb : pres.

Section Keys.

Variable old : cache.             (* the previous build *)
Variable P : path -> Prop.        (* the targets of this build *)

Definition TK (p : path) : Prop := P p \/ In p (cache_targets old).

Definition KT (w : world) : Prop :=
  w_old w = old /\ forall p, cache_has_file (w_new w) p = true -> TK p.

Definition jr (w w' : world) : Prop := KT w -> KT w'.
Lemma jr_refl : forall w, jr w w.
Proof. intros w H. exact H. Qed.
Lemma jr_trans : forall a b c, jr a b -> jr b c -> jr a c.
Proof. intros a b c A B H. apply B, A, H. Qed.
Definition JPO : PO := {| rel := jr; po_refl := jr_refl; po_trans := jr_trans |}.

Lemma jr_same : forall w w', w_new w' = w_new w -> w_old w' = w_old w -> jr w w'.
Proof. intros w w' E1 E2 H. unfold KT in *. rewrite E1, E2. exact H. Qed.

Lemma new_jr : forall w w', newPO w w' -> JPO w w'.
Proof. cbn. unfold new_same. intros w w' (A & B & _). apply jr_same; assumption. Qed.
Lemma svb_jr : forall w w', svbPO w w' -> JPO w w'.
Proof. intros w w' H. apply new_jr, svb_new, H. Qed.
#[local] Hint Extern 8 (pres JPO _) => apply (pres_weaken svbPO JPO _ _ svb_jr) : pres.

Lemma newj : forall X (m : world -> world * X), pres newPO m -> pres JPO m.
Proof. intros X m. apply pres_weaken. exact new_jr. Qed.

Lemma prepare_jr : forall p, pres JPO (prepare_file_creation p).
Proof. intro p. apply newj, prepare_file_creation_new. Qed.
Lemma backup_jr : forall p, pres JPO (back_up_and_remove p).
Proof. intro p. apply newj, back_up_and_remove_new. Qed.
Lemma try_remove_jr : forall p, pres JPO (try_to_remove_file p).
Proof. intro p. apply newj, try_to_remove_file_new. Qed.
Lemma apply_cached_jr : forall o, pres JPO (apply_cached_subs_of o).
Proof. intro o. apply newj, apply_cached_subs_of_new. Qed.
#[local] Hint Resolve prepare_jr backup_jr try_remove_jr apply_cached_jr : pres.

Lemma pres_bind_val_J : forall A B (m : M A) (f : A -> M B) (Phi : A -> Prop),
  pres JPO m ->
  (forall w w1 a, KT w -> m w = (w1, inl a) -> Phi a) ->
  (forall a, Phi a -> pres JPO (f a)) -> pres JPO (bind m f).
Proof.
  intros A B m f Phi Hm Hv Hf w w' r H. change (jr w w'). apply bind_inv in H.
  destruct H as [(w1 & a & E1 & H) | (e & E1 & _)].
  - intro HK. pose proof (Hv _ _ _ HK E1) as Ha. exact (Hf a Ha _ _ _ H (Hm _ _ _ E1 HK)).
  - exact (Hm _ _ _ E1).
Qed.

(* ---- the table updates ---- *)
Lemma has_set : forall c p v s b q,
  cache_has_file (cache_with c (files_set (c_files c) p v) s (c_dirs c) b) q = true ->
  q = p \/ cache_has_file c q = true.
Proof.
  intros c p v s b q. unfold cache_has_file. cbn [c_files cache_with]. rewrite files_get_set.
  destruct (path_eqb p q) eqn:E; [intros _; left; symmetry; apply path_eqb_eq; exact E | intro H; right; exact H].
Qed.

Lemma has_del : forall c p s b q,
  cache_has_file (cache_with c (files_del (c_files c) p) s (c_dirs c) b) q = true -> cache_has_file c q = true.
Proof.
  intros c p s b q. unfold cache_has_file. cbn [c_files cache_with]. rewrite files_get_del.
  destruct (path_eqb p q); [discriminate | intro H; exact H].
Qed.

Lemma has_register : forall o c q, cache_has_file (register_op c o) q = true ->
  In q (op_targets o) \/ cache_has_file c q = true.
Proof.
  intros o c q H. destruct (in_dec path_eq_dec q (op_targets o)) as [Y|N]; [left; exact Y | right].
  unfold cache_has_file in *. rewrite (register_op_notin q o c N) in H. exact H.
Qed.

Lemma modify_new_jr : forall f : world -> cache,
  (forall w, (forall p, cache_has_file (w_new w) p = true -> TK p) ->
             forall p, cache_has_file (f w) p = true -> TK p) ->
  pres JPO (modify (fun w => set_new (f w) w)).
Proof. intros f Hf. apply pres_modify. intros w (A & B). split; [exact A | exact (Hf w B)]. Qed.

Lemma new_start_building_file_jr : forall p, P p -> pres JPO (new_start_building_file p).
Proof.
  intros p HP. unfold new_start_building_file. pres_auto. apply modify_new_jr. intros w B q Hq.
  destruct (has_set _ _ _ _ _ _ Hq) as [->|X]; [left; exact HP | exact (B q X)].
Qed.
Lemma new_abort_building_file_jr : forall p, pres JPO (new_abort_building_file p).
Proof.
  intro p. unfold new_abort_building_file. apply modify_new_jr. intros w B q Hq.
  exact (B q (has_del _ _ _ _ _ Hq)).
Qed.
Lemma new_finish_building_file_jr : forall p o, P p -> pres JPO (new_finish_building_file p o).
Proof.
  intros p o HP. unfold new_finish_building_file. apply modify_new_jr. intros w B q Hq.
  destruct (has_set _ _ _ _ _ _ Hq) as [->|X]; [left; exact HP | exact (B q X)].
Qed.
Lemma new_start_subbuild_jr : forall k, pres JPO (new_start_subbuild k).
Proof. intro k. unfold new_start_subbuild. pres_auto. apply modify_new_jr. intros w B q Hq. exact (B q Hq). Qed.
Lemma new_finish_subbuild_jr : forall k o, pres JPO (new_finish_subbuild k o).
Proof. intros k o. unfold new_finish_subbuild. apply modify_new_jr. intros w B q Hq. exact (B q Hq). Qed.

Lemma new_use_cached_operation_jr : forall o, (forall t, In t (op_targets o) -> TK t) ->
  pres JPO (new_use_cached_operation o).
Proof.
  intros o Ho w w' r H. unfold new_use_cached_operation in H. unfold bind, get in H.
  destruct (assert_no_repeats (w_new w) o).
  - unfold put in H. inversion H; subst. intros (A & B). split; [exact A|].
    cbn [w_new set_new]. intros q Hq. destruct (has_register _ _ _ Hq) as [X|X]; [exact (Ho q X) | exact (B q X)].
  - inversion H; subst. apply jr_refl.
Qed.
#[local] Hint Resolve new_abort_building_file_jr new_start_subbuild_jr new_finish_subbuild_jr : pres.

(* ---- build_file, subbuild ---- *)
Definition PhiC (cached : option op) : Prop :=
  match cached with Some co => forall x, In x (op_targets co) -> TK x | None => True end.

Lemma subs_targets : forall co t, In t (flat_map op_targets (op_subs co)) -> In t (op_targets co).
Proof. intros [q r e | p c f a k subs r cr ra sf | f a k subs r ra sf] t H; cbn [op_subs op_targets] in *; [exact H | right; exact H | exact H]. Qed.

Lemma bf_reuse_jr : forall p c fname sargs skw cached, P p -> PhiC cached -> pres JPO (bf_reuse p c fname sargs skw cached).
Proof.
  intros p c fname sargs skw cached HP Hc. unfold bf_reuse. destruct cached as [co|]; [|apply pres_ret].
  cbn [PhiC] in Hc.
  assert (G : forall cmp, pres JPO (new_use_cached_operation (OBuildFile p c fname sargs skw (op_subs co) (op_ret co) cmp false false))).
  { intro cmp. apply new_use_cached_operation_jr. intros t [<-|Ht]; [left; exact HP | apply Hc, subs_targets, Ht]. }
  pres_auto.
Qed.

Lemma bf_claim_jr : forall p, P p -> pres JPO (bf_claim p).
Proof. intros p HP. unfold bf_claim. pose proof (new_start_building_file_jr p HP). pres_auto. Qed.

Lemma bf_setup_jr : forall p c fname sargs skw, P p -> pres JPO (bf_setup p c fname sargs skw).
Proof.
  intros p c fname sargs skw HP. unfold bf_setup.
  apply pres_bind; [auto with pres|]. intros _.
  apply pres_bind; [auto with pres|]. intro icf.
  apply pres_bind; [destruct icf; [apply pres_raise | apply pres_ret]|]. intros _.
  apply pres_bind; [apply prepare_jr|]. intro created.
  apply pres_bind; [auto with pres|]. intro locked.
  apply pres_catch; [|intro e; pres_auto].
  apply (pres_bind_val_J _ _ _ _ PhiC); [auto with pres | |].
  { intros w w1 a (B & _) E. destruct a as [co|]; [|exact I].
    apply lookup_never_raised in E. destruct E as (E & _). rewrite B in E.
    intros x Hx. right. eapply cache_get_file_targets; eauto. }
  intros cached Hc. apply pres_bind; [apply bf_reuse_jr; assumption|]. intro reused.
  destruct reused as [[o|eo]|]; [pres_auto | pres_auto | apply bf_claim_jr; exact HP].
Qed.

Lemma sb_setup_jr : forall f sa skw, pres JPO (sb_setup f sa skw).
Proof.
  intros f sa skw. unfold sb_setup. cbv zeta.
  apply pres_bind; [auto with pres|]. intros _.
  apply (pres_bind_val_J _ _ _ _ PhiC); [auto with pres | |].
  { intros w0 w1 x (B & _) E. destruct x as [co|]; [|exact I].
    apply sublookup_never_raised in E. destruct E as (E & _). rewrite B in E.
    intros y Hy. right. eapply subs_get_targets; eauto. }
  intros cached Hc. destruct cached as [co|]; [|pres_auto].
  cbn [PhiC] in Hc.
  assert (G : pres JPO (new_use_cached_operation (OSubbuild f sa skw (op_subs co) (op_ret co) false false))).
  { apply new_use_cached_operation_jr. intros t Ht. cbn [op_targets] in Ht. apply Hc, subs_targets, Ht. }
  pres_auto.
Qed.

Lemma bf_fail_jr : forall p c f sa skw subs e w w' r, P p ->
  bf_fail p c f sa skw subs e w = (w', r) -> jr w w'.
Proof.
  intros p c f sa skw subs e w w' r HP H. unfold bf_fail in H. cbv zeta in H.
  pose proof (new_finish_building_file_jr p (OBuildFile p c f sa skw subs PNone PNone true false) HP) as G.
  match type of H with (match ?X with _ => _ end) = _ => destruct X as [w1 [u|e1]] eqn:E end;
    inversion H; subst.
  all: refine ((_ : pres JPO _) _ _ _ E); pres_auto.
Qed.

Lemma bf_finish_jr : forall p c f sa skw res subs, P p -> pres JPO (bf_finish p c f sa skw res subs).
Proof.
  intros p c f sa skw res subs HP w w' r H. unfold bf_finish in H.
  assert (F : forall e w0, bf_fail p c f sa skw subs e w0 = (w', r) -> jr w0 w').
  { intros e w0 H0. eapply bf_fail_jr; eassumption. }
  destruct res as [v|e]; [|eapply F; eassumption].
  destruct (sanitize v) as [sv|]; [|eapply F; eassumption].
  destruct (noneable_cmp p c w) as [w4 [cmp|e]] eqn:E.
  - assert (Q : jr w w4) by (apply svb_jr; exact (noneable_cmp_svb p c w w4 _ E)).
    eapply jr_trans; [exact Q|].
    destruct cmp; try (eapply F; eassumption).
    all: cbv zeta in H;
      match type of H with (match ?X with _ => _ end) = _ => destruct X as [w5 u5] eqn:E5 end;
      inversion H; subst; exact (new_finish_building_file_jr _ _ HP _ _ _ E5).
  - assert (Q : jr w w4) by (apply svb_jr; exact (noneable_cmp_svb p c w w4 _ E)).
    eapply jr_trans; [exact Q|]. eapply F; eassumption.
Qed.

Lemma sb_finish_jr : forall f sa skw res subs, pres JPO (sb_finish f sa skw res subs).
Proof.
  intros f sa skw res subs w w' r H. unfold sb_finish in H. cbv zeta in H.
  destruct res as [v|e]; [destruct (sanitize v)|];
    match type of H with (match ?X with _ => _ end) = _ => destruct X as [w5 u5] eqn:E5 end;
    inversion H; subst; exact (new_finish_subbuild_jr _ _ _ _ _ E5).
Qed.

Lemma m_build_file_jr : forall p c f a kw (fn : path -> pyval -> pyval -> body), P p ->
  (forall sa skw, pres JPO (fn p sa skw)) -> pres JPO (m_build_file p c f a kw fn).
Proof.
  intros p c f a kw fn HP Hfn w w' r H. rewrite BuildFileLaws.m_build_file_unfold in H.
  destruct (sanitize a) as [sa|]; [|inversion H; subst; apply jr_refl].
  destruct (sanitize kw) as [skw|]; [|inversion H; subst; apply jr_refl].
  destruct (bf_setup p c f sa skw w) as [w1 [[[o|[e o]]|]|e]] eqn:Es;
    pose proof (bf_setup_jr p c f sa skw HP w w1 _ Es) as Q1; try (inversion H; subst; exact Q1).
  unfold bf_rebuild in H. destruct (fn p sa skw (bf_invoke_world p f sa skw w1)) as [w3 [res subs]] eqn:Ef.
  pose proof (Hfn sa skw _ _ _ Ef) as Q2. pose proof (bf_finish_jr p c f sa skw res subs HP w3 w' r H) as Q3.
  eapply jr_trans; [exact Q1|]. eapply jr_trans; [|exact Q3]. exact Q2.
Qed.

Lemma m_subbuild_jr : forall f a kw (fn : pyval -> pyval -> body),
  (forall sa skw, pres JPO (fn sa skw)) -> pres JPO (m_subbuild f a kw fn).
Proof.
  intros f a kw fn Hfn w w' r H. rewrite BuildFileLaws.m_subbuild_unfold in H.
  destruct (sanitize a) as [sa|]; [|inversion H; subst; apply jr_refl].
  destruct (sanitize kw) as [skw|]; [|inversion H; subst; apply jr_refl].
  destruct (sb_setup f sa skw w) as [w1 [[[o|[e o]]|]|e]] eqn:Es;
    pose proof (sb_setup_jr f sa skw w w1 _ Es) as Q1; try (inversion H; subst; exact Q1).
  unfold sb_rebuild in H. destruct (fn sa skw (sb_invoke_world f sa skw w1)) as [w3 [res subs]] eqn:Ef.
  pose proof (Hfn sa skw _ _ _ Ef) as Q2. pose proof (sb_finish_jr f sa skw res subs w3 w' r H) as Q3.
  eapply jr_trans; [exact Q1|]. eapply jr_trans; [|exact Q3]. exact Q2.
Qed.

Lemma jr_log_answer : forall q r w, jr w (log_answer q r w).
Proof.
  intros q r w. unfold log_answer.
  repeat match goal with |- context [match ?y with _ => _ end] => destruct y end;
    first [apply jr_refl | apply jr_same; reflexivity].
Qed.

Theorem run_J : forall pr, AllTargets P pr -> forall target subs, pres JPO (run pr target subs).
Proof.
  intros pr Hat.
  induction Hat as [v | e | s q k Hk IHk | c k Hk IHk | s p c f a kw fn k Hp Hfn IHfn Hk IHk
                    | s f a kw fn k Hfn IHfn Hk IHk];
    intros target subs w w' r H; cbn [run] in H; change (jr w w').
  - inversion H; subst. apply jr_refl.
  - inversion H; subst. apply jr_refl.
  - destruct s; [eapply IHk; eauto|].
    destruct (m_query q w) as [w1 [r1 o]] eqn:E.
    pose proof (svb_jr _ _ (m_query_svb _ _ _ _ E)) as Q1. apply IHk in H.
    eapply jr_trans; [exact Q1|]. eapply jr_trans; [apply jr_log_answer | exact H].
  - destruct target as [t|]; [|eapply IHk; eauto].
    destruct (write_file (w_fs w) t c None (N.succ (w_clock w)) (w_nextid w)) as [fs'|e] eqn:E;
      [|inversion H; subst; apply jr_refl].
    apply IHk in H. eapply jr_trans; [|exact H]. apply jr_same; reflexivity.
  - destruct s; [eapply IHk; eauto|].
    match type of H with (let '(_, _) := ?X in _) = _ => destruct X as [w1 [r1 o]] eqn:E end.
    apply IHk in H. eapply jr_trans; [|exact H].
    refine (m_build_file_jr p c f a kw _ Hp _ w w1 _ E). intros sa skw. apply IHfn.
  - destruct s; [eapply IHk; eauto|].
    match type of H with (let '(_, _) := ?X in _) = _ => destruct X as [w1 [r1 o]] eqn:E end.
    apply IHk in H. eapply jr_trans; [|exact H].
    refine (m_subbuild_jr f a kw _ _ w w1 _ E). intros sa skw. apply IHfn.
Qed.

End Keys.

(* every key of the file table at the end of the run of the root function is a target of this
   build or a target recorded in the previous cache *)
Theorem run_keys : forall old (P : path -> Prop) pr target subs w w' r,
  AllTargets P pr -> run pr target subs w = (w', r) ->
  w_old w = old -> (forall p, cache_has_file (w_new w) p = false) ->
  forall p, cache_has_file (w_new w') p = true -> P p \/ In p (cache_targets old).
Proof.
  intros old P pr target subs w w' r Hat H Ho Hn.
  assert (K0 : KT old P w) by (split; [exact Ho | intros p Hp; rewrite Hn in Hp; discriminate Hp]).
  destruct (run_J old P pr Hat target subs w w' r H K0) as [_ B]. exact B.
Qed.

Print Assumptions run_keys.
