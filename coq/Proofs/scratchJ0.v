From Coq Require Import List String Ascii NArith ZArith Bool Arith Lia.
From FB.Base Require Import PyVal Fs.
From FB.Gen Require Import JsonUtilGen.
From FB.Spec Require Import JsonSpec Prog Ref Oracle Faithful.
From FB.Model Require Import Types Monad CreatedFiles BuildDirs SimpleOps Builder Persist Build Run Frame Dsl Core CoreOracle.
From FB.Proofs Require Import FsLemmas ViewDefs ViewK2 ViewK3 SimA0 SimAEx SimB1 SimC0 SimCEx SimGEx SimJ4.
Import ListNotations.
Open Scope string_scope.
Open Scope list_scope.
Definition okcH_at (cf : path) (nm : string) (vers : pyval) (w : world) : bool :=
  match sanitize vers with
  | Some svers => okcHb (w_clock w) (old_cache_of (w_fs w) cf nm svers)
  | None => false
  end.
Import ExH.
Eval vm_compute in map (fun w => (okc_at CF "n" V w, okcH_at CF "n" V w)) [w0; w1; w2'; w3].
