From FB.Proofs Require Import SimB7 SimB8 HashMemoInv CmpLaws.
About post1. About newt. About sem_ok. About sem_okl. About node_sem. About fresh. About go_corr. About fresh_read_of.
About subs_ok. About subs_post. About file_rec_ok. About sub_rec_ok.
Check hx_HInv. Check is_op_cached_hxf. Print HashOk.
