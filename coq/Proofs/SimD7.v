(* Proofs/SimD7.v — the class okc across builds: what is proved, assembled; what remains, stated.
   For a build of the mechanism model whose root function returns, with a previous cache in the
   class, a program that satisfies the side conditions of SimC12.build_agree_okc, SimC15.RkNew and
   SimD5.NoCatch, every record that can be looked up in the NEW cache satisfies these conditions
   of the class (SimC0.frec_static / srec_static / subs_static):
     - a file record is stored under its own target                          [new_cache_shape]
     - success implies a comparison result, METADATA, a creatable target     (rec_ok: SimC15)
     - the suboperations satisfy rec_ok under the record's target            (SimC15.new_cache_rec_ok)
     - the suboperations are calm                                            (SimD5.new_cache_calm)
     - the suboperations are well formed (wfrec)                             (SimD5.rec_ok_wfrec)
   [okc_next]: okc c1 (w_new w2) follows from these and [RestStatic c1 (w_new w2)], the conditions
   NOT proved here:
     - node_static: a modification time recorded by a METADATA read is at most c1, the clock when
       the next build starts (SimD6 gives the world-level half: no regular file is ever newer than
       the clock; what is missing is the link "recorded time = modification time of a file of some
       world of the run" for the records of the mechanism model — Sim3 relates them to Core's
       records only up to ViewK3.val_rel, which forgets the times); a nested build_file record is
       registered as an output of the new cache; recorded subbuild arguments are sanitized and
       well formed;
     - the registered targets of a recorded tree are pairwise different and differ from the
       record's own target; the subbuild keys of a tree are pairwise different;
     - for the table of subbuilds: the key of the entry is (Python-)equal to the key made from the
       recorded arguments, which differs from the keys nested in the record.
   (CoreNextKeys / CoreNextState prove the Core-side analogues of the last two groups.)       *)
From Coq Require Import List String Ascii NArith ZArith Bool Arith Lia.
From FB.Base Require Import PyVal Fs.
From FB.Gen Require Import JsonUtilGen.
From FB.Spec Require Import JsonSpec Prog Ref Oracle Faithful.
From FB.Model Require Import Types Monad CreatedFiles BuildDirs SimpleOps Builder Persist Build Run Frame Core CoreOracle.
From FB.Proofs Require Import FsLemmas JsonLaws ReplayLaws BuildFileLaws CoreLaws1 CoreLaws2 CoreLaws3 CoreLaws4
     CoreNextRegs CoreNextState
     HashMemoInv ViewDefs ViewLemmas ViewInit ViewXDefs ViewH4 ViewH6 ViewR2 ViewR3 ViewK3 ViewK4 ViewK8
     SimA0 SimA2Base SimAMain SimB2 SimB7 SimB9 SimC0 SimC5 SimC12 SimC14 SimC15 SimD5.
Import ListNotations.
Open Scope list_scope.

(* ------------------------------------------------------------------ what remains *)
Definition RestSubs (new : cache) (c1 : N) (p0 : option path) (subs : list op) : Prop :=
  forallb (node_static new c1) (flat_map nodes subs) = true /\
  nodupb (flat_map regp subs) = true /\
  forallb (fun t => negb (opath_eqb t p0)) (flat_map regp subs) = true /\
  kfreshb (snd (cll subs)) = true.

Definition RestStatic (c1 : N) (new : cache) : Prop :=
  (forall p p' c' f' a' k' subs r' cr' sf', cache_get_file new p = Some (OBuildFile p' c' f' a' k' subs r' cr' false sf') ->
     RestSubs new c1 (Some p) subs) /\
  (forall k f a kk subs r sf, subs_get (c_subs new) k = Some (Some (OSubbuild f a kk subs r false sf)) ->
     RestSubs new c1 None subs /\
     sanitized a = true /\ sanitized kk = true /\ pv_wf a = true /\ pv_wf kk = true /\
     exists q, py_eq q k = true /\ py_eq (subbuild_key f a kk) q = true /\
               forallb (fun y => negb (py_eq (subbuild_key f a kk) y)) (snd (cll subs)) = true).

(* ------------------------------------------------------------------ a file record is stored under its own target *)
Lemma rec_rel_path : forall o p c f a k subs r cr ra sf, rec_rel o (OBuildFile p c f a k subs r cr ra sf) ->
  exists c' f' a' k' subs' r' cr' ra' sf', o = OBuildFile p c' f' a' k' subs' r' cr' ra' sf'.
Proof.
  intros [q0 r0 e0|p' c' f' a' k' subs' r' cr' ra' sf'|f0 a0 k0 sb0 r0 ra0 sf0] p c f a k subs r cr ra sf H; cbn [rec_rel] in H; try contradiction.
  destruct H as (-> & _). repeat eexists.
Qed.

Theorem new_cache_shape : forall w cachefile old nm svers root w1 w2 r l,
  okc (w_clock w) old -> fs_wf (w_fs w) -> old_ok old cachefile -> WfCache old -> old_keys_ok old -> w_faults w = [] ->
  path_ok (dirname cachefile) = true -> isdir (w_fs w) cachefile = false -> maxlen (w_fs w) < walk_fuel ->
  vdir (Build.start_world w cachefile old nm svers) (dirname cachefile) = true ->
  AllTargets tgtP root -> NoNest [] root -> QueriesOk root -> WfArgs root -> CmpMeta root ->
  TargetsClear old root -> TargetsApart old root ->
  make_dirs (dirname cachefile) (Build.start_world w cachefile old nm svers) = (w1, inl []) ->
  run root None [] (set_log (LInvoke "<root>"%string None PNone PNone :: w_log w1) w1) = (w2, (r, l)) ->
  forall p o, cache_get_file (w_new w2) p = Some o ->
    exists c' f' a' k' subs' r' cr' ra' sf', o = OBuildFile p c' f' a' k' subs' r' cr' ra' sf'.
Proof.
  intros w cachefile old nm svers root w1 w2 r l Hokc Hwf Hok HW HKo HF Hp Hnc Hml Hd Hat Hnn Hqk Hwa Hcm Hcl Hap Emk Erun p o Hg.
  destruct (build_run_okc w cachefile old nm svers root w1 w2 r l Hokc Hwf Hok HW HKo HF Hp Hnc Hml Hd Hat Hnn Hqk Hwa Hcm Hcl Hap Emk Erun)
    as (s1 & pd & sb & T' & W' & Ecore & [HS _]).
  pose proof (Sim4_sim3 _ _ _ _ HS) as HS3.
  destruct (core_run_ext root _ _ _ _ _ _ _ _ Ecore) as (produced & _ & HX).
  destruct (x_newF _ _ _ _ _ HX) as (nF & EnF & HnF). cbn [ViewK4.core_start k_newF app] in EnF.
  pose proof (s3_recF _ _ _ HS3 p) as K. rewrite Hg in K.
  destruct (kf_get (k_newF s1) p) as [o'|] eqn:E; [|contradiction].
  apply kf_get_in in E. rewrite EnF in E. destruct (HnF p o' E) as (_ & (c & f & a & k & subs & r0 & cr & ra & ->) & _).
  exact (rec_rel_path o p c f a k subs r0 cr ra false K).
Qed.

(* ------------------------------------------------------------------ the class, from what is proved and what remains *)
Theorem okc_next : forall w cachefile old nm svers root w1 w2 v l c1,
  okc (w_clock w) old -> fs_wf (w_fs w) -> old_ok old cachefile -> WfCache old -> old_keys_ok old -> w_faults w = [] ->
  path_ok (dirname cachefile) = true -> isdir (w_fs w) cachefile = false -> maxlen (w_fs w) < walk_fuel ->
  vdir (Build.start_world w cachefile old nm svers) (dirname cachefile) = true ->
  AllTargets tgtP root -> NoNest [] root -> QueriesOk root -> WfArgs root -> CmpMeta root ->
  TargetsClear old root -> TargetsApart old root -> RkNew old [] root ->
  (* no function catches the exception of a nested call *)
  NoCatch root ->
  make_dirs (dirname cachefile) (Build.start_world w cachefile old nm svers) = (w1, inl []) ->
  (* the root function returns *)
  run root None [] (set_log (LInvoke "<root>"%string None PNone PNone :: w_log w1) w1) = (w2, (inl v, l)) ->
  RestStatic c1 (w_new w2) ->
  okc c1 (w_new w2).
Proof.
  intros w cachefile old nm svers root w1 w2 v l c1 Hokc Hwf Hok HW HKo HF Hp Hnc Hml Hd Hat Hnn Hqk Hwa Hcm Hcl Hap Hnew Hno Emk Erun [HR1 HR2].
  destruct (new_cache_rec_ok w cachefile old nm svers root w1 w2 (inl v) l Hokc Hwf Hok HW HKo HF Hp Hnc Hml Hd Hat Hnn Hqk Hwa Hcm Hcl Hap Hnew Emk Erun)
    as (A1 & A2 & A3).
  destruct (new_cache_calm w cachefile old nm svers root w1 w2 v l Hokc Hwf Hok HW HKo HF Hp Hnc Hml Hd Hat Hnn Hqk Hwa Hcm Hcl Hap Hno Emk Erun)
    as (B1 & B2).
  pose proof (new_cache_shape w cachefile old nm svers root w1 w2 (inl v) l Hokc Hwf Hok HW HKo HF Hp Hnc Hml Hd Hat Hnn Hqk Hwa Hcm Hcl Hap Emk Erun) as Sh.
  split.
  - intros p rec Hg. destruct (Sh p rec Hg) as (c' & f' & a' & k' & subs' & r' & cr' & ra' & sf' & ->).
    cbn [frec_static]. replace (path_eqb p p) with true by (symmetry; apply path_eqb_eq; reflexivity). cbn [andb].
    destruct ra'; [reflexivity|]. cbn [orb].
    pose proof (A1 _ _ Hg) as K. cbn [rec_ok orb] in K.
    apply andb_true_iff in K. destruct K as [K K6]. apply andb_true_iff in K. destruct K as [K _].
    apply andb_true_iff in K. destruct K as [K K4]. apply andb_true_iff in K. destruct K as [K _].
    apply andb_true_iff in K. destruct K as [K1 K2].
    rewrite K1, K4, K2. cbn [andb].
    destruct (HR1 _ _ _ _ _ _ _ _ _ _ Hg) as (R1 & R2 & R3 & R4).
    unfold subs_static. cbn [ostack]. rewrite (A3 _ _ _ _ _ _ _ _ _ _ _ Hg). pose proof (B1 _ _ Hg) as Kc. cbn [op_subs] in Kc. rewrite Kc, R1, R2, R3, R4. cbn [andb].
    rewrite forallb_forall in K6. apply forallb_forall. intros x Hx. exact (rec_ok_wfrec false x _ (K6 x Hx)).
  - intros k rec Hg.
    destruct (subs_get_in _ _ _ Hg) as (qe & _ & Hqe).
    destruct rec as [q0 r0 e0|p' c' f' a' k' sb' rt' cr' ra' sf'|f0 a0 k0 sb0 r0 ra0 sf0];
      [exists qe; split; [exact Hqe|reflexivity]|exists qe; split; [exact Hqe|reflexivity]|].
    destruct ra0; [exists qe; split; [exact Hqe|reflexivity]|].
    destruct (HR2 _ _ _ _ _ _ _ Hg) as ((R1 & R2 & R3 & R4) & S1 & S2 & S3 & S4 & q & Q1 & Q2 & Q3).
    exists q. split; [exact Q1|]. cbn [srec_static orb].
    pose proof (A2 _ _ Hg) as K. cbn [rec_ok] in K.
    pose proof (B2 _ _ Hg) as Kc. cbn [op_subs] in Kc.
    unfold subs_static. cbn [ostack]. rewrite K, Kc, R1, R2, R3, R4, S1, S2, S3, S4, Q2, Q3. cbn [andb].
    rewrite !andb_true_r.
    rewrite forallb_forall in K. apply forallb_forall. intros x Hx. exact (rec_ok_wfrec false x _ (K x Hx)).
Qed.

Print Assumptions okc_next.
