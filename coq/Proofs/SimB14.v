(* Proofs/SimB14.v — mechanism model vs Core, after a hit: the bookkeeping invariant KInv of
   Core's state (SimB4) assumed by the lookup theorems holds again in the state that Core
   reaches by adopting the scratch copy (build_file: SimB1.core_file_adopt; subbuild: adopt). *)
From Coq Require Import List String Ascii NArith ZArith Bool Arith Lia.
From FB.Base Require Import PyVal Fs.
From FB.Gen Require Import JsonUtilGen.
From FB.Spec Require Import Prog Ref Oracle Faithful.
From FB.Model Require Import Types Monad CreatedFiles BuildDirs SimpleOps Builder Persist Core.
From FB.Proofs Require Import FsLemmas CleanLaws JsonLaws CoreLawsChildren ReplayLaws BuildFileLaws CoreLaws1 CoreLaws3 CoreLaws4 CoreLaws5
     ViewDefs ViewLemmas ViewScan ViewQueries ViewAnswers ViewPres ViewFrame ViewXDefs
     ViewOverlay ViewOverlay2 ViewH1 ViewH4 ViewH5 ViewH6 ViewK3 ViewK4
     SimB1 SimB2 SimB3 SimB4 SimB5 SimB6 SimB7 SimB8 SimB11.
Import ListNotations.
Open Scope list_scope.

Section KeepK.
  Variables (W : list path) (w : world) (s : kstate).
  Hypothesis HS : Sim3 W w s.
  Hypothesis HB : BInv w.
  Hypothesis HWcl : forall p, mem_path p W = true -> cache_has_file (w_new w) p = true.

  (* a directory of Core's tree is a directory of the scratch copy at the end of an accepted
     validation (no target is pending any more) *)
  Lemma scratch_keeps_dir : forall Tl cf r M x, RRel W w s [] Tl cf r M ->
    lookup (k_fs s) x = Some NDir -> lookup (rp_fs r) x = Some NDir.
  Proof.
    intros Tl cf r M x RR Hx.
    pose proof (rr_cc _ _ _ _ _ _ _ _ RR) as HCC. pose proof (cc_cinv _ _ _ HCC) as HCI.
    pose proof (RRel_te W w s _ _ _ _ _ RR x) as K. rewrite (lookup_overlay_ov _ _ _ x HCC) in K. unfold ov in K.
    assert (Hv: lookup (view_fs w) x = Some NDir).
    { pose proof (s3_tree _ _ _ HS x) as K1. rewrite Hx in K1. destruct (mem_path x W); [apply node_equiv_dir_r; exact K1|exact K1]. }
    destruct (existsb (is_ancestor x) Tl); [apply node_equiv_dir_l; exact K|].
    destruct (mem_path x (cf_files cf)) eqn:Ef.
    - (* a finished target is a regular file on disk: it cannot be a directory of the view *)
      exfalso. pose proof (ci_file _ _ HCI _ Ef) as Hf. apply isfile_lookup in Hf. destruct Hf as [g Hg].
      destruct x as [|n d]; [cbn in Hg; discriminate|]. rewrite lookup_view in Hv by discriminate.
      destruct (visible w (n :: d)); congruence.
    - rewrite Hv in K. apply node_equiv_dir_l; exact K.
  Qed.

  Lemma scratch_anc_dir : forall Tl cf r M t x, RRel W w s [] Tl cf r M -> In t Tl -> is_ancestor x t = true ->
    lookup (rp_fs r) x = Some NDir.
  Proof.
    intros Tl cf r M t x RR Ht Ha. pose proof (rr_cc _ _ _ _ _ _ _ _ RR) as HCC.
    pose proof (RRel_te W w s _ _ _ _ _ RR x) as K. rewrite (lookup_overlay_ov _ _ _ x HCC) in K. unfold ov in K.
    assert (E: existsb (is_ancestor x) Tl = true) by (apply existsb_exists; eauto). rewrite E in K.
    apply node_equiv_dir_l; exact K.
  Qed.

  (* the bookkeeping of the scratch state, as KInv of the state that adopts it; [claimed]: the
     claims after the adoption *)
  Lemma KInv_scratch : forall p0 Tl cf r M fs' claimed,
    KInv s p0 -> RRel W w s [] Tl cf r M ->
    (forall x, lookup (rp_fs r) x = Some NDir -> lookup fs' x = Some NDir) ->
    (forall t, In t Tl -> mem_path t claimed = true) ->
    (forall t, mem_path t (k_claimedF s) = true -> mem_path t claimed = true) ->
    (forall t, Some t = p0 -> mem_path t claimed = true) ->
    (forall x, In x (rp_made r) -> lookup fs' x = Some NDir /\ existsb (is_ancestor x) (rp_need r) = true) /\
    (forall t x, In t (rp_need r) -> is_ancestor x t = true -> lookup fs' x = Some NDir) /\
    (forall t, In t (rp_need r) -> mem_path t claimed = true).
  Proof.
    intros p0 Tl cf r M fs' claimed HK RR Hfs HclT Hcl Hp0.
    rewrite (rr_need _ _ _ _ _ _ _ _ RR), (rr_made _ _ _ _ _ _ _ _ RR). split; [|split].
    - intros x Hx. apply in_app_iff in Hx. rewrite existsb_app_b. destruct Hx as [Hx|Hx].
      + destruct (ki_made _ _ HK x Hx) as [A B]. split; [apply Hfs; apply (scratch_keeps_dir _ _ _ _ _ RR A)|rewrite B; apply orb_true_r].
      + pose proof (rr_m2 _ _ _ _ _ _ _ _ RR x Hx) as A. rewrite A. split; [|reflexivity].
        apply existsb_exists in A. destruct A as [t [Ht Ha]]. apply Hfs. apply (scratch_anc_dir _ _ _ _ t x RR Ht Ha).
    - intros t x Ht Ha. apply in_app_iff in Ht. apply Hfs. destruct Ht as [Ht|Ht].
      + apply (scratch_anc_dir _ _ _ _ t x RR Ht Ha).
      + apply (scratch_keeps_dir _ _ _ _ _ RR). apply (ki_need _ _ HK t x Ht Ha).
    - intros t Ht. apply in_app_iff in Ht. destruct Ht as [Ht|Ht]; [apply HclT; exact Ht|].
      destruct (ki_claim _ _ HK t Ht) as [K|K]; [apply Hcl; exact K|apply Hp0; exact K].
  Qed.

  (* after a hit of subbuild *)
  Theorem KInv_after_sub_hit : forall Tl cf r M o,
    KInv s None -> RRel W w s [] Tl cf r M -> (forall t, In t Tl -> In t (regp o)) ->
    KInv (adopt s r o) None.
  Proof.
    intros Tl cf r M o HK RR HT.
    destruct (KInv_scratch None Tl cf r M (rp_fs r) (fst (tree_claims o) ++ k_claimedF s) HK RR) as (A & B & C).
    - auto.
    - intros t Ht. rewrite mem_path_app, <- regp_claims. rewrite (proj2 (mem_path_In _ _) (HT t Ht)). reflexivity.
    - intros t Ht. rewrite mem_path_app, Ht. apply orb_true_r.
    - intros t Ht. discriminate.
    - constructor; cbn [adopt ks_with k_fs k_need k_made k_claimedF].
      + exact A.
      + exact B.
      + intros t Ht. left. apply C. exact Ht.
  Qed.

  (* after a hit of build_file for the target p: the file of p is put in place *)
  Theorem KInv_after_file_hit : forall p c f sa skw g subs' ret' Tl cf r M,
    KInv s (Some p) -> RRel W w s [] Tl cf r M -> (forall t, In t Tl -> In t (flat_map regp subs')) ->
    p <> [] -> lookup (w_fs w) p = Some (NFile g) ->
    KInv (fst (core_file_adopt s p c f sa skw g subs' ret' r)) None.
  Proof.
    intros p c f sa skw g subs' ret' Tl cf r M HK RR HT Hne Hg.
    set (o := OBuildFile p c f sa skw subs' ret' (cmp_of c g) false false).
    pose proof (rr_cc _ _ _ _ _ _ _ _ RR) as HCC. pose proof (cc_cinv _ _ _ HCC) as HCI.
    (* p is not a directory of the scratch copy *)
    assert (Hpnd: lookup (rp_fs r) p <> Some NDir).
    { intro K. pose proof (RRel_te W w s _ _ _ _ _ RR p) as K1. rewrite K in K1. apply node_equiv_dir_r in K1.
      rewrite (lookup_overlay_ov _ _ _ p HCC) in K1. unfold ov in K1.
      destruct (existsb (is_ancestor p) Tl) eqn:Ea.
      - (* a finished target below the file p *)
        apply existsb_exists in Ea. destruct Ea as [t [Ht Ha]].
        destruct (rr_st _ _ _ _ _ _ _ _ RR t Ht) as [[]|Kf].
        pose proof (ci_file _ _ HCI _ Kf) as Hf. apply isfile_lookup in Hf. destruct Hf as [h Hh].
        pose proof (wf_ancestor _ (bi_wf _ HB) t _ p Hh Ha). congruence.
      - destruct (mem_path p (cf_files cf)); [congruence|].
        rewrite lookup_view in K1 by exact Hne. destruct (visible w p); congruence. }
    destruct (KInv_scratch (Some p) Tl cf r M (upd p (Some (NFile g)) (rp_fs r)) (fst (tree_claims o) ++ k_claimedF s) HK RR) as (A & B & C).
    - intros x Hx. rewrite lookup_upd_neq; [exact Hx|]. intro; subst x. exact (Hpnd Hx).
    - intros t Ht. rewrite mem_path_app, <- regp_claims. unfold o. cbn [regp app mem_path].
      rewrite (proj2 (mem_path_In _ _) (HT t Ht)). rewrite orb_true_r. reflexivity.
    - intros t Ht. rewrite mem_path_app, Ht. apply orb_true_r.
    - intros t Ht. inversion Ht; subst t. rewrite mem_path_app, <- regp_claims. unfold o. cbn [regp app mem_path].
      rewrite path_eqb_refl. reflexivity.
    - constructor; unfold core_file_adopt; fold o; cbn [fst adopt ks_with k_fs k_need k_made k_claimedF].
      + exact A.
      + exact B.
      + intros t Ht. left. apply C. exact Ht.
  Qed.
End KeepK.

Print Assumptions KInv_after_sub_hit.
Print Assumptions KInv_after_file_hit.
