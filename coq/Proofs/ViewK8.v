(* Proofs/ViewK8.v — C04, the link to Core, part 8: what remains, stated.

   Proved so far (ViewK3-K7): the relation Sim3 and its checker (validated on histories); Sim3
   when the root function starts (sim3_start); a query (sim3_query: related records, same
   answer, same log entry; pending_not_observable); a write of the running function
   (sim3_write); and the view equations of a build_file that runs its function:
     view_setup          after _make_dirs + started_building_file  = mkdir_all (missing_dirs) on the view
     view_claim_start    after the claim                            = try_remove at the target
     view_back_up_target after moving the old file away             = unchanged
     view_write_target   after the function wrote                   = unchanged (Core: pending)
     view_finish         after finished_building_file               = the written file appears.

   The two models do NOT agree on every program (ViewK3.Differ): the statements below carry the
   side conditions that exclude those programs.                                          *)
From Coq Require Import List String Ascii NArith ZArith Bool Arith Lia.
From FB.Base Require Import PyVal Fs.
From FB.Gen Require Import JsonUtilGen.
From FB.Spec Require Import Prog Ref Oracle Faithful.
From FB.Model Require Import Types Monad CreatedFiles BuildDirs SimpleOps Builder Persist Build Run Frame Core CoreOracle.
From FB.Spec Require Import JsonSpec.
From FB.Proofs Require Import BuildFileLaws ViewDefs ViewInit ViewXDefs ViewXFail ViewXSetup ViewR2 ViewR3 ViewK3 ViewK4.
Import ListNotations.
Open Scope list_scope.

(* ------------------------------------------------------------------ side conditions on programs *)
(* [NoNest stack pr]: no build_file target lies strictly below the target of a function that is
   running (stack = targets of the enclosing build_file functions), and a function writes its own
   target only (always true in the model).  Excludes ViewK3.Differ.nest. *)
Inductive NoNest : list path -> prog -> Prop :=
| NN_Ret : forall st v, NoNest st (Ret v)
| NN_Raise : forall st e, NoNest st (Raise e)
| NN_Ask : forall st s q k, (forall o, NoNest st (k o)) -> NoNest st (Ask s q k)
| NN_Write : forall st c k, NoNest st k -> NoNest st (Write c k)
| NN_BuildFile : forall st s p c f a kw fn k,
    (forall t, In t st -> ~ psuffix t p) ->
    (forall p' a' k', NoNest (p :: st) (fn p' a' k')) -> (forall o, NoNest st (k o)) ->
    NoNest st (BuildFile s p c f a kw fn k)
| NN_Subbuild : forall st s f a kw fn k,
    (forall a' k', NoNest st (fn a' k')) -> (forall o, NoNest st (k o)) -> NoNest st (Subbuild s f a kw fn k).

(* queries on creatable paths; reads compare METADATA (for HASH the memo invariant of HashMemo*
   would be needed) *)
Inductive QueriesOk : prog -> Prop :=
| QK_Ret : forall v, QueriesOk (Ret v)
| QK_Raise : forall e, QueriesOk (Raise e)
| QK_Ask : forall s q k, path_ok (spec_query_path q) = true -> (forall p c, q = QRead p c -> c = METADATA) ->
    (forall o, QueriesOk (k o)) -> QueriesOk (Ask s q k)
| QK_Write : forall c k, QueriesOk k -> QueriesOk (Write c k)
| QK_BuildFile : forall s p c f a kw fn k,
    (forall p' a' k', QueriesOk (fn p' a' k')) -> (forall o, QueriesOk (k o)) -> QueriesOk (BuildFile s p c f a kw fn k)
| QK_Subbuild : forall s f a kw fn k,
    (forall a' k', QueriesOk (fn a' k')) -> (forall o, QueriesOk (k o)) -> QueriesOk (Subbuild s f a kw fn k).

(* no target is a proper ancestor of an output of the previous build (then _make_room never has to
   move previous outputs away: excludes ViewK3.Differ.root2) *)
Definition TargetsClear (old : cache) (pr : prog) : Prop :=
  AllTargets (fun p => forall a, In a (cache_created_files old) -> ~ psuffix p a) pr.

(* ------------------------------------------------------------------ the goal *)
(* context of a run: the target of the running function is live and in progress; what it wrote is
   on disk / pending *)
Definition Ctx (tg : option path) (pend : option string) (T : list path) (w : world) : Prop :=
  pend_rel tg pend w /\ forall p, tg = Some p -> In p T.

Definition sim3_run_statement : Prop :=
  forall pr st tg pend subs subs' T W w s w' r l s' r' pend' l',
    AllTargets tgtP pr -> NoNest st pr -> QueriesOk pr -> TargetsClear (w_old w) pr ->
    (forall p, tg = Some p -> In p st) ->
    Sim3 W w s -> RInv2 (fun _ => True) T w -> Ctx tg pend T w -> recs_rel subs subs' ->
    run pr tg subs w = (w', (r, l)) -> core_run pr tg pend subs' s = (s', (r', pend', l')) ->
    exists W' T', Sim3 W' w' s' /\ RInv2 (fun _ => True) T' w' /\ Ctx tg pend' T' w' /\
                  r = r' /\ recs_rel l l' /\ vis_log (w_log w') = vis_log (k_log s').

(* at build level: same outcome, same log; the trees agree up to the modification time and inode
   number of the files written in this build (side conditions: the directory of the cache file is
   visible when the build starts — see ViewK3.Differ.cache_dir_invisible —, well-formed cache,
   no fault) *)
Definition build_agree_statement : Prop :=
  forall w cachefile old nm svers root w1 w2 r l,
    fs_wf (w_fs w) -> old_ok old cachefile -> WfCache old -> w_faults w = [] ->
    path_ok (dirname cachefile) = true -> isdir (w_fs w) cachefile = false -> maxlen (w_fs w) < walk_fuel ->
    vdir (start_world w cachefile old nm svers) (dirname cachefile) = true ->
    AllTargets tgtP root -> NoNest [] root -> QueriesOk root -> TargetsClear old root ->
    make_dirs (dirname cachefile) (start_world w cachefile old nm svers) = (w1, inl []) ->
    run root None [] (set_log (LInvoke "<root>" None PNone PNone :: w_log w1) w1) = (w2, (r, l)) ->
    let cr := core_build (w_fs w) cachefile old svers (w_clock w) (w_nextid w) root in
    cr_outcome cr = r /\
    (exists L0, vis_log (w_log w2) = rev (cr_log cr) ++ L0) /\
    trel (c_built (w_new w2)) (view_fs w2) (cr_tree cr).

(* ------------------------------------------------------------------ the steps that remain *)
(* (1) the failure path: after try_to_remove_file, error_building_file and the failed record, the
   view is Core's tree with the directories made for the target and needed by nothing else
   removed when empty (Core's prune).  Needs two more components in Sim3: k_need ~ the live
   targets, k_made ~ the reserved directories that this build created or found dead. *)
Definition fail_view_statement : Prop :=
  forall T W w s n d c f sa skw subs e w' ro oo,
    Sim3 W w s -> RInv T w -> In (n :: d) T ->
    bf_fail (n :: d) c f sa skw subs e w = (w', (ro, oo)) ->
    let need := del_path (n :: d) (k_need s) in
    let dead := filter (fun x => is_ancestor x (n :: d) && negb (existsb (is_ancestor x) need)) (k_made s) in
    trel W (view_fs w') (fold_left try_rmdir (deepest_first dead) (k_fs s)).

(* (2) the decision of a lookup: the mechanism (is_op_cached through the overlay) and Core (kreplay
   on a scratch copy) accept the same records.  Trivial when the old cache holds no record for the
   key; in general it needs, besides the overlay theorems, that the modification times recorded in
   the old cache are older than every file written in this build. *)
Definition lookup_agree_statement : Prop :=
  forall T W w s p f sa skw wl cached,
    Sim3 W w s -> RInv2 (fun _ => True) T w -> In p T -> cache_has_file (w_new w) p = false ->
    build_file_cache_lookup p f sa skw w = (wl, inl cached) ->
    (cached = None <->
     match cache_get_file (k_old s) p with
     | Some (OBuildFile p' c' fname' a' k' subs' ret' cmpres' raised' sf') =>
         raised' = true \/ String.eqb fname' f = false \/ kversion_equal s f = false \/
         is_equal a' sa = false \/ is_equal k' skw = false \/
         match phys (k_fs s) (k_stale s) p with
         | Some g => is_equal cmpres' (cmp_of c' g) = false \/ kreplay_list s subs' (start_replay s) = None
         | None => True
         end
     | _ => True
     end).

(* (3) the correspondence of subbuild claims (existsb py_eq on Core's list / subs_get on the
   mechanism's table) along new_start_subbuild needs py_eq to be an equivalence on subbuild keys. *)
Definition key_eq_statement : Prop :=
  forall a b c, sanitized a = true -> sanitized b = true -> sanitized c = true ->
    py_eq a a = true /\ (py_eq a b = true -> py_eq b a = true) /\
    (py_eq a b = true -> py_eq b c = true -> py_eq a c = true).
