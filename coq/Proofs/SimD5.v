(* Proofs/SimD5.v — the class okc across builds, the part that depends on the run: calm.
   [calm] (SimC0: no nested build_file record raised) is a property of the run, not of the program
   text: a function may catch the exception of a nested call and go on.  A syntactic condition that
   implies it: [NoCatch pr] — every continuation of a build_file / subbuild call re-raises when
   the call failed (k (inr e) is a Raise): no function of the program catches the exception of a
   nested call.  Then, in a build whose root function RETURNS, no call failed at all:
     [core_run_calm]   on the Core model: every record registered in the build, and every
                       suboperation recorded by a function, is calm (adopted records: by the class);
     [new_cache_calm]  transferred to the mechanism model through Sim3 (rec_rel keeps calm).
   Also: rec_ok implies ViewR2.wfrec ([rec_ok_wfrec]).                                      *)
From Coq Require Import List String Ascii NArith ZArith Bool Arith Lia.
From FB.Base Require Import PyVal Fs.
From FB.Gen Require Import JsonUtilGen.
From FB.Spec Require Import JsonSpec Prog Ref Oracle Faithful.
From FB.Model Require Import Types Monad CreatedFiles BuildDirs SimpleOps Builder Persist Build Run Frame Core CoreOracle.
From FB.Proofs Require Import FsLemmas JsonLaws ReplayLaws BuildFileLaws CoreLaws1 CoreLaws2 CoreLaws3 CoreLaws4 CoreNextRegs
     HashMemoInv ViewDefs ViewLemmas ViewInit ViewXDefs ViewH4 ViewH6 ViewR2 ViewR3 ViewK3 ViewK4 ViewK8
     SimA0 SimA2Base SimAMain SimB2 SimB7 SimC0 SimC5 SimC12 SimC14 SimC15.
Import ListNotations.
Open Scope list_scope.

(* ------------------------------------------------------------------ the syntactic condition *)
Inductive NoCatch : prog -> Prop :=
| NC_Ret : forall v, NoCatch (Ret v)
| NC_Raise : forall e, NoCatch (Raise e)
| NC_Ask : forall s q k, (forall o, NoCatch (k o)) -> NoCatch (Ask s q k)
| NC_Write : forall c k, NoCatch k -> NoCatch (Write c k)
| NC_BuildFile : forall s p c f a kw fn k,
    (forall p' a' k', NoCatch (fn p' a' k')) -> (forall o, NoCatch (k o)) ->
    (forall e, exists e', k (inr e) = Raise e') ->
    NoCatch (BuildFile s p c f a kw fn k)
| NC_Subbuild : forall s f a kw fn k,
    (forall a' k', NoCatch (fn a' k')) -> (forall o, NoCatch (k o)) ->
    (forall e, exists e', k (inr e) = Raise e') ->
    NoCatch (Subbuild s f a kw fn k).

(* ------------------------------------------------------------------ calm *)
Lemma calm_subs : forall o, calm o = true -> forallb calm (op_subs o) = true.
Proof.
  intros [q r e|p c f a k subs r cr ra sf|f a k subs r ra sf] H; cbn [calm op_subs] in *; [reflexivity| |exact H].
  apply andb_true_iff in H. apply H.
Qed.

Lemma calm_deep : forall o, calm o = true -> forall x, In x (deep o) -> calm x = true.
Proof.
  induction o as [q r e|p c f a k subs r cr ra sf IH|f a k subs r ra sf IH] using op_ind'; intros H x Hx.
  - destruct Hx as [<-|[]]. reflexivity.
  - destruct Hx as [<-|Hx]; [exact H|]. cbn [calm] in H. apply andb_true_iff in H. destruct H as [_ H].
    rewrite forallb_forall in H. rewrite Forall_forall in IH. apply in_flat_map in Hx. destruct Hx as (y & Hy & Hx).
    exact (IH y Hy (H y Hy) x Hx).
  - destruct Hx as [<-|Hx]; [exact H|]. cbn [calm] in H.
    rewrite forallb_forall in H. rewrite Forall_forall in IH. apply in_flat_map in Hx. destruct Hx as (y & Hy & Hx).
    exact (IH y Hy (H y Hy) x Hx).
Qed.

Lemma calm_regs : forall o, calm o = true ->
  (forall p x, In (p, x) (fst (tree_regs o)) -> forallb calm (op_subs x) = true) /\
  (forall k x, In (k, x) (snd (tree_regs o)) -> forallb calm (op_subs x) = true).
Proof.
  intros o H. destruct (tree_regs_spec o) as [R1 R2]. split.
  - intros p x Hin. destruct (R1 p x Hin) as (Hd & _). apply calm_subs. exact (calm_deep o H x Hd).
  - intros k x Hin. destruct (R2 k x Hin) as (Hd & _). apply calm_subs. exact (calm_deep o H x Hd).
Qed.

(* calm does not look at what rec_rel lets differ *)
Lemma rec_rel_calm : forall o o', rec_rel o o' -> calm o' = calm o.
Proof.
  induction o as [q r e|p c f a k subs r cr ra sf IH|f a k subs r ra sf IH] using op_ind'; intros o' H;
    destruct o' as [q' r' e'|p' c' f' a' k' subs' r' cr' ra' sf'|f' a' k' subs' r' ra' sf']; cbn [rec_rel] in H; try contradiction.
  - reflexivity.
  - destruct H as (-> & -> & -> & -> & -> & Hs & -> & Hv & -> & ->). cbn [calm]. f_equal.
    revert subs' Hs. induction IH as [|x rest Hx Hrest IHl]; intros [|y subs'] Hs; cbn in Hs; try contradiction; [reflexivity|].
    destruct Hs as [H1 H2]. cbn [forallb]. rewrite (Hx y H1), (IHl subs' H2). reflexivity.
  - destruct H as (-> & -> & -> & Hs & -> & -> & ->). cbn [calm].
    revert subs' Hs. induction IH as [|x rest Hx Hrest IHl]; intros [|y subs'] Hs; cbn in Hs; try contradiction; [reflexivity|].
    destruct Hs as [H1 H2]. cbn [forallb]. rewrite (Hx y H1), (IHl subs' H2). reflexivity.
Qed.

Lemma rec_rel_calm_subs : forall o o', rec_rel o o' -> forallb calm (op_subs o') = true -> forallb calm (op_subs o) = true.
Proof.
  intros o o' H K.
  destruct o as [q r e|p c f a k subs r cr ra sf|f a k subs r ra sf];
    destruct o' as [q' r' e'|p' c' f' a' k' subs' r' cr' ra' sf'|f' a' k' subs' r' ra' sf']; cbn [rec_rel] in H; try contradiction;
    cbn [op_subs] in *; [reflexivity| |].
  - destruct H as (_ & _ & _ & _ & _ & Hs & _).
    revert subs' Hs K. induction subs as [|x rest IHl]; intros [|y subs'] Hs K; cbn in Hs; try contradiction; [reflexivity|].
    destruct Hs as [H1 H2]. cbn [forallb] in *. apply andb_true_iff in K. destruct K as [K1 K2].
    rewrite <- (rec_rel_calm x y H1), K1. exact (IHl subs' H2 K2).
  - destruct H as (_ & _ & _ & Hs & _).
    revert subs' Hs K. induction subs as [|x rest IHl]; intros [|y subs'] Hs K; cbn in Hs; try contradiction; [reflexivity|].
    destruct Hs as [H1 H2]. cbn [forallb] in *. apply andb_true_iff in K. destruct K as [K1 K2].
    rewrite <- (rec_rel_calm x y H1), K1. exact (IHl subs' H2 K2).
Qed.

(* ------------------------------------------------------------------ rec_ok gives wfrec *)
Lemma rec_ok_wfrec : forall hk o st, rec_ok hk st o = true -> wfrec o = true.
Proof.
  intro hk. induction o as [q r e|p c f a k subs r cr ra sf IH|f a k subs r ra sf IH] using op_ind'; intros st H; cbn [rec_ok wfrec] in *.
  - reflexivity.
  - apply andb_true_iff in H. destruct H as [H H6]. apply andb_true_iff in H. destruct H as [H _].
    apply andb_true_iff in H. destruct H as [H _]. apply andb_true_iff in H. destruct H as [H _].
    apply andb_true_iff in H. destruct H as [H1 H2]. rewrite H1, H2. cbn [andb].
    rewrite forallb_forall in H6. rewrite Forall_forall in IH. apply forallb_forall. intros x Hx. exact (IH x Hx _ (H6 x Hx)).
  - rewrite forallb_forall in H. rewrite Forall_forall in IH. apply forallb_forall. intros x Hx. exact (IH x Hx _ (H x Hx)).
Qed.

(* ------------------------------------------------------------------ the servable records of the previous cache *)
Definition ClassCalm (old : cache) : Prop :=
  (forall p p' c' f' a' k' subs' r' cr' sf', cache_get_file old p = Some (OBuildFile p' c' f' a' k' subs' r' cr' false sf') ->
     forallb calm subs' = true) /\
  (forall k f' a' k' subs' r' sf', subs_get (c_subs old) k = Some (Some (OSubbuild f' a' k' subs' r' false sf')) ->
     forallb calm subs' = true).

Lemma okc_ClassCalm : forall c0 old, okc c0 old -> ClassCalm old.
Proof.
  intros c0 old [H1 H2]. split.
  - intros p p' c' f' a' k' subs' r' cr' sf' Eg. pose proof (H1 _ _ Eg) as K. cbn [frec_static orb] in K.
    apply andb_true_iff in K. destruct K as [_ K]. apply andb_true_iff in K. destruct K as [_ K].
    unfold subs_static in K.
    apply andb_true_iff in K. destruct K as [K _]. apply andb_true_iff in K. destruct K as [K _].
    apply andb_true_iff in K. destruct K as [K _]. apply andb_true_iff in K. destruct K as [K _].
    apply andb_true_iff in K. destruct K as [K _]. apply andb_true_iff in K. destruct K as [_ K]. exact K.
  - intros k f' a' k' subs' r' sf' Eg. destruct (H2 _ _ Eg) as (q & _ & K). cbn [srec_static orb] in K.
    do 6 (apply andb_true_iff in K; destruct K as [K _]).
    unfold subs_static in K.
    apply andb_true_iff in K. destruct K as [K _]. apply andb_true_iff in K. destruct K as [K _].
    apply andb_true_iff in K. destruct K as [K _]. apply andb_true_iff in K. destruct K as [K _].
    apply andb_true_iff in K. destruct K as [K _]. apply andb_true_iff in K. destruct K as [_ K]. exact K.
Qed.

(* ------------------------------------------------------------------ Core's tables *)
Definition KC (s : kstate) : Prop :=
  (forall p o, In (p, o) (k_newF s) -> forallb calm (op_subs o) = true) /\
  (forall k o, In (k, o) (k_newS s) -> forallb calm (op_subs o) = true).

Lemma forallb_calm_app_op : forall subs o, forallb calm subs = true ->
  (forall x, o = Some x -> calm x = true) -> forallb calm (Core.app_op subs o) = true.
Proof.
  intros subs [x|] Hs Ho; cbn [Core.app_op]; [|exact Hs]. rewrite forallb_app, Hs. cbn. rewrite (Ho x eq_refl). reflexivity.
Qed.

Section CoreCalm.
  Variable old : cache.
  Hypothesis Hclass : ClassCalm old.

  (* a function that returns: its suboperations are calm *)
  Definition kbody_calm (b : kbody) : Prop :=
    forall s s' v pend l, k_old s = old -> KC s -> b s = (s', (inl v, pend, l)) ->
      KC s' /\ forallb calm l = true /\ k_old s' = old.

  Lemma KC_adopt : forall s rr o, KC s -> calm o = true -> KC (adopt s rr o).
  Proof.
    intros s rr o [T1 T2] Ho. destruct (calm_regs o Ho) as [R1 R2]. split.
    - intros q x Hin. change (k_newF (adopt s rr o)) with (k_newF s ++ fst (tree_regs o)) in Hin.
      apply in_app_iff in Hin. destruct Hin as [Hin|Hin]; [apply (T1 q x Hin)|apply (R1 q x Hin)].
    - intros q x Hin. change (k_newS (adopt s rr o)) with (k_newS s ++ snd (tree_regs o)) in Hin.
      apply in_app_iff in Hin. destruct Hin as [Hin|Hin]; [apply (T2 q x Hin)|apply (R2 q x Hin)].
  Qed.

  Lemma core_bf_node_calm : forall p c f a kw body s s1 v o,
    (forall sa skw, kbody_calm (body sa skw)) ->
    k_old s = old -> KC s ->
    core_bf_node p c f a kw body s = (s1, (inl v, o)) ->
    KC s1 /\ (forall x, o = Some x -> calm x = true) /\ k_old s1 = old.
  Proof.
    intros p c f a kw body s s1 v o Hbody Hold HT H. unfold core_bf_node in H.
    destruct (sanitize a) as [sa|]; [|discriminate H].
    destruct (sanitize kw) as [skw|]; [|discriminate H].
    cbv zeta in H.
    destruct (claim_check (k_claimedF s) (k_cachefile s) p) as [e|]; [discriminate H|].
    destruct (setup_fs (k_fs s) (k_cachefile s) p) as [[fs1 dirs]|e]; [|discriminate H].
    set (s0 := core_s0 s p fs1 dirs) in *.
    destruct (core_hit s s0 p f sa skw) as [[[[fn subs'] ret'] rr]|] eqn:Eh.
    - inversion H; subst s1 v o. clear H.
      assert (Hsubs: forallb calm subs' = true).
      { unfold core_hit in Eh. rewrite Hold in Eh.
        destruct (cache_get_file old p) as [[q0 r0 e0|p' c' f' a' k' sb' rt' cr' ra' sf'|f0 a0 k0 sb0 r0 ra0 sf0]|] eqn:Eg; try discriminate.
        destruct ra'; [discriminate|]. destruct (negb (String.eqb f' f)); [discriminate|].
        destruct (negb (kversion_equal s f)); [discriminate|].
        destruct (negb (is_equal a' sa) || negb (is_equal k' skw)); [discriminate|].
        destruct (phys (k_fs s0) (k_stale s0) p) as [g|]; [|discriminate].
        destruct (negb (is_equal cr' (cmp_of c' g))); [discriminate|].
        destruct (kreplay_list s0 sb' (start_replay s0)) as [r1|]; [|discriminate].
        inversion Eh; subst g subs' ret' rr.
        exact (proj1 Hclass p p' c' f' a' k' sb' rt' cr' sf' Eg). }
      set (o := OBuildFile p c f sa skw subs' ret' (cmp_of c fn) false false).
      assert (Ho : calm o = true) by exact Hsubs.
      split; [|split; [intros x Hx; inversion Hx; subst; exact Ho|exact Hold]].
      assert (K : KC (adopt s0 rr o)) by (apply KC_adopt; [exact HT|exact Ho]).
      exact K.
    - destruct (body sa skw (CoreLaws3.core_start s0 p f sa skw)) as [s2 [[res pend2] bsubs]] eqn:Eb.
      destruct (core_finish s2 p c f sa skw bsubs res pend2) as [[s3 out] o3] eqn:Ef.
      inversion H; subst s1 out o. clear H.
      unfold core_finish in Ef. cbv zeta in Ef.
      destruct res as [v0|e]; [|inversion Ef].
      destruct (sanitize v0) as [sv|]; [|inversion Ef].
      destruct pend2 as [bytes|]; [|inversion Ef].
      destruct (write_file (k_fs s2) p bytes None (k_clock s2) (k_nextid s2)) as [fs3|e] eqn:Ew; [|inversion Ef].
      inversion Ef; subst s3 v o3. clear Ef.
      destruct (Hbody sa skw (CoreLaws3.core_start s0 p f sa skw) s2 v0 (Some bytes) bsubs Hold HT Eb) as (HT2 & Hb & Hold2).
      split; [|split; [intros x Hx; inversion Hx; subst; exact Hb|exact Hold2]].
      destruct HT2 as [T1 T2]. split.
      + intros q x Hin. cbn [ks_with k_newF] in Hin. apply in_app_iff in Hin.
        destruct Hin as [Hin|[Hin|[]]]; [apply (T1 q x Hin)|]. inversion Hin; subst. exact Hb.
      + exact T2.
  Qed.

  Lemma core_sb_node_calm : forall f a kw body s s1 v o,
    (forall sa skw, kbody_calm (body sa skw)) ->
    k_old s = old -> KC s ->
    core_sb_node f a kw body s = (s1, (inl v, o)) ->
    KC s1 /\ (forall x, o = Some x -> calm x = true) /\ k_old s1 = old.
  Proof.
    intros f a kw body s s1 v o Hbody Hold HT H. unfold core_sb_node in H.
    destruct (sanitize a) as [sa|] eqn:Sa; [|discriminate H].
    destruct (sanitize kw) as [skw|] eqn:Sk; [|discriminate H].
    cbv zeta in H.
    destruct (existsb (py_eq (subbuild_key f sa skw)) (k_claimedS s)); [discriminate H|].
    destruct (core_subhit s f (subbuild_key f sa skw)) as [[[subs' ret'] rr]|] eqn:Eh.
    - inversion H; subst s1 v o. clear H.
      assert (Hsubs: forallb calm subs' = true).
      { unfold core_subhit in Eh. rewrite Hold in Eh.
        destruct (subs_get (c_subs old) (subbuild_key f sa skw)) as [[[q0 r0 e0|p' c' f' a' k' sb' rt' cr' ra' sf'|f0 a0 k0 sb0 r0 ra0 sf0]|]|] eqn:Eg; try discriminate.
        destruct ra0; [discriminate|]. destruct (negb (kversion_equal s f)); [discriminate|].
        destruct (kreplay_list s sb0 (start_replay s)) as [r1|]; [|discriminate].
        inversion Eh; subst subs' ret' rr.
        exact (proj2 Hclass _ f0 a0 k0 sb0 r0 sf0 Eg). }
      set (o := OSubbuild f sa skw subs' ret' false false).
      assert (Ho : calm o = true) by exact Hsubs.
      split; [apply KC_adopt; assumption|]. split; [intros x Hx; inversion Hx; subst; exact Ho|exact Hold].
    - destruct (body sa skw (core_substart s f sa skw)) as [s2 [[res pd] bsubs]] eqn:Eb.
      inversion H; subst s1 o. clear H.
      destruct res as [v0|e]; [|discriminate H2].
      destruct (Hbody sa skw (core_substart s f sa skw) s2 v0 pd bsubs Hold HT Eb) as (HT2 & Hb & Hold2).
      assert (Ho : calm (sub_rec f sa skw bsubs (inl v0)) = true).
      { unfold sub_rec. destruct (sanitize v0); exact Hb. }
      assert (Hs : op_subs (sub_rec f sa skw bsubs (inl v0)) = bsubs).
      { unfold sub_rec. destruct (sanitize v0); reflexivity. }
      split; [|split; [intros x Hx; inversion Hx; subst; exact Ho|exact Hold2]].
      destruct HT2 as [T1 T2]. split; [exact T1|].
      intros q x Hin. cbn [core_subreg ks_with k_newS] in Hin. apply in_app_iff in Hin.
      destruct Hin as [Hin|[Hin|[]]]; [apply (T2 q x Hin)|]. inversion Hin; subst. destruct (sanitize v0); exact Hb.
  Qed.

  Theorem core_run_calm : forall pr, NoCatch pr ->
    forall tg pend subs s s' v pend' l',
      k_old s = old -> KC s -> forallb calm subs = true ->
      core_run pr tg pend subs s = (s', (inl v, pend', l')) ->
      KC s' /\ forallb calm l' = true /\ k_old s' = old.
  Proof.
    intros pr Hnc.
    induction Hnc as [v0 | e | sl q k Hk IH | c k Hk IH | sl p c f a kw fn k Hfn IHfn Hk IHk Hre
                      | sl f a kw fn k Hfn IHfn Hk IHk Hre];
      intros tg pend subs s s' v pend' l' Hold HT Hs H.
    - cbn [core_run] in H. inversion H; subst. auto.
    - cbn [core_run] in H. inversion H.
    - rewrite core_run_Ask in H. destruct sl; [eapply IH; eauto|]. cbv zeta in H.
      assert (Hs2: forallb calm (subs ++ [record_of q (record_answer (k_fs s) q)]) = true).
      { rewrite forallb_app, Hs. cbn [forallb]. unfold record_of. destruct (record_answer (k_fs s) q); reflexivity. }
      destruct (spec_answer (k_fs s) q) as [v1|c0].
      + apply (IH (inl v1) tg pend _ (klog (LAnswer q (inl v1)) s) s' v pend' l' Hold HT Hs2 H).
      + apply (IH (inr (XOS c0)) tg pend _ (klog (LAnswer q (inr c0)) s) s' v pend' l' Hold HT Hs2 H).
    - rewrite core_run_Write in H. destruct tg as [p|]; [|eapply IH; eauto].
      destruct (path_ok p); [|inversion H].
      refine (IH (Some p) (Some c) subs _ s' v pend' l' _ _ Hs H); [exact Hold|exact HT].
    - destruct sl.
      { cbn [core_run] in H. destruct (Hre (XRuntime RFinished)) as [e' Ee]. rewrite Ee in H. cbn [core_run] in H. inversion H. }
      rewrite core_run_BF_node in H.
      destruct (core_bf_node p c f a kw (fun sa skw => core_run (fn p sa skw) (Some p) None []) s) as [s1 [r o]] eqn:E.
      destruct r as [v1|e1].
      2:{ destruct (Hre e1) as [e' Ee]. rewrite Ee in H. cbn [core_run] in H. inversion H. }
      assert (Hb: forall sa skw, kbody_calm (fun s0 => core_run (fn p sa skw) (Some p) None [] s0)).
      { intros sa skw s0 s2 v2 pd l Ho0 HT0 Eb. apply (IHfn p sa skw (Some p) None [] s0 s2 v2 pd l Ho0 HT0 eq_refl Eb). }
      destruct (core_bf_node_calm p c f a kw _ s s1 v1 o Hb Hold HT E) as (HT1 & Ho & Hold1).
      apply (IHk (inl v1) tg pend (Core.app_op subs o) s1 s' v pend' l' Hold1 HT1); [|exact H].
      apply forallb_calm_app_op; assumption.
    - destruct sl.
      { cbn [core_run] in H. destruct (Hre (XRuntime RFinished)) as [e' Ee]. rewrite Ee in H. cbn [core_run] in H. inversion H. }
      rewrite core_run_SB_node in H.
      destruct (core_sb_node f a kw (fun sa skw => core_run (fn sa skw) None None []) s) as [s1 [r o]] eqn:E.
      destruct r as [v1|e1].
      2:{ destruct (Hre e1) as [e' Ee]. rewrite Ee in H. cbn [core_run] in H. inversion H. }
      assert (Hb: forall sa skw, kbody_calm (fun s0 => core_run (fn sa skw) None None [] s0)).
      { intros sa skw s0 s2 v2 pd l Ho0 HT0 Eb. apply (IHfn sa skw None None [] s0 s2 v2 pd l Ho0 HT0 eq_refl Eb). }
      destruct (core_sb_node_calm f a kw _ s s1 v1 o Hb Hold HT E) as (HT1 & Ho & Hold1).
      apply (IHk (inl v1) tg pend (Core.app_op subs o) s1 s' v pend' l' Hold1 HT1); [|exact H].
      apply forallb_calm_app_op; assumption.
  Qed.
End CoreCalm.

Print Assumptions core_run_calm.

(* ------------------------------------------------------------------ the mechanism model *)
Theorem new_cache_calm : forall w cachefile old nm svers root w1 w2 v l,
  okc (w_clock w) old -> fs_wf (w_fs w) -> old_ok old cachefile -> WfCache old -> old_keys_ok old -> w_faults w = [] ->
  path_ok (dirname cachefile) = true -> isdir (w_fs w) cachefile = false -> maxlen (w_fs w) < walk_fuel ->
  vdir (Build.start_world w cachefile old nm svers) (dirname cachefile) = true ->
  AllTargets tgtP root -> NoNest [] root -> QueriesOk root -> WfArgs root -> CmpMeta root ->
  TargetsClear old root -> TargetsApart old root ->
  NoCatch root ->
  make_dirs (dirname cachefile) (Build.start_world w cachefile old nm svers) = (w1, inl []) ->
  (* the root function returns *)
  run root None [] (set_log (LInvoke "<root>"%string None PNone PNone :: w_log w1) w1) = (w2, (inl v, l)) ->
  (forall p o, cache_get_file (w_new w2) p = Some o -> forallb calm (op_subs o) = true) /\
  (forall k o, subs_get (c_subs (w_new w2)) k = Some (Some o) -> forallb calm (op_subs o) = true).
Proof.
  intros w cachefile old nm svers root w1 w2 v l Hokc Hwf Hok HW HKo HF Hp Hnc Hml Hd Hat Hnn Hqk Hwa Hcm Hcl Hap Hno Emk Erun.
  destruct (build_run_okc w cachefile old nm svers root w1 w2 (inl v) l Hokc Hwf Hok HW HKo HF Hp Hnc Hml Hd Hat Hnn Hqk Hwa Hcm Hcl Hap Emk Erun)
    as (s1 & pd & sb & T' & W' & Ecore & [HS _]).
  pose proof (Sim4_sim3 _ _ _ _ HS) as HS3.
  set (s0 := ViewK4.core_start (w_fs w) cachefile old svers (w_clock w) (w_nextid w) (LInvoke "<root>"%string None PNone PNone :: w_log w1)) in *.
  assert (HT0: KC s0) by (split; intros q x []).
  destruct (core_run_calm old (okc_ClassCalm _ _ Hokc) root Hno None None [] s0 s1 v pd sb (eq_refl : k_old s0 = old) HT0 eq_refl Ecore)
    as ([T1 T2] & _ & _).
  split.
  - intros p o Hg. pose proof (s3_recF _ _ _ HS3 p) as K. rewrite Hg in K.
    destruct (kf_get (k_newF s1) p) as [o'|] eqn:E; [|contradiction].
    apply (rec_rel_calm_subs o o' K). apply (T1 p o'). apply kf_get_in. exact E.
  - intros k o Hg. pose proof (s3_recS _ _ _ HS3 k) as K. rewrite Hg in K.
    destruct (ks_get (k_newS s1) k) as [o'|] eqn:E; [|contradiction].
    apply (rec_rel_calm_subs o o' K). destruct (ks_get_in _ _ _ E) as [q Hq]. apply (T2 q o' Hq).
Qed.

Print Assumptions new_cache_calm.
