(* Proofs/CommitDirs3Main.v -- "after a committed build every directory of the final tree was a
   directory of the pre-state or is recorded by the new cache", and its consequences for C12 and
   C10, for ARBITRARY WELL-FORMED previous caches (CommitDirs2Main.v had them for caches
   without records, and in general only relative to four statements about cache lookups).

   Hypotheses of [commit_leaves_exact_wf] / [build_then_clean_exact_wf] /
   [failed_parents_removed_wf] / [made_dirs_recorded_wf], beyond those of commit_leaves
   (no fault, fs_wf, A, E):
     - WfCache old (ViewR2.v: successful file records carry a comparison result, recorded
       targets creatable and shallow; kept by every build for the cache it writes, ViewR7.v,
       and by the write/read cycle, ViewR8.v) and old_ok old cf (ViewInit.v);
     - every target of the program is creatable and shallow: forall p, P p -> tgtP p;
     - the cache file path is not a directory and the tree is shallow (maxlen < walk_fuel);
     - nothing has to be made for the cache file: path_ok (dirname cf) and
       vdir start (dirname cf) = true (ViewR3.RInv2_root_entry).
   No hypothesis about cache lookups: ViewR9.noraise_holds, ViewR2.bf_try2 / sb_setup2 for the
   lock-count invariant, CommitDirs3Adopt.v for YInv across validation + adoption +
   registration, CommitDirs3Run.run_Y2.
   New file of round 4; edits nothing. *)
From Coq Require Import List String Ascii NArith ZArith Bool Arith Lia Sorted.
From FB.Base Require Import PyVal Fs.
From FB.Gen Require Import JsonUtilGen.
From FB.Spec Require Import Prog Ref Oracle.
From FB.Model Require Import Types Monad CreatedFiles BuildDirs SimpleOps Builder Persist Build Run Frame.
From FB.Proofs Require Import CoreLawsChildren ViewDefs ViewLemmas ViewInit ViewXDefs ViewXInit ViewXQuery ViewXSteps ViewXFail
     ViewXSetup ViewXRun ViewXReach ViewXC04 ViewR1 ViewR2 ViewR3 ViewR9.
From FB.Proofs Require Import FsLemmas ReplayLaws FrameLaws CleanLaws RollbackDirsLaws
  RollbackDirsView RollbackDirsBase RollbackDirsInv RollbackDirsMake RollbackDirsRun
  RollbackDirsMain CommitDirsInv CommitDirsRun CommitDirsMain
  CommitDirs2Y CommitDirs2Bd CommitDirs2Step CommitDirs2Run CommitDirs2Main CommitDirs3Adopt CommitDirs3Run.
Import ListNotations.
Local Open Scope list_scope.

Section Accept3.

Variable fs0 : fsT.
Variable old : cache.
Variable cf : path.
Variable P : path -> Prop.

Hypothesis HypA : forall a t, Tgt old cf P t -> below a t = true -> ~ P a.
Hypothesis HS : forall a t, Tgt old cf P t -> below a t = true -> notorig fs0 a.
Hypothesis Hwf0 : fs_wf fs0.
Hypothesis HE : forall d, In d (c_dirs old) -> path_ok d = true.
(* every target of the program is creatable and shallow *)
Hypothesis HPt : forall p, P p -> tgtP p.

Lemma accept_dirs_exact_wf : forall nm svers pr w w' v,
  fs0 = w_fs w -> w_faults w = [] -> AllTargets P pr ->
  (forall w1 ccd, make_dirs (dirname cf) (start_world w cf old nm svers) = (w1, inl ccd) ->
     ViewR2.RInv2 (fun _ : cache => True) [] (set_log (LInvoke "<root>" None PNone PNone :: w_log w1) w1)) ->
  m_accept cf nm svers (fun w0 => run pr None [] w0) w old = (w', Done (inl v)) ->
  forall d, lookup (w_fs w') d = Some NDir -> lookup fs0 d = Some NDir \/ In d (c_dirs (w_new w')).
Proof.
  intros nm svers pr w w' v Hfs Hf Hat Hentry H. unfold m_accept in H. cbv zeta in H.
  pose proof (RInv_start fs0 old cf P w nm svers Hfs Hf) as Hr0.
  pose proof (DInv_start fs0 old cf P Hwf0 w nm svers Hfs) as HD0.
  pose proof (EInv_start fs0 old cf P w nm svers) as He0.
  assert (T0 : forall u, tcond None u) by (intros u q Y; discriminate Y).
  assert (G0 : forall u, gcond None u) by (intros u q Y; discriminate Y).
  assert (Tcf : Tgt old cf P cf) by (right; left; reflexivity).
  destruct (make_dirs (dirname cf) (start_world w cf old nm svers)) as [w1 [ccd|e1]] eqn:E1.
  2:{ destruct (roll_back [] w1) as [wr [u|e']]; discriminate H. }
  pose proof (Hentry _ _ eq_refl) as HR1.
  destruct (make_dirs_T fs0 old cf P HypA None cf Tcf _ _ _ E1 Hr0 (T0 _)) as [Hr1 _].
  pose proof (make_dirs_D fs0 old cf P HypA [] _ _ _ _ E1 Hr0 HD0
                (fun d Hne Hd => AncT_of_target old cf P cf d Tcf Hne Hd)) as R. cbn beta iota in R.
  destruct R as (made & A1 & A2 & A3 & A4 & A5).
  assert (HD1 : DInv fs0 old cf P ccd w1).
  { apply (DInv_X fs0 old cf P (made ++ []) ccd w1 A1).
    - intros d Hd. left. apply A3. rewrite app_nil_r in Hd. exact Hd.
    - intros d Hd. exact (proj1 (A4 d Hd)). }
  pose proof (make_dirs_ekeep fs0 old cf P HypA HS cf _ _ _ E1 Tcf Hr0) as Ek1.
  destruct (ekeep_E fs0 old cf P _ _ Ek1 He0) as [He1 _].
  destruct Ek1 as (K1 & _ & _ & _ & _ & K6 & K7 & K8).
  (* facts about the cache-file directories *)
  assert (Trk1 : forall d, ~ tracked (w_bd w1) d).
  { intros d [Y|Y]; [rewrite K7 in Y | rewrite K8 in Y]; exact Y. }
  assert (Hccd : forall d, In d ccd -> below d cf = true).
  { intros d Hd. destruct (A4 d Hd) as (_ & Hne & Hbel).
    destruct cf as [|n0 d0]; cbn [dirname tl] in Hbel.
    - destruct Hbel as [Hbel|Hbel]; [contradiction | discriminate Hbel].
    - destruct Hbel as [->|Hbel]; [apply below_self_cons | apply below_cons; exact Hbel]. }
  assert (Hanc : forall d, below d cf = true -> lookup fs0 d = Some NDir \/ In d ccd).
  { intros d Hb. destruct HD1 as (Wf1 & D2 & _).
    assert (Hd1 : lookup (w_fs w1) d = Some NDir).
    { destruct cf as [|n0 d0]; [discriminate Hb|]. cbn [dirname tl] in A5.
      apply below_cons_inv in Hb. destruct Hb as [->|Hb]; [exact A5|].
      exact (wf_ancestor_dir _ Wf1 d0 NDir d A5 Hb). }
    destruct (D2 d Hd1) as [Y|[Y|Y]]; [left; exact Y | exfalso; exact (Trk1 d Y) | right; exact Y]. }
  (* YInv when the root function starts *)
  set (w1' := set_log (LInvoke "<root>" None PNone PNone :: w_log w1) w1) in *.
  assert (HY1 : YInv fs0 cf w1').
  { unfold YInv, Nn. cbn [w_fs w_bd set_log w1'].
    assert (NoN : forall d, lookup (w_fs w1) d = Some NDir -> lookup fs0 d <> Some NDir -> below d cf = false -> False).
    { intros d N1 N2 N4. destruct HD1 as (_ & D2 & _).
      destruct (D2 d N1) as [Y|[Y|Y]]; [contradiction | exact (Trk1 d Y)|].
      rewrite (Hccd d Y) in N4. discriminate N4. }
    split; [|split].
    - intros d (N1 & N2 & _ & N4). exfalso. exact (NoN d N1 N2 N4).
    - intros a Ha. unfold in_counts in Ha. rewrite K6 in Ha. cbn in Ha. discriminate Ha.
    - intros d (N1 & N2 & _ & N4). exfalso. exact (NoN d N1 N2 N4). }
  match type of H with (let '(_, _) := ?Z in _) = _ => destruct Z as [w2 [res x]] eqn:E2 end.
  destruct res as [v0|e2]; [|destruct (roll_back ccd w2) as [wr [u|e']]; discriminate H].
  destruct (GRel_set_log fs0 old cf P ccd None (LInvoke "<root>" None PNone PNone :: w_log w1) w1 (conj Hr1 HD1) He1 (T0 _) (G0 _))
    as (F1' & _ & E1' & _). fold w1' in F1', E1'.
  pose proof (run_Y2 fs0 old cf P ccd HypA HS Hwf0 HPt pr Hat None [] [] w1' w2 _ HR1 F1' E1' (T0 _) (G0 _)
                (fun p Hp => ltac:(discriminate Hp)) HY1 E2) as HY2.
  destruct (run_G fs0 old cf P ccd HypA HS pr Hat None [] _ _ _ E2 F1' E1' (T0 _) (G0 _)) as (F2 & _ & He2 & _).
  destruct F2 as [Hr2 HD2].
  destruct (bd_pre cf ccd w2) as [w3 [err|e3]] eqn:E3; [|destruct (roll_back ccd w3) as [wr [u|e']]; discriminate H].
  destruct (write_cache w3) as [w4 [u4|e4]] eqn:E4.
  2:{ destruct (try_to_remove_file cf w4) as [w5 r5]. destruct (roll_back ccd w5) as [wr [u|e']]; discriminate H. }
  destruct (commit err w4) as [w5 [u5|e5]] eqn:E5; [|discriminate H].
  inversion H; subst w5 v0; clear H.
  pose proof Hr2 as (Hf2 & Bo2 & Cc2 & I1 & _ & _ & I4 & I5 & _ & _).
  destruct HD2 as (Wf2 & D2 & D3 & DW & C1).
  destruct He2 as (Z1 & (Z2 & Z4) & XB & XS & X6).
  destruct (bd_pre_spec _ _ _ _ _ E3 Hf2) as (Eerr & N3 & B3 & Hf3 & O3 & C3 & Fr3 & Wf3 & Dcf3).
  destruct (write_cache_spec _ _ _ E4 Hf3) as (j & fj & Ej & Lcf & Jf & Fr4 & N4 & B4 & Hf4 & O4 & C4 & Wf4 & Ncf).
  rewrite C3, Cc2 in Lcf, Fr4, Ncf.
  set (newc := new_cache_of ccd w2) in *.
  assert (NP : forall q, ~ pending (w_new w4) q).
  { intro q. rewrite N4. eapply cache_to_json_no_pending; eauto. }
  assert (Cc4 : w_cachefile w4 = cf) by congruence.
  assert (Bo4 : w_old w4 = old) by congruence.
  rewrite commit_unfold in E5. rewrite Bo4 in E5.
  apply bind_inv in E5. destruct E5 as [(wa & ua & Ea & E5) | (e & Ea & _)].
  2:{ destruct (rm_old_loop _ _ _ _ Ea Hf4 NP) as (Y & _). discriminate Y. }
  destruct (rm_old_loop _ _ _ _ Ea Hf4 NP) as (_ & Hfa & Na & Oa & Ca & Ba & Fra & Rma).
  apply bind_inv in E5. destruct E5 as [(wb & extra2 & Eb & E5) | (e & Eb & _)].
  2:{ destruct (vdirs_absent_spec _ _ _ _ Eb HE) as (x0 & Y & _). discriminate Y. }
  destruct (vdirs_absent_spec _ _ _ _ Eb HE) as (x0 & Y & Vb & Xb). inversion Y; subst x0; clear Y.
  destruct Vb as ((Fb1 & _ & _ & _ & Fb5 & _ & _ & _ & _ & Fb10 & _) & _).
  assert (Hfb : w_faults wb = []) by congruence.
  destruct (remove_empty_dirs_spec _ _ _ _ E5 Hfb) as (_ & _ & Bc & Rc3 & Rc4 & _).
  pose proof (remove_empty_dirs_new _ _ _ _ E5) as (Nc & _ & _).
  set (L := union_paths err extra2) in *.
  assert (Nfin : w_new w' = newc) by congruence.
  assert (L24 : forall q, q <> cf -> lookup (w_fs w4) q = lookup (w_fs w2) q).
  { intros q Nq. rewrite (Fr4 q Nq). apply Fr3. exact Nq. }
  assert (Hdirs : forall d, In d (c_dirs newc) <-> In d (bd_created (w_bd w2)) \/ In d ccd).
  { intro d. subst newc. unfold new_cache_of. cbn [c_dirs cache_with]. rewrite Z1, In_union_paths, in_app_iff, filter_In.
    cbn [In]. split.
    - intros [[]|[Y|[Y _]]]; auto.
    - intros [Y|Y]; [right; left; exact Y|]. destruct (mem_path d (bd_created (w_bd w2))) eqn:Em.
      + right; left. apply mem_path_In. exact Em.
      + right; right. split; [exact Y | reflexivity]. }
  (* every entry of the final tree, except the cache file, was there when the root function returned *)
  assert (Down : forall q y, q <> cf -> lookup (w_fs w') q = Some y -> lookup (w_fs w2) q = Some y).
  { intros q y Nq Hq. rewrite <- (L24 q Nq).
    assert (Y : lookup (w_fs wb) q = Some y) by (destruct (Rc3 q) as [Y|(_ & _ & Y)]; congruence).
    rewrite Fb1 in Y. destruct (Fra q) as [Z|(g' & _ & Z & _)]; congruence. }
  assert (Lcf' : lookup (w_fs w') cf = Some (NFile fj)).
  { assert (Y : lookup (w_fs wa) cf = Some (NFile fj)).
    { destruct (Fra cf) as [Z|(g' & _ & _ & Z)]; [congruence|]. destruct Z as (Z & _). congruence. }
    rewrite <- Fb1 in Y. destruct (Rc3 cf) as [Z|(_ & Z & _)]; congruence. }
  (* the directories in question *)
  assert (Gone : forall d, Nn fs0 cf w2 d -> lookup (w_fs w') d <> Some NDir).
  { apply (depth_ind (w_fs w2) (fun d => Nn fs0 cf w2 d -> lookup (w_fs w') d <> Some NDir)).
    intros d IH HN Hd. pose proof HN as (M1 & M2 & M3 & M4).
    assert (Hne : d <> []) by (intro K; subst d; apply M2; reflexivity).
    assert (HL : In d L).
    { subst L. apply In_union_paths. left. rewrite Eerr. apply In_fold_del.
      assert (Hnc : ~ In d ccd) by (intro K; rewrite (Hccd d K) in M4; discriminate M4).
      split.
      - destruct (D2 d M1) as [Y|[[Y|Y]|Y]]; [contradiction | contradiction | exact Y | contradiction].
      - intro K. apply filter_In in K. destruct K as [K _]. contradiction. }
    destruct (Rc4 d HL Hne Hd) as [n Hn].
    destruct (lookup (w_fs w') (n :: d)) as [y|] eqn:Ey; [|contradiction].
    assert (Ncf' : n :: d <> cf).
    { intro K. rewrite <- K in M4. rewrite below_self_cons in M4. discriminate M4. }
    pose proof (Down _ _ Ncf' Ey) as Ey2.
    assert (Hex : lexists (w_fs w2) (n :: d) = true) by (unfold lexists; rewrite Ey2; reflexivity).
    pose proof (Nn_child fs0 cf Hwf0 w2 d n HY2 HN Hex) as HNc. pose proof HNc as (C1' & _).
    assert (y = NDir) by congruence. subst y.
    exact (IH n (proj2 (children_In _ _ _) Hex) HNc Ey). }
  intros d Hd. rewrite Nfin.
  destruct (lookup fs0 d) as [[g|]|] eqn:E0; [right | left; reflexivity | right].
  all: assert (Nd : d <> cf) by (intro K; subst d; congruence).
  all: pose proof (Down d NDir Nd Hd) as Hd2.
  all: destruct (in_dec path_eq_dec d (bd_created (w_bd w2))) as [Hc|Hc]; [apply Hdirs; left; exact Hc|].
  all: destruct (below d cf) eqn:Ebel;
    [destruct (Hanc d Ebel) as [Y|Y]; [congruence | apply Hdirs; right; exact Y]|].
  all: exfalso; apply (Gone d); [|exact Hd]; split; [exact Hd2|]; split; [rewrite E0; discriminate|]; split; assumption.
Qed.

End Accept3.

(* ================================================================== *)
(* The theorems                                                        *)
(* ================================================================== *)

Theorem commit_leaves_exact_wf : forall cf nm vers svers root w w' v (P : path -> Prop),
  w_faults w = [] ->
  sanitize vers = Some svers ->
  AllTargets P root ->
  (* C *)
  fs_wf (w_fs w) ->
  (* A *)
  (forall a t, (P t \/ t = cf \/ In t (cache_targets (old_cache_of (w_fs w) cf nm svers))) ->
     below a t = true -> (forall f, lookup (w_fs w) a <> Some (NFile f)) /\ ~ P a) ->
  (* E *)
  (forall d, In d (c_dirs (old_cache_of (w_fs w) cf nm svers)) -> path_ok d = true) ->
  (* the previous cache is well formed *)
  WfCache (old_cache_of (w_fs w) cf nm svers) ->
  old_ok (old_cache_of (w_fs w) cf nm svers) cf ->
  (* the targets are creatable and shallow, the tree is shallow, the cache file path is not a directory *)
  (forall p, P p -> tgtP p) ->
  isdir (w_fs w) cf = false -> maxlen (w_fs w) < walk_fuel ->
  (* nothing has to be made for the cache file *)
  path_ok (dirname cf) = true ->
  vdir (start_world w cf (old_cache_of (w_fs w) cf nm svers) nm svers) (dirname cf) = true ->
  run_build cf nm vers root w = (w', Done (inl v)) ->
  forall d, lookup (w_fs w') d = Some NDir ->
    lookup (w_fs w) d = Some NDir \/ In d (c_dirs (w_new w')).
Proof.
  intros cf nm vers svers root w w' v P Hf Hsv Hat Hwf HA HE HW Hok HPt Hnc Hml Hpo Hvd H.
  set (old := old_cache_of (w_fs w) cf nm svers) in *.
  unfold run_build in H.
  destruct (m_build cf nm vers (fun w0 => run root None [] w0) w) as [w1 r1] eqn:E.
  inversion H; subst w' r1; clear H.
  assert (HA2 : forall a t, Tgt old cf P t -> below a t = true -> ~ P a) by (intros a t Ht Hb; exact (proj2 (HA a t Ht Hb))).
  assert (HS : forall a t, Tgt old cf P t -> below a t = true -> notorig (w_fs w) a) by (intros a t Ht Hb; exact (proj1 (HA a t Ht Hb))).
  assert (Hentry : forall wx ccd, make_dirs (dirname cf) (start_world w cf old nm svers) = (wx, inl ccd) ->
            ViewR2.RInv2 (fun _ : cache => True) [] (set_log (LInvoke "<root>" None PNone PNone :: w_log wx) wx)).
  { intros wx ccd Ex.
    destruct (RInv2_root_entry (fun _ => True) w cf old nm svers Hwf Hok Hf Hpo Hnc Hml HW I Hvd) as (wy & Ey & HRy).
    assert (wx = wy) by congruence. subst wy. exact HRy. }
  assert (G : forall old0, old0 = old -> m_accept cf nm svers (fun w0 => run root None [] w0) w old0 = (w1, Done (inl v)) ->
              forall d, lookup (w_fs (end_build w1)) d = Some NDir ->
                lookup (w_fs w) d = Some NDir \/ In d (c_dirs (w_new (end_build w1)))).
  { intros old0 -> Y.
    exact (accept_dirs_exact_wf (w_fs w) old cf P HA2 HS Hwf HE HPt nm svers root w w1 v eq_refl Hf Hat Hentry Y). }
  rewrite m_build_unfold, Hsv in E. subst old. unfold old_cache_of in G |- *.
  destruct (lookup (w_fs w) cf) as [[g|]|].
  - destruct (cache_of_json (f_json g)) as [old0| |]; try discriminate E.
    destruct (String.eqb (c_name old0) nm); [|discriminate E]. exact (G old0 eq_refl E).
  - discriminate E.
  - exact (G _ eq_refl E).
Qed.

(* C10: an error-created directory that the new cache does not record and that was not a
   directory before the build is not on disk at the end of the build *)
Theorem failed_parents_removed_wf : forall cf nm vers svers root w w' v (P : path -> Prop),
  w_faults w = [] -> sanitize vers = Some svers -> AllTargets P root -> fs_wf (w_fs w) ->
  (forall a t, (P t \/ t = cf \/ In t (cache_targets (old_cache_of (w_fs w) cf nm svers))) ->
     below a t = true -> (forall f, lookup (w_fs w) a <> Some (NFile f)) /\ ~ P a) ->
  (forall d, In d (c_dirs (old_cache_of (w_fs w) cf nm svers)) -> path_ok d = true) ->
  WfCache (old_cache_of (w_fs w) cf nm svers) -> old_ok (old_cache_of (w_fs w) cf nm svers) cf ->
  (forall p, P p -> tgtP p) -> isdir (w_fs w) cf = false -> maxlen (w_fs w) < walk_fuel ->
  path_ok (dirname cf) = true ->
  vdir (start_world w cf (old_cache_of (w_fs w) cf nm svers) nm svers) (dirname cf) = true ->
  run_build cf nm vers root w = (w', Done (inl v)) ->
  forall d, In d (bd_err_created (w_bd w')) -> ~ In d (c_dirs (w_new w')) -> lookup (w_fs w) d <> Some NDir ->
    lookup (w_fs w') d <> Some NDir.
Proof.
  intros cf nm vers svers root w w' v P Hf Hsv Hat Hwf HA HE HW Hok HPt Hnc Hml Hpo Hvd H.
  apply (failed_parents_removed (w_fs w) w').
  exact (commit_leaves_exact_wf cf nm vers svers root w w' v P Hf Hsv Hat Hwf HA HE HW Hok HPt Hnc Hml Hpo Hvd H).
Qed.

(* the directories the build made and left behind are exactly the recorded ones *)
Theorem made_dirs_recorded_wf : forall cf nm vers svers root w w' v (P : path -> Prop),
  w_faults w = [] -> sanitize vers = Some svers -> AllTargets P root -> fs_wf (w_fs w) ->
  (forall a t, (P t \/ t = cf \/ In t (cache_targets (old_cache_of (w_fs w) cf nm svers))) ->
     below a t = true -> (forall f, lookup (w_fs w) a <> Some (NFile f)) /\ ~ P a) ->
  (forall d, In d (c_dirs (old_cache_of (w_fs w) cf nm svers)) -> path_ok d = true) ->
  WfCache (old_cache_of (w_fs w) cf nm svers) -> old_ok (old_cache_of (w_fs w) cf nm svers) cf ->
  (forall p, P p -> tgtP p) -> isdir (w_fs w) cf = false -> maxlen (w_fs w) < walk_fuel ->
  path_ok (dirname cf) = true ->
  vdir (start_world w cf (old_cache_of (w_fs w) cf nm svers) nm svers) (dirname cf) = true ->
  run_build cf nm vers root w = (w', Done (inl v)) ->
  forall d, lookup (w_fs w) d <> Some NDir ->
    (lookup (w_fs w') d = Some NDir <-> In d (c_dirs (w_new w'))).
Proof.
  intros cf nm vers svers root w w' v P Hf Hsv Hat Hwf HA HE HW Hok HPt Hnc Hml Hpo Hvd H.
  apply (made_dirs_recorded (w_fs w) (old_cache_of (w_fs w) cf nm svers) cf w').
  - exact (commit_leaves cf nm vers svers root w w' v P Hf Hsv Hat Hwf HA HE H).
  - exact (commit_leaves_exact_wf cf nm vers svers root w w' v P Hf Hsv Hat Hwf HA HE HW Hok HPt Hnc Hml Hpo Hvd H).
Qed.

(* C12: a committed build followed by clean leaves what was there before the build *)
Theorem build_then_clean_exact_wf : forall cf nm vers svers root w w' v (P : path -> Prop) nm' f c',
  w_faults w = [] -> sanitize vers = Some svers -> AllTargets P root -> fs_wf (w_fs w) ->
  (forall a t, (P t \/ t = cf \/ In t (cache_targets (old_cache_of (w_fs w) cf nm svers))) ->
     below a t = true -> (forall f, lookup (w_fs w) a <> Some (NFile f)) /\ ~ P a) ->
  (forall d, In d (c_dirs (old_cache_of (w_fs w) cf nm svers)) -> path_ok d = true) ->
  WfCache (old_cache_of (w_fs w) cf nm svers) -> old_ok (old_cache_of (w_fs w) cf nm svers) cf ->
  (forall p, P p -> tgtP p) -> isdir (w_fs w) cf = false -> maxlen (w_fs w) < walk_fuel ->
  path_ok (dirname cf) = true ->
  vdir (start_world w cf (old_cache_of (w_fs w) cf nm svers) nm svers) (dirname cf) = true ->
  run_build cf nm vers root w = (w', Done (inl v)) ->
  w_faults w' = [] ->
  lookup (w_fs w') cf = Some (NFile f) -> cache_of_json (f_json f) = ReadOk c' ->
  cache_created_files c' = cache_created_files (w_new w') -> c_dirs c' = c_dirs (w_new w') ->
  (match nm' with Some n => String.eqb (c_name c') n | None => true end) = true ->
  exists w'', m_clean cf nm' w' = (w'', Done (inl PNone)) /\
    (forall p g, lookup (w_fs w'') p = Some (NFile g) -> lookup (w_fs w) p = Some (NFile g)) /\
    (forall d, lookup (w_fs w'') d = Some NDir -> lookup (w_fs w) d = Some NDir).
Proof.
  intros cf nm vers svers root w w' v P nm' f c' Hf Hsv Hat Hwf HA HE HW Hok HPt Hnc Hml Hpo Hvd H Hf' Hl Hc E1 E2 Hn.
  apply (clean_after_commit_exact (w_fs w) (old_cache_of (w_fs w) cf nm svers) cf w' nm' f c' Hwf); try assumption.
  - exact (commit_leaves cf nm vers svers root w w' v P Hf Hsv Hat Hwf HA HE H).
  - exact (commit_leaves_exact_wf cf nm vers svers root w w' v P Hf Hsv Hat Hwf HA HE HW Hok HPt Hnc Hml Hpo Hvd H).
Qed.

Print Assumptions accept_dirs_exact_wf.
Print Assumptions commit_leaves_exact_wf.
Print Assumptions failed_parents_removed_wf.
Print Assumptions made_dirs_recorded_wf.
Print Assumptions build_then_clean_exact_wf.
