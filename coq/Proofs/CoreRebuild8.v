(* Proofs/CoreRebuild8.v — the rebuild, node by node: started in a state that matches the state the
   first build was in at the same node (same tree node for node, same claims, the committed cache
   as old cache, the old outputs in the stale store), [core_run] serves every call of the root
   function from the cache, returns what the first build returned and ends in the matching state;
   it logs the root-level answers only. *)
From Coq Require Import List String Ascii NArith ZArith Bool Arith Lia Btauto.
From FB.Base Require Import PyVal Fs.
From FB.Gen Require Import JsonUtilGen.
From FB.Spec Require Import JsonSpec Prog Ref Oracle Faithful.
From FB.Model Require Import Types SimpleOps Builder Persist Core CoreOracle CoreCache.
From FB.Proofs Require Import FsLemmas JsonLaws PersistLaws CleanLaws CoreLawsChildren CoreLawsJson CoreLaws1 CoreLaws2 CoreLaws3 CoreLaws4 CoreLaws5 CoreLaws6
     CoreRebuildDefs CoreRebuild1 CoreRebuild2 CoreRebuild3 CoreRebuild4 CoreRebuild5 CoreRebuild6 CoreRebuild7.
Import ListNotations.
Local Open Scope list_scope.

Section Rebuild.
  Variable t0 : fsT.
  Variable s1 : kstate.               (* the state the first build ended in *)
  Variable nm : string.
  Variable vers : pyval.
  Variable stale0 : list (path * fnode).
  Let new := cache_of_state nm s1.

  Hypothesis HG1 : GoodEnd t0 s1.
  Hypothesis HDF : distinct_paths (map fst (k_newF s1)) = true.
  Hypothesis HDS : distinct_keys (map fst (k_newS s1)) = true.
  Hypothesis Hvs : sanitized vers = true.
  Hypothesis Hv1 : k_vers s1 = vers.
  Hypothesis HSI : forall q g, mem_path q (k_claimedF s1) = true -> file_at (k_fs s1) q g -> stale_get stale0 q = Some g.

  (* state of the rebuild against the state of the first build at the same node *)
  Record KM (s2 s : kstate) : Prop := mkKM {
    km_fs : leq (k_fs s2) (k_fs s);
    km_need : k_need s2 = k_need s;
    km_made : k_made s2 = k_made s;
    km_cF : same_paths (k_claimedF s2) (k_claimedF s);
    km_cS : same_keys (k_claimedS s2) (k_claimedS s);
    km_cf : k_cachefile s2 = k_cachefile s;
    km_old : k_old s2 = new;
    km_vers : k_vers s2 = vers;
    km_stale : forall q, mem_path q (k_claimedF s2) = false -> stale_get (k_stale s2) q = stale_get stale0 q
  }.

  Lemma kversion_KM : forall s2 s, KM s2 s -> forall f, kversion_equal s2 f = true.
  Proof.
    intros s2 s K f. unfold kversion_equal, func_version. rewrite (km_old _ _ K), (km_vers _ _ K).
    cbn [new cache_of_state c_fvers]. rewrite Hv1. apply dict_get_refl. exact Hvs.
  Qed.

  Lemma bf_setup_KM : forall s2 s p, KM s2 s ->
    match bf_setup s p with
    | inr e => bf_setup s2 p = inr e
    | inl (fs1, dirs) => exists fs1', bf_setup s2 p = inl (fs1', dirs) /\ leq fs1' fs1
    end.
  Proof.
    intros s2 s p K. unfold bf_setup, claim_check. rewrite (km_cF _ _ K p), (km_cf _ _ K).
    destruct (mem_path p (k_claimedF s)); [reflexivity|]. destruct (path_eqb p (k_cachefile s)); [reflexivity|].
    pose proof (leq_setup_fs _ _ (k_cachefile s) p (km_fs _ _ K)) as R.
    destruct (setup_fs (k_fs s) (k_cachefile s) p) as [[fs1 dirs]|e], (setup_fs (k_fs s2) (k_cachefile s) p) as [[fs1' dirs']|e'];
      simpl in R; try contradiction.
    - destruct R as [L ->]. eauto.
    - congruence.
  Qed.

  Lemma KM_log : forall s2 s e e', KM s2 s -> KM (klog e s2) (klog e' s).
  Proof. intros s2 s e e' [A B C D E F G H I]. constructor; assumption. Qed.
  Lemma KM_tick : forall s2 s, KM s2 s -> KM (ktick s2) (ktick s).
  Proof. intros s2 s [A B C D E F G H I]. constructor; assumption. Qed.

  (* a target whose final node is a file was absent when its call started *)
  Lemma none_if_final_file : forall s0 q g, CB t0 s0 ->
    (isdir (k_fs s0) q = true -> isdir (k_fs s1) q = true) ->
    mem_path q (k_claimedF s0) = false -> isfile t0 q = false -> file_at (k_fs s1) q g ->
    lookup (k_fs s0) q = None.
  Proof.
    intros s0 q g C Hd Hc Ht Hf. unfold isdir in Hd. unfold isfile in Ht. unfold file_at in Hf.
    destruct (C q) as [E|[_ [[E _]|[g' [_ E]]]]]; [| |congruence].
    - rewrite <- E in Ht. destruct (lookup (k_fs s0) q) as [[x|]|]; try discriminate; [|reflexivity].
      specialize (Hd eq_refl). rewrite Hf in Hd. discriminate.
    - rewrite E in Hd. specialize (Hd eq_refl). rewrite Hf in Hd. discriminate.
  Qed.

  Lemma phys_rebuild : forall s2 s B2 fsB q g, KM s2 s ->
    leq (k_fs B2) fsB -> lookup fsB q = None -> k_stale B2 = k_stale s2 ->
    mem_path q (k_claimedF s) = false -> mem_path q (k_claimedF s1) = true -> file_at (k_fs s1) q g ->
    phys (k_fs B2) (k_stale B2) q = Some g.
  Proof.
    intros s2 s B2 fsB q g K L Hn Es Hc H1 Hf. unfold phys. rewrite (L q), Hn, Es.
    rewrite (km_stale _ _ K); [apply HSI; assumption|]. rewrite (km_cF _ _ K q). exact Hc.
  Qed.

  Lemma registered_t0 : forall s q, kconst s s1 -> In q (map fst (k_newF s)) -> isfile t0 q = false.
  Proof.
    intros s q K Hq. apply in_map_iff in Hq. destruct Hq as [e [E1 E2]]. destruct HG1 as [G1 _].
    destruct (G1 e (kconst_newF _ _ K e E2)) as [_ Hx]. rewrite E1 in Hx. exact Hx.
  Qed.

  Lemma cache_new_file : forall p o, In (p, o) (k_newF s1) -> cache_get_file new p = Some o.
  Proof.
    intros p o H. unfold cache_get_file. change (c_files new) with (files_of (k_newF s1)).
    rewrite (files_of_get _ _ _ HDF H). reflexivity.
  Qed.

  Lemma cache_new_sub : forall k o, py_eq k k = true -> In (k, o) (k_newS s1) -> subs_get (c_subs new) k = Some (Some o).
  Proof. intros k o R H. change (c_subs new) with (subs_of (k_newS s1)). apply subs_of_get1; assumption. Qed.

  (* the state after a build_file call served from the cache in the rebuild *)
  Lemma KM_after_bf : forall s2 s p c fname sa skw subsX retX cmpX fs1' dirs r2' g sT,
    KM s2 s -> forallb op_clean subsX = true ->
    (forall q, lookup (upd p (Some (NFile g)) (rp_fs r2')) q = lookup (k_fs sT) q) ->
    rp_need r2' = k_need sT -> rp_made r2' = k_made sT ->
    same_paths (k_claimedF sT) (fst (cll subsX) ++ p :: k_claimedF s) ->
    same_keys (k_claimedS sT) (snd (cll subsX) ++ k_claimedS s) ->
    k_cachefile sT = k_cachefile s ->
    KM (core_put (adopt (core_s0 s2 p fs1' dirs) r2' (OBuildFile p c fname sa skw subsX retX cmpX false false)) p g) sT.
  Proof.
    intros s2 s p c fname sa skw subsX retX cmpX fs1' dirs r2' g sT K Hc Hfs Hn Hm HcF HcS Hcf.
    constructor.
    - exact Hfs.
    - exact Hn.
    - exact Hm.
    - intro q. rewrite (HcF q). cbn [core_put adopt ks_with k_claimedF core_s0]. rewrite tree_claims_BF. cbn [fst].
      rewrite ?mem_path_app. cbn [mem_path]. rewrite ?mem_path_app, (km_cF _ _ K q). btauto.
    - intro q. rewrite (HcS q). cbn [core_put adopt ks_with k_claimedS core_s0]. rewrite tree_claims_BF. cbn [snd].
      rewrite ?existsb_app, (km_cS _ _ K q). reflexivity.
    - rewrite Hcf. exact (km_cf _ _ K).
    - exact (km_old _ _ K).
    - exact (km_vers _ _ K).
    - intros q Hq. cbn [core_put adopt ks_with k_claimedF k_stale core_s0] in *. rewrite tree_claims_BF in Hq. cbn [fst] in Hq.
      rewrite mem_path_app in Hq. cbn [mem_path] in Hq. apply orb_false_iff in Hq. destruct Hq as [Hq Hq3].
      apply orb_false_iff in Hq. destruct Hq as [Hq1 Hq2].
      assert (Hqp : q <> p) by (intro; subst; rewrite path_eqb_refl in Hq1; discriminate).
      rewrite stale_del_other by exact Hqp. rewrite fold_stale_del_other.
      + apply (km_stale _ _ K). exact Hq3.
      + rewrite tree_outputs_BF. intros [E|Hin]; [congruence|].
        apply (outputs_claims_l _ Hc) in Hin. apply mem_path_In in Hin. congruence.
  Qed.

  Lemma KM_after_sb : forall s2 s fname sa skw subsX retX r2' sT,
    KM s2 s -> forallb op_clean subsX = true ->
    leq (rp_fs r2') (k_fs sT) -> rp_need r2' = k_need sT -> rp_made r2' = k_made sT ->
    same_paths (k_claimedF sT) (fst (cll subsX) ++ k_claimedF s) ->
    same_keys (k_claimedS sT) (snd (cll subsX) ++ subbuild_key fname sa skw :: k_claimedS s) ->
    k_cachefile sT = k_cachefile s ->
    KM (adopt s2 r2' (OSubbuild fname sa skw subsX retX false false)) sT.
  Proof.
    intros s2 s fname sa skw subsX retX r2' sT K Hc Hfs Hn Hm HcF HcS Hcf.
    constructor.
    - exact Hfs.
    - exact Hn.
    - exact Hm.
    - intro q. rewrite (HcF q). cbn [adopt ks_with k_claimedF]. rewrite tree_claims_SB. cbn [fst].
      rewrite ?mem_path_app, (km_cF _ _ K q). reflexivity.
    - intro q. rewrite (HcS q). cbn [adopt ks_with k_claimedS]. rewrite tree_claims_SB. cbn [snd].
      rewrite ?existsb_app. cbn [existsb]. rewrite ?existsb_app, (km_cS _ _ K q). btauto.
    - rewrite Hcf. exact (km_cf _ _ K).
    - exact (km_old _ _ K).
    - exact (km_vers _ _ K).
    - intros q Hq. cbn [adopt ks_with k_claimedF k_stale] in *. rewrite tree_claims_SB in Hq. cbn [fst] in Hq.
      rewrite mem_path_app in Hq. apply orb_false_iff in Hq. destruct Hq as [Hq1 Hq3].
      rewrite fold_stale_del_other.
      + apply (km_stale _ _ K). exact Hq3.
      + cbn [tree_outputs]. intro Hin. apply (outputs_claims_l _ Hc) in Hin. apply mem_path_In in Hin. congruence.
  Qed.

  Lemma rev_cons_app : forall {A} (x : A) l r, rev (x :: l) ++ r = rev l ++ x :: r.
  Proof. intros. cbn [rev]. rewrite <- app_assoc. reflexivity. Qed.

  Theorem rebuild_run : forall pr tgt pend s s' out pend' recs,
    Run pr tgt pend s s' out pend' recs -> s' = s1 ->
    CB t0 s -> NCF s ->
    forall z2, KM z2 s -> forall sb2 sbT,
    exists s2', core_run pr tgt pend sb2 z2 = (s2', (out, pend', sb2 ++ recs)) /\ KM s2' s1 /\
                k_log s2' = rev (core_top pr tgt pend sbT s) ++ k_log z2.
  Proof.
    intros pr tgt pend s s' out pend' recs H. induction H; intros Es HC HN z2 K sb2 sbT; try (rename z2 into s2).
    - subst. exists s2. rewrite app_nil_r. auto.
    - subst. exists s2. rewrite app_nil_r. auto.
    - (* stale Ask *)
      destruct (IHRun Es HC HN s2 K sb2 sbT) as [s2' [E1 [K1 L1]]]. exists s2'. rewrite core_run_Ask. auto.
    - (* Ask *)
      assert (Ea : spec_answer (k_fs s2) q = spec_answer (k_fs s) q) by (apply leq_spec_answer; exact (km_fs _ _ K)).
      assert (Er : record_answer (k_fs s2) q = record_answer (k_fs s) q) by (apply leq_record_answer; exact (km_fs _ _ K)).
      destruct (IHRun Es HC HN _ (KM_log s2 s (LAnswer q (spec_answer (k_fs s) q)) (LAnswer q (spec_answer (k_fs s) q)) K)
                  (sb2 ++ [record_of q (record_answer (k_fs s) q)]) (sbT ++ [record_of q (record_answer (k_fs s) q)]))
        as [s2' [E1 [K1 L1]]].
      exists s2'. rewrite core_run_Ask_ans, Ea, Er, E1, <- app_assoc. split; [reflexivity|]. split; [exact K1|].
      rewrite core_top_Ask_ans, rev_cons_app. exact L1.
    - destruct (IHRun Es HC HN s2 K sb2 sbT) as [s2' [E1 [K1 L1]]]. exists s2'. rewrite core_run_Write. auto.
    - destruct (IHRun Es HC HN _ (KM_tick _ _ K) sb2 sbT) as [s2' [E1 [K1 L1]]]. exists s2'. rewrite core_run_Write, H.
      split; [exact E1|]. split; [exact K1|]. cbn [core_top]. rewrite H. exact L1.
    - subst. exists s2. rewrite core_run_Write, H, app_nil_r. split; [reflexivity|]. split; [exact K|]. cbn [core_top]. rewrite H. reflexivity.
    - destruct (IHRun Es HC HN s2 K sb2 sbT) as [s2' [E1 [K1 L1]]]. exists s2'.
      rewrite (core_run_skipBF _ _ _ _ _ _ _ _ _ _ _ _ _ H), (core_top_skipBF _ _ _ _ _ _ _ _ _ _ _ _ _ H). auto.
    - (* set-up failure: the same in the rebuild *)
      pose proof (bf_setup_KM s2 s p K) as Hs2. rewrite H1 in Hs2.
      destruct (IHRun Es HC HN s2 K (sb2 ++ [OBuildFile p c fname sa skw [] PNone PNone true true])
                  (sbT ++ [OBuildFile p c fname sa skw [] PNone PNone true true])) as [s2' [E1 [K1 L1]]].
      exists s2'. rewrite (core_run_BF_setup _ _ _ _ _ _ _ _ _ _ _ sa skw H H0), Hs2, E1, <- app_assoc.
      split; [reflexivity|]. split; [exact K1|]. rewrite (core_top_BF_setup _ _ _ _ _ _ _ _ _ _ _ sa skw H H0), H1. exact L1.
    - (* served from the cache in the first build *)
      subst s'.
      set (o := OBuildFile p c fname sa skw subs1 ret1 (cmp_of c f) false false) in *.
      set (s0 := core_s0 s p fs1 dirs) in *. set (sA := core_put (adopt s0 r o) p f) in *.
      destruct (bf_setup_ok _ _ _ _ H1) as [Hpc [Hpcf Hsf]]. destruct (setup_fs_frame _ _ _ _ _ Hsf) as [Hnd [Hne _]].
      destruct (core_hit_ok _ _ _ _ _ _ _ _ _ _ H2) as [Hk Hph].
      pose proof (run_kconst _ _ _ _ _ _ _ _ H3) as KA.
      pose proof (good_mono t0 _ _ KA HG1) as GA.
      pose proof (P_hit_T t0 s p c fname sa skw fs1 dirs f subs1 ret1 r H1 H2 GA) as [SA [DA CA]]. fold o s0 sA in SA, DA, CA.
      pose proof (run_tree t0 _ _ _ _ _ _ _ _ H3 HG1) as [SE [DE CE]].
      assert (HregA : In (p, o) (k_newF sA)).
      { cbn [sA core_put adopt ks_with k_newF]. apply in_or_app. right. unfold o. rewrite tree_regs_BF. left. reflexivity. }
      assert (Hco : op_clean o = true) by (destruct GA as [G1 _]; apply (G1 _ HregA)).
      assert (Hcs : forallb op_clean subs1 = true) by (apply op_clean_BF in Hco; tauto).
      pose proof (kreplay_RepL _ _ Hcs _ _ Hk) as HR.
      assert (Hpt0 : isfile t0 p = false) by (destruct GA as [G1 _]; apply (G1 _ HregA)).
      destruct (setup_TRel t0 _ _ _ _ H1) as [S0 [D0 C0]]. fold s0 in S0, D0, C0.
      assert (Hnf0 : isfile (k_fs s0) p = false) by (apply (cb_nofile t0); auto).
      assert (HregO : forall e, In e (fst (tree_regs o)) -> In e (k_newF sA)).
      { intros e He. cbn [sA core_put adopt ks_with k_newF]. apply in_or_app. right. exact He. }
      pose proof (good_hit_outputs t0 _ o GA HregO Hco) as Hout.
      assert (Hout' : forall q, In q (flat_map tree_outputs subs1) -> isfile t0 q = false).
      { intros q Hq. apply Hout. unfold o. rewrite tree_outputs_BF. right. exact Hq. }
      pose proof (outputs_absent t0 s0 subs1 r (C0 HC) HR Hout') as Habs.
      (* the rebuild *)
      pose proof (bf_setup_KM s2 s p K) as Hs2. rewrite H1 in Hs2. destruct Hs2 as [fs1' [Hs2 L1]].
      set (s0' := core_s0 s2 p fs1' dirs).
      assert (HpA : mem_path p (k_claimedF sA) = true).
      { cbn [sA core_put adopt ks_with k_claimedF]. unfold o. rewrite tree_claims_BF. cbn. rewrite path_eqb_refl. reflexivity. }
      assert (HfA : file_at (k_fs sA) p f) by (unfold file_at; cbn [sA core_put ks_with k_fs]; apply lookup_upd_eq; exact Hne).
      assert (Hp0 : lookup (k_fs s0) p = None).
      { pose proof (phys_notdir _ _ _ _ Hph) as Hx. unfold isdir in Hx. unfold isfile in Hnf0.
        destruct (lookup (k_fs s0) p) as [[x|]|]; try discriminate; reflexivity. }
      assert (Hph2 : phys (k_fs s0') (k_stale s0') p = Some f).
      { apply (phys_rebuild s2 s s0' (k_fs s0) p f K); auto.
        - apply (SE p HpA).
        - apply (SE p HpA). exact HfA. }
      assert (PH : forall q, In q (flat_map tree_outputs subs1) ->
                   phys (k_fs s0') (k_stale s0') q = phys (k_fs s0) (k_stale s0) q).
      { intros q Hq. destruct (proj2 (RepL_placed _ _ _ _ HR) q Hq) as [g [Hg1 Hg2]]. rewrite Hg1.
        assert (HqA : mem_path q (k_claimedF sA) = true).
        { cbn [sA core_put adopt ks_with k_claimedF]. rewrite mem_path_app. apply orb_true_iff. left. apply mem_path_In.
          apply outputs_claims; [exact Hco|]. unfold o. rewrite tree_outputs_BF. right. exact Hq. }
        apply (phys_rebuild s2 s s0' (k_fs s0) q g K); auto.
        - exact (RepL_unclaimed _ _ _ _ HR q Hq).
        - apply (SE q HqA).
        - apply (SE q HqA). unfold file_at. cbn [sA core_put ks_with k_fs]. destruct (path_eqb q p) eqn:E.
          + apply path_eqb_eq in E. subst q. rewrite lookup_upd_eq by exact Hne. congruence.
          + apply path_eqb_neq in E. rewrite lookup_upd_neq by exact E. exact Hg2. }
      destruct (transfer s0 s0' (km_cf _ _ K) (kversion_KM _ _ K) subs1 _ _ HR (start_replay s0')) as [r2' [Hs Rs]].
      { constructor.
        - exact L1.
        - change (p :: k_need s2 = p :: k_need s). f_equal. exact (km_need _ _ K).
        - change (k_made s2 ++ dirs = k_made s ++ dirs). f_equal. exact (km_made _ _ K).
        - intros q Hq. change (mem_path q (k_claimedF s) = true). rewrite <- (km_cF _ _ K q). exact Hq.
        - intros k0 Hk0. change (existsb (py_eq k0) (k_claimedS s) = true). rewrite <- (km_cS _ _ K k0). exact Hk0. }
      { exact PH. }
      assert (Hhit2 : core_hit s2 s0' p fname sa skw = Some (f, subs1, ret1, r2')).
      { apply (core_hit_intro s2 s0' p c).
        - rewrite (km_old _ _ K). apply cache_new_file. apply (kconst_newF _ _ KA). exact HregA.
        - apply (kversion_KM _ _ K).
        - eapply sanitize_refl; eauto.
        - eapply sanitize_refl; eauto.
        - exact Hph2.
        - apply RepL_kreplay. exact Hs. }
      assert (KA2 : KM (core_put (adopt s0' r2' o) p f) sA).
      { apply (KM_after_bf s2 s); auto.
        - intro q. change (lookup (upd p (Some (NFile f)) (rp_fs r2')) q = lookup (upd p (Some (NFile f)) (rp_fs r)) q).
          apply leq_upd. exact (rr_fs _ _ Rs).
        - exact (rr_need _ _ Rs).
        - exact (rr_made _ _ Rs).
        - intro q. cbn [sA core_put adopt ks_with k_claimedF]. unfold o. rewrite tree_claims_BF. cbn [fst].
          change (k_claimedF s0) with (k_claimedF s). rewrite ?mem_path_app. cbn [mem_path]. rewrite ?mem_path_app. btauto.
        - intro q. cbn [sA core_put adopt ks_with k_claimedS]. unfold o. rewrite tree_claims_BF. cbn [snd].
          change (k_claimedS s0) with (k_claimedS s). reflexivity. }
      assert (NA : NCF sA).
      { apply (run_ncf t0 _ _ _ _ _ _ _ _ (R_BFHit p c fname a kw fn (fun _ => Ret PNone) sa skw fs1 dirs f subs1 ret1 r None None s _ _ _ _
                                               H H0 H1 H2 (R_Ret PNone None None _))); [exact GA|exact HN]. }
      destruct (IHRun eq_refl (CA HC) NA _ KA2 (sb2 ++ [o]) (sbT ++ [o])) as [s2' [E1 [K1 L1']]].
      exists s2'. rewrite (core_run_BF_setup _ _ _ _ _ _ _ _ _ _ _ sa skw H H0), Hs2. cbv zeta. fold s0'. rewrite Hhit2.
      fold o. rewrite E1, <- app_assoc. split; [reflexivity|]. split; [exact K1|].
      rewrite (core_top_BF_setup _ _ _ _ _ _ _ _ _ _ _ sa skw H H0), H1. cbv zeta. fold s0. rewrite H2. exact L1'.
    - (* the function ran in the first build *)
      subst s'.
      set (s0 := core_s0 s p fs1 dirs) in *.
      destruct (bf_setup_ok _ _ _ _ H1) as [Hpc [Hpcf Hsf]]. destruct (setup_fs_frame _ _ _ _ _ Hsf) as [Hnd [Hne _]].
      destruct (finish_kconst _ _ _ _ _ _ _ _ _ _ _ _ H4) as [K23 [EF [CF CS]]].
      pose proof (run_kconst _ _ _ _ _ _ _ _ H5) as K3. pose proof (run_kconst _ _ _ _ _ _ _ _ H3) as Kb.
      pose proof (good_mono t0 _ _ K3 HG1) as G3. pose proof (good_mono t0 _ _ K23 G3) as G2.
      pose proof (run_tree t0 _ _ _ _ _ _ _ _ H3 G2) as Tb.
      pose proof (P_run_T t0 s p c fname sa skw fs1 dirs s2 res pend2 bsubs s3 out3 o H1 Tb Kb H4 G3) as [S3 [D3 C3]].
      pose proof (run_tree t0 _ _ _ _ _ _ _ _ H5 HG1) as [SE [DE CE]].
      destruct Tb as [Sb [Db Cb]].
      assert (Hreg3 : In (p, o) (k_newF s3)) by (rewrite EF; apply in_or_app; right; left; reflexivity).
      assert (Hco : op_clean o = true) by (destruct G3 as [G1 _]; apply (G1 _ Hreg3)).
      assert (Hpt0 : isfile t0 p = false) by (destruct G3 as [G1 _]; apply (G1 _ Hreg3)).
      destruct (core_finish_cases _ _ _ _ _ _ _ _ _ _ _ _ H4) as [(sv & bytes & fs3 & g & Ep & Hw & Hg & Eo & Es3 & Eout)|(e & Eo & _)];
        [|subst o; discriminate].
      destruct (write_file_ok _ _ _ _ _ _ _ Hw) as [_ [Hndw [_ Hoth]]].
      assert (Hcs : forallb op_clean bsubs = true) by (subst o; apply op_clean_BF in Hco; tauto).
      destruct (setup_TRel t0 _ _ _ _ H1) as [S0 [D0 C0]]. fold s0 in S0, D0, C0.
      assert (Hnf0 : isfile (k_fs s0) p = false) by (apply (cb_nofile t0); auto).
      assert (Cs : CB t0 (core_start s0 p fname sa skw)).
      { pose proof (C0 HC) as C0'. intro q. cbn [core_start klog ks_with k_fs k_made k_claimedF]. rewrite (try_remove_noop _ _ Hnf0).
        destruct (C0' q) as [H0'|[H1' [[H2' H3']|[g' [H2' H3']]]]]; [left; exact H0'|right; auto|right].
        split; [exact H1'|]. right. exists g'. split; [exact H2'|]. cbn. cbn in H3'. rewrite H3'. apply orb_true_r. }
      assert (Hp2 : mem_path p (k_claimedF s2) = true) by (apply (Sb p); cbn; rewrite path_eqb_refl; reflexivity).
      assert (Hp3 : mem_path p (k_claimedF s3) = true) by (rewrite CF; exact Hp2).
      assert (Hf3 : file_at (k_fs s3) p g) by (subst s3; exact Hg).
      (* directories of the state the call started in are still there at the end *)
      assert (Hd01 : forall q, isdir (k_fs s0) q = true -> isdir (k_fs s1) q = true).
      { intros q Hq. apply DE. subst s3. unfold isdir. cbn [core_done ks_with k_fs].
        assert (Hq2 : isdir (k_fs s2) q = true).
        { apply Db. cbn [core_start klog ks_with k_fs]. apply try_remove_keeps_isdir. exact Hq. }
        assert (Hqp : q <> p). { intro; subst q. unfold isdir in Hq2. destruct (lookup (k_fs s2) p) as [[x|]|]; try discriminate. congruence. }
        rewrite (Hoth q Hqp). exact Hq2. }
      (* the rebuild *)
      rename s2 into s2b. rename z2 into s2.
      pose proof (bf_setup_KM s2 s p K) as Hs2. rewrite H1 in Hs2. destruct Hs2 as [fs1' [Hs2 L1]].
      set (s0' := core_s0 s2 p fs1' dirs).
      assert (Hp0 : lookup (k_fs s0) p = None).
      { apply (none_if_final_file s0 p g (C0 HC)); auto. apply (SE p Hp3). exact Hf3. }
      assert (Hph2 : phys (k_fs s0') (k_stale s0') p = Some g).
      { apply (phys_rebuild s2 s s0' (k_fs s0) p g K); auto.
        - apply (SE p Hp3).
        - apply (SE p Hp3). exact Hf3. }
      assert (HBOK : BOK s0' (core_start s0 p fname sa skw) s2b).
      { intros q g' Hb Ha Hf. cbn in Ha. apply orb_false_iff in Ha. destruct Ha as [Ha1 Ha2].
        assert (Hqp : q <> p) by (intro; subst; rewrite path_eqb_refl in Ha1; discriminate).
        assert (Hq3 : mem_path q (k_claimedF s3) = true) by (rewrite CF; exact Hb).
        assert (Hqf1 : file_at (k_fs s1) q g').
        { apply (SE q Hq3). subst s3. unfold file_at. cbn [core_done ks_with k_fs]. rewrite (Hoth q Hqp). exact Hf. }
        assert (Hqt0 : isfile t0 q = false).
        { apply (registered_t0 s2b); [eapply kconst_trans; eauto|].
          apply (run_registered _ _ _ _ _ _ _ _ H3). apply mem_path_In.
          destruct (run_claims _ _ _ _ _ _ _ _ H3) as [Ac _]. rewrite (Ac q), mem_path_app in Hb.
          apply orb_true_iff in Hb. destruct Hb as [Hb|Hb]; [exact Hb|]. cbn in Hb. rewrite Ha1, Ha2 in Hb. discriminate. }
        apply (phys_rebuild s2 s s0' (k_fs s0) q g' K); auto.
        - apply (none_if_final_file s0 q g' (C0 HC)); auto.
        - apply (SE q Hq3). }
      destruct (replay_complete t0 s0' (kversion_KM _ _ K) _ _ _ _ _ _ _ _ H3 Hcs G2 Cs) with (r2 := start_replay s0') as [r2' [Hs Rs]].
      { exact (km_cf _ _ K). }
      { exact HBOK. }
      { constructor.
        - change (leq fs1' (try_remove (k_fs s0) p)). rewrite (try_remove_noop _ _ Hnf0). exact L1.
        - change (p :: k_need s2 = p :: k_need s). f_equal. exact (km_need _ _ K).
        - change (k_made s2 ++ dirs = k_made s ++ dirs). f_equal. exact (km_made _ _ K).
        - intros q Hq. change (mem_path q (p :: k_claimedF s) = true). cbn [mem_path]. rewrite <- (km_cF _ _ K q).
          change (mem_path q (k_claimedF s2) = true) in Hq. rewrite Hq. apply orb_true_r.
        - intros k0 Hk0. change (existsb (py_eq k0) (k_claimedS s) = true). rewrite <- (km_cS _ _ K k0). exact Hk0. }
      assert (Hhit2 : core_hit s2 s0' p fname sa skw = Some (g, bsubs, sv, r2')).
      { apply (core_hit_intro s2 s0' p c).
        - rewrite (km_old _ _ K). apply cache_new_file. apply (kconst_newF _ _ K3). rewrite <- Eo. exact Hreg3.
        - apply (kversion_KM _ _ K).
        - eapply sanitize_refl; eauto.
        - eapply sanitize_refl; eauto.
        - exact Hph2.
        - apply RepL_kreplay. exact Hs. }
      assert (K32 : KM (core_put (adopt s0' r2' o) p g) s3).
      { rewrite Eo. apply (KM_after_bf s2 s); auto.
        - intro q. subst s3. change (lookup (upd p (Some (NFile g)) (rp_fs r2')) q = lookup fs3 q). destruct (path_eqb q p) eqn:E.
          + apply path_eqb_eq in E. subst q. rewrite lookup_upd_eq by exact Hne. symmetry. exact Hg.
          + apply path_eqb_neq in E. rewrite lookup_upd_neq by exact E. rewrite (Hoth q E). apply (rr_fs _ _ Rs).
        - subst s3. exact (rr_need _ _ Rs).
        - subst s3. exact (rr_made _ _ Rs).
        - intro q. rewrite CF. destruct (run_claims _ _ _ _ _ _ _ _ H3) as [Ac _]. rewrite (Ac q). reflexivity.
        - intro q. rewrite CS. destruct (run_claims _ _ _ _ _ _ _ _ H3) as [_ Bc]. rewrite (Bc q). reflexivity.
        - destruct K23 as [K231 _]. destruct Kb as [Kb1 _]. rewrite K231, Kb1. reflexivity. }
      assert (N3 : NCF s3).
      { apply (run_ncf t0 _ _ _ _ _ _ _ _ (R_BFRun p c fname a kw fn (fun _ => Ret PNone) sa skw fs1 dirs s2b res pend2 bsubs s3 out3 o None None s _ _ _ _
                                               H H0 H1 H2 H3 H4 (R_Ret PNone None None _))); [exact G3|exact HN]. }
      destruct (IHRun2 eq_refl (C3 HC) N3 _ K32 (sb2 ++ [o]) (sbT ++ [o])) as [s2' [E1 [K1 L1']]].
      exists s2'. rewrite (core_run_BF_setup _ _ _ _ _ _ _ _ _ _ _ sa skw H H0), Hs2. cbv zeta. fold s0'. rewrite Hhit2.
      rewrite <- Eo. rewrite Eout in E1. rewrite E1, <- app_assoc. split; [reflexivity|]. split; [exact K1|].
      rewrite (core_top_BF_setup _ _ _ _ _ _ _ _ _ _ _ sa skw H H0), H1. cbv zeta. fold s0. rewrite H2.
      rewrite (core_of_run _ _ _ _ _ _ _ _ H3 []). cbn [app]. rewrite H4. exact L1'.
    - destruct (IHRun Es HC HN s2 K sb2 sbT) as [s2' [E1 [K1 L1]]]. exists s2'.
      rewrite (core_run_skipSB _ _ _ _ _ _ _ _ _ _ _ H), (core_top_skipSB _ _ _ _ _ _ _ _ _ _ _ H). auto.
    - (* duplicate subbuild: the same in the rebuild *)
      destruct (IHRun Es HC HN s2 K (sb2 ++ [OSubbuild fname sa skw [] PNone true true])
                  (sbT ++ [OSubbuild fname sa skw [] PNone true true])) as [s2' [E1 [K1 L1]]].
      exists s2'. rewrite (core_run_SB_steps _ _ _ _ _ _ _ _ _ sa skw H H0). cbv zeta. rewrite (km_cS _ _ K), H1, E1, <- app_assoc.
      split; [reflexivity|]. split; [exact K1|]. rewrite (core_top_SB_steps _ _ _ _ _ _ _ _ _ sa skw H H0). cbv zeta. rewrite H1. exact L1.
    - (* subbuild served from the cache in the first build *)
      subst s'.
      set (o := OSubbuild fname sa skw subs1 ret1 false false) in *. set (sA := adopt s r o) in *.
      pose proof (core_subhit_ok _ _ _ _ _ _ H2) as Hk.
      pose proof (run_kconst _ _ _ _ _ _ _ _ H3) as KA.
      pose proof (good_mono t0 _ _ KA HG1) as GA.
      pose proof (P_subhit_T t0 s fname sa skw subs1 ret1 r H1 H2 GA) as [SA [DA CA]]. fold o sA in SA, DA, CA.
      pose proof (run_tree t0 _ _ _ _ _ _ _ _ H3 HG1) as [SE [DE CE]].
      assert (HregA : In (subbuild_key fname sa skw, o) (k_newS sA)).
      { cbn [sA adopt ks_with k_newS]. apply in_or_app. right. unfold o. rewrite tree_regs_SB. left. reflexivity. }
      assert (Hco : op_clean o = true) by (destruct GA as [_ G2]; apply (G2 _ HregA)).
      assert (Hcs : forallb op_clean subs1 = true) by (apply op_clean_SB in Hco; tauto).
      pose proof (kreplay_RepL _ _ Hcs _ _ Hk) as HR.
      assert (HregO : forall e, In e (fst (tree_regs o)) -> In e (k_newF sA)).
      { intros e He. cbn [sA adopt ks_with k_newF]. apply in_or_app. right. exact He. }
      pose proof (good_hit_outputs t0 _ o GA HregO Hco) as Hout.
      assert (Hout' : forall q, In q (flat_map tree_outputs subs1) -> isfile t0 q = false) by (intros q Hq; apply Hout; exact Hq).
      pose proof (outputs_absent t0 s subs1 r HC HR Hout') as Habs.
      assert (PH : forall q, In q (flat_map tree_outputs subs1) ->
                   phys (k_fs s2) (k_stale s2) q = phys (k_fs s) (k_stale s) q).
      { intros q Hq. destruct (proj2 (RepL_placed _ _ _ _ HR) q Hq) as [g [Hg1 Hg2]]. rewrite Hg1.
        assert (HqA : mem_path q (k_claimedF sA) = true).
        { cbn [sA adopt ks_with k_claimedF]. rewrite mem_path_app. apply orb_true_iff. left. apply mem_path_In.
          apply outputs_claims; [exact Hco|]. exact Hq. }
        apply (phys_rebuild s2 s s2 (k_fs s) q g K); auto.
        - exact (km_fs _ _ K).
        - exact (RepL_unclaimed _ _ _ _ HR q Hq).
        - apply (SE q HqA).
        - apply (SE q HqA). exact Hg2. }
      destruct (transfer s s2 (km_cf _ _ K) (kversion_KM _ _ K) subs1 _ _ HR (start_replay s2)) as [r2' [Hs Rs]].
      { constructor.
        - exact (km_fs _ _ K).
        - exact (km_need _ _ K).
        - exact (km_made _ _ K).
        - intros q Hq. change (mem_path q (k_claimedF s) = true). rewrite <- (km_cF _ _ K q). exact Hq.
        - intros k0 Hk0. change (existsb (py_eq k0) (k_claimedS s) = true). rewrite <- (km_cS _ _ K k0). exact Hk0. }
      { exact PH. }
      assert (Hhit2 : core_subhit s2 fname (subbuild_key fname sa skw) = Some (subs1, ret1, r2')).
      { apply core_subhit_intro.
        - rewrite (km_old _ _ K). apply cache_new_sub; [eapply subbuild_key_refl; eauto|]. apply (kconst_newS _ _ KA). exact HregA.
        - apply (kversion_KM _ _ K).
        - apply RepL_kreplay. exact Hs. }
      assert (KA2 : KM (adopt s2 r2' o) sA).
      { apply (KM_after_sb s2 s); auto.
        - exact (rr_fs _ _ Rs).
        - exact (rr_need _ _ Rs).
        - exact (rr_made _ _ Rs).
        - intro q. cbn [sA adopt ks_with k_claimedF]. unfold o. rewrite tree_claims_SB. reflexivity.
        - intro q. cbn [sA adopt ks_with k_claimedS]. unfold o. rewrite tree_claims_SB. cbn [snd].
          rewrite ?existsb_app. cbn [existsb]. rewrite ?existsb_app. btauto. }
      assert (NA : NCF sA).
      { apply (run_ncf t0 _ _ _ _ _ _ _ _ (R_SBHit fname a kw fn (fun _ => Ret PNone) sa skw subs1 ret1 r None None s _ _ _ _
                                               H H0 H1 H2 (R_Ret PNone None None _))); [exact GA|exact HN]. }
      destruct (IHRun eq_refl (CA HC) NA _ KA2 (sb2 ++ [o]) (sbT ++ [o])) as [s2' [E1 [K1 L1']]].
      exists s2'. rewrite (core_run_SB_steps _ _ _ _ _ _ _ _ _ sa skw H H0). cbv zeta. rewrite (km_cS _ _ K), H1, Hhit2.
      fold o. rewrite E1, <- app_assoc. split; [reflexivity|]. split; [exact K1|].
      rewrite (core_top_SB_steps _ _ _ _ _ _ _ _ _ sa skw H H0). cbv zeta. rewrite H1, H2. exact L1'.
    - (* the subbuild function ran in the first build *)
      subst s'. rename s2 into s2b. rename z2 into s2.
      set (key := subbuild_key fname sa skw) in *. set (o := sub_rec fname sa skw bsubs res) in *.
      pose proof (run_kconst _ _ _ _ _ _ _ _ H4) as K3. pose proof (run_kconst _ _ _ _ _ _ _ _ H3) as Kb.
      pose proof (good_mono t0 _ _ K3 HG1) as G3.
      assert (K23 : kconst s2b (core_subreg s2b key o)).
      { apply (kconst_intro _ _ [] [(key, o)] []); try reflexivity. cbn. rewrite app_nil_r. reflexivity. }
      pose proof (good_mono t0 _ _ K23 G3) as G2.
      pose proof (run_tree t0 _ _ _ _ _ _ _ _ H3 G2) as [Sb [Db Cb]].
      pose proof (run_tree t0 _ _ _ _ _ _ _ _ H4 HG1) as [SE [DE CE]].
      assert (Hreg3 : In (key, o) (k_newS (core_subreg s2b key o))).
      { cbn [core_subreg ks_with k_newS]. apply in_or_app. right. left. reflexivity. }
      assert (Hco : op_clean o = true) by (destruct G3 as [_ G2']; apply (G2' _ Hreg3)).
      assert (Eo : exists sv, o = OSubbuild fname sa skw bsubs sv false false /\ forallb op_clean bsubs = true /\ sub_out res = inl sv).
      { unfold o, sub_rec, sub_out in *. destruct res as [v|e]; [destruct (sanitize v) as [sv|]|]; try discriminate.
        exists sv. split; [reflexivity|]. split; [apply op_clean_SB in Hco; tauto|reflexivity]. }
      destruct Eo as [sv [Eo [Hcs Eout]]].
      assert (HBOK : BOK s2 (core_substart s fname sa skw) s2b).
      { intros q g' Hb Ha Hf. change (mem_path q (k_claimedF s) = false) in Ha.
        assert (Hqf1 : file_at (k_fs s1) q g') by (apply (SE q Hb); exact Hf).
        assert (Hqt0 : isfile t0 q = false).
        { apply (registered_t0 s2b); [eapply kconst_trans; eauto|].
          apply (run_registered _ _ _ _ _ _ _ _ H3). apply mem_path_In.
          destruct (run_claims _ _ _ _ _ _ _ _ H3) as [Ac _]. rewrite (Ac q), mem_path_app in Hb.
          apply orb_true_iff in Hb. destruct Hb as [Hb|Hb]; [exact Hb|]. cbn in Hb. congruence. }
        apply (phys_rebuild s2 s s2 (k_fs s) q g' K); auto.
        - exact (km_fs _ _ K).
        - apply (none_if_final_file s q g' HC); auto.
        - apply (SE q Hb). }
      destruct (replay_complete t0 s2 (kversion_KM _ _ K) _ _ _ _ _ _ _ _ H3 Hcs G2) with (r2 := start_replay s2) as [r2' [Hs Rs]].
      { exact HC. }
      { exact (km_cf _ _ K). }
      { exact HBOK. }
      { constructor.
        - exact (km_fs _ _ K).
        - exact (km_need _ _ K).
        - exact (km_made _ _ K).
        - intros q Hq. change (mem_path q (k_claimedF s) = true). rewrite <- (km_cF _ _ K q). exact Hq.
        - intros k0 Hk0. change (existsb (py_eq k0) (key :: k_claimedS s) = true). cbn [existsb]. rewrite <- (km_cS _ _ K k0).
          change (existsb (py_eq k0) (k_claimedS s2) = true) in Hk0. rewrite Hk0. apply orb_true_r. }
      assert (Hhit2 : core_subhit s2 fname key = Some (bsubs, sv, r2')).
      { apply core_subhit_intro.
        - rewrite (km_old _ _ K). apply cache_new_sub; [eapply subbuild_key_refl; eauto|]. apply (kconst_newS _ _ K3). rewrite <- Eo. exact Hreg3.
        - apply (kversion_KM _ _ K).
        - apply RepL_kreplay. exact Hs. }
      assert (K32 : KM (adopt s2 r2' o) (core_subreg s2b key o)).
      { rewrite Eo at 1. apply (KM_after_sb s2 s); auto.
        - exact (rr_fs _ _ Rs).
        - exact (rr_need _ _ Rs).
        - exact (rr_made _ _ Rs).
        - intro q. destruct (run_claims _ _ _ _ _ _ _ _ H3) as [Ac _]. exact (Ac q).
        - intro q. destruct (run_claims _ _ _ _ _ _ _ _ H3) as [_ Bc]. exact (Bc q).
        - destruct Kb as [Kb1 _]. exact Kb1. }
      assert (N3 : NCF (core_subreg s2b key o)).
      { apply (run_ncf t0 _ _ _ _ _ _ _ _ (R_SBRun fname a kw fn (fun _ => Ret PNone) sa skw s2b res pd bsubs None None s _ _ _ _
                                               H H0 H1 H2 H3 (R_Ret PNone None None _))); [exact G3|exact HN]. }
      destruct (IHRun2 eq_refl (Cb HC) N3 _ K32 (sb2 ++ [o]) (sbT ++ [o])) as [s2' [E1 [K1 L1']]].
      exists s2'. rewrite (core_run_SB_steps _ _ _ _ _ _ _ _ _ sa skw H H0). cbv zeta. fold key. rewrite (km_cS _ _ K), H1, Hhit2.
      rewrite <- Eo. rewrite Eout in E1. rewrite E1, <- app_assoc. split; [reflexivity|]. split; [exact K1|].
      rewrite (core_top_SB_steps _ _ _ _ _ _ _ _ _ sa skw H H0). cbv zeta. fold key. rewrite H1, H2.
      rewrite (core_of_run _ _ _ _ _ _ _ _ H3 []). cbn [app]. exact L1'.
  Qed.
End Rebuild.
