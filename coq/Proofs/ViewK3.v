(* Proofs/ViewK3.v — C04, the link to Core, part 3: the relation Sim3 between a world of the
   mechanism model and a state of Model/Core.v, UP TO the modification time / inode number
   of the regular files written in this build (and the timeNs fields that records take from
   them), with boolean checkers evaluated on real histories; and two further families of
   programs on which the mechanism model and Core differ in OUTCOME or LOG (not only in
   modification times): the side conditions that the simulation theorem needs.          *)
From Coq Require Import List String Ascii NArith ZArith Bool Arith Lia.
From FB.Base Require Import PyVal Fs.
From FB.Gen Require Import JsonUtilGen.
From FB.Spec Require Import Prog Ref Oracle Faithful.
From FB.Model Require Import Types Monad CreatedFiles BuildDirs SimpleOps Builder Persist Build Run Frame Dsl Core CoreOracle.
From FB.Proofs Require Import FsLemmas CacheRTDefs CacheRTEx ViewDefs ViewLemmas ViewK1 ViewK2.
Import ListNotations.
Open Scope list_scope.

(* ------------------------------------------------------------------ values and records up to timeNs *)
(* the size held by a METADATA comparison result *)
Definition meta_size (v : pyval) : option pyval :=
  match v with
  | PDict [(PStr k1, s); (PStr k2, _)] =>
      if (String.eqb k1 "size" && String.eqb k2 "timeNs")%bool then Some s else None
  | _ => None
  end.

Inductive val_rel : pyval -> pyval -> Prop :=
| vr_eq : forall v, val_rel v v
| vr_meta : forall s t1 t2,
    val_rel (PDict [(PStr "size", s); (PStr "timeNs", t1)]) (PDict [(PStr "size", s); (PStr "timeNs", t2)]).

Definition val_relb (a b : pyval) : bool :=
  pyval_same a b ||
  match meta_size a, meta_size b with Some s1, Some s2 => pyval_same s1 s2 | _, _ => false end.

(* records: equal, except the comparison result of a build_file record and the recorded
   result of a simple operation (a read with METADATA comparison), which are related by val_rel *)
Fixpoint rec_rel (a b : op) {struct a} : Prop :=
  let all2 :=
    fix go (xs ys : list op) : Prop :=
      match xs, ys with
      | [], [] => True
      | x :: xs', y :: ys' => rec_rel x y /\ go xs' ys'
      | _, _ => False
      end in
  match a, b with
  | OSimple q r e, OSimple q' r' e' => q = q' /\ val_rel r r' /\ e = e'
  | OBuildFile p c f a1 k1 s r cr ra sf, OBuildFile p' c' f' a1' k1' s' r' cr' ra' sf' =>
      p = p' /\ c = c' /\ f = f' /\ a1 = a1' /\ k1 = k1' /\ all2 s s' /\ r = r' /\ val_rel cr cr' /\ ra = ra' /\ sf = sf'
  | OSubbuild f a1 k1 s r ra sf, OSubbuild f' a1' k1' s' r' ra' sf' =>
      f = f' /\ a1 = a1' /\ k1 = k1' /\ all2 s s' /\ r = r' /\ ra = ra' /\ sf = sf'
  | _, _ => False
  end.

Definition recs_rel : list op -> list op -> Prop :=
  fix go (xs ys : list op) : Prop :=
    match xs, ys with
    | [], [] => True
    | x :: xs', y :: ys' => rec_rel x y /\ go xs' ys'
    | _, _ => False
    end.

Fixpoint rec_relb (a b : op) {struct a} : bool :=
  let all2 :=
    fix go (xs ys : list op) : bool :=
      match xs, ys with
      | [], [] => true
      | x :: xs', y :: ys' => rec_relb x y && go xs' ys'
      | _, _ => false
      end in
  match a, b with
  | OSimple q r e, OSimple q' r' e' => query_beq q q' && val_relb r r' && oerr_eqb e e'
  | OBuildFile p c f a1 k1 s r cr ra sf, OBuildFile p' c' f' a1' k1' s' r' cr' ra' sf' =>
      path_eqb p p' && cmp_eqb c c' && String.eqb f f' && pyval_same a1 a1' && pyval_same k1 k1' &&
      all2 s s' && pyval_same r r' && val_relb cr cr' && Bool.eqb ra ra' && Bool.eqb sf sf'
  | OSubbuild f a1 k1 s r ra sf, OSubbuild f' a1' k1' s' r' ra' sf' =>
      String.eqb f f' && pyval_same a1 a1' && pyval_same k1 k1' && all2 s s' && pyval_same r r' &&
      Bool.eqb ra ra' && Bool.eqb sf sf'
  | _, _ => false
  end.

Definition recs_relb : list op -> list op -> bool :=
  fix go (xs ys : list op) : bool :=
    match xs, ys with
    | [], [] => true
    | x :: xs', y :: ys' => rec_relb x y && go xs' ys'
    | _, _ => false
    end.

(* ------------------------------------------------------------------ the relation *)
(* the entries of the log that Core also writes (the mechanism model logs its library calls too) *)
Definition vis_log (l : list logentry) : list logentry :=
  filter (fun e => match e with LEffect _ _ => false | _ => true end) l.

Fixpoint kf_get (l : list (path * op)) (p : path) : option op :=
  match l with [] => None | (q, o) :: r => if path_eqb q p then Some o else kf_get r p end.
Fixpoint ks_get (l : list (pyval * op)) (k : pyval) : option op :=
  match l with [] => None | (q, o) :: r => if py_eq q k then Some o else ks_get r k end.

(* [W]: the targets whose function ran in this build (c_built of the new cache) *)
Record Sim3 (W : list path) (w : world) (s : kstate) : Prop := {
  (* the view and Core's tree: the same node outside W, the same kind and bytes in W *)
  s3_tree : forall p, if mem_path p W then node_equiv (lookup (view_fs w) p) (lookup (k_fs s) p)
                      else lookup (view_fs w) p = lookup (k_fs s) p;
  s3_cf : k_cachefile s = w_cachefile w;
  s3_old : k_old s = w_old w;
  s3_vers : forall f, py_dict_get (PStr f) (k_vers s) = func_version (w_new w) f;
  (* claims *)
  s3_claimsF : forall p, mem_path p (k_claimedF s) = cache_has_file (w_new w) p;
  s3_claimsS : forall k, existsb (py_eq k) (k_claimedS s) = cache_has_subbuild (w_new w) k;
  (* the log, without the library calls *)
  s3_log : vis_log (w_log w) = vis_log (k_log s);
  (* the records of this build *)
  s3_recF : forall p, match cache_get_file (w_new w) p, kf_get (k_newF s) p with
                      | Some o, Some o' => rec_rel o o'
                      | None, None => True
                      | _, _ => False
                      end;
  s3_recS : forall k, match subs_get (c_subs (w_new w)) k, ks_get (k_newS s) k with
                      | Some (Some o), Some o' => rec_rel o o'
                      | Some None, None | None, None => True
                      | _, _ => False
                      end;
  (* previous outputs still on disk and not visible: Core keeps the node aside *)
  s3_stale : forall p, stale_get (k_stale s) p =
                       match lookup (w_fs w) p with
                       | Some (NFile f) =>
                           if cache_created_file (w_old w) p && negb (cache_has_file (w_new w) p) then Some f else None
                       | _ => None
                       end
}.

(* the running build_file function: what it has written so far is on disk in the mechanism
   model (hidden: its target is claimed and not finished) and pending in Core *)
Definition pend_rel (tg : option path) (pend : option string) (w : world) : Prop :=
  match tg with
  | None => True
  | Some p =>
      files_get (c_files (w_new w)) p = Some None /\
      match pend with
      | Some bytes => exists f, lookup (w_fs w) p = Some (NFile f) /\ f_bytes f = bytes
      | None => isfile (w_fs w) p = false
      end
  end.

(* ------------------------------------------------------------------ checkers *)
Definition ojson_same (a b : option pyval) : bool :=
  match a, b with Some x, Some y => pyval_same x y | None, None => true | _, _ => false end.
Definition fnode_sameb (f g : fnode) : bool :=
  (String.eqb (f_bytes f) (f_bytes g) && N.eqb (f_mtime f) (f_mtime g) && N.eqb (f_id f) (f_id g) &&
   ojson_same (f_json f) (f_json g))%bool.
Definition node_sameb (a b : option node) : bool :=
  match a, b with
  | None, None => true
  | Some NDir, Some NDir => true
  | Some (NFile f), Some (NFile g) => fnode_sameb f g
  | _, _ => false
  end.
Definition node_equivb (a b : option node) : bool :=
  match a, b with
  | None, None => true
  | Some NDir, Some NDir => true
  | Some (NFile f), Some (NFile g) => String.eqb (f_bytes f) (f_bytes g)
  | _, _ => false
  end.
Definition ofnode_sameb (a b : option fnode) : bool :=
  match a, b with Some f, Some g => fnode_sameb f g | None, None => true | _, _ => false end.

(* every path mentioned by one of the two states *)
Definition all_paths3 (w : world) (s : kstate) : list path :=
  map fst (w_fs w) ++ map fst (k_fs s) ++ map fst (k_stale s) ++ k_claimedF s ++
  map fst (c_files (w_new w)) ++ map fst (k_newF s) ++ cache_created_files (w_old w).

Definition sim3b (L0 : nat) (w : world) (s : kstate) : bool :=
  let W := c_built (w_new w) in
  let ps := all_paths3 w s in
  let ks := map fst (c_subs (w_new w)) ++ map fst (k_newS s) ++ k_claimedS s in
  (forallb (fun p => if mem_path p W then node_equivb (lookup (view_fs w) p) (lookup (k_fs s) p)
                     else node_sameb (lookup (view_fs w) p) (lookup (k_fs s) p)) ps &&
   path_eqb (k_cachefile s) (w_cachefile w) &&
   forallb (fun p => Bool.eqb (mem_path p (k_claimedF s)) (cache_has_file (w_new w) p)) ps &&
   forallb (fun k => Bool.eqb (existsb (py_eq k) (k_claimedS s)) (cache_has_subbuild (w_new w) k)) ks &&
   (* the log of this build: the mechanism world carries L0 older entries *)
   str_list_eqb (flat_map show_log1 (rev (firstn (List.length (w_log w) - L0) (w_log w))))
                (flat_map show_log1 (rev (k_log s))) &&
   forallb (fun p => match cache_get_file (w_new w) p, kf_get (k_newF s) p with
                     | Some o, Some o' => rec_relb o o'
                     | None, None => true
                     | _, _ => false
                     end) ps &&
   forallb (fun k => match subs_get (c_subs (w_new w)) k, ks_get (k_newS s) k with
                     | Some (Some o), Some o' => rec_relb o o'
                     | Some None, None | None, None => true
                     | _, _ => false
                     end) ks &&
   forallb (fun p => ofnode_sameb (stale_get (k_stale s) p)
                       (match lookup (w_fs w) p with
                        | Some (NFile f) =>
                            if cache_created_file (w_old w) p && negb (cache_has_file (w_new w) p) then Some f else None
                        | _ => None
                        end)) ps)%bool.

(* ------------------------------------------------------------------ one build on both sides *)
(* the mechanism model, up to the return of the root function *)
Definition mech_root (cf : path) (nm : string) (vers : pyval) (root : prog) (w : world)
  : option (world * (world * (outcome * list op))) :=
  match sanitize vers with
  | None => None
  | Some svers =>
      let old := old_cache_of (w_fs w) cf nm svers in
      match make_dirs (dirname cf) (start_world w cf old nm svers) with
      | (w1, inl _) =>
          let w1' := set_log (LInvoke "<root>" None PNone PNone :: w_log w1) w1 in
          Some (w1', run root None [] w1')
      | _ => None
      end
  end.

Definition core_root (cf : path) (nm : string) (vers : pyval) (root : prog) (w : world) : option (outcome * kstate) :=
  match sanitize vers with
  | None => None
  | Some svers =>
      let cr := core_build (w_fs w) cf (old_cache_of (w_fs w) cf nm svers) svers (w_clock w) (w_nextid w) root in
      match cr_state cr with Some s => Some (cr_outcome cr, s) | None => None end
  end.

Definition outcome_sameb (a b : outcome) : bool :=
  match a, b with
  | inl x, inl y => pyval_same x y
  | inr x, inr y => String.eqb (show_outcome (inr x)) (show_outcome (inr y))
  | _, _ => false
  end.

(* at the end of the root function: same outcome, Sim3 (checked) *)
Definition build_agrees (cf : path) (nm : string) (vers : pyval) (root : prog) (w : world) : bool :=
  match mech_root cf nm vers root w, core_root cf nm vers root w with
  | Some (w1, (w2, (r, _))), Some (r', s) =>
      (outcome_sameb r r' && sim3b (List.length (w_log w1) - 1) w2 s)%bool
  | _, _ => false
  end.

(* ------------------------------------------------------------------ validation *)
Module Check.
  Open Scope string_scope.

  (* the counterexample of ViewK2 (a function that writes, then builds another file) *)
  Example k2_program : build_agrees ViewK2.Refute.CF "n" (PDict []) ViewK2.Refute.root init_world = true.
  Proof. vm_compute. reflexivity. Qed.

  (* the program of CacheRTEx (a subbuild, HASH and METADATA outputs, a walk, reads, a failing
     output, a failing read), with the cache file in the sandbox root: a first build; a second
     one after an external change of an output (two functions run again, one fails again, one
     record is served); a third one in which everything is served *)
  Definition CF0 : path := ["cache"].
  Definition V := CacheRTEx.V.
  Definition root := CacheRTEx.root.
  Definition h1 := run_build CF0 "n" V root init_world.
  Definition pre2 := apply_fsop (fst h1) (FWrite ["o"; "d e"] "changed").
  Definition h2 := run_build CF0 "n" V root pre2.

  Example first_build : build_agrees CF0 "n" V root init_world = true.
  Proof. vm_compute. reflexivity. Qed.
  Example second_build : build_agrees CF0 "n" V root pre2 = true.
  Proof. vm_compute. reflexivity. Qed.
  Example third_build : build_agrees CF0 "n" V root (fst h2) = true.
  Proof. vm_compute. reflexivity. Qed.
End Check.

(* ------------------------------------------------------------------ where the two models differ in more than times *)
Module Differ.
  Open Scope string_scope.

  (* 1. A function that writes its target and then builds a file BELOW its own target path.
     Mechanism (and package): the written file is in the way, the inner build_file fails, the
     outer one succeeds.  Core holds the bytes aside, makes the target path a directory for
     the inner file, and fails the outer one when it finally writes. *)
  Definition inner : prog := Write "y" (Ret PNone).
  Definition outer : prog :=
    Write "x" (BuildFile false ["b"; "a"] METADATA "g" PNone PNone (fun _ _ _ => inner)
                 (fun o => match o with inl _ => Ret (PStr "ok") | inr _ => Ret (PStr "innerfailed") end)).
  Definition nest : prog :=
    BuildFile false ["a"] METADATA "f" PNone PNone (fun _ _ _ => outer)
      (fun o => match o with inl v => Ret v | inr _ => Ret (PStr "outerfailed") end).

  Example nested_target_outcomes :
    fst (snd (run nest None [] ViewK2.Refute.w0)) = inl (PStr "innerfailed") /\
    fst (fst (snd (core_run nest None None [] ViewK2.Refute.s0))) = inl (PStr "outerfailed").
  Proof. vm_compute. split; reflexivity. Qed.

  (* 2. A target that is a directory of the previous build holding a previous output.  Second
     build: build_file("d") fails, then build_file("d/x").  The mechanism moved d/x away when it
     made room for the file d: it runs the function of d/x again.  Core still has d/x in its
     stale store and serves it.  Same outcome and tree, another log. *)
  Definition CF : path := ["cache"].
  Definition bx (k : outcome -> prog) : prog :=
    BuildFile false ["x"; "d"] METADATA "g" PNone PNone (fun _ _ _ => Write "y" (Ret PNone)) k.
  Definition root1 : prog := bx (fun _ => Ret PNone).
  Definition root2 : prog :=
    BuildFile false ["d"] METADATA "f" PNone PNone (fun _ _ _ => Raise (XUser 1)) (fun _ => bx (fun _ => Ret PNone)).
  Definition w1 : world := fst (run_build CF "n" (PDict []) root1 init_world).

  Example stale_below_target_logs :
    match mech_root CF "n" (PDict []) root2 w1, core_root CF "n" (PDict []) root2 w1 with
    | Some (wa, (wb, _)), Some (_, s) =>
        (flat_map show_log1 (rev (firstn (List.length (w_log wb) - (List.length (w_log wa) - 1)) (w_log wb))),
         flat_map show_log1 (rev (k_log s)))
    | _, _ => ([], [])
    end
    = (["invoke <root> - N N"; "invoke f /d N N"; "invoke g /d/x N N"],
       ["invoke <root> - N N"; "invoke f /d N N"]).
  Proof. vm_compute. reflexivity. Qed.

  (* 3. The cache file in a directory that the first build made.  _build calls _make_dirs for it
     but reserves nothing: in the next build the directory is a candidate that holds only the
     (hidden) cache file, hence not visible: is_dir answers False, walk and list_dir omit it,
     while Core, the specification and a build from scratch show it.  (Observed on the package:
     is_dir(<dir of the cache file>) is True in the first build, False in the second.)
     On the history of CacheRTEx (cache file meta/cache) the second build disagrees: *)
  Example cache_dir_invisible :
    build_agrees CacheRTEx.CF "n" CacheRTEx.V CacheRTEx.root init_world = true /\
    build_agrees CacheRTEx.CF "n" CacheRTEx.V CacheRTEx.root
                 (apply_fsop (fst CacheRTEx.b1) (FWrite ["o"; "d e"] "changed")) = false.
  Proof. vm_compute. split; reflexivity. Qed.
End Differ.
