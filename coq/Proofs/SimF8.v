(* Proofs/SimF8.v — successive committed builds of the mechanism model.
   [mech_step]: a committed build whose previous cache is in the class okc, well formed (WfCache)
   and has the shape of Faithful.cache_wf hands these properties, and "the cache file is not an
   output", on to the cache that the next build reads, PROVIDED that cache is, entry by entry, the
   normal form of the cache the build wrote (ReadBack: what CacheRTMain.cache_roundtrip gives for
   a writable cache whose tables come from its forest; that the committed cache of the mechanism
   model is such a cache, and that the cache file holds it after _commit, is not proved anywhere —
   it is the per-build hypothesis [link] here).
   [mech_chain_partial]: along a chain of builds that starts without a cache file, every build
   returns the value of the reference build and leaves its tree; for the builds after the first
   none of okc, WfCache, cache_wf, cache_created_file old cf = false is assumed of the previous
   cache.  What remains assumed per build about the previous cache: Faithful.faithful_cache,
   ViewInit.old_ok, and [link].  The missing parts: [mech_readback_statement],
   [mech_next_cache_statement].                                                              *)
From Coq Require Import List String Ascii NArith ZArith Bool Arith Lia.
From FB.Base Require Import PyVal Fs.
From FB.Gen Require Import JsonUtilGen.
From FB.Spec Require Import JsonSpec Prog Ref Oracle Faithful.
From FB.Model Require Import Types Monad CreatedFiles BuildDirs SimpleOps Builder Persist PersistSpec Build Run Frame Core CoreOracle.
From FB.Proofs Require Import FsLemmas JsonLaws BuildFileLaws HashMemoInv CoreLaws1 CoreLaws2 CoreLaws6
     ViewDefs ViewLemmas ViewInit ViewXDefs ViewXFail ViewR2 ViewR3 ViewR8 ViewK3 ViewK4 ViewK8 SimA0 SimAMain SimB7 SimC0 SimC12 SimC13 SimC14 SimC15.
From FB.Proofs Require Import ReplayLaws RollbackLaws RollbackDirsLaws RollbackDirsBase RollbackDirsInv RollbackDirsMain
     CommitDirsInv CommitDirsMain CommitDirs2FileMain CommitDirs2Y CommitDirs3Run CommitDirs3Main SimD1 SimD2 SimD3 SimD4 SimD5 SimD6 SimD7 SimD8 SimD9.
From FB.Proofs Require Import SimE3 SimF1 SimF6 SimF7 SimF9.
Import ListNotations.
Open Scope list_scope.

(* ------------------------------------------------------------------ the clock when the root function has returned *)
Lemma accept_run_clock : forall cf nm svers root w old0 wf v,
  RollbackDirsLaws.m_accept cf nm svers (fun w0 => run root None [] w0) w old0 = (wf, Done (inl v)) ->
  forall w1 w2 ccd r x, make_dirs (dirname cf) (start_world w cf old0 nm svers) = (w1, inl ccd) ->
    run root None [] (set_log (LInvoke "<root>" None PNone PNone :: w_log w1) w1) = (w2, (r, x)) -> tu w2 wf.
Proof.
  intros cf nm svers root w old0 wf v Y w1 w2 ccd r x E1 E2.
  unfold RollbackDirsLaws.m_accept in Y. cbv zeta in Y. rewrite E1 in Y.
  cbv beta in Y. rewrite E2 in Y.
  destruct r as [v0|e2]; [|destruct (roll_back ccd w2) as [wr [u|e']]; discriminate Y].
  destruct (RollbackDirsLaws.bd_pre cf ccd w2) as [w3 [err|e3]] eqn:E3; [|destruct (roll_back ccd w3) as [wr [u|e']]; discriminate Y].
  pose proof (bd_pre_tu _ _ _ _ _ E3) as Q3.
  destruct (write_cache w3) as [w4 [u4|e4]] eqn:E4.
  2:{ destruct (try_to_remove_file cf w4) as [w5 r5]. destruct (roll_back ccd w5) as [wr [u|e']]; discriminate Y. }
  pose proof (write_cache_tu _ _ _ E4) as Q4.
  destruct (commit err w4) as [w5 [u5|e5]] eqn:E5; [|discriminate Y].
  inversion Y; subst w5. pose proof (commit_tu _ _ _ _ E5) as Q5.
  eapply tu_trans; [exact Q3|]. eapply tu_trans; [exact Q4|exact Q5].
Qed.

Lemma run_build_run_clock : forall cf nm vers svers root w w' v,
  sanitize vers = Some svers ->
  run_build cf nm vers root w = (w', Done (inl v)) ->
  forall w1 w2 ccd r x,
    make_dirs (dirname cf) (start_world w cf (old_cache_of (w_fs w) cf nm svers) nm svers) = (w1, inl ccd) ->
    run root None [] (set_log (LInvoke "<root>" None PNone PNone :: w_log w1) w1) = (w2, (r, x)) ->
    (w_clock w2 <= w_clock w')%N.
Proof.
  intros cf nm vers svers root w w' v Hsv H w1 w2 ccd r x E1 E2.
  unfold run_build in H.
  destruct (m_build cf nm vers (fun w0 => run root None [] w0) w) as [wf r1] eqn:E.
  inversion H; subst w' r1; clear H.
  change (w_clock (end_build wf)) with (w_clock wf).
  rewrite RollbackDirsLaws.m_build_unfold, Hsv in E. unfold old_cache_of in E1.
  destruct (lookup (w_fs w) cf) as [[g|]|].
  - destruct (cache_of_json (f_json g)) as [old0| |]; try discriminate E.
    destruct (String.eqb (c_name old0) nm); [|discriminate E].
    exact (proj1 (accept_run_clock cf nm svers root w old0 wf v E w1 w2 ccd r x E1 E2)).
  - discriminate E.
  - exact (proj1 (accept_run_clock cf nm svers root w _ wf v E w1 w2 ccd r x E1 E2)).
Qed.

(* ------------------------------------------------------------------ the cache the next build reads *)
(* c' is, entry by entry, the normal form of c (CacheRTMain.cache_roundtrip, last-but-two clause) *)
Definition ReadBack (c c' : cache) : Prop :=
  (forall p, cache_get_file c' p = option_map norm_op (cache_get_file c p)) /\
  (forall p, cache_created_file c' p = cache_created_file c p) /\
  (forall k, subs_get (c_subs c') k = option_map (option_map norm_op) (subs_get (c_subs c) k)).

Lemma WfCache_readback : forall c c', ReadBack c c' -> WfCache c -> WfCache c'.
Proof.
  intros c c' (T1 & _ & T3) [HF HS]. split.
  - intros p rec H. rewrite T1 in H. destruct (cache_get_file c p) as [o|] eqn:E; [|discriminate].
    inversion H; subst. rewrite wfrec_norm. apply (HF _ _ E).
  - intros k rec H. rewrite T3 in H. destruct (subs_get (c_subs c) k) as [[o|]|] eqn:E; try discriminate.
    inversion H; subst. rewrite wfrec_norm. apply (HS _ _ E).
Qed.

(* ------------------------------------------------------------------ one build *)
Record bstep := {
  b_w : world; b_vers : pyval; b_svers : pyval; b_root : prog; b_P : path -> Prop;
  b_kp : kappa; b_F : ftable; b_w' : world; b_v : pyval }.

Definition b_old (cf : path) (nm : string) (b : bstep) : cache := old_cache_of (w_fs (b_w b)) cf nm (b_svers b).

(* the hypotheses of SimE3.mech_commit3 other than okc / WfCache / cache_wf / "cf is not an output"
   of the previous cache, the two syntactic conditions and the two time conditions of
   SimF6.okc_next_closed, and the build *)
Record Side (cf : path) (nm : string) (b : bstep) : Prop := {
  sd_vers : sanitize (b_vers b) = Some (b_svers b);
  sd_obeys : Obeys (b_F b) (b_root b);
  sd_resp : Respects (b_F b);
  sd_init : kp_init (b_kp b) (w_fs (b_w b));
  sd_new : kp_new (b_kp b) (w_clock (b_w b));
  (* the previous cache: what is still assumed *)
  sd_faith : faithful_cache (b_kp b) (b_F b) (b_old cf nm b) (b_svers b);
  sd_ok : old_ok (b_old cf nm b) cf;
  (* the world *)
  sd_wf : fs_wf (w_fs (b_w b));
  sd_faults : w_faults (b_w b) = [];
  sd_pok : path_ok (dirname cf) = true;
  sd_nodir : isdir (w_fs (b_w b)) cf = false;
  sd_len : maxlen (w_fs (b_w b)) < walk_fuel;
  sd_vdir : vdir (Build.start_world (b_w b) cf (b_old cf nm b) nm (b_svers b)) (dirname cf) = true;
  sd_old : forall p f, lookup (w_fs (b_w b)) p = Some (NFile f) -> (f_mtime f <= w_clock (b_w b))%N;
  (* the program *)
  sd_at : AllTargets tgtP (b_root b);
  sd_nn : NoNest [] (b_root b);
  sd_qk : QueriesOk (b_root b);
  sd_wa : WfArgs (b_root b);
  sd_cm : CmpMeta (b_root b);
  sd_cl : TargetsClear (b_old cf nm b) (b_root b);
  sd_ap : TargetsApart (b_old cf nm b) (b_root b);
  sd_rk : RkNew (b_old cf nm b) [] (b_root b);
  sd_nc : NoCatch (b_root b);
  (* the targets *)
  sd_atP : AllTargets (b_P b) (b_root b);
  sd_Pt : forall p, b_P b p -> tgtP p;
  sd_below : forall a t, (b_P b t \/ t = cf \/ In t (cache_targets (b_old cf nm b))) ->
     below a t = true -> (forall f, lookup (w_fs (b_w b)) a <> Some (NFile f)) /\ ~ b_P b a;
  sd_dirs : forall d, In d (c_dirs (b_old cf nm b)) -> path_ok d = true;
  (* the build commits *)
  sd_run : run_build cf nm (b_vers b) (b_root b) (b_w b) = (b_w' b, Done (inl (b_v b)))
}.

(* what a build hands on to the next *)
Definition CacheOk (cf : path) (nm : string) (b : bstep) : Prop :=
  okc (w_clock (b_w b)) (b_old cf nm b) /\ WfCache (b_old cf nm b) /\
  cache_wf (b_old cf nm b) /\ cache_created_file (b_old cf nm b) cf = false.

(* the build returns the value of the reference build and leaves its tree *)
Definition good (cf : path) (nm : string) (b : bstep) : Prop :=
  let rr := ref_build (w_fs (b_w b)) cf (prev_of_cache (b_old cf nm b)) (w_clock (b_w b)) (w_nextid (b_w b)) (b_root b) in
  rr_outcome rr = inl (b_v b) /\
  forall p, p <> cf -> node_equiv (lookup (w_fs (b_w' b)) p) (lookup (rr_tree rr) p).

Theorem side_good : forall cf nm b, Side cf nm b -> CacheOk cf nm b -> good cf nm b.
Proof.
  intros cf nm b S (Hokc & HW & Hcwf & Hcfo). unfold good.
  exact (mech_commit3 (b_kp b) (b_F b) (b_w b) cf nm (b_vers b) (b_svers b) (b_root b) (b_P b) (b_w' b) (b_v b)
           (sd_vers _ _ _ S) (sd_obeys _ _ _ S) (sd_resp _ _ _ S) (sd_init _ _ _ S) (sd_new _ _ _ S)
           Hcwf (sd_faith _ _ _ S) Hokc (sd_ok _ _ _ S) HW Hcfo
           (sd_wf _ _ _ S) (sd_faults _ _ _ S) (sd_pok _ _ _ S) (sd_nodir _ _ _ S) (sd_len _ _ _ S) (sd_vdir _ _ _ S)
           (sd_at _ _ _ S) (sd_nn _ _ _ S) (sd_qk _ _ _ S) (sd_wa _ _ _ S) (sd_cm _ _ _ S) (sd_cl _ _ _ S) (sd_ap _ _ _ S)
           (sd_atP _ _ _ S) (sd_Pt _ _ _ S) (sd_below _ _ _ S) (sd_dirs _ _ _ S) (sd_run _ _ _ S)).
Qed.

(* ------------------------------------------------------------------ from one build to the next *)
(* the next build does not start before this one has ended; the cache it reads is the normal form
   of the cache this build wrote *)
Definition link (cf : path) (nm : string) (b b' : bstep) : Prop :=
  (w_clock (b_w' b) <= w_clock (b_w b'))%N /\
  forall w1 w2 x,
    make_dirs (dirname cf) (Build.start_world (b_w b) cf (b_old cf nm b) nm (b_svers b)) = (w1, inl []) ->
    run (b_root b) None [] (set_log (LInvoke "<root>"%string None PNone PNone :: w_log w1) w1) = (w2, (inl (b_v b), x)) ->
    ReadBack (w_new w2) (b_old cf nm b').

Theorem mech_step : forall cf nm b b',
  Side cf nm b -> CacheOk cf nm b -> link cf nm b b' -> CacheOk cf nm b'.
Proof.
  intros cf nm b b' S (Hokc & HW & _ & _) [Hclk Hlink].
  destruct (run_build_committed cf nm (b_vers b) (b_svers b) (b_root b) (b_w b) (b_w' b) (b_v b) (b_P b)
              (sd_faults _ _ _ S) (sd_vers _ _ _ S) (sd_atP _ _ _ S) (sd_wf _ _ _ S) (sd_below _ _ _ S) (sd_dirs _ _ _ S)
              HW (sd_ok _ _ _ S) (sd_Pt _ _ _ S) (sd_nodir _ _ _ S) (sd_len _ _ _ S) (sd_pok _ _ _ S) (sd_vdir _ _ _ S) (sd_run _ _ _ S))
    as (wfin & w1 & w2 & x & _ & HC).
  pose proof (cm_mk _ _ _ _ _ _ _ _ _ _ _ _ _ HC) as Emk. pose proof (cm_run _ _ _ _ _ _ _ _ _ _ _ _ _ HC) as Erun.
  fold (b_old cf nm b) in Emk.
  pose proof (Hlink w1 w2 x Emk Erun) as RB.
  pose proof (run_build_run_clock cf nm (b_vers b) (b_svers b) (b_root b) (b_w b) (b_w' b) (b_v b) (sd_vers _ _ _ S) (sd_run _ _ _ S)
                w1 w2 [] (inl (b_v b)) x Emk Erun) as Hc2.
  assert (Hc1 : (w_clock w2 <= w_clock (b_w b'))%N) by (eapply N.le_trans; eassumption).
  pose proof (old_cache_keys_ok (w_fs (b_w b)) cf nm (b_svers b)) as HKo. fold (b_old cf nm b) in HKo.
  pose proof (okc_next_closed (b_w b) cf (b_old cf nm b) nm (b_svers b) (b_root b) w1 w2 (b_v b) x (w_clock (b_w b'))
                Hokc (sd_wf _ _ _ S) (sd_ok _ _ _ S) HW HKo (sd_faults _ _ _ S) (sd_pok _ _ _ S) (sd_nodir _ _ _ S) (sd_len _ _ _ S)
                (sd_vdir _ _ _ S) (sd_at _ _ _ S) (sd_nn _ _ _ S) (sd_qk _ _ _ S) (sd_wa _ _ _ S) (sd_cm _ _ _ S) (sd_cl _ _ _ S) (sd_ap _ _ _ S)
                (sd_rk _ _ _ S) (sd_nc _ _ _ S) Emk Erun (sd_old _ _ _ S) Hc1) as Hnext.
  destruct (new_cache_rec_ok (b_w b) cf (b_old cf nm b) nm (b_svers b) (b_root b) w1 w2 (inl (b_v b)) x
                Hokc (sd_wf _ _ _ S) (sd_ok _ _ _ S) HW HKo (sd_faults _ _ _ S) (sd_pok _ _ _ S) (sd_nodir _ _ _ S) (sd_len _ _ _ S)
                (sd_vdir _ _ _ S) (sd_at _ _ _ S) (sd_nn _ _ _ S) (sd_qk _ _ _ S) (sd_wa _ _ _ S) (sd_cm _ _ _ S) (sd_cl _ _ _ S) (sd_ap _ _ _ S)
                (sd_rk _ _ _ S) Emk Erun) as (A1 & A2 & _).
  pose proof (new_cache_wf (b_w b) cf (b_old cf nm b) nm (b_svers b) (b_root b) w1 w2 (b_v b) x
                Hokc (sd_wf _ _ _ S) (sd_ok _ _ _ S) HW HKo (sd_faults _ _ _ S) (sd_pok _ _ _ S) (sd_nodir _ _ _ S) (sd_len _ _ _ S)
                (sd_vdir _ _ _ S) (sd_at _ _ _ S) (sd_nn _ _ _ S) (sd_qk _ _ _ S) (sd_wa _ _ _ S) (sd_cm _ _ _ S) (sd_cl _ _ _ S) (sd_ap _ _ _ S)
                (sd_nc _ _ _ S) Emk Erun) as Hshape.
  assert (HWn : WfCache (w_new w2)).
  { split; [intros p rec Hg; exact (rec_ok_wfrec false rec _ (A1 p rec Hg))|intros k rec Hg; exact (rec_ok_wfrec false rec _ (A2 k rec Hg))]. }
  pose proof RB as (T1 & T2 & T3).
  destruct (cache_wf_readback cf _ _ T1 T3 Hshape) as [Hcwf Hcfo].
  split; [exact (okc_readback _ _ _ T1 T2 T3 Hnext)|]. split; [exact (WfCache_readback _ _ RB HWn)|]. split; assumption.
Qed.

(* ------------------------------------------------------------------ the chain *)
Fixpoint chain (cf : path) (nm : string) (b : bstep) (l : list bstep) : Prop :=
  match l with
  | [] => True
  | b' :: r => link cf nm b b' /\ Side cf nm b' /\ chain cf nm b' r
  end.

Theorem mech_chain_from : forall cf nm l b,
  Side cf nm b -> CacheOk cf nm b -> chain cf nm b l -> Forall (good cf nm) (b :: l).
Proof.
  intros cf nm l. induction l as [|b' r IH]; intros b S HC Hch.
  - constructor; [exact (side_good cf nm b S HC)|constructor].
  - destruct Hch as (Hl & S' & Hr). constructor; [exact (side_good cf nm b S HC)|].
    exact (IH b' S' (mech_step cf nm b b' S HC Hl) Hr).
Qed.

(* the first build finds no cache file *)
Theorem mech_chain_partial : forall cf nm l b,
  lookup (w_fs (b_w b)) cf = None ->
  Side cf nm b -> chain cf nm b l -> Forall (good cf nm) (b :: l).
Proof.
  intros cf nm l b Hnone S Hch.
  assert (Eold : b_old cf nm b = empty_cache nm (b_svers b)) by (unfold b_old, old_cache_of; rewrite Hnone; reflexivity).
  apply (mech_chain_from cf nm l b S); [|exact Hch].
  unfold CacheOk. rewrite Eold. split; [apply okc_empty|]. split; [|split].
  - split; [intros p rec H0; discriminate|intros k rec H0; discriminate].
  - split; [intros p o H0; discriminate|intros k o H0; discriminate].
  - reflexivity.
Qed.

(* ------------------------------------------------------------------ what remains *)
(* (1) the cache file a committed build leaves is read back, by the next build, as the normal form
       of the cache at the end of the run of the root function (needs: CacheRTDefs.writable and
       tables_from_forest of the committed cache of the mechanism model, and the contents of the
       cache file after _commit: SimD1.Committed only says that there is a regular file) *)
Definition mech_readback_statement : Prop :=
  forall cf nm b svers', Side cf nm b -> CacheOk cf nm b ->
    forall w1 w2 x,
      make_dirs (dirname cf) (Build.start_world (b_w b) cf (b_old cf nm b) nm (b_svers b)) = (w1, inl []) ->
      run (b_root b) None [] (set_log (LInvoke "<root>"%string None PNone PNone :: w_log w1) w1) = (w2, (inl (b_v b), x)) ->
      ReadBack (w_new w2) (old_cache_of (w_fs (b_w' b)) cf nm svers').

(* (2) the conditions on the previous cache that are still assumed per build: old_ok of the cache
       read back (its lists c_files / c_dirs: not determined by ReadBack), and faithful_cache for an
       oracle that knows the tree the build leaves (for Core: CoreNextThm.core_build_next, from
       deep_cache; nothing of the kind exists for the records of the mechanism model, whose
       recorded modification times differ from Core's) *)
Definition mech_next_cache_statement : Prop :=
  forall cf nm b b', Side cf nm b -> CacheOk cf nm b -> link cf nm b b' ->
    w_fs (b_w b') = w_fs (b_w' b) -> b_F b' = b_F b ->
    old_ok (b_old cf nm b') cf /\
    exists kp', kp_init kp' (w_fs (b_w b')) /\ kp_new kp' (w_clock (b_w b')) /\
                faithful_cache kp' (b_F b') (b_old cf nm b') (b_svers b').

Print Assumptions mech_step.
Print Assumptions mech_chain_from.
Print Assumptions mech_chain_partial.
