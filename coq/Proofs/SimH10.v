(* Proofs/SimH10.v — records and directories of a build that starts from an old cache whose
   records are well formed (SimH2 without the hypothesis that the old cache is empty).
   Invariant [W2 w]: RW (w_new w), TW w, HS w (as in SimH2) and RW (w_old w).  New with respect
   to SimH2: a record found by a cache lookup is an entry of the old cache; the record made from
   it, and every record Cache.use_cached_operation registers, is well formed;
   _apply_cached_suboperations only tracks legal directories.  [run_W2]. *)
From Coq Require Import List String Ascii NArith ZArith Bool Arith Lia.
From FB.Base Require Import PyVal Fs.
From FB.Gen Require Import JsonUtilGen.
From FB.Spec Require Import JsonSpec Prog.
From FB.Model Require Import Types Monad CreatedFiles BuildDirs SimpleOps Builder Persist PersistSpec Build Run.
From FB.Proofs Require Import FsLemmas JsonLaws PersistLaws ReplayLaws BuildFileLaws HashMemoInv
  RollbackDirsBase RollbackDirsView CacheRTDefs CacheRTForest CacheRTOpen SimH2.
Import ListNotations.
Local Open Scope list_scope.
Local Open Scope m_scope.

Definition W2 (w : world) : Prop := RW (w_new w) /\ TW w /\ HS w /\ RW (w_old w).

Definition wk2 (w w' : world) : Prop := W2 w -> W2 w'.
Lemma wk2_refl : forall w, wk2 w w.
Proof. intros w H. exact H. Qed.
Lemma wk2_trans : forall a b c, wk2 a b -> wk2 b c -> wk2 a c.
Proof. intros a b c A B H. apply B, A, H. Qed.
Definition wk2PO : PO := {| rel := wk2; po_refl := wk2_refl; po_trans := wk2_trans |}.

Lemma wk2_same : forall w w', w_new w' = w_new w -> w_old w' = w_old w -> w_bd w' = w_bd w ->
  w_hash w' = w_hash w -> wk2 w w'.
Proof.
  intros w w' E1 E2 E3 E4 (A & B & C & D). unfold W2, TW, HS. rewrite E1, E2, E3, E4. auto.
Qed.

Lemma vh_wk2 : forall w w', viewPO w w' -> HXPO false w w' -> wk2 w w'.
Proof.
  intros w w' [S L] X (A & B & C & D).
  destruct S as (A1 & A2 & A3 & A4 & A5 & A6 & A7 & A8 & A9 & A10 & A11).
  destruct L as (L1 & L2 & L3 & _).
  destruct X as (_ & _ & _ & nw & Eh & Hn).
  unfold W2, TW, HS, tracked. rewrite A5, A4, L2, L3. split; [exact A|]. split; [exact B|]. split; [|exact D].
  intros p h b Hin. rewrite Eh in Hin. apply in_app_or in Hin. destruct Hin as [Hin|Hin]; [|eapply C; eauto].
  rewrite Forall_forall in Hn. destruct (Hn _ Hin) as (_ & (f & _ & Ef) & _). cbn [fst snd] in Ef.
  rewrite Ef. unfold hash_of. eauto.
Qed.

Lemma pres_vh2 : forall X (m : world -> world * X), pres viewPO m -> pres (HXPO false) m -> pres wk2PO m.
Proof. intros X m H1 H2 w w' r E. apply vh_wk2; [eapply H1; eauto | eapply H2; eauto]. Qed.

Create HintDb presv2 discriminated.
Create HintDb presh2 discriminated.
#[local] Hint Resolve m_handle_dir_exists_view m_is_removed_view is_file_no_read_view is_cache_file_view
  file_metadata_view file_hash_view list_dir_superset_view file_comparison_result_view
  m_is_file_view m_is_dir_view m_exists_view exec_query_view noneable_cmp_view version_equal_view
  dirs_to_make_view new_assert_no_file_view new_assert_no_subbuild_view m_query_view : presv2.
#[local] Hint Extern 8 (pres (HXPO _) _) => apply (pres_weaken HSPO (HXPO _) _ _ (hsame_hx _)) : presh2.
#[local] Hint Extern 9 (pres (HXPO false) _) => apply (pres_weaken (HXPO true) (HXPO false) _ _ hx_strict_weaken) : presh2.
#[local] Hint Resolve m_handle_dir_exists_hs m_is_removed_hs is_file_no_read_hs is_cache_file_hs
  file_metadata_hs list_dir_superset_hs m_is_file_hs m_is_dir_hs m_exists_hs version_equal_hs
  dirs_to_make_hs new_assert_no_file_hs new_assert_no_subbuild_hs
  file_hash_hxf file_comparison_result_hxf exec_query_hxf noneable_cmp_hxf m_query_strict : presh2.
#[local] Hint Extern 8 (pres wk2PO _) =>
  apply pres_vh2; [solve [eauto 4 with presv2] | solve [eauto 4 with presh2]] : pres.

Ltac wk2_solve :=
  lazymatch goal with |- rel wk2PO ?a ?b => change (wk2 a b) | _ => idtac end;
  first [ apply wk2_refl | apply wk2_same; reflexivity ].

Lemma effect_wk2 : forall what p f, pres wk2PO (effect what p f).
Proof. intros what p f w w' r H. unfold effect in H. cbv zeta in H. repeat dm H; inversion H; subst; wk2_solve. Qed.
Lemma effect_p_wk2 : forall what p f, pres wk2PO (effect_p what p f).
Proof. intros what p f w w' r H. unfold effect_p in H. cbv zeta in H. repeat dm H; inversion H; subst; wk2_solve. Qed.
#[local] Hint Resolve effect_wk2 effect_p_wk2 : pres.

Lemma back_up_and_remove_wk2 : forall p, pres wk2PO (back_up_and_remove p).
Proof.
  intro p. unfold back_up_and_remove. apply pres_bind; [auto with pres|]. intros _.
  intros w w' r H. cbv zeta in H. repeat dm H; inversion H; subst; wk2_solve.
Qed.
#[local] Hint Resolve back_up_and_remove_wk2 : pres.

Lemma try_to_remove_file_wk2 : forall p, pres wk2PO (try_to_remove_file p).
Proof. intro p. unfold try_to_remove_file. pres_auto. Qed.
Lemma remove_empty_dirs_wk2 : forall ds, pres wk2PO (remove_empty_dirs ds).
Proof. intro ds. unfold remove_empty_dirs. pres_auto. Qed.
Lemma make_one_dir_wk2 : forall d, pres wk2PO (make_one_dir d).
Proof. intro d. unfold make_one_dir. pres_auto. Qed.
#[local] Hint Resolve try_to_remove_file_wk2 remove_empty_dirs_wk2 make_one_dir_wk2 : pres.
Lemma make_dirs_loop_wk2 : forall ds made, pres wk2PO (make_dirs_loop ds made).
Proof. induction ds as [|d ds IH]; intro made; cbn [make_dirs_loop]; pres_auto. Qed.
#[local] Hint Resolve make_dirs_loop_wk2 : pres.
Lemma make_dirs_wk2 : forall d, pres wk2PO (make_dirs d).
Proof. intro d. unfold make_dirs. pres_auto. Qed.
#[local] Hint Resolve make_dirs_wk2 : pres.
Lemma make_room_wk2 : forall fuel d, pres wk2PO (make_room fuel d).
Proof. induction fuel as [|fuel IH]; intro d; cbn [make_room]; pres_auto. Qed.
#[local] Hint Resolve make_room_wk2 : pres.
Lemma prepare_file_creation_wk2 : forall p, pres wk2PO (prepare_file_creation p).
Proof. intro p. unfold prepare_file_creation. pres_auto. Qed.
#[local] Hint Resolve prepare_file_creation_wk2 : pres.

Lemma set_new_wk2 : forall c w, (RW (w_new w) -> RW c) -> wk2 w (set_new c w).
Proof. intros c w H (A & B & C & D). split; [exact (H A)|]. split; [exact B|]. split; [exact C | exact D]. Qed.

Lemma start_file_wk2 : forall p, pres wk2PO (new_start_building_file p).
Proof.
  intro p. unfold new_start_building_file. apply pres_bind; [auto with pres|]. intros _.
  apply pres_modify. intro w. apply set_new_wk2. intros [A B]. split; cbn [cache_with c_files c_subs]; [|exact B].
  intros q o H. destruct (in_files_set _ _ _ _ _ H) as [K|K]; [eapply A; eauto | discriminate K].
Qed.
Lemma abort_file_wk2 : forall p, pres wk2PO (new_abort_building_file p).
Proof.
  intro p. unfold new_abort_building_file. apply pres_modify. intro w. apply set_new_wk2.
  intros [A B]. split; cbn [cache_with c_files c_subs]; [|exact B].
  intros q o H. eapply A. eapply in_files_del; eauto.
Qed.
Lemma finish_file_wk2 : forall p o, op_wf o = true -> pres wk2PO (new_finish_building_file p o).
Proof.
  intros p o Ho. unfold new_finish_building_file. apply pres_modify. intro w. apply set_new_wk2.
  intros [A B]. split; cbn [cache_with c_files c_subs]; [|exact B].
  intros q o' H. destruct (in_files_set _ _ _ _ _ H) as [K|K]; [eapply A; eauto | inversion K; subst; exact Ho].
Qed.
Lemma start_sub_wk2 : forall k, pres wk2PO (new_start_subbuild k).
Proof.
  intro k. unfold new_start_subbuild. apply pres_bind; [auto with pres|]. intros _.
  apply pres_modify. intro w. apply set_new_wk2. intros [A B]. split; cbn [cache_with c_files c_subs]; [exact A|].
  intros q o H. destruct (in_subs_set _ _ _ _ _ H) as [K|K]; [eapply B; eauto | discriminate K].
Qed.
Lemma finish_sub_wk2 : forall k o, op_wf o = true -> pres wk2PO (new_finish_subbuild k o).
Proof.
  intros k o Ho. unfold new_finish_subbuild. apply pres_modify. intro w. apply set_new_wk2.
  intros [A B]. split; cbn [cache_with c_files c_subs]; [exact A|].
  intros q o' H. destruct (in_subs_set _ _ _ _ _ H) as [K|K]; [eapply B; eauto | inversion K; subst; exact Ho].
Qed.
#[local] Hint Resolve start_file_wk2 abort_file_wk2 start_sub_wk2 : pres.

Lemma m_bd_started_wk2 : forall p created, forallb path_wf created = true -> pres wk2PO (m_bd_started p created).
Proof.
  intros p created Hc w w' r H. unfold m_bd_started in H.
  destruct (bd_started (w_bd w) p created) as [b l] eqn:E. inversion H; subst.
  intros (A & B & C & D). split; [exact A|]. split; [|split; [exact C | exact D]].
  intros d Hd. cbn [w_bd set_bd] in Hd.
  destruct (bd_started_spec _ _ _ _ _ E) as (_ & _ & _ & S4 & _).
  destruct (S4 d Hd) as [K|K]; [exact (B d K)|]. rewrite forallb_forall in Hc. exact (Hc d K).
Qed.
Lemma m_bd_error_wk2 : forall p, pres wk2PO (m_bd_error p).
Proof.
  intros p w w' r H. unfold m_bd_error in H.
  destruct (bd_error (w_bd w) p) as [b|] eqn:E; inversion H; subst; [|apply wk2_refl].
  intros (A & B & C & D). split; [exact A|]. split; [|split; [exact C | exact D]].
  intros d Hd. cbn [w_bd set_bd] in Hd.
  destruct (bd_error_spec _ _ _ E) as (_ & S2 & _). apply B. apply S2. exact Hd.
Qed.
#[local] Hint Resolve m_bd_error_wk2 : pres.

Lemma bf_claim_wk2 : forall p, pres wk2PO (bf_claim p).
Proof. intro p. unfold bf_claim. pres_auto. Qed.

Lemma presW2 : forall X (m : world -> world * X) w w' r, pres wk2PO m -> m w = (w', r) -> W2 w -> W2 w'.
Proof. intros X m w w' r P E. exact (P _ _ _ E). Qed.


Lemma bf_fail_W2 : forall p c f sa skw subs e w w' r oo, W2 w ->
  op_wf (OBuildFile p c f sa skw subs PNone PNone true false) = true ->
  bf_fail p c f sa skw subs e w = (w', (r, oo)) ->
  W2 w' /\ exists o, oo = Some o /\ op_wf o = true.
Proof.
  intros p c f sa skw subs e w w' r oo HW Ho H. unfold bf_fail in H. cbv zeta in H.
  match type of H with (match ?X with _ => _ end) = _ => destruct X as [w1 [u|e1]] eqn:E end;
    inversion H; subst; (split; [|eexists; split; [reflexivity | exact Ho]]).
  all: refine (presW2 _ _ _ _ _ _ E HW); pose proof (finish_file_wk2 p _ Ho); pres_auto.
Qed.

Lemma bf_finish_W2 : forall p c f sa skw res subs w w' r oo, W2 w ->
  path_wf p = true -> sanitized sa = true -> sanitized skw = true -> forallb op_wf subs = true ->
  bf_finish p c f sa skw res subs w = (w', (r, oo)) ->
  W2 w' /\ exists o, oo = Some o /\ op_wf o = true.
Proof.
  intros p c f sa skw res subs w w' r oo HW Hp Ha Hk Hs H. unfold bf_finish in H.
  assert (Ho : op_wf (OBuildFile p c f sa skw subs PNone PNone true false) = true).
  { cbn [op_wf]. rewrite Hp, Ha, Hk, Hs. reflexivity. }
  assert (F : forall e w0, W2 w0 -> bf_fail p c f sa skw subs e w0 = (w', (r, oo)) ->
                W2 w' /\ exists o, oo = Some o /\ op_wf o = true).
  { intros e w0 H0 E. eapply bf_fail_W2; eauto. }
  destruct res as [v|e]; [|eapply F; eauto].
  destruct (sanitize v) as [sv|] eqn:Esv; [|eapply F; eauto].
  destruct (noneable_cmp p c w) as [w4 [cmp|e]] eqn:E.
  - assert (W4 : W2 w4) by (refine (presW2 _ _ _ _ _ _ E HW); auto with pres).
    pose proof (noneable_cmp_val _ _ _ _ _ (proj1 (proj2 (proj2 HW))) E) as Hc.
    assert (Ho2 : op_wf (OBuildFile p c f sa skw subs sv cmp false false) = true).
    { cbn [op_wf]. rewrite Hp, Ha, Hk, Hs, Hc, (sanitize_sanitized _ _ Esv). reflexivity. }
    destruct cmp; try (eapply F; eauto; fail).
    all: cbv zeta in H;
      match type of H with (match ?X with _ => _ end) = _ => destruct X as [w5 u5] eqn:E5 end;
      inversion H; subst; (split; [|eexists; split; [reflexivity | exact Ho2]]);
      exact (presW2 _ _ _ _ _ (finish_file_wk2 p _ Ho2) E5 W4).
  - assert (W4 : W2 w4) by (refine (presW2 _ _ _ _ _ _ E HW); auto with pres).
    eapply F; eauto.
Qed.


Lemma sb_finish_W2 : forall f sa skw res subs w w' r oo, W2 w ->
  sanitized sa = true -> sanitized skw = true -> forallb op_wf subs = true ->
  sb_finish f sa skw res subs w = (w', (r, oo)) ->
  W2 w' /\ exists o, oo = Some o /\ op_wf o = true.
Proof.
  intros f sa skw res subs w w' r oo HW Ha Hk Hs H. unfold sb_finish in H. cbv zeta in H.
  assert (G : forall rr o, op_wf o = true ->
     (match new_finish_subbuild (subbuild_key f sa skw) o w with (w4, _) => (w4, (rr, Some o)) end) = (w', (r, oo)) ->
     W2 w' /\ exists o, oo = Some o /\ op_wf o = true).
  { intros rr o Ho E. destruct (new_finish_subbuild (subbuild_key f sa skw) o w) as [w4 u4] eqn:E4.
    inversion E; subst. split; [exact (presW2 _ _ _ _ _ (finish_sub_wk2 _ _ Ho) E4 HW) | eauto]. }
  destruct res as [v|e].
  - destruct (sanitize v) as [sv|] eqn:Esv.
    + eapply G; [|exact H]. cbn [op_wf]. rewrite Ha, Hk, Hs, (sanitize_sanitized _ _ Esv). reflexivity.
    + eapply G; [|exact H]. cbn [op_wf]. rewrite Ha, Hk, Hs. reflexivity.
  - eapply G; [|exact H]. cbn [op_wf]. rewrite Ha, Hk, Hs. reflexivity.
Qed.

Lemma m_query_W2 : forall q w w1 r o, W2 w -> query_wf q = true -> m_query q w = (w1, (r, o)) ->
  W2 w1 /\ forall x, o = Some x -> op_wf x = true.
Proof.
  intros q w w1 r o HW Hq H. split.
  - refine (presW2 _ _ _ _ _ _ H HW). auto with pres.
  - unfold m_query in H. destruct (exec_query q None w) as [w2 [v|e]] eqn:E.
    + inversion H; subst. intros x Y. inversion Y; subst. cbn [op_wf]. rewrite Hq.
      rewrite (exec_query_val _ _ _ _ (proj1 (proj2 (proj2 HW))) E). reflexivity.
    + destruct e; inversion H; subst; intros x Y; inversion Y; subst; cbn [op_wf]; rewrite Hq; reflexivity.
Qed.

Lemma W2_log_answer : forall q r w, W2 w -> W2 (log_answer q r w).
Proof.
  intros q r w. unfold log_answer.
  repeat match goal with |- context [match ?y with _ => _ end] => destruct y end;
    first [exact (fun H => H) | apply wk2_same; reflexivity].
Qed.


(* ------------------------------------------------------------------ what a lookup returns *)
Lemma files_get_in : forall l p v, files_get l p = Some v -> exists q, In (q, v) l.
Proof.
  induction l as [|[q o] l IH]; intros p v H; [discriminate H|]. cbn [files_get] in H.
  destruct (path_eqb q p); [inversion H; subst; exists q; left; reflexivity|].
  destruct (IH _ _ H) as [q' K]. exists q'. right. exact K.
Qed.
Lemma subs_get_in : forall l p v, subs_get l p = Some v -> exists q, In (q, v) l.
Proof.
  induction l as [|[q o] l IH]; intros p v H; [discriminate H|]. cbn [subs_get] in H.
  destruct (py_eq q p); [inversion H; subst; exists q; left; reflexivity|].
  destruct (IH _ _ H) as [q' K]. exists q'. right. exact K.
Qed.

Lemma bfcl_val : forall p f a k w w' co, build_file_cache_lookup p f a k w = (w', inl (Some co)) ->
  is_bf co = true /\ exists q, In (q, Some co) (c_files (w_old w)).
Proof.
  intros p f a k w w' co H. unfold build_file_cache_lookup in H. unfold bind at 1, get in H.
  unfold cache_get_file in H. destruct (files_get (c_files (w_old w)) p) as [[o|]|] eqn:Eo; try (inversion H; fail).
  destruct o as [| p' c' f' a' k' subs' ret' cmp' raised' sf' |]; try (inversion H; fail).
  assert (V : co = OBuildFile p' c' f' a' k' subs' ret' cmp' raised' sf').
  { minv H; reflexivity. }
  subst co. split; [reflexivity|]. eapply files_get_in; eauto.
Qed.

Lemma sbcl_val : forall key f w w' co, subbuild_cache_lookup key f w = (w', inl (Some co)) ->
  is_sb co = true /\ exists q, In (q, Some co) (c_subs (w_old w)).
Proof.
  intros key f w w' co H. unfold subbuild_cache_lookup in H. unfold bind at 1, get in H.
  destruct (subs_get (c_subs (w_old w)) key) as [[o|]|] eqn:Eo; try (inversion H; fail).
  destruct o as [| | f' a' k' subs' ret' raised' sf']; try (inversion H; fail).
  assert (V : co = OSubbuild f' a' k' subs' ret' raised' sf').
  { minv H; reflexivity. }
  subst co. split; [reflexivity|]. eapply subs_get_in; eauto.
Qed.

(* ------------------------------------------------------------------ use_cached_operation *)
Lemma fold_register_RW : forall subs,
  Forall (fun s => forall c, op_wf s = true -> RW c -> RW (register_op c s)) subs ->
  forallb op_wf subs = true -> forall c, RW c -> RW (fold_left register_op subs c).
Proof.
  intros subs HF. induction HF as [|s rest Hs HF IH]; intros Hw c Hc; cbn [fold_left]; [exact Hc|].
  cbn [forallb] in Hw. apply andb_true_iff in Hw. destruct Hw as [W1 W2']. apply IH; [exact W2'|]. apply Hs; assumption.
Qed.

Lemma register_op_RW : forall o c, op_wf o = true -> RW c -> RW (register_op c o).
Proof.
  induction o as [q r e | p c0 f a k subs r cr ra sf IH | f a k subs r ra sf IH] using op_ind'; intros c Ho Hc; cbn [register_op].
  - exact Hc.
  - apply (fold_register_RW subs IH).
    + rewrite op_wf_build_eq in Ho. apply andb_true_iff in Ho. tauto.
    + destruct sf; [exact Hc|]. destruct Hc as [A B]. split; cbn [cache_with c_files c_subs]; [|exact B].
      intros q o' H. destruct (in_files_set _ _ _ _ _ H) as [K|K]; [eapply A; eauto | inversion K; subst; exact Ho].
  - apply (fold_register_RW subs IH).
    + rewrite op_wf_sub_eq in Ho. apply andb_true_iff in Ho. tauto.
    + destruct sf; [exact Hc|]. destruct Hc as [A B]. split; cbn [cache_with c_files c_subs]; [exact A|].
      intros q o' H. destruct (in_subs_set _ _ _ _ _ H) as [K|K]; [eapply B; eauto | inversion K; subst; exact Ho].
Qed.

Lemma use_cached_wk2 : forall o, op_wf o = true -> pres wk2PO (new_use_cached_operation o).
Proof.
  intros o Ho w w' r H. unfold new_use_cached_operation in H. unfold bind, get in H.
  destruct (assert_no_repeats (w_new w) o).
  - unfold put in H. inversion H; subst. apply set_new_wk2. intro A. apply register_op_RW; assumption.
  - inversion H; subst. apply wk2_refl.
Qed.

Lemma pres_bind_v : forall (P : PO) A B (m : M A) (f : A -> M B) (Q : A -> Prop),
  pres P m -> vpost m Q -> (forall a, Q a -> pres P (f a)) -> pres P (bind m f).
Proof.
  intros P A B m f Q Hm Hv Hf w w' r H. apply bind_inv in H.
  destruct H as [(w1 & a & E1 & E2) | (e & E1 & _)].
  - eapply po_trans; [eapply Hm; eauto|]. eapply Hf; [eapply Hv; eauto | eauto].
  - eapply Hm; eauto.
Qed.

Lemma apply_cached_wk2 : forall o, op_wf o = true -> pres wk2PO (apply_cached_subs_of o).
Proof.
  induction o as [q r e | p c f a k subs r cr ra sf IH | f a k subs r ra sf IH] using op_ind'; intro Ho;
    cbn [apply_cached_subs_of]; [apply pres_ret| |].
  - assert (Hs : forallb op_wf subs = true) by (rewrite op_wf_build_eq in Ho; apply andb_true_iff in Ho; tauto).
    clear Ho. induction IH as [|s rest Hs1 HF IHl]; cbn beta iota fix; [apply pres_ret|].
    cbn [forallb] in Hs. apply andb_true_iff in Hs. destruct Hs as [Ws Wr].
    apply pres_bind; [|intros _; exact (IHl Wr)].
    destruct s as [q0 r0 e0 | p0 c0 f0 a0 k0 subs0 r0 cr0 ra0 sf0 | f0 a0 k0 subs0 r0 ra0 sf0]; [apply pres_ret | | exact (Hs1 Ws)].
    destruct ra0; [exact (Hs1 Ws)|].
    assert (Hp0 : path_wf p0 = true) by (rewrite op_wf_build_eq in Ws; split_andb Ws; assumption).
    apply (pres_bind_v _ _ _ _ _ (fun ds => forallb path_wf ds = true)); [auto with pres | apply make_dirs_wf; apply path_wf_tl; exact Hp0 |].
    intros created Hc. apply pres_bind; [apply m_bd_started_wk2; exact Hc|]. intros locked.
    apply pres_catch; [exact (Hs1 Ws)|]. intro e. pres_auto.
  - assert (Hs : forallb op_wf subs = true) by (rewrite op_wf_sub_eq in Ho; apply andb_true_iff in Ho; tauto).
    clear Ho. induction IH as [|s rest Hs1 HF IHl]; cbn beta iota fix; [apply pres_ret|].
    cbn [forallb] in Hs. apply andb_true_iff in Hs. destruct Hs as [Ws Wr].
    apply pres_bind; [|intros _; exact (IHl Wr)].
    destruct s as [q0 r0 e0 | p0 c0 f0 a0 k0 subs0 r0 cr0 ra0 sf0 | f0 a0 k0 subs0 r0 ra0 sf0]; [apply pres_ret | | exact (Hs1 Ws)].
    destruct ra0; [exact (Hs1 Ws)|].
    assert (Hp0 : path_wf p0 = true) by (rewrite op_wf_build_eq in Ws; split_andb Ws; assumption).
    apply (pres_bind_v _ _ _ _ _ (fun ds => forallb path_wf ds = true)); [auto with pres | apply make_dirs_wf; apply path_wf_tl; exact Hp0 |].
    intros created Hc. apply pres_bind; [apply m_bd_started_wk2; exact Hc|]. intros locked.
    apply pres_catch; [exact (Hs1 Ws)|]. intro e. pres_auto.
Qed.

(* ------------------------------------------------------------------ the setup, with reuse *)
Definition rec_of (x : op + exn * op) : op := match x with inl o => o | inr (_, o) => o end.

Lemma old_wf_f : forall w q co, W2 w -> In (q, Some co) (c_files (w_old w)) -> op_wf co = true.
Proof. intros w q co (_ & _ & _ & [A _]) H. eapply A; eauto. Qed.
Lemma old_wf_s : forall w q co, W2 w -> In (q, Some co) (c_subs (w_old w)) -> op_wf co = true.
Proof. intros w q co (_ & _ & _ & [_ B]) H. eapply B; eauto. Qed.

Lemma reuse_tail_W2 : forall co o o' w w1 r, W2 w -> op_wf co = true -> op_wf o = true -> op_wf o' = true ->
  (apply_cached_subs_of co ;;;
   r <- attempt (new_use_cached_operation o) ;;
   match r with
   | inl _ => ret (Some (inl o))
   | inr e => ret (Some (@inr op (exn * op) (e, o')))
   end) w = (w1, r) ->
  W2 w1 /\ forall x, r = inl (Some x) -> op_wf (rec_of x) = true.
Proof.
  intros co o o' w w1 r HW Hco Ho Ho' H.
  apply bind_inv in H. destruct H as [(wa & ua & Ea & H) | (e & Ea & ->)].
  2:{ split; [exact (presW2 _ _ _ _ _ (apply_cached_wk2 co Hco) Ea HW) | intros x Y; discriminate Y]. }
  pose proof (presW2 _ _ _ _ _ (apply_cached_wk2 co Hco) Ea HW) as Wa.
  apply bind_inv in H. destruct H as [(wb & rb & Eb & H) | (e & Eb & ->)].
  2:{ apply attempt_inv in Eb. destruct Eb as (x & _ & Y). discriminate Y. }
  apply attempt_inv in Eb. destruct Eb as (x & Eb & Y0). inversion Y0; subst rb; clear Y0.
  pose proof (presW2 _ _ _ _ _ (use_cached_wk2 o Ho) Eb Wa) as Wb.
  destruct x as [u|e]; inversion H; subst; (split; [exact Wb|]); intros x Y; inversion Y; subst; cbn [rec_of]; assumption.
Qed.

Lemma bf_reuse_W2 : forall p c f sa skw cached w w1 r, W2 w -> path_wf p = true ->
  sanitized sa = true -> sanitized skw = true ->
  (forall co, cached = Some co -> is_bf co = true /\ op_wf co = true) ->
  bf_reuse p c f sa skw cached w = (w1, r) ->
  W2 w1 /\ forall x, r = inl (Some x) -> op_wf (rec_of x) = true.
Proof.
  intros p c f sa skw cached w w1 r HW Hp Ha Hk Hc H. unfold bf_reuse in H.
  destruct cached as [co|]; [|inversion H; subst; split; [exact HW | intros x Y; discriminate Y]].
  destruct (Hc co eq_refl) as [Hb Hco].
  apply bind_inv in H. destruct H as [(wa & cmp & Ea & H) | (e & Ea & ->)].
  2:{ split; [|intros x Y; discriminate Y]. refine (presW2 _ _ _ _ _ _ Ea HW). auto with pres. }
  assert (Wa : W2 wa) by (refine (presW2 _ _ _ _ _ _ Ea HW); auto with pres).
  pose proof (noneable_cmp_val _ _ _ _ _ (proj1 (proj2 (proj2 HW))) Ea) as Hcmp.
  destruct co as [| p' c' f' a' k' subs' ret' cmp' raised' sf' |]; try discriminate Hb.
  pose proof Hco as Hco'. rewrite op_wf_build_eq in Hco. split_andb Hco. cbn [op_subs op_ret] in H.
  assert (G : forall ra sf, op_wf (OBuildFile p c f sa skw subs' ret' cmp ra sf) = true).
  { intros ra sf. rewrite op_wf_build_eq, Hp, Ha, Hk, Hco2, Hcmp, Hco0. reflexivity. }
  destruct cmp; try (exact (reuse_tail_W2 _ _ _ _ _ _ Wa Hco' (G false false) (G true true) H)).
  inversion H; subst. split; [exact Wa | intros x Y; discriminate Y].
Qed.

Lemma bf_setup_W2 : forall p c f sa skw w w1 r, W2 w -> path_wf p = true ->
  sanitized sa = true -> sanitized skw = true ->
  bf_setup p c f sa skw w = (w1, r) ->
  W2 w1 /\ forall x, r = inl (Some x) -> op_wf (rec_of x) = true.
Proof.
  intros p c f sa skw w w1 r HW Hp Ha Hk H. unfold bf_setup in H.
  apply bind_inv in H. destruct H as [(wa & ua & Ea & H) | (e & Ea & ->)].
  2:{ split; [|intros x Y; discriminate Y]. refine (presW2 _ _ _ _ _ _ Ea HW). auto with pres. }
  assert (Wa : W2 wa) by (refine (presW2 _ _ _ _ _ _ Ea HW); auto with pres).
  apply bind_inv in H. destruct H as [(wb & icf & Eb & H) | (e & Eb & ->)].
  2:{ split; [|intros x Y; discriminate Y]. refine (presW2 _ _ _ _ _ _ Eb Wa). auto with pres. }
  assert (Wb : W2 wb) by (refine (presW2 _ _ _ _ _ _ Eb Wa); auto with pres).
  apply bind_inv in H. destruct H as [(wc & uc & Ec & H) | (e & Ec & ->)].
  2:{ split; [|intros x Y; discriminate Y]. destruct icf; inversion Ec; subst; exact Wb. }
  assert (Wc : W2 wc) by (destruct icf; inversion Ec; subst; exact Wb).
  apply bind_inv in H. destruct H as [(wd & created & Ed & H) | (e & Ed & ->)].
  2:{ split; [|intros x Y; discriminate Y]. refine (presW2 _ _ _ _ _ _ Ed Wc). auto with pres. }
  assert (Wd : W2 wd) by (refine (presW2 _ _ _ _ _ _ Ed Wc); auto with pres).
  pose proof (prepare_file_creation_wf p Hp _ _ _ Ed) as Hcr.
  apply bind_inv in H. destruct H as [(we & locked & Ee & H) | (e & Ee & ->)].
  2:{ split; [|intros x Y; discriminate Y]. exact (presW2 _ _ _ _ _ (m_bd_started_wk2 p created Hcr) Ee Wd). }
  assert (We : W2 we) by exact (presW2 _ _ _ _ _ (m_bd_started_wk2 p created Hcr) Ee Wd).
  apply catch_inv in H. destruct H as [(a & H & ->) | (wf & e & H & H2)].
  - apply bind_inv in H. destruct H as [(wg & cached & Eg & H) | (e & _ & Y)]; [|discriminate Y].
    assert (Wg : W2 wg).
    { refine (presW2 _ _ _ _ _ _ Eg We). apply pres_vh2; [apply build_file_cache_lookup_view | apply build_file_cache_lookup_hxf]. }
    assert (Hc : forall co, cached = Some co -> is_bf co = true /\ op_wf co = true).
    { intros co ->. destruct (bfcl_val _ _ _ _ _ _ _ Eg) as [B [q Hin]]. split; [exact B | exact (old_wf_f we q co We Hin)]. }
    apply bind_inv in H. destruct H as [(wh & reused & Eh & H) | (e & _ & Y)]; [|discriminate Y].
    destruct (bf_reuse_W2 _ _ _ _ _ _ _ _ _ Wg Hp Ha Hk Hc Eh) as [Wh Hr].
    destruct reused as [[o|eo]|].
    + inversion H; subst. split; [exact Wh|]. intros x Y. inversion Y; subst. exact (Hr _ eq_refl).
    + apply bind_inv in H. destruct H as [(wi & ui & Ei & H) | (e & _ & Y)]; [|discriminate Y].
      inversion H; subst. split; [exact (presW2 _ _ _ _ _ (m_bd_error_wk2 p) Ei Wh)|].
      intros x Y. inversion Y; subst. exact (Hr _ eq_refl).
    + split; [exact (presW2 _ _ _ _ _ (bf_claim_wk2 p) H Wh)|]. intros x Y. inversion Y; subst.
      pose proof (bf_claim_none _ _ _ _ H) as Z. discriminate Z.
  - assert (Wf : W2 wf).
    { apply bind_inv in H. destruct H as [(wg & cached & Eg & H) | (e' & Eg & _)].
      2:{ refine (presW2 _ _ _ _ _ _ Eg We). apply pres_vh2; [apply build_file_cache_lookup_view | apply build_file_cache_lookup_hxf]. }
      assert (Wg : W2 wg).
      { refine (presW2 _ _ _ _ _ _ Eg We). apply pres_vh2; [apply build_file_cache_lookup_view | apply build_file_cache_lookup_hxf]. }
      assert (Hc : forall co, cached = Some co -> is_bf co = true /\ op_wf co = true).
      { intros co ->. destruct (bfcl_val _ _ _ _ _ _ _ Eg) as [B [q Hin]]. split; [exact B | exact (old_wf_f we q co We Hin)]. }
      apply bind_inv in H. destruct H as [(wh & reused & Eh & H) | (e' & Eh & _)].
      2:{ exact (proj1 (bf_reuse_W2 _ _ _ _ _ _ _ _ _ Wg Hp Ha Hk Hc Eh)). }
      destruct (bf_reuse_W2 _ _ _ _ _ _ _ _ _ Wg Hp Ha Hk Hc Eh) as [Wh Hr].
      destruct reused as [[o|eo]|].
      + inversion H.
      + apply bind_inv in H. destruct H as [(wi & ui & Ei & H) | (e' & Ei & _)]; [inversion H|].
        exact (presW2 _ _ _ _ _ (m_bd_error_wk2 p) Ei Wh).
      + exact (presW2 _ _ _ _ _ (bf_claim_wk2 p) H Wh). }
    apply bind_inv in H2. destruct H2 as [(wg & ug & Eg & H2) | (e' & Eg & ->)].
    + inversion H2; subst. split; [exact (presW2 _ _ _ _ _ (m_bd_error_wk2 p) Eg Wf) | intros x Y; discriminate Y].
    + split; [exact (presW2 _ _ _ _ _ (m_bd_error_wk2 p) Eg Wf) | intros x Y; discriminate Y].
Qed.

Lemma sb_setup_W2 : forall f sa skw w w1 r, W2 w -> sanitized sa = true -> sanitized skw = true ->
  sb_setup f sa skw w = (w1, r) ->
  W2 w1 /\ forall x, r = inl (Some x) -> op_wf (rec_of x) = true.
Proof.
  intros f sa skw w w1 r HW Ha Hk H. unfold sb_setup in H. cbv zeta in H.
  apply bind_inv in H. destruct H as [(wa & ua & Ea & H) | (e & Ea & ->)].
  2:{ split; [|intros x Y; discriminate Y]. refine (presW2 _ _ _ _ _ _ Ea HW). auto with pres. }
  assert (Wa : W2 wa) by (refine (presW2 _ _ _ _ _ _ Ea HW); auto with pres).
  apply bind_inv in H. destruct H as [(wb & cached & Eb & H) | (e & Eb & ->)].
  2:{ split; [|intros x Y; discriminate Y]. refine (presW2 _ _ _ _ _ _ Eb Wa).
      apply pres_vh2; [apply subbuild_cache_lookup_view | apply subbuild_cache_lookup_hxf]. }
  assert (Wb : W2 wb).
  { refine (presW2 _ _ _ _ _ _ Eb Wa). apply pres_vh2; [apply subbuild_cache_lookup_view | apply subbuild_cache_lookup_hxf]. }
  destruct cached as [co|].
  - destruct (sbcl_val _ _ _ _ _ Eb) as [B [q Hin]]. pose proof (old_wf_s _ _ _ Wa Hin) as Hco.
    destruct co as [| | f' a' k' subs' ret' raised' sf']; try discriminate B.
    pose proof Hco as Hco'. rewrite op_wf_sub_eq in Hco. split_andb Hco. cbn [op_subs op_ret] in H.
    assert (G : forall ra sf, op_wf (OSubbuild f sa skw subs' ret' ra sf) = true).
    { intros ra sf. rewrite op_wf_sub_eq, Ha, Hk, Hco1, Hco0. reflexivity. }
    exact (reuse_tail_W2 _ _ _ _ _ _ Wb Hco' (G false false) (G true true) H).
  - apply bind_inv in H. destruct H as [(wc & uc & Ec & H) | (e & Ec & ->)].
    + inversion H; subst. split; [exact (presW2 _ _ _ _ _ (start_sub_wk2 _) Ec Wb) | intros x Y; discriminate Y].
    + split; [exact (presW2 _ _ _ _ _ (start_sub_wk2 _) Ec Wb) | intros x Y; discriminate Y].
Qed.

(* ------------------------------------------------------------------ every program *)
Theorem run_W2 : forall pr, prog_paths_wf pr -> forall target subs w w' r subs',
  W2 w -> forallb op_wf subs = true -> run pr target subs w = (w', (r, subs')) ->
  W2 w' /\ forallb op_wf subs' = true.
Proof.
  induction 1 as [v | e | s q k Hq Hk IHk | c k Hk IHk | s p c f a kw fn k Hp Hfn IHfn Hk IHk | s f a kw fn k Hfn IHfn Hk IHk];
    intros target subs w w' r subs' HW Hs H; cbn [run] in H.
  - inversion H; subst. auto.
  - inversion H; subst. auto.
  - destruct s; [eapply IHk; eauto|].
    destruct (m_query q w) as [w1 [r1 o]] eqn:E.
    destruct (m_query_W2 _ _ _ _ _ HW Hq E) as [W1 Ho].
    eapply IHk; [| |exact H]; [apply W2_log_answer; exact W1 | apply forallb_app_op; assumption].
  - destruct target as [t|]; [|eapply IHk; eauto].
    destruct (write_file (w_fs w) t c None (N.succ (w_clock w)) (w_nextid w)) as [fs'|e] eqn:E.
    + eapply IHk; [| |exact H]; [|exact Hs]. refine ((_ : wk2 w _) HW). apply wk2_same; reflexivity.
    + inversion H; subst. auto.
  - destruct s; [eapply IHk; eauto|].
    match type of H with (let '(_, _) := ?X in _) = _ => destruct X as [w1 [r1 o]] eqn:E end.
    assert (K : W2 w1 /\ forall x, o = Some x -> op_wf x = true).
    { rewrite m_build_file_unfold in E.
      destruct (sanitize a) as [sa|] eqn:Ea; [|inversion E; subst; split; [exact HW | intros x Y; discriminate Y]].
      destruct (sanitize kw) as [skw|] eqn:Ek; [|inversion E; subst; split; [exact HW | intros x Y; discriminate Y]].
      pose proof (sanitize_sanitized _ _ Ea) as Sa. pose proof (sanitize_sanitized _ _ Ek) as Sk.
      destruct (bf_setup p c f sa skw w) as [w2 rs] eqn:Es.
      destruct (bf_setup_W2 _ _ _ _ _ _ _ _ HW Hp Sa Sk Es) as [W2' Hr].
      destruct rs as [[[o0|[e0 o0]]|]|e0].
      - inversion E; subst. split; [exact W2'|]. intros x Y. inversion Y; subst. exact (Hr _ eq_refl).
      - inversion E; subst. split; [exact W2'|]. intros x Y. inversion Y; subst. exact (Hr _ eq_refl).
      - unfold bf_rebuild in E.
        destruct (run (fn p sa skw) (Some p) [] (bf_invoke_world p f sa skw w2)) as [w3 [res bs]] eqn:Ef.
        assert (Wi : W2 (bf_invoke_world p f sa skw w2)) by (refine ((_ : wk2 w2 _) W2'); apply wk2_same; reflexivity).
        destruct (IHfn p sa skw _ [] _ _ _ _ Wi eq_refl Ef) as [W3 Hbs].
        destruct (bf_finish_W2 _ _ _ _ _ _ _ _ _ _ _ W3 Hp Sa Sk Hbs E) as [W4 (o' & -> & Ho')].
        split; [exact W4 | intros x Y; inversion Y; subst; exact Ho'].
      - inversion E; subst. split; [exact W2'|]. intros x Y. inversion Y; subst. cbn [op_wf forallb].
        rewrite Hp, Sa, Sk. reflexivity. }
    destruct K as [W1 Ho]. eapply IHk; [| |exact H]; [exact W1 | apply forallb_app_op; assumption].
  - destruct s; [eapply IHk; eauto|].
    match type of H with (let '(_, _) := ?X in _) = _ => destruct X as [w1 [r1 o]] eqn:E end.
    assert (K : W2 w1 /\ forall x, o = Some x -> op_wf x = true).
    { rewrite m_subbuild_unfold in E.
      destruct (sanitize a) as [sa|] eqn:Ea; [|inversion E; subst; split; [exact HW | intros x Y; discriminate Y]].
      destruct (sanitize kw) as [skw|] eqn:Ek; [|inversion E; subst; split; [exact HW | intros x Y; discriminate Y]].
      pose proof (sanitize_sanitized _ _ Ea) as Sa. pose proof (sanitize_sanitized _ _ Ek) as Sk.
      destruct (sb_setup f sa skw w) as [w2 rs] eqn:Es.
      destruct (sb_setup_W2 _ _ _ _ _ _ HW Sa Sk Es) as [W2' Hr].
      destruct rs as [[[o0|[e0 o0]]|]|e0].
      - inversion E; subst. split; [exact W2'|]. intros x Y. inversion Y; subst. exact (Hr _ eq_refl).
      - inversion E; subst. split; [exact W2'|]. intros x Y. inversion Y; subst. exact (Hr _ eq_refl).
      - unfold sb_rebuild in E.
        destruct (run (fn sa skw) None [] (sb_invoke_world f sa skw w2)) as [w3 [res bs]] eqn:Ef.
        assert (Wi : W2 (sb_invoke_world f sa skw w2)) by (refine ((_ : wk2 w2 _) W2'); apply wk2_same; reflexivity).
        destruct (IHfn sa skw _ [] _ _ _ _ Wi eq_refl Ef) as [W3 Hbs].
        destruct (sb_finish_W2 _ _ _ _ _ _ _ _ _ W3 Sa Sk Hbs E) as [W4 (o' & -> & Ho')].
        split; [exact W4 | intros x Y; inversion Y; subst; exact Ho'].
      - inversion E; subst. split; [exact W2'|]. intros x Y. inversion Y; subst. cbn [op_wf forallb].
        rewrite Sa, Sk. reflexivity. }
    destruct K as [W1 Ho]. eapply IHk; [| |exact H]; [exact W1 | apply forallb_app_op; assumption].
Qed.

Print Assumptions run_W2.
