(* Proofs/SimL2.v — C03, directory half (continued from SimL1.v):
   1. "... and it is empty", for committed builds.  SimL1.foreign_directories_survive says which
      directories a committed build may remove: those the previous cache records as created.  That
      such a directory goes only when nothing foreign is below it follows from the file half
      (FrameLaws) and SimL1 PROVIDED the tree after the build is well formed (every node has a
      directory as parent): [committed_directory_with_foreign_content_survives_partial].  That a
      build keeps the tree well formed is proved piecewise inside CommitDirs*/RollbackDirs* but is
      not available as a theorem about run_build: [run_build_keeps_tree_well_formed_statement]
      (checked by evaluation on the examples below).  After a raised or a refused build every
      directory survives (SimL1), so nothing is to be said there.
   2. The premise "not recorded by the previous cache" of the committed case is needed
      ([recorded_empty_directory_goes]: allowed by the property text - a build created the
      directory and it is empty).
   3. Instances, all hypotheses proved: a rebuild that commits and one that raises, on a tree with
      a foreign directory and a foreign file planted inside directories made by the previous
      build ([committed_instance], [raised_instance], [raised_appear_instance]); a first build
      ([first_build_appear_instance]); clean ([clean_instance]).
   New file; edits nothing. *)
From Coq Require Import List String Ascii NArith ZArith Bool Arith Lia.
From FB.Base Require Import PyVal Fs.
From FB.Gen Require Import JsonUtilGen.
From FB.Spec Require Import Prog Ref Oracle.
From FB.Model Require Import Types Monad CreatedFiles BuildDirs SimpleOps Builder Persist Build Run Dsl Frame.
From FB.Proofs Require Import FsLemmas FrameLaws CleanLaws RollbackLaws RollbackDirsBase RollbackDirsLaws RollbackDirsMain
  CommitDirsMain ViewDefs ViewInit ViewR2 ViewR3 SimD3 CoreNextInst RollbackDirsEx SimI2 SimL1.
Import ListNotations.
Local Open Scope list_scope.
Open Scope string_scope.

(* ------------------------------------------------------------------ 1. "and it is empty" *)
Theorem committed_directory_with_foreign_content_survives_partial :
  forall cf nm vers svers root w w' v (P : path -> Prop),
  w_faults w = [] -> sanitize vers = Some svers -> AllTargets P root ->
  fs_wf (w_fs w) ->
  CondA P cf (old_cache_of (w_fs w) cf nm svers) (w_fs w) ->
  dirs_ok (old_cache_of (w_fs w) cf nm svers) ->
  run_build cf nm vers root w = (w', Done (inl v)) ->
  fs_wf (w_fs w') ->                                    (* the open part *)
  forall d q, below d q = true ->                        (* q lies below d, at any depth *)
    ((exists f, lookup (w_fs w) q = Some (NFile f) /\ ~ Managed P (old_cache_of (w_fs w) cf nm svers) cf q) \/
     (lookup (w_fs w) q = Some NDir /\ ~ In q (c_dirs (old_cache_of (w_fs w) cf nm svers)))) ->
    lookup (w_fs w') d = Some NDir.
Proof.
  intros cf nm vers svers root w w' v P Hf Hsv Hat Hwf HA HE H Hwf' d q Hb Hq.
  assert (Y : exists n, lookup (w_fs w') q = Some n).
  { destruct Hq as [(f & Hl & Hn)|(Hl & Hn)].
    - exists (NFile f). exact (build_preserves_foreign_files_tight cf nm vers svers root w w' _ P Hsv Hat H q f Hl Hn).
    - exists NDir. exact (foreign_directories_survive_committed cf nm vers svers root w w' v P Hf Hsv Hat Hwf HA HE H q Hl Hn). }
  destruct Y as [n Hn].
  exact (ancestors_are_dirs (w_fs w') Hwf' q d Hb (Hwf' q n Hn)).
Qed.

Definition run_build_keeps_tree_well_formed_statement : Prop :=
  forall cf nm vers root w w' r, w_faults w = [] -> fs_wf (w_fs w) ->
    run_build cf nm vers root w = (w', r) -> fs_wf (w_fs w').

(* with it, the clause holds outright *)
Theorem committed_directory_with_foreign_content_survives_if :
  run_build_keeps_tree_well_formed_statement ->
  forall cf nm vers svers root w w' v (P : path -> Prop),
  w_faults w = [] -> sanitize vers = Some svers -> AllTargets P root ->
  fs_wf (w_fs w) ->
  CondA P cf (old_cache_of (w_fs w) cf nm svers) (w_fs w) ->
  dirs_ok (old_cache_of (w_fs w) cf nm svers) ->
  run_build cf nm vers root w = (w', Done (inl v)) ->
  forall d q, below d q = true ->
    ((exists f, lookup (w_fs w) q = Some (NFile f) /\ ~ Managed P (old_cache_of (w_fs w) cf nm svers) cf q) \/
     (lookup (w_fs w) q = Some NDir /\ ~ In q (c_dirs (old_cache_of (w_fs w) cf nm svers)))) ->
    lookup (w_fs w') d = Some NDir.
Proof.
  intros K cf nm vers svers root w w' v P Hf Hsv Hat Hwf HA HE H.
  exact (committed_directory_with_foreign_content_survives_partial cf nm vers svers root w w' v P Hf Hsv Hat Hwf HA HE H
           (K cf nm vers root w w' _ Hf Hwf H)).
Qed.

(* ------------------------------------------------------------------ the example worlds *)
(* first build: c/d/out; then the user makes the directory c/u and the file c/d/keep.txt *)
Definition b1 : prog := bf ["out"; "d"; "c"] ok.
Definition w0 : world :=
  steps cfp [B b1; HMutate [FMkdir ["u"; "c"]; FWrite ["keep.txt"; "d"; "c"] "k"]] init_world.
Definition prC : prog := bf ["x"; "a"] ok.                    (* commits *)
Definition prR : prog := bf ["x"; "a"] (fun _ => boom).       (* raises after the output was built *)
Definition PX (p : path) : Prop := p = ["x"; "a"].
Notation old0 := (old_cache_of (w_fs w0) cfp "n" (PDict [])).

Definition names_okb (fs : fsT) : bool := forallb (fun e => path_ok (fst e)) fs.
Lemma names_okb_sound : forall fs, names_okb fs = true -> names_ok fs.
Proof.
  intros fs H p f Hl. destruct (lookup_in _ _ _ Hl) as [->|(e & He & <-)]; [reflexivity|].
  unfold names_okb in H. rewrite forallb_forall in H. exact (H e He).
Qed.

Lemma old0_targets : cache_targets old0 = [["out"; "d"; "c"]].
Proof. vm_compute. reflexivity. Qed.
Lemma old0_dirs : c_dirs old0 = [["d"; "c"]; ["c"]].
Proof. vm_compute. reflexivity. Qed.

Lemma at_prC : AllTargets PX prC.
Proof.
  unfold prC, bf, bfw, wr, ok. apply AT_BuildFile; [reflexivity| |].
  - intros. apply AT_Write. apply AT_Ret.
  - intros. apply AT_Ret.
Qed.
Lemma at_prR : AllTargets PX prR.
Proof.
  unfold prR, bf, bfw, wr, boom. apply AT_BuildFile; [reflexivity| |].
  - intros. apply AT_Write. apply AT_Ret.
  - intros. apply AT_Raise.
Qed.

Lemma wf_w0 : fs_wf (w_fs w0).
Proof. apply fs_wfb_sound. vm_compute. reflexivity. Qed.

Ltac ancestors a Hb :=
  first [ discriminate Hb
        | apply below_cons_inv in Hb; destruct Hb as [Hb|Hb]; [subst a | ancestors a Hb] ].

Lemma condA_w0 : CondA PX cfp old0 (w_fs w0).
Proof.
  intros a t Ht Hb. unfold target in Ht. rewrite old0_targets in Ht. unfold PX, cfp in Ht.
  destruct Ht as [->|[->|[<-|[]]]]; ancestors a Hb;
    (split; [intros f Hl; vm_compute in Hl; discriminate Hl | intro Y; discriminate Y]).
Qed.

Lemma dirs_ok_w0 : dirs_ok old0.
Proof. intros d Hd. rewrite old0_dirs in Hd. destruct Hd as [<-|[<-|[]]]; vm_compute; reflexivity. Qed.

Lemma names_w0 : names_ok (w_fs w0).
Proof. apply names_okb_sound. vm_compute. reflexivity. Qed.

(* ------------------------------------------------------------------ 3. instances *)
(* the rebuild commits: the foreign directory c/u (inside a directory that the previous build
   made) is still there - obtained from the theorem, not by evaluation *)
Example committed_instance :
  let '(w', r) := run_build cfp "n" (PDict []) prC w0 in
  (exists v, r = Done (inl v)) /\
  (forall d, lookup (w_fs w0) d = Some NDir -> ~ In d (c_dirs old0) -> lookup (w_fs w') d = Some NDir) /\
  lookup (w_fs w') ["u"; "c"] = Some NDir.
Proof.
  destruct (run_build cfp "n" (PDict []) prC w0) as [w' r] eqn:E.
  assert (Hr : exists v, r = Done (inl v)).
  { assert (Y : snd (run_build cfp "n" (PDict []) prC w0) = Done (inl PNone)) by (vm_compute; reflexivity).
    rewrite E in Y. cbn [snd] in Y. exists PNone. exact Y. }
  destruct Hr as [v ->].
  assert (G : forall d, lookup (w_fs w0) d = Some NDir -> ~ In d (c_dirs old0) -> lookup (w_fs w') d = Some NDir).
  { intros d Hd Hn.
    apply (foreign_directories_survive cfp "n" (PDict []) (PDict []) prC w0 w' (Done (inl v)) PX).
    - vm_compute. reflexivity.
    - vm_compute. reflexivity.
    - exact at_prC.
    - exact E.
    - cbn [side_survive]. exact (conj wf_w0 (conj condA_w0 dirs_ok_w0)).
    - exact Hd.
    - exact Hn. }
  split; [exists v; reflexivity|]. split; [exact G|].
  apply G; [vm_compute; reflexivity|].
  rewrite old0_dirs. intros [Y|[Y|[]]]; discriminate Y.
Qed.

(* the rebuild raises: every directory is still there, and nothing new is left *)
Example raised_instance :
  let '(w', r) := run_build cfp "n" (PDict []) prR w0 in
  (exists e, r = Done (inr e)) /\
  (forall d, lookup (w_fs w0) d = Some NDir -> lookup (w_fs w') d = Some NDir).
Proof.
  destruct (run_build cfp "n" (PDict []) prR w0) as [w' r] eqn:E.
  assert (Hr : exists e, r = Done (inr e)).
  { assert (Y : snd (run_build cfp "n" (PDict []) prR w0) = Done (inr (XUser 7))) by (vm_compute; reflexivity).
    rewrite E in Y. cbn [snd] in Y. exists (XUser 7). exact Y. }
  destruct Hr as [e ->].
  split; [exists e; reflexivity|]. intros d Hd.
  apply (foreign_directories_survive cfp "n" (PDict []) (PDict []) prR w0 w' (Done (inr e)) PX).
  - vm_compute. reflexivity.
  - vm_compute. reflexivity.
  - exact at_prR.
  - exact E.
  - cbn [side_survive].
    exact (conj wf_w0 (conj names_w0 (conj (CondA_A2 _ _ _ _ condA_w0) (conj (CondA_A1w _ _ _ _ condA_w0) dirs_ok_w0)))).
  - exact Hd.
  - exact I.
Qed.

Example raised_appear_instance :
  let '(w', r) := run_build cfp "n" (PDict []) prR w0 in
  forall d, lookup (w_fs w') d = Some NDir -> lookup (w_fs w0) d <> Some NDir ->
    In d (c_dirs old0) \/ exists r0, In r0 (c_dirs old0) /\ below d r0 = true /\ lookup (w_fs w') r0 = Some NDir.
Proof.
  destruct (run_build cfp "n" (PDict []) prR w0) as [w' r] eqn:E.
  assert (Hr : r = Done (inr (XUser 7))).
  { assert (Y : snd (run_build cfp "n" (PDict []) prR w0) = Done (inr (XUser 7))) by (vm_compute; reflexivity).
    rewrite E in Y. exact Y. }
  subst r. intros d Hd Hn.
  refine (no_foreign_directory_appears cfp "n" (PDict []) (PDict []) prR w0 w' (Done (inr (XUser 7))) PX
            _ _ at_prR E _ d Hd Hn).
  - vm_compute. reflexivity.
  - vm_compute. reflexivity.
  - cbn [side_appear].
    exact (conj wf_w0 (conj names_w0 (conj (CondA_A2 _ _ _ _ condA_w0) (conj (CondA_A1w _ _ _ _ condA_w0) dirs_ok_w0)))).
Qed.

(* a first build on a tree that holds a foreign directory: the directories it leaves are recorded *)
Definition w1 : world := steps cfp [HMutate [FMkdir ["u"; "c"]]] init_world.

Example first_build_appear_instance :
  let '(w', r) := run_build cfp "n" (PDict []) prC w1 in
  (exists v, r = Done (inl v)) /\
  (forall d, lookup (w_fs w1) d = Some NDir -> lookup (w_fs w') d = Some NDir) /\
  (forall d, lookup (w_fs w') d = Some NDir -> lookup (w_fs w1) d <> Some NDir -> In d (c_dirs (w_new w'))).
Proof.
  destruct (run_build cfp "n" (PDict []) prC w1) as [w' r] eqn:E.
  assert (Hr : r = Done (inl PNone)).
  { assert (Y : snd (run_build cfp "n" (PDict []) prC w1) = Done (inl PNone)) by (vm_compute; reflexivity).
    rewrite E in Y. exact Y. }
  subst r.
  assert (Eold : old_cache_of (w_fs w1) cfp "n" (PDict []) = empty_cache "n" (PDict [])) by (vm_compute; reflexivity).
  assert (Hwf : fs_wf (w_fs w1)) by (apply fs_wfb_sound; vm_compute; reflexivity).
  assert (HA : CondA PX cfp (old_cache_of (w_fs w1) cfp "n" (PDict [])) (w_fs w1)).
  { rewrite Eold. intros a t Ht Hb. unfold target, PX, cfp in Ht. cbn [cache_targets empty_cache] in Ht.
    assert (Ht' : t = ["x"; "a"] \/ t = ["cache.gz"]).
    { destruct Ht as [Y|[Y|Y]]; auto. vm_compute in Y. destruct Y. }
    destruct Ht' as [->| ->]; ancestors a Hb;
      (split; [intros f Hl; vm_compute in Hl; discriminate Hl | intro Y; discriminate Y]). }
  assert (HE : dirs_ok (old_cache_of (w_fs w1) cfp "n" (PDict []))) by (rewrite Eold; intros d []).
  split; [exists PNone; reflexivity|]. split.
  - intros d Hd.
    apply (foreign_directories_survive cfp "n" (PDict []) (PDict []) prC w1 w' (Done (inl PNone)) PX);
      [vm_compute; reflexivity | vm_compute; reflexivity | exact at_prC | exact E | | exact Hd | ].
    + cbn [side_survive]. exact (conj Hwf (conj HA HE)).
    + rewrite Eold. intros [].
  - intros d Hd Hn.
    refine (no_foreign_directory_appears cfp "n" (PDict []) (PDict []) prC w1 w' (Done (inl PNone)) PX
              _ _ at_prC E _ d Hd Hn); [vm_compute; reflexivity | vm_compute; reflexivity |].
    cbn [side_appear]. split; [exact Hwf|]. split; [exact HA|]. split; [exact HE|].
    rewrite Eold. split; [|split; [|split; [|split]]].
    + split; intros; discriminate.
    + constructor; cbn; [constructor | intros [] | intros a d0 _ []].
    + intros p ->. vm_compute. reflexivity.
    + apply Nat.ltb_lt. vm_compute. reflexivity.
    + apply Nat.ltb_lt. vm_compute. reflexivity.
Qed.

(* ------------------------------------------------------------------ 2. the premise of the committed case *)
(* without the planted file and directory, the rebuild (which no longer produces c/d/out) removes
   the recorded directories c/d and c: they are directories of the pre-state that do not survive *)
Example recorded_empty_directory_goes :
  let w := steps cfp [B b1] init_world in
  let '(w', r) := run_build cfp "n" (PDict []) prC w in
  r = Done (inl PNone) /\
  lookup (w_fs w) ["c"] = Some NDir /\ In ["c"] (c_dirs (old_cache_of (w_fs w) cfp "n" (PDict []))) /\
  lookup (w_fs w') ["c"] = None /\ children (w_fs w') ["c"] = [].
Proof. vm_compute. repeat split; auto. Qed.

(* the open statement holds on the computed builds *)
Example trees_stay_well_formed :
  fs_wfb (w_fs (fst (run_build cfp "n" (PDict []) prC w0))) = true /\
  fs_wfb (w_fs (fst (run_build cfp "n" (PDict []) prR w0))) = true /\
  fs_wfb (w_fs (fst (run_build cfp "n" (PDict []) prC w1))) = true /\
  fs_wfb (w_fs (fst (run_build cfp "n" (PDict []) prC (steps cfp [B b1] init_world)))) = true.
Proof. vm_compute. repeat split. Qed.

(* clean on w0: the theorem instantiated; c/d holds keep.txt and c holds u, so both stay although
   recorded; c/u is foreign *)
Example clean_instance :
  let '(w', r) := m_clean cfp (Some "n") w0 in
  (forall d, lookup (w_fs w0) d = Some NDir ->
     lookup (w_fs w') d = Some NDir \/
     (lookup (w_fs w') d = None /\ forall n, lookup (w_fs w') (n :: d) = None)) /\
  lookup (w_fs w') ["out"; "d"; "c"] = None /\
  lookup (w_fs w') ["u"; "c"] = Some NDir /\ lookup (w_fs w') ["d"; "c"] = Some NDir.
Proof.
  destruct (m_clean cfp (Some "n") w0) as [w' r] eqn:E.
  split.
  - intros d Hd.
    destruct (clean_foreign_directories cfp (Some "n") w0 w' r eq_refl E d Hd) as [Y|(Y1 & _ & Y3)]; auto.
  - assert (Y : w' = fst (m_clean cfp (Some "n") w0)) by (rewrite E; reflexivity).
    rewrite Y. vm_compute. repeat split.
Qed.

Print Assumptions committed_directory_with_foreign_content_survives_partial.
Print Assumptions committed_directory_with_foreign_content_survives_if.
Print Assumptions committed_instance.
Print Assumptions raised_instance.
Print Assumptions raised_appear_instance.
Print Assumptions first_build_appear_instance.
Print Assumptions recorded_empty_directory_goes.
Print Assumptions trees_stay_well_formed.
Print Assumptions clean_instance.
