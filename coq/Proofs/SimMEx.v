(* Proofs/SimMEx.v — evaluation (vm_compute) for SimM5.v: the hypothesis
     vdir (start_world w cf old nm svers) (dirname cf) = true
   of SimJ10.mech_commit3_hash (and of SimG6.mech_commit_first_build_anycmp) cannot simply be dropped.
   Cache file cf2 = k1/k2/cache.gz (SimIEx), program = one build_file call of k1/k2/x whose function
   writes and raises, the exception is caught by the root function, which returns.
     - first build from the empty tree  (the directories k1, k1/k2 do not exist), and
     - rebuild after the build b1 of CommitDirsEx (k1, k1/k2 recorded by that build: dead in the view):
   the build commits, its value is the reference outcome, the previous cache is in okcH (okcHb),
   path_ok (dirname cf2) = true, cf2 is not a directory, the recorded directories have creatable
   names, cf2 is not an output of the previous cache; vdir ... (dirname cf2) = false; and at the
   path k1/k2 (not the cache file) the tree after the build has a directory, the reference tree
   has nothing.  Away from the proper ancestors of the cache file the two trees agree
   (SimM5.mech_commit3_hash_anycf_weak_statement holds on these and on the histories of
   SimIEx.inside).  The oracle hypotheses (Obeys, Respects, kp_init, kp_new, faithful_cache) are
   not instantiated here.                                                                   *)
From Coq Require Import List String Ascii NArith ZArith Bool Arith Lia.
From FB.Base Require Import PyVal Fs.
From FB.Gen Require Import JsonUtilGen.
From FB.Spec Require Import JsonSpec Prog Ref Oracle Faithful.
From FB.Model Require Import Types Monad BuildDirs SimpleOps Builder Persist Build Run Dsl Frame Core CoreOracle.
From FB.Proofs Require Import ViewDefs ViewInit ViewR2 ViewR3 ViewK3 CommitDirsEx SimIEx SimC0 SimJ4.
Import ListNotations.
Open Scope string_scope.

Record obs := {
  o_committed : bool;        (* run_build ... = (w', Done (inl v)) *)
  o_outcome : bool;          (* v is the reference outcome *)
  o_okcH : bool;             (* okcHb (w_clock w) old *)
  o_pathok : bool;           (* path_ok (dirname cf) *)
  o_cfdir : bool;            (* isdir (w_fs w) cf *)
  o_cfout : bool;            (* cache_created_file old cf *)
  o_dirsok : bool;           (* the recorded directories have creatable names *)
  o_vdir : bool;             (* vdir (start_world ...) (dirname cf) *)
  o_trees : bool;            (* node_equiv at every path except cf *)
  o_trees_weak : bool;       (* node_equiv at every path except cf and its proper ancestors *)
  o_at : bool * bool         (* k1/k2 is a directory: after the build, in the reference tree *)
}.

Definition observe_c01 (cf : path) (h : list hstep) (pr : prog) : obs :=
  let w := steps cf h init_world in
  let old := old_cache_of (w_fs w) cf "n" (PDict []) in
  let rr := ref_build (w_fs w) cf (prev_of_cache old) (w_clock w) (w_nextid w) pr in
  let '(w', r) := run_build cf "n" (PDict []) pr w in
  let ps := (map fst (w_fs w') ++ map fst (rr_tree rr))%list in
  {| o_committed := committed r;
     o_outcome := String.eqb (show_result r) (show_outcome (rr_outcome rr));
     o_okcH := okcHb (w_clock w) old;
     o_pathok := path_ok (dirname cf);
     o_cfdir := isdir (w_fs w) cf;
     o_cfout := cache_created_file old cf;
     o_dirsok := forallb path_ok (c_dirs old);
     o_vdir := vdir (start_world w cf old "n" (PDict [])) (dirname cf);
     o_trees := forallb (fun p => path_eqb p cf || node_equivb (lookup (w_fs w') p) (lookup (rr_tree rr) p)) ps;
     o_trees_weak := forallb (fun p => path_eqb p cf || below p cf || node_equivb (lookup (w_fs w') p) (lookup (rr_tree rr) p)) ps;
     o_at := (isdir (w_fs w') ["k2"; "k1"], isdir (rr_tree rr) ["k2"; "k1"]) |}.

Definition refuting : obs :=
  {| o_committed := true; o_outcome := true; o_okcH := true; o_pathok := true; o_cfdir := false; o_cfout := false;
     o_dirsok := true; o_vdir := false; o_trees := false; o_trees_weak := true; o_at := (true, false) |}.

Example anycf_refuted_first_build : observe_c01 cf2 [] (failing ["x"; "k2"; "k1"] ok) = refuting.
Proof. vm_compute. reflexivity. Qed.

Example anycf_refuted_rebuild : observe_c01 cf2 [B b1] (failing ["x"; "k2"; "k1"] ok) = refuting.
Proof. vm_compute. reflexivity. Qed.

(* the weak form on the histories of SimIEx.inside (cache file in new / dead directories) *)
Example anycf_weak_holds :
  forallb (fun hp => let o := observe_c01 cf2 (fst hp) (snd hp) in
                     o_committed o && o_outcome o && o_trees_weak o && negb (o_vdir o))
    [ ([], b1);
      ([B b1], b1);
      ([B b1], failing ["x"; "k2"; "k1"] ok);
      ([B b1], failing ["x"; "k2"; "k1"] (fun _ => bf ["y"; "k2"; "k1"] ok));
      ([B (bf ["o"; "k2"; "k1"] ok)], failing ["x"; "k3"; "k2"; "k1"] ok);
      ([B (bf ["o"; "k3"; "k2"; "k1"] ok)], failing ["x"; "k3"; "k2"; "k1"] ok);
      ([B (bf ["o"; "k3"; "k2"; "k1"] ok)], failing ["x"; "k3"; "k2"; "k1"] (fun _ => bf ["o"; "k3"; "k2"; "k1"] ok));
      ([], failing ["x"; "k3"; "k2"; "k1"] (fun _ => bf ["o"; "k4"; "k2"; "k1"] ok)) ] = true.
Proof. vm_compute. reflexivity. Qed.

Print Assumptions anycf_refuted_first_build.
Print Assumptions anycf_refuted_rebuild.
Print Assumptions anycf_weak_holds.
