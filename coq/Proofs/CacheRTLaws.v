(* Proofs/CacheRTLaws.v — C16 at cache level: the file Cache.write produces from
   a cache, read back by Cache.read_immutable, yields the same build name, the
   same created directories, the function versions and the operation forest in
   normal form (every field of every record; values JSON-equal), and the file
   and subbuild tables of that forest — which are the tables of the written
   cache, entry by entry, whenever those were the tables of its forest. *)
From Coq Require Import List String Ascii NArith ZArith Bool Arith Lia Permutation.
From FB.Base Require Import PyVal Fs.
From FB.Gen Require Import JsonUtilGen.
From FB.Spec Require Import JsonSpec.
From FB.Model Require Import Types Monad SimpleOps Builder PathNorm Persist PersistSpec.
From FB.Proofs Require Import FsLemmas JsonLaws PersistLaws CacheRTDefs.
Import ListNotations.
Local Open Scope string_scope.
Local Open Scope list_scope.

(* ================================================================== *)
(** * 1. The top-level dictionary                                       *)
(* ================================================================== *)

Definition top_dict (nm : pyval) (ver dirs fv ov roots sw : pyval) : list (pyval * pyval) :=
  [(PStr "buildName", nm); (PStr "cacheFileVersion", ver); (PStr "createdDirs", dirs);
   (PStr "funcVersions", fv); (PStr "operationVersions", ov); (PStr "rootOperations", roots);
   (PStr "software", sw)].

(* the keys are written in sorted order already *)
Lemma sort_top_dict : forall nm ver dirs fv ov roots sw,
  sort_items (top_dict nm ver dirs fv ov roots sw) = top_dict nm ver dirs fv ov roots sw.
Proof. reflexivity. Qed.

Definition parse_dir (x : pyval) : option path :=
  match x with PStr s => Some (str_path s) | _ => None end.

(* Cache.read_immutable on a dictionary with the seven keys *)
Lemma cache_of_json_top : forall nm dirs fv ov roots,
  cache_of_json (Some (PDict (top_dict (PStr nm) PNone (PList dirs) fv ov (PList roots) (PStr "file_builder")))) =
  match sequence (map op_of_json roots), sequence (map parse_dir dirs) with
  | Some ops, Some ds =>
      ReadOk (fold_left register_parsed ops
                {| c_name := nm; c_files := []; c_subs := []; c_dirs := fold_left (fun acc p => add_path p acc) ds [];
                   c_fvers := fv; c_built := [] |})
  | _, _ => ReadMalformed
  end.
Proof. reflexivity. Qed.

Lemma sequence_map_some : forall {A B} (f : A -> option B) (g : A -> B) l,
  (forall x, In x l -> f x = Some (g x)) -> sequence (map f l) = Some (map g l).
Proof.
  intros A B f g l. induction l as [|x l IH]; intro H; [reflexivity|].
  cbn [map sequence fold_right]. unfold sequence in IH.
  rewrite (H x (or_introl eq_refl)), IH by (intros; apply H; right; assumption). reflexivity.
Qed.

Lemma parse_dirs_roundtrip : forall ds, forallb path_wf ds = true ->
  sequence (map parse_dir (map pstr_path ds)) = Some ds.
Proof.
  intros ds H. rewrite map_map.
  rewrite (sequence_map_some (fun x => parse_dir (pstr_path x)) (fun x => x)).
  - rewrite map_id. reflexivity.
  - intros p Hp. rewrite forallb_forall in H. cbn [pstr_path parse_dir].
    rewrite (path_roundtrip p (H p Hp)). reflexivity.
Qed.

Lemma nv_pstr_paths : forall ds, map nv (map pstr_path ds) = map pstr_path ds.
Proof. intro ds. rewrite map_map. apply map_ext. intro p. reflexivity. Qed.

Lemma parse_roots_roundtrip : forall roots, forallb op_wf roots = true ->
  sequence (map op_of_json (map nv (map op_to_json roots))) = Some (map norm_op roots).
Proof.
  intros roots H. rewrite !map_map.
  apply sequence_map_some. intros o Ho. rewrite forallb_forall in H.
  unfold op_of_json. apply conv_nv_op. apply H. exact Ho.
Qed.

Lemma sanitized_t_pstr_paths : forall ds, forallb (sanitized_gen true) (map pstr_path ds) = true.
Proof. intro ds. apply forallb_forall. intros x Hx. apply in_map_iff in Hx. destruct Hx as [p [<- _]]. reflexivity. Qed.

Lemma sanitized_t_roots : forall roots, forallb op_wf roots = true ->
  forallb (sanitized_gen true) (map op_to_json roots) = true.
Proof.
  intros roots H. apply forallb_forall. intros x Hx. apply in_map_iff in Hx. destruct Hx as [o [<- Ho]].
  rewrite forallb_forall in H. apply (op_json_sanitized_t o). apply H. exact Ho.
Qed.

(* ================================================================== *)
(** * 2. Write, then read                                               *)
(* ================================================================== *)

Theorem write_read : forall c roots, writable c roots ->
  exists j, cache_to_json c = Some j /\ cache_of_json (Some j) = ReadOk (read_back c roots).
Proof.
  intros c roots (Hf & Hr & Hd & Hv).
  unfold cache_forest in Hf. unfold cache_to_json.
  destruct (cache_operations c) as [ops|]; [|discriminate Hf].
  cbn [option_map] in Hf. injection Hf as Hf. rewrite Hf.
  set (D := top_dict (PStr (c_name c)) PNone (PList (map pstr_path (c_dirs c))) (c_fvers c) (PDict [])
                     (PList (map op_to_json roots)) (PStr "file_builder")).
  change (exists j, json_text_roundtrip (PDict D) = Some j /\ cache_of_json (Some j) = ReadOk (read_back c roots)).
  assert (HS : sanitized_t (PDict D) = true).
  { apply sanitized_t_dict_intro; [|reflexivity].
    unfold D, top_dict. cbn [forallb fst snd is_pstr andb sanitized_gen].
    rewrite sanitized_t_pstr_paths, (sanitized_t_roots roots Hr).
    unfold sanitized_t in Hv. rewrite Hv. reflexivity. }
  exists (nv (PDict D)). split.
  - unfold json_text_roundtrip. rewrite (sanitize_detuple _ HS). reflexivity.
  - rewrite nv_dict_eq. unfold D, top_dict. cbn [map vmap].
    rewrite !nv_str, !nv_list_eq.
    change (nv PNone) with PNone. change (nv (PDict [])) with (PDict []).
    fold (top_dict (PStr (c_name c)) PNone (PList (map nv (map pstr_path (c_dirs c)))) (nv (c_fvers c)) (PDict [])
                   (PList (map nv (map op_to_json roots))) (PStr "file_builder")).
    rewrite sort_top_dict, cache_of_json_top.
    rewrite (parse_roots_roundtrip roots Hr), nv_pstr_paths, (parse_dirs_roundtrip _ Hd).
    unfold read_back, tables_of, base_cache, dedup_paths. rewrite (norm_val_nv _ Hv). reflexivity.
Qed.

(* ================================================================== *)
(** * 3. What the reader returns, field by field                        *)
(* ================================================================== *)

Lemma register_parsed_fields : forall o c,
  c_name (register_parsed c o) = c_name c /\ c_dirs (register_parsed c o) = c_dirs c /\
  c_fvers (register_parsed c o) = c_fvers c /\ c_built (register_parsed c o) = c_built c.
Proof.
  induction o as [q r e | p c0 f a k subs r cr ra sf IH | f a k subs r ra sf IH] using op_ind';
    intro c; cbn [register_parsed]; [repeat split | |].
  - assert (G : forall c1, c_name (fold_left register_parsed subs c1) = c_name c1 /\
                           c_dirs (fold_left register_parsed subs c1) = c_dirs c1 /\
                           c_fvers (fold_left register_parsed subs c1) = c_fvers c1 /\
                           c_built (fold_left register_parsed subs c1) = c_built c1).
    { induction IH as [|s rest Hs HF IHl]; intro c1; cbn [fold_left]; [repeat split|].
      destruct (IHl (register_parsed c1 s)) as (A1 & A2 & A3 & A4). destruct (Hs c1) as (B1 & B2 & B3 & B4).
      repeat split; congruence. }
    destruct (G c) as (A1 & A2 & A3 & A4). destruct sf; cbn [cache_with c_name c_dirs c_fvers c_built]; repeat split; assumption.
  - assert (G : forall c1, c_name (fold_left register_parsed subs c1) = c_name c1 /\
                           c_dirs (fold_left register_parsed subs c1) = c_dirs c1 /\
                           c_fvers (fold_left register_parsed subs c1) = c_fvers c1 /\
                           c_built (fold_left register_parsed subs c1) = c_built c1).
    { induction IH as [|s rest Hs HF IHl]; intro c1; cbn [fold_left]; [repeat split|].
      destruct (IHl (register_parsed c1 s)) as (A1 & A2 & A3 & A4). destruct (Hs c1) as (B1 & B2 & B3 & B4).
      repeat split; congruence. }
    destruct (G c) as (A1 & A2 & A3 & A4). destruct sf; cbn [cache_with c_name c_dirs c_fvers c_built]; repeat split; assumption.
Qed.

Lemma tables_of_fields : forall nm fv dirs roots,
  c_name (tables_of nm fv dirs roots) = nm /\ c_dirs (tables_of nm fv dirs roots) = dirs /\
  c_fvers (tables_of nm fv dirs roots) = fv /\ c_built (tables_of nm fv dirs roots) = [].
Proof.
  intros nm fv dirs roots. unfold tables_of.
  assert (G : forall c1, c_name (fold_left register_parsed roots c1) = c_name c1 /\
                         c_dirs (fold_left register_parsed roots c1) = c_dirs c1 /\
                         c_fvers (fold_left register_parsed roots c1) = c_fvers c1 /\
                         c_built (fold_left register_parsed roots c1) = c_built c1).
  { induction roots as [|s rest IHl]; intro c1; cbn [fold_left]; [repeat split|].
    destruct (IHl (register_parsed c1 s)) as (A1 & A2 & A3 & A4).
    destruct (register_parsed_fields s c1) as (B1 & B2 & B3 & B4). repeat split; congruence. }
  exact (G (base_cache nm fv dirs)).
Qed.

(* created directories: a set; literally the same list when it has no repetition *)
Lemma mem_path_app : forall p a b, mem_path p (a ++ b) = mem_path p a || mem_path p b.
Proof. intros p a b. induction a as [|x a IH]; [reflexivity|]. cbn [app mem_path]. rewrite IH, orb_assoc. reflexivity. Qed.

Lemma dedup_fold_mem : forall ds acc p,
  mem_path p (fold_left (fun acc p => add_path p acc) ds acc) = mem_path p acc || mem_path p ds.
Proof.
  induction ds as [|d ds IH]; intros acc p; cbn [fold_left mem_path]; [rewrite orb_false_r; reflexivity|].
  rewrite IH. unfold add_path. destruct (mem_path d acc) eqn:E.
  - destruct (path_eqb d p) eqn:E2; [|reflexivity].
    apply FsLemmas.path_eqb_eq in E2. subst p. rewrite E. reflexivity.
  - rewrite mem_path_app. cbn [mem_path]. rewrite orb_false_r, orb_assoc. reflexivity.
Qed.

Theorem dedup_paths_mem : forall ds p, mem_path p (dedup_paths ds) = mem_path p ds.
Proof. intros ds p. unfold dedup_paths. rewrite dedup_fold_mem. reflexivity. Qed.

Lemma dedup_fold_nodup : forall ds acc,
  paths_nodup ds = true -> (forall p, mem_path p ds = true -> mem_path p acc = false) ->
  fold_left (fun acc p => add_path p acc) ds acc = acc ++ ds.
Proof.
  induction ds as [|d ds IH]; intros acc Hn Hd; cbn [fold_left]; [rewrite app_nil_r; reflexivity|].
  cbn [paths_nodup] in Hn. apply andb_true_iff in Hn. destruct Hn as [Hn1 Hn2]. apply negb_true_iff in Hn1.
  assert (E : mem_path d acc = false).
  { apply Hd. cbn [mem_path]. rewrite FsLemmas.path_eqb_refl. reflexivity. }
  unfold add_path at 2. rewrite E. rewrite IH; [rewrite <- app_assoc; reflexivity | exact Hn2 |].
  intros p Hp. rewrite mem_path_app. cbn [mem_path]. rewrite orb_false_r.
  rewrite Hd by (cbn [mem_path]; rewrite Hp; apply orb_true_r). cbn [orb].
  destruct (path_eqb d p) eqn:E2; [|reflexivity].
  apply FsLemmas.path_eqb_eq in E2. subst p. congruence.
Qed.

Theorem dedup_paths_nodup : forall ds, paths_nodup ds = true -> dedup_paths ds = ds.
Proof. intros ds H. unfold dedup_paths. rewrite dedup_fold_nodup; auto. Qed.

Theorem read_back_fields : forall c roots,
  c_name (read_back c roots) = c_name c /\
  c_dirs (read_back c roots) = dedup_paths (c_dirs c) /\
  c_fvers (read_back c roots) = norm_val (c_fvers c) /\
  c_built (read_back c roots) = [].
Proof. intros c roots. unfold read_back. apply tables_of_fields. Qed.
