(* Proofs/SimN3.v — the chain of successive committed builds of the mechanism model (SimM6) with the
   per-build hypothesis SimF8.link REMOVED: what is assumed between two builds is that the next build
   starts in a tree that agrees AT THE CACHE FILE with the tree the previous build left (everything
   else may have changed, subject to the side conditions SideH of the next build itself) and that its
   clock is not earlier.  The ReadBack half of link is SimN2.mech_link.
   [mech_stepN]       one step: CacheOkH and SimN2.Written are handed on;
   [mech_chain_hash]  the chain; per build still assumed about the cache read (inside SideH):
                      Faithful.faithful_cache (sh_faith) and ViewInit.old_ok (sh_ok);
   [next_old_ok_partial]  old_ok of the cache the next build reads, from: the tree the build left is
                      well formed (SimL2.run_build_keeps_tree_well_formed_statement, not proved there)
                      and no directory listed by the committed cache is at or below one of its outputs
                      ([OutDirs]).  Proved outright: the keys of the file table are different, the
                      sandbox root is not listed, no listed directory is at or below the cache file;
   [mech_chain_hash_ok_partial]  the chain in which old_ok is no longer assumed of the caches read by the
                      builds after the first: SideH of such a build is assumed only UNDER old_ok of the
                      cache it reads; instead [OutDirs] and the well-formedness of the tree left are
                      assumed of the previous build;
   [next_old_ok_statement], [next_faithful_statement]  what remains.
   New file; edits nothing. *)
From Coq Require Import List String Ascii NArith ZArith Bool Arith Lia Permutation.
From FB.Base Require Import PyVal Fs.
From FB.Gen Require Import JsonUtilGen.
From FB.Spec Require Import JsonSpec Prog Ref Oracle Faithful.
From FB.Model Require Import Types Monad CreatedFiles BuildDirs SimpleOps Builder PathNorm Persist PersistSpec Build Run Frame Core CoreOracle.
From FB.Proofs Require Import FsLemmas JsonLaws PersistLaws BuildFileLaws
     ViewDefs ViewLemmas ViewInit ViewR2 ViewR3 SimA0 SimC0 CommitDirsMain
     CacheRTDefs CacheRTLaws CacheRTTables CacheRTForest CacheRTOpen CacheRTMain
     SimF8 SimJ4 SimM6 SimN1 SimN2.
Import ListNotations.
Open Scope list_scope.

(* ------------------------------------------------------------------ one step, without link *)
Theorem mech_stepN : forall cf nm b b',
  SideH cf nm b -> CacheOkH cf nm b ->
  path_wf cf = true -> prog_paths_wf (b_root b) -> Written cf nm (w_fs (b_w b)) ->
  lookup (w_fs (b_w b')) cf = lookup (w_fs (b_w' b)) cf ->
  (w_clock (b_w' b) <= w_clock (b_w b'))%N ->
  CacheOkH cf nm b' /\ Written cf nm (w_fs (b_w b')).
Proof.
  intros cf nm b b' S HC Hcf Hroot HWr Hsame Hclk.
  destruct (mech_link cf nm b b' S HC Hcf Hroot HWr Hsame Hclk) as [Hl HW'].
  split; [exact (mech_stepH cf nm b b' S HC Hl) | exact HW'].
Qed.

(* ------------------------------------------------------------------ the chain *)
Fixpoint chainN (cf : path) (nm : string) (b : bstep) (l : list bstep) : Prop :=
  match l with
  | [] => True
  | b' :: r =>
      lookup (w_fs (b_w b')) cf = lookup (w_fs (b_w' b)) cf /\
      (w_clock (b_w' b) <= w_clock (b_w b'))%N /\
      SideH cf nm b' /\ prog_paths_wf (b_root b') /\ chainN cf nm b' r
  end.

Theorem mech_chain_fromN : forall cf nm l b, path_wf cf = true ->
  SideH cf nm b -> prog_paths_wf (b_root b) -> CacheOkH cf nm b -> Written cf nm (w_fs (b_w b)) ->
  chainN cf nm b l -> Forall (good cf nm) (b :: l).
Proof.
  intros cf nm l. induction l as [|b' r IH]; intros b Hcf S Hroot HC HWr Hch.
  - constructor; [exact (side_goodH cf nm b S HC)|constructor].
  - destruct Hch as (Hsame & Hclk & S' & Hroot' & Hr). constructor; [exact (side_goodH cf nm b S HC)|].
    destruct (mech_stepN cf nm b b' S HC Hcf Hroot HWr Hsame Hclk) as [HC' HWr'].
    exact (IH b' Hcf S' Hroot' HC' HWr' Hr).
Qed.

Lemma CacheOkH_first : forall cf nm b, lookup (w_fs (b_w b)) cf = None -> CacheOkH cf nm b.
Proof.
  intros cf nm b Hnone.
  assert (Eold : b_old cf nm b = empty_cache nm (b_svers b)) by (unfold b_old, old_cache_of; rewrite Hnone; reflexivity).
  unfold CacheOkH. rewrite Eold. split; [apply okcH_empty|]. split; [|split].
  - split; [intros p rec H0; discriminate|intros k rec H0; discriminate].
  - split; [intros p o H0; discriminate|intros k o H0; discriminate].
  - reflexivity.
Qed.

(* the first build finds no cache file; no hypothesis links the builds except the tree at the cache file
   and the clock *)
Theorem mech_chain_hash : forall cf nm l b, path_wf cf = true ->
  lookup (w_fs (b_w b)) cf = None ->
  SideH cf nm b -> prog_paths_wf (b_root b) -> chainN cf nm b l -> Forall (good cf nm) (b :: l).
Proof.
  intros cf nm l b Hcf Hnone S Hroot Hch.
  exact (mech_chain_fromN cf nm l b Hcf S Hroot (CacheOkH_first cf nm b Hnone) (or_introl Hnone) Hch).
Qed.

(* ------------------------------------------------------------------ old_ok of the cache read next *)
Lemma above_is_dir : forall fs, fs_wf fs -> forall l a x, l <> [] -> lookup fs (l ++ a) = Some x -> lookup fs a = Some NDir.
Proof.
  intros fs Hwf. induction l as [|n l IH]; intros a x Hne H; [contradiction|].
  pose proof (Hwf _ _ H) as Hd. cbn [app dirname tl] in Hd.
  destruct l as [|m l']; [exact Hd|]. apply (IH a NDir); [discriminate | exact Hd].
Qed.

(* no directory listed by the committed cache is at or below one of its outputs *)
Definition OutDirs (b : bstep) : Prop :=
  forall a d, cache_created_file (w_new (b_w' b)) a = true -> In d (c_dirs (w_new (b_w' b))) -> ~ suffix a d.

Theorem next_old_ok_partial : forall cf nm b b',
  SideH cf nm b -> CacheOkH cf nm b ->
  path_wf cf = true -> prog_paths_wf (b_root b) -> Written cf nm (w_fs (b_w b)) ->
  lookup (w_fs (b_w b')) cf = lookup (w_fs (b_w' b)) cf ->
  fs_wf (w_fs (b_w' b)) -> OutDirs b ->
  old_ok (b_old cf nm b') cf.
Proof.
  intros cf nm b b' S HC Hcf Hroot HWr Hsame Hwf' HO.
  destruct (mech_readback_hash cf nm b S HC Hcf Hroot HWr) as (roots & Wr & FG & TF & _ & _ & _ & Eread & _).
  assert (Eo : b_old cf nm b' = read_back (w_new (b_w' b)) roots).
  { unfold b_old, old_cache_of. rewrite Hsame. exact (Eread (b_svers b')). }
  rewrite Eo.
  pose proof (commit_leaves cf nm (b_vers b) (b_svers b) (b_root b) (b_w b) (b_w' b) (b_v b) (b_P b)
                (sh_faults _ _ _ S) (sh_vers _ _ _ S) (sh_atP _ _ _ S) (sh_wf _ _ _ S) (sh_below _ _ _ S) (sh_dirs _ _ _ S) (sh_run _ _ _ S)) as CP.
  unfold CommitPost in CP. cbv zeta in CP.
  destruct CP as (_ & (f & j & Lf & _) & _ & _ & _ & _ & _ & C8 & _ & C10).
  apply (old_ok_readback (w_new (b_w' b)) roots cf Wr FG TF).
  - intro Hin. apply (oo_root _ _ (sh_ok _ _ _ S)). exact (C10 [] Hin (lookup_root _)).
  - intros a d [Ha| ->] Hd; [exact (HO a d Ha Hd)|].
    intros [l El]. pose proof (C8 d Hd) as Hdir. destruct l as [|n l].
    + cbn [app] in El. subst d. rewrite Lf in Hdir. discriminate Hdir.
    + rewrite El in Hdir. rewrite (above_is_dir _ Hwf' (n :: l) cf NDir ltac:(discriminate) Hdir) in Lf. discriminate Lf.
Qed.

(* the chain without old_ok of the caches read by the builds after the first *)
Fixpoint chainK (cf : path) (nm : string) (b : bstep) (l : list bstep) : Prop :=
  match l with
  | [] => True
  | b' :: r =>
      lookup (w_fs (b_w b')) cf = lookup (w_fs (b_w' b)) cf /\
      (w_clock (b_w' b) <= w_clock (b_w b'))%N /\
      fs_wf (w_fs (b_w' b)) /\ OutDirs b /\
      (old_ok (b_old cf nm b') cf -> SideH cf nm b') /\ prog_paths_wf (b_root b') /\ chainK cf nm b' r
  end.

Theorem mech_chain_fromK : forall cf nm l b, path_wf cf = true ->
  SideH cf nm b -> prog_paths_wf (b_root b) -> CacheOkH cf nm b -> Written cf nm (w_fs (b_w b)) ->
  chainK cf nm b l -> Forall (good cf nm) (b :: l).
Proof.
  intros cf nm l. induction l as [|b' r IH]; intros b Hcf S Hroot HC HWr Hch.
  - constructor; [exact (side_goodH cf nm b S HC)|constructor].
  - destruct Hch as (Hsame & Hclk & Hwf' & HO & S' & Hroot' & Hr). constructor; [exact (side_goodH cf nm b S HC)|].
    destruct (mech_stepN cf nm b b' S HC Hcf Hroot HWr Hsame Hclk) as [HC' HWr'].
    exact (IH b' Hcf (S' (next_old_ok_partial cf nm b b' S HC Hcf Hroot HWr Hsame Hwf' HO)) Hroot' HC' HWr' Hr).
Qed.

Theorem mech_chain_hash_ok_partial : forall cf nm l b, path_wf cf = true ->
  lookup (w_fs (b_w b)) cf = None ->
  SideH cf nm b -> prog_paths_wf (b_root b) -> chainK cf nm b l -> Forall (good cf nm) (b :: l).
Proof.
  intros cf nm l b Hcf Hnone S Hroot Hch.
  exact (mech_chain_fromK cf nm l b Hcf S Hroot (CacheOkH_first cf nm b Hnone) (or_introl Hnone) Hch).
Qed.

(* ------------------------------------------------------------------ what remains *)
(* (1) old_ok outright: the two hypotheses of next_old_ok_partial.  The first is
       SimL2.run_build_keeps_tree_well_formed_statement.  The second needs an invariant of the run that
       no file says: the directories in bd_created are proper ancestors of targets of the program, and
       the keys of the new file table are targets (then sh_below separates them). *)
Definition next_old_ok_statement : Prop :=
  forall cf nm b, SideH cf nm b -> CacheOkH cf nm b ->
    path_wf cf = true -> prog_paths_wf (b_root b) -> Written cf nm (w_fs (b_w b)) ->
    fs_wf (w_fs (b_w' b)) /\ OutDirs b.

(* (2) faithful_cache of the cache read next, for an oracle that knows the tree the build left *)
Definition next_faithful_statement : Prop :=
  forall cf nm b b', SideH cf nm b -> CacheOkH cf nm b ->
    path_wf cf = true -> prog_paths_wf (b_root b) -> Written cf nm (w_fs (b_w b)) ->
    w_fs (b_w b') = w_fs (b_w' b) -> (w_clock (b_w' b) <= w_clock (b_w b'))%N -> b_F b' = b_F b ->
    sanitize (b_vers b') = Some (b_svers b') ->
    exists kp', kp_init kp' (w_fs (b_w b')) /\ kp_new kp' (w_clock (b_w b')) /\
                faithful_cache kp' (b_F b') (b_old cf nm b') (b_svers b').

Print Assumptions mech_stepN.
Print Assumptions mech_chain_hash.
Print Assumptions next_old_ok_partial.
Print Assumptions mech_chain_hash_ok_partial.
