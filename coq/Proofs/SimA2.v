(* Proofs/SimA2.v — C04, the link to Core, run level: the statements of the pieces of the
   build_file node (each proved in its own file SimA2*.v): the setup up to the reservation of
   the target, the claim, and the end of the function (success and failure). *)
From Coq Require Import List String Ascii NArith ZArith Bool Arith Lia.
From FB.Base Require Import PyVal Fs.
From FB.Gen Require Import JsonUtilGen.
From FB.Spec Require Import JsonSpec Prog Ref Oracle Faithful.
From FB.Model Require Import Types Monad CreatedFiles BuildDirs SimpleOps Builder Persist Build Run Frame Core CoreOracle.
From FB.Proofs Require Import FsLemmas JsonLaws ReplayLaws BuildFileLaws HashMemoInv HashMemoRun CoreLaws1 CoreLaws2 CoreLaws3
     ViewDefs ViewLemmas ViewXDefs ViewXFail ViewXSetup ViewR2 ViewR3 ViewK3 ViewK4 ViewK8 SimA0.
Import ListNotations.
Open Scope list_scope.
Open Scope m_scope.

(* ------------------------------------------------------------------ the setup, up to the reservation *)
Definition bf_pre (p : path) : M unit :=
  new_assert_no_file p ;;;
  icf <- is_cache_file p ;;
  (if icf then raise (XRuntime RCacheFileTarget) else ret tt) ;;;
  created <- prepare_file_creation p ;;
  locked <- m_bd_started p created ;;
  ret tt.

Lemma bf_setup_pre : forall p c f sa skw w,
  bf_setup p c f sa skw w =
  (bf_pre p ;;; catch (bf_try p c f sa skw) (fun e => m_bd_error p ;;; raise e)) w.
Proof.
  intros p c f sa skw w. rewrite bf_setup_eq. unfold bf_pre, bind.
  destruct (new_assert_no_file p w) as [w1 [u|e]]; [|reflexivity].
  destruct (is_cache_file p w1) as [w2 [icf|e]]; [|reflexivity].
  destruct ((if icf then raise (XRuntime RCacheFileTarget) else ret tt) w2) as [w3 [u'|e]]; [|reflexivity].
  destruct (prepare_file_creation p w3) as [w4 [created|e]]; [|reflexivity].
  destruct (m_bd_started p created w4) as [w5 [locked|e]]; reflexivity.
Qed.

(* the mechanism (claimed? cache file? _prepare_file_creation, started_building_file) against
   Core (claim_check, setup_fs): the same failure with related states, or the target reserved
   and the directories made on both sides *)
Definition pre_statement : Prop :=
  forall st tg pend T W w s p wb r,
    Sim4c T W w s -> Ctx4 st tg pend w -> tgt_conds st (w_old w) p ->
    bf_pre p w = (wb, r) ->
    match r with
    | inr e =>
        (claim_check (k_claimedF s) (k_cachefile s) p = Some e \/
         (claim_check (k_claimedF s) (k_cachefile s) p = None /\ setup_fs (k_fs s) (k_cachefile s) p = inr e)) /\
        Sim4c T W wb s /\ w_new wb = w_new w /\
        (forall y, In y st -> lookup (w_fs wb) y = lookup (w_fs w) y) /\ w_old wb = w_old w
    | inl _ =>
        claim_check (k_claimedF s) (k_cachefile s) p = None /\
        exists fs1 dirs, setup_fs (k_fs s) (k_cachefile s) p = inl (fs1, dirs) /\
          SimSetup T W p wb (core_s0 s p fs1 dirs) /\ w_new wb = w_new w /\
          (forall y, In y st -> lookup (w_fs wb) y = lookup (w_fs w) y) /\ w_old wb = w_old w
    end.

(* ------------------------------------------------------------------ the claim (the lookup missed) *)
Definition claim_statement : Prop :=
  forall T W w s0 p f sa skw w1 r,
    SimSetup T W p w s0 -> tgtP p ->
    bf_claim p w = (w1, r) ->
    r = inl None /\
    Sim4c (p :: T) (p :: W) (bf_invoke_world p f sa skw w1) (CoreLaws3.core_start s0 p f sa skw) /\
    (forall y, inprog w1 y <-> (inprog w y \/ y = p)) /\
    (forall y, y <> p -> lookup (w_fs w1) y = lookup (w_fs w) y) /\
    lookup (w_fs w1) p = None /\ w_old w1 = w_old w.

(* ------------------------------------------------------------------ the end of the function *)
(* NOTE: as stated here this is FALSE when the target is the cache file itself (nothing in the
   premises excludes it; the mechanism keeps that file hidden, Core shows it): refuted in
   SimA2Finish.v (Refute.finish_statement_false).  The statement that is proved and used
   (SimA2Finish.finish_statement_cf / finish_ok_cf) has the additional premise
   p <> w_cachefile w; the node lemma (SimA2Node.v) derives it from Core's claim_check. *)
Definition finish_statement : Prop :=
  forall st T W w s p c f sa skw res subs bsubs pend w' r oo s' out o',
    Sim4c T W w s -> HInv w -> Ctx4 (p :: st) (Some p) pend w -> mem_path p W = true ->
    recs_rel subs bsubs ->
    bf_finish p c f sa skw res subs w = (w', (r, oo)) ->
    core_finish s p c f sa skw bsubs res pend = (s', out, o') ->
    exists T', Sim4c T' W w' s' /\ r = out /\ orec_rel oo (Some o') /\
      (forall y, inprog w' y <-> (inprog w y /\ y <> p)) /\
      (forall y, y <> p -> lookup (w_fs w') y = lookup (w_fs w) y) /\ w_old w' = w_old w.
