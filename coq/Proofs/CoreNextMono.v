(* Proofs/CoreNextMono.v — [follows] and the faithfulness predicates are monotone in the content oracle;
   the deep form implies the form used by the transparency theorem. *)
From Coq Require Import List String Ascii NArith ZArith Bool Arith Lia.
From FB.Base Require Import PyVal Fs.
From FB.Gen Require Import JsonUtilGen.
From FB.Spec Require Import JsonSpec Prog Ref Oracle Faithful.
From FB.Model Require Import Types SimpleOps Builder Persist Core CoreOracle CoreCache.
From FB.Proofs Require Import FsLemmas JsonLaws CoreLawsJson CoreLaws1 CoreLaws2 CoreLaws3 CoreLaws4 CoreLaws5 CoreLaws7 CoreNextDefs.
Import ListNotations.
Local Open Scope list_scope.

Lemma kp_le_refl : forall kp, kp_le kp kp.
Proof. intros kp p c r x H. exact H. Qed.
Lemma kp_le_trans : forall a b c, kp_le a b -> kp_le b c -> kp_le a c.
Proof. intros a b c H1 H2 p cm r x H. apply H2, H1, H. Qed.
Lemma kpx_le : forall kp T, kp_le kp (kpx kp T).
Proof. intros kp T p c r x H. unfold kpx. rewrite H. reflexivity. Qed.

(* the list form *)
Lemma dfaith_all_list : forall kp F subs,
  (fix all (subs : list op) : Prop := match subs with [] => True | x :: rest => dfaith kp F x /\ all rest end) subs
  <-> dfaith_list kp F subs.
Proof. intros kp F subs. induction subs as [|x rest IH]; cbn [dfaith_list]; [tauto|]. rewrite IH. tauto. Qed.

Lemma dfaith_BF : forall kp F p c f a k subs r cr ra sf,
  dfaith kp F (OBuildFile p c f a k subs r cr ra sf) <->
  (ra = true \/ sf = true \/ faithful_op kp F (OBuildFile p c f a k subs r cr ra sf) = true) /\ dfaith_list kp F subs.
Proof. intros. cbn [dfaith]. rewrite dfaith_all_list. tauto. Qed.

Lemma dfaith_SB : forall kp F f a k subs r ra sf,
  dfaith kp F (OSubbuild f a k subs r ra sf) <->
  (sanitized a = true /\ sanitized k = true /\ pv_wf a = true /\ pv_wf k = true) /\
  (ra = true \/ sf = true \/
   forall sa skw, sanitized sa = true -> sanitized skw = true -> is_equal a sa = true -> is_equal k skw = true ->
     faithful_sub_at kp F (OSubbuild f a k subs r ra sf) sa skw = true) /\ dfaith_list kp F subs.
Proof. intros. cbn [dfaith]. rewrite dfaith_all_list. tauto. Qed.

Lemma dfaith_subs : forall kp F o, dfaith kp F o -> dfaith_list kp F (op_subs o).
Proof.
  intros kp F o H. destruct o as [q r e|p c f a k subs r cr ra sf|f a k subs r ra sf]; cbn [op_subs]; [exact I| |].
  - apply dfaith_BF in H. tauto.
  - apply dfaith_SB in H. tauto.
Qed.

Lemma dfaith_list_app : forall kp F a b, dfaith_list kp F (a ++ b) <-> dfaith_list kp F a /\ dfaith_list kp F b.
Proof. intros kp F a b. induction a as [|x a IH]; cbn; [tauto|]. rewrite IH. tauto. Qed.


Section Mono.
  Variables kp kp' : kappa.
  Hypothesis LE : kp_le kp kp'.

  Lemma user_value_mono : forall q r v, user_value kp q r = Some v -> user_value kp' q r = Some v.
  Proof.
    intros q r v H. destruct q; cbn [user_value] in *; try exact H.
    destruct (kp p c r) as [x|] eqn:E; [|discriminate]. rewrite (LE _ _ _ _ E). exact H.
  Qed.

  Lemma bf_end_mono : forall p c nsubs ret_ cmpres raised out_n bytes_n cl2 o,
    bf_end kp p c nsubs ret_ cmpres raised out_n bytes_n cl2 = Some o ->
    bf_end kp' p c nsubs ret_ cmpres raised out_n bytes_n cl2 = Some o.
  Proof.
    intros p c nsubs ret_ cmpres raised out_n bytes_n cl2 o H. unfold bf_end in *.
    destruct out_n as [v|e]; [|exact H]. destruct (sanitize v) as [sv|]; [|exact H].
    destruct bytes_n as [b|]; [|exact H].
    destruct (existsb (is_ancestor p) (flat_map tree_outputs nsubs)); [exact H|].
    destruct (existsb (is_ancestor p) (fst cl2)); [exact H|].
    destruct (kp p c cmpres) as [b'|] eqn:E.
    - rewrite (LE _ _ _ _ E). exact H.
    - rewrite andb_false_r in H. discriminate.
  Qed.

  Lemma follows_mono : forall pr tgt subs w cl x,
    follows kp tgt pr subs w cl = Some x -> follows kp' tgt pr subs w cl = Some x.
  Proof.
    induction pr as [v|e|st q k IHk|c k IHk|st p c fname a kw fn IHfn k IHk|st fname a kw fn IHfn k IHk];
      intros tgt subs w cl x H; cbn [follows] in *.
    - exact H.
    - exact H.
    - destruct st; [eapply IHk; eauto|].
      destruct subs as [|[q' r ex| |] rest]; try discriminate.
      destruct (negb (query_beq q q')); [discriminate|].
      destruct ex as [c|]; [eapply IHk; eauto|].
      destruct (user_value kp q r) as [u|] eqn:Eu; [|discriminate].
      rewrite (user_value_mono _ _ _ Eu). eapply IHk; eauto.
    - destruct tgt as [p|]; [|eapply IHk; eauto]. destruct (path_ok p); [eapply IHk; eauto|exact H].
    - destruct st; [eapply IHk; eauto|].
      destruct (sanitize a) as [sa|]; [|eapply IHk; eauto]. destruct (sanitize kw) as [skw|]; [|eapply IHk; eauto].
      destruct subs as [|[|p' c' f' a' k' nsubs ret_ cmpres raised sf|] rest]; try discriminate.
      destruct (negb (path_eqb p p')); [discriminate|]. destruct sf; [discriminate|].
      destruct (mem_path p (fst cl) || existsb (is_ancestor p) (fst cl)); [discriminate|].
      destruct (follows kp (Some p) (fn p sa skw) nsubs None (fst cl ++ [p], snd cl)) as [[[[out_n bytes_n] rest_n] cl2]|] eqn:En;
        [|discriminate].
      rewrite (IHfn _ _ _ _ _ _ _ _ En).
      destruct rest_n; [|discriminate].
      destruct (bf_end kp p c' nsubs ret_ cmpres raised out_n bytes_n cl2) as [o|] eqn:Eo; [|discriminate].
      rewrite (bf_end_mono _ _ _ _ _ _ _ _ _ _ Eo). eapply IHk; eauto.
    - destruct st; [eapply IHk; eauto|].
      destruct (sanitize a) as [sa|]; [|eapply IHk; eauto]. destruct (sanitize kw) as [skw|]; [|eapply IHk; eauto].
      destruct subs as [|[| |f' a' k' nsubs ret_ raised sf] rest]; try discriminate.
      destruct (negb (String.eqb fname f' && pyval_same a' sa && pyval_same k' skw)); [discriminate|].
      destruct sf; [discriminate|].
      destruct (existsb (py_eq (subbuild_key fname sa skw)) (snd cl)); [discriminate|].
      destruct (follows kp None (fn sa skw) nsubs None (fst cl, snd cl ++ [subbuild_key fname sa skw])) as [[[[out_n bytes_n] rest_n] cl2]|] eqn:En;
        [|discriminate].
      rewrite (IHfn _ _ _ _ _ _ _ En).
      destruct rest_n; [|discriminate].
      destruct (sb_end ret_ raised out_n) as [o|]; [|discriminate]. eapply IHk; eauto.
  Qed.

  Variable F : ftable.

  Lemma faithful_op_mono : forall o, faithful_op kp F o = true -> faithful_op kp' F o = true.
  Proof.
    intros o H. destruct o as [q r e|p c f a k subs ret_ cmpres raised sf|f a k subs ret_ raised sf]; [reflexivity| |].
    - cbn [faithful_op] in *.
      destruct (follows kp (Some p) (ft_file F f p a k) subs None ([p], [])) as [[[[out_n bytes_n] rest_n] cl2]|] eqn:En; [|discriminate].
      rewrite (follows_mono _ _ _ _ _ _ En). destruct rest_n; [|discriminate].
      destruct (bf_end kp p c subs ret_ cmpres raised out_n bytes_n cl2) as [o|] eqn:Eo; [|discriminate].
      rewrite (bf_end_mono _ _ _ _ _ _ _ _ _ _ Eo). reflexivity.
    - cbn [faithful_op faithful_sub_at] in *.
      destruct (follows kp None (ft_sub F f a k) subs None ([], [subbuild_key f a k])) as [[[[out_n bytes_n] rest_n] cl2]|] eqn:En; [|discriminate].
      rewrite (follows_mono _ _ _ _ _ _ En). exact H.
  Qed.

  Lemma faithful_sub_at_mono : forall o sa skw, faithful_sub_at kp F o sa skw = true -> faithful_sub_at kp' F o sa skw = true.
  Proof.
    intros o sa skw H. destruct o as [q r e|p c f a k subs ret_ cmpres raised sf|f a k subs ret_ raised sf]; try discriminate.
    cbn [faithful_sub_at] in *.
    destruct (follows kp None (ft_sub F f sa skw) subs None ([], [subbuild_key f sa skw])) as [[[[out_n bytes_n] rest_n] cl2]|] eqn:En; [|discriminate].
    rewrite (follows_mono _ _ _ _ _ _ En). exact H.
  Qed.

  Lemma dfaith_mono : forall o, dfaith kp F o -> dfaith kp' F o.
  Proof.
    induction o as [q r e|p c f a k subs r cr ra sf IH|f a k subs r ra sf IH] using op_ind'; intro H.
    - exact I.
    - apply dfaith_BF in H. apply dfaith_BF. destruct H as [H1 H2]. split.
      + destruct H1 as [H1|[H1|H1]]; auto. right. right. apply faithful_op_mono. exact H1.
      + clear H1. induction subs as [|x rest IHl]; [exact I|]. inversion IH; subst. destruct H2 as [Hx Hr]. split; auto.
    - apply dfaith_SB in H. apply dfaith_SB. destruct H as [H0 [H1 H2]]. split; [exact H0|]. split.
      + destruct H1 as [H1|[H1|H1]]; auto. right. right. intros sa skw S1 S2 E1 E2. apply faithful_sub_at_mono. auto.
      + clear H1. induction subs as [|x rest IHl]; [exact I|]. inversion IH; subst. destruct H2 as [Hx Hr]. split; auto.
  Qed.
End Mono.

Lemma dfaith_list_mono : forall kp kp' F l, kp_le kp kp' -> dfaith_list kp F l -> dfaith_list kp' F l.
Proof. intros kp kp' F l LE. induction l as [|x l IH]; cbn; [auto|]. intros [H1 H2]. split; [eapply dfaith_mono; eauto|auto]. Qed.

(* deep implies shallow *)
Lemma deep_faithful : forall kp F old vers, cache_wf old -> deep_cache kp F old vers -> faithful_cache kp F old vers.
Proof.
  intros kp F old vers [W1 W2] [D1 D2]. split.
  - intros p o Hg Hr Hp. pose proof (D1 p o Hg Hr Hp) as Hd.
    destruct (W1 p o Hg) as (c & f & a & k & subs & ret_ & cmpres & raised & sf & -> & Hsf).
    apply dfaith_BF in Hd. destruct Hd as [[H|[H|H]] _]; [cbn in Hr; congruence| |exact H].
    cbn in Hr. rewrite (Hsf H) in Hr. discriminate.
  - intros key f a k subs ret_ raised sf Hg Hr Hp sa skw S1 S2 E1 E2.
    pose proof (D2 key _ Hg Hr Hp) as Hd. apply dfaith_SB in Hd. destruct Hd as [_ [[H|[H|H]] _]]; [congruence| |auto].
    destruct (W2 key _ Hg) as (f2 & a2 & k2 & subs2 & ret2 & ra2 & sf2 & Heq & Hsf & _). inversion Heq; subst.
    specialize (Hsf eq_refl). discriminate.
Qed.

Lemma deep_mono : forall kp kp' F old vers, kp_le kp kp' -> deep_cache kp F old vers -> deep_cache kp' F old vers.
Proof.
  intros kp kp' F old vers LE [D1 D2]. split; intros; eapply dfaith_mono; eauto.
Qed.

Print Assumptions deep_faithful.
