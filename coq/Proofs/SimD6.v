(* Proofs/SimD6.v — "no regular file is newer than the clock" along a build of the mechanism model.
   SimC9.tq bounds the modification times of the files a run writes from BELOW (newer than the
   clock when the run started); this file bounds them from ABOVE.  Relation [tu w w']: the clock
   did not run backwards, and every regular file of w' is a file of w (the same node) or has a
   modification time that is at most the clock of w'.  Hence CoreNextDefs.files_old is kept by
   [run] (run_files_old) and by a committed build (build_files_old): the hypothesis "no file of
   the pre-state is newer than the clock" of the class statements is an invariant of a history
   whose clock does not run backwards between builds.  Same script as SimC9.v.             *)
From Coq Require Import List String Ascii NArith ZArith Bool Arith Lia.
From FB.Base Require Import PyVal Fs.
From FB.Gen Require Import JsonUtilGen.
From FB.Spec Require Import JsonSpec Prog.
From FB.Model Require Import Types Monad CreatedFiles BuildDirs SimpleOps Builder Build Run.
From FB.Model Require Import Persist.
From FB.Proofs Require Import FsLemmas JsonLaws CmpLaws ReplayLaws BuildFileLaws HashMemoInv.
Import ListNotations.
Local Open Scope list_scope.
Local Open Scope m_scope.

Definition tu (w w' : world) : Prop :=
  (w_clock w <= w_clock w')%N /\
  forall x f, lookup (w_fs w') x = Some (NFile f) -> lookup (w_fs w) x = Some (NFile f) \/ (f_mtime f <= w_clock w')%N.

Lemma tu_refl : forall w, tu w w.
Proof. intro w. split; [apply N.le_refl|]. intros x f H. left. exact H. Qed.
Lemma tu_trans : forall a b c, tu a b -> tu b c -> tu a c.
Proof.
  intros a b c [A1 A2] [B1 B2]. split; [eapply N.le_trans; eassumption|].
  intros x f H. destruct (B2 x f H) as [K|K]; [|right; exact K].
  destruct (A2 x f K) as [K2|K2]; [left; exact K2|right; eapply N.le_trans; eassumption].
Qed.

Definition tuPO : PO := {| rel := tu; po_refl := tu_refl; po_trans := tu_trans |}.

Lemma tu_of_fsub : forall w w', w_clock w' = w_clock w -> fsub (w_fs w) (w_fs w') -> tu w w'.
Proof. intros w w' E H. split; [rewrite E; apply N.le_refl|]. intros x f K. left. apply H. exact K. Qed.

Lemma svb_tu : forall w w', svbPO w w' -> tuPO w w'.
Proof.
  cbn. unfold same_but_view. intros w w' H.
  destruct H as (A1 & A2 & A3 & A4 & A5 & A6 & A7 & A8 & A9 & A10 & A11).
  apply tu_of_fsub; [exact A2|]. rewrite A1. intros x f K. exact K.
Qed.

#[local] Hint Extern 8 (pres tuPO _) => apply (pres_weaken svbPO tuPO _ _ svb_tu) : pres.
#[local] Hint Resolve m_handle_dir_exists_svb m_is_removed_svb is_file_no_read_svb is_cache_file_svb
  file_metadata_svb file_hash_svb list_dir_superset_svb file_comparison_result_svb
  m_is_file_svb m_is_dir_svb m_exists_svb noneable_cmp_svb version_equal_svb
  is_build_file_cached_svb dirs_to_make_svb build_file_cache_lookup_svb subbuild_cache_lookup_svb
  m_bd_started_svb m_bd_error_svb new_assert_no_file_svb new_assert_no_subbuild_svb : pres.

Ltac tu_solve :=
  lazymatch goal with |- rel tuPO ?a ?b => change (tu a b) | _ => idtac end;
  first [ apply tu_refl
        | apply tu_of_fsub; [reflexivity|intros ?x ?f ?X; exact X] ].

Lemma effect_tu : forall what p f,
  (forall fs fs', f fs = inl fs' -> fsub fs fs') -> pres tuPO (effect what p f).
Proof.
  intros what p f Hf w w' r H. unfold effect in H. cbv zeta in H.
  destruct (existsb (Nat.eqb (w_effects w)) (w_faults w)).
  - inversion H; subst. tu_solve.
  - cbn [w_fs set_effects] in H. destruct (f (w_fs w)) as [fs'|e] eqn:E; inversion H; subst.
    + apply tu_of_fsub; [reflexivity|]. cbn [w_fs set_log set_fs]. eapply Hf; eauto.
    + tu_solve.
Qed.

Lemma effect_mkdir_tu : forall what p, pres tuPO (effect what p (fun fs => mkdir fs p)).
Proof. intros. apply effect_tu. intros fs fs' H. eapply mkdir_fsub; eauto. Qed.
Lemma effect_rmdir_tu : forall what p, pres tuPO (effect what p (fun fs => rmdir fs p)).
Proof. intros. apply effect_tu. intros fs fs' H. eapply rmdir_fsub; eauto. Qed.
Lemma effect_remove_tu : forall what p, pres tuPO (effect what p (fun fs => remove fs p)).
Proof. intros. apply effect_tu. intros fs fs' H. eapply remove_fsub; eauto. Qed.
Lemma effect_id_tu : forall what p, pres tuPO (effect what p (fun fs => inl fs)).
Proof. intros. apply effect_tu. intros fs fs' H. inversion H; subst. intros x f X; exact X. Qed.
#[local] Hint Resolve effect_mkdir_tu effect_rmdir_tu effect_remove_tu effect_id_tu : pres.

Lemma back_up_and_remove_tu : forall p, pres tuPO (back_up_and_remove p).
Proof.
  intro p. unfold back_up_and_remove. apply pres_bind; [auto with pres|]. intros _.
  intros w w' r H. cbv zeta in H.
  destruct (existsb (Nat.eqb (w_effects w)) (w_faults w)); [inversion H; subst; tu_solve|].
  cbn [w_fs set_effects] in H.
  destruct (rename_out (w_fs w) p) as [[fs' n]|e] eqn:E.
  - apply rename_out_fsub in E.
    destruct n; inversion H; subst; (apply tu_of_fsub; [reflexivity|exact E]).
  - destruct e; inversion H; subst; tu_solve.
Qed.
#[local] Hint Resolve back_up_and_remove_tu : pres.

Lemma try_to_remove_file_tu : forall p, pres tuPO (try_to_remove_file p).
Proof. intro p. unfold try_to_remove_file. pres_auto. Qed.

Lemma remove_empty_dirs_tu : forall ds, pres tuPO (remove_empty_dirs ds).
Proof. intro ds. unfold remove_empty_dirs. pres_auto. Qed.

Lemma make_one_dir_tu : forall d, pres tuPO (make_one_dir d).
Proof. intro d. unfold make_one_dir. pres_auto. Qed.
#[local] Hint Resolve try_to_remove_file_tu remove_empty_dirs_tu make_one_dir_tu : pres.

Lemma make_dirs_loop_tu : forall ds made, pres tuPO (make_dirs_loop ds made).
Proof.
  induction ds as [|d ds IH]; intro made; cbn [make_dirs_loop]; pres_auto.
Qed.
#[local] Hint Resolve make_dirs_loop_tu : pres.

Lemma make_dirs_tu : forall d, pres tuPO (make_dirs d).
Proof. intro d. unfold make_dirs. pres_auto. Qed.
#[local] Hint Resolve make_dirs_tu : pres.

Lemma make_room_tu : forall fuel d, pres tuPO (make_room fuel d).
Proof.
  induction fuel as [|fuel IH]; intro d; cbn [make_room]; pres_auto.
Qed.
#[local] Hint Resolve make_room_tu : pres.

Lemma prepare_file_creation_tu : forall p, pres tuPO (prepare_file_creation p).
Proof. intro p. unfold prepare_file_creation. pres_auto. Qed.
#[local] Hint Resolve prepare_file_creation_tu : pres.

Lemma apply_cached_subs_of_tu : forall o, pres tuPO (apply_cached_subs_of o).
Proof.
  induction o as [q r e | p c f a k subs r cr ra sf IH | f a k subs r ra sf IH] using op_ind';
    cbn [apply_cached_subs_of].
  - apply pres_ret.
  - induction IH as [|s rest Hs HF IHl]; cbn beta iota fix; [apply pres_ret|].
    apply pres_bind; [|intros _; exact IHl]. pres_auto.
  - induction IH as [|s rest Hs HF IHl]; cbn beta iota fix; [apply pres_ret|].
    apply pres_bind; [|intros _; exact IHl]. pres_auto.
Qed.
#[local] Hint Resolve apply_cached_subs_of_tu : pres.

(* updates of the new cache *)
Lemma modify_new_tu : forall f : world -> cache, pres tuPO (modify (fun w => set_new (f w) w)).
Proof. intro f. apply pres_modify. intro w. tu_solve. Qed.

Lemma new_start_building_file_tu : forall p, pres tuPO (new_start_building_file p).
Proof. intro p. unfold new_start_building_file. pres_auto. apply modify_new_tu. Qed.

Lemma new_abort_building_file_tu : forall p, pres tuPO (new_abort_building_file p).
Proof. intro p. unfold new_abort_building_file. apply modify_new_tu. Qed.

Lemma new_finish_building_file_tu : forall p o, pres tuPO (new_finish_building_file p o).
Proof. intros p o. unfold new_finish_building_file. apply modify_new_tu. Qed.

Lemma new_start_subbuild_tu : forall k, pres tuPO (new_start_subbuild k).
Proof. intro k. unfold new_start_subbuild. pres_auto. apply modify_new_tu. Qed.

Lemma new_finish_subbuild_tu : forall k o, pres tuPO (new_finish_subbuild k o).
Proof. intros k o. unfold new_finish_subbuild. apply modify_new_tu. Qed.

Lemma new_use_cached_operation_tu : forall o, pres tuPO (new_use_cached_operation o).
Proof.
  intros o w w' r H. unfold new_use_cached_operation in H. minv H.
  - unfold put in H. inversion H; subst. tu_solve.
  - tu_solve.
Qed.
#[local] Hint Resolve new_start_building_file_tu new_abort_building_file_tu
  new_finish_building_file_tu new_start_subbuild_tu new_finish_subbuild_tu
  new_use_cached_operation_tu : pres.

Lemma bf_reuse_tu : forall p c f sa skw cached, pres tuPO (bf_reuse p c f sa skw cached).
Proof. intros p c f sa skw cached. unfold bf_reuse. pres_auto. Qed.

Lemma bf_claim_tu : forall p, pres tuPO (bf_claim p).
Proof. intro p. unfold bf_claim. pres_auto. Qed.
#[local] Hint Resolve bf_reuse_tu bf_claim_tu : pres.

Lemma bf_setup_tu : forall p c f sa skw, pres tuPO (bf_setup p c f sa skw).
Proof. intros p c f sa skw. unfold bf_setup. pres_auto. Qed.

Lemma sb_setup_tu : forall f sa skw, pres tuPO (sb_setup f sa skw).
Proof. intros f sa skw. unfold sb_setup. cbv zeta. pres_auto. Qed.

Lemma bf_fail_tu : forall p c f sa skw subs e w w' r,
  bf_fail p c f sa skw subs e w = (w', r) -> tu w w'.
Proof.
  intros p c f sa skw subs e w w' r H. unfold bf_fail in H. cbv zeta in H.
  match type of H with (match ?X with _ => _ end) = _ => destruct X as [w1 [u|e1]] eqn:E end;
    inversion H; subst.
  all: refine ((_ : pres tuPO _) _ _ _ E); pres_auto.
Qed.

Lemma bf_finish_tu : forall p c f sa skw res subs, pres tuPO (bf_finish p c f sa skw res subs).
Proof.
  intros p c f sa skw res subs w w' r H. unfold bf_finish in H.
  assert (F : forall e w0, bf_fail p c f sa skw subs e w0 = (w', r) -> tu w0 w').
  { intros e w0 H0. eapply bf_fail_tu; eassumption. }
  destruct res as [v|e]; [|eapply F; eassumption].
  destruct (sanitize v) as [sv|]; [|eapply F; eassumption].
  destruct (noneable_cmp p c w) as [w4 [cmp|e]] eqn:E.
  - assert (Q : tu w w4) by (apply svb_tu; exact (noneable_cmp_svb p c w w4 _ E)).
    eapply tu_trans; [exact Q|].
    destruct cmp; try (eapply F; eassumption).
    all: cbv zeta in H; unfold new_finish_building_file, modify in H; inversion H; subst; tu_solve.
  - assert (Q : tu w w4) by (apply svb_tu; exact (noneable_cmp_svb p c w w4 _ E)).
    eapply tu_trans; [exact Q|]. eapply F; eassumption.
Qed.

Lemma sb_finish_tu : forall f sa skw res subs, pres tuPO (sb_finish f sa skw res subs).
Proof.
  intros f sa skw res subs w w' r H. unfold sb_finish in H. cbv zeta in H.
  unfold new_finish_subbuild, modify in H.
  destruct res as [v|e]; [destruct (sanitize v)|]; inversion H; subst; tu_solve.
Qed.


(* ------------------------------------------------------------------ nodes and programs *)
Lemma tu_set_log : forall l w, tu w (set_log l w).
Proof. intros l w. apply tu_of_fsub; [reflexivity|intros x f X; exact X]. Qed.

Lemma m_build_file_tu : forall p c f a kw (fn : path -> pyval -> pyval -> body),
  (forall sa skw, pres tuPO (fn p sa skw)) -> pres tuPO (m_build_file p c f a kw fn).
Proof.
  intros p c f a kw fn Hfn w w' r H. rewrite m_build_file_unfold in H.
  destruct (sanitize a) as [sa|]; [|inversion H; subst; apply tu_refl].
  destruct (sanitize kw) as [skw|]; [|inversion H; subst; apply tu_refl].
  destruct (bf_setup p c f sa skw w) as [w1 [[[o|[e o]]|]|e]] eqn:Es;
    pose proof (bf_setup_tu p c f sa skw w w1 _ Es) as Q1; try (inversion H; subst; exact Q1).
  unfold bf_rebuild in H. destruct (fn p sa skw (bf_invoke_world p f sa skw w1)) as [w3 [res subs]] eqn:Ef.
  pose proof (Hfn sa skw _ _ _ Ef) as Q2. pose proof (bf_finish_tu p c f sa skw res subs w3 w' r H) as Q3.
  eapply tu_trans; [exact Q1|]. eapply tu_trans; [apply (tu_set_log (LInvoke f (Some p) sa skw :: w_log w1) w1)|].
  eapply tu_trans; [exact Q2|exact Q3].
Qed.

Lemma m_subbuild_tu : forall f a kw (fn : pyval -> pyval -> body),
  (forall sa skw, pres tuPO (fn sa skw)) -> pres tuPO (m_subbuild f a kw fn).
Proof.
  intros f a kw fn Hfn w w' r H. rewrite m_subbuild_unfold in H.
  destruct (sanitize a) as [sa|]; [|inversion H; subst; apply tu_refl].
  destruct (sanitize kw) as [skw|]; [|inversion H; subst; apply tu_refl].
  destruct (sb_setup f sa skw w) as [w1 [[[o|[e o]]|]|e]] eqn:Es;
    pose proof (sb_setup_tu f sa skw w w1 _ Es) as Q1; try (inversion H; subst; exact Q1).
  unfold sb_rebuild in H. destruct (fn sa skw (sb_invoke_world f sa skw w1)) as [w3 [res subs]] eqn:Ef.
  pose proof (Hfn sa skw _ _ _ Ef) as Q2. pose proof (sb_finish_tu f sa skw res subs w3 w' r H) as Q3.
  eapply tu_trans; [exact Q1|]. eapply tu_trans; [apply (tu_set_log (LInvoke f None sa skw :: w_log w1) w1)|].
  eapply tu_trans; [exact Q2|exact Q3].
Qed.

Lemma tu_log_answer : forall q r w, tu w (log_answer q r w).
Proof.
  intros q r w. unfold log_answer.
  repeat match goal with |- context [match ?y with _ => _ end] => destruct y end;
    first [apply tu_refl | apply tu_set_log].
Qed.

Theorem run_tu : forall pr target subs, pres tuPO (run pr target subs).
Proof.
  induction pr as [v | e | stale q k IH | c k IH | stale p c f a kw fn IHfn k IHk | stale f a kw fn IHfn k IHk];
    intros target subs w w' r H; cbn [run] in H; change (tu w w').
  - inversion H; subst. apply tu_refl.
  - inversion H; subst. apply tu_refl.
  - destruct stale; [eapply IH; exact H|].
    destruct (m_query q w) as [w1 [r1 o]] eqn:E.
    pose proof (svb_tu _ _ (m_query_svb _ _ _ _ E)) as Q1. apply IH in H.
    eapply tu_trans; [exact Q1|]. eapply tu_trans; [apply tu_log_answer|exact H].
  - destruct target as [t|]; [|eapply IH; exact H].
    destruct (write_file (w_fs w) t c None (N.succ (w_clock w)) (w_nextid w)) as [fs'|e] eqn:E; [|inversion H; subst; apply tu_refl].
    apply IH in H. eapply tu_trans; [|exact H].
    split; [cbn [w_clock set_clock]; lia|]. intros x f Hx. cbn [w_fs set_clock set_fs w_clock] in *.
    destruct (write_file_frame _ _ _ _ _ _ _ E) as [[g [Hg [_ [Hm _]]]] Hoth].
    destruct (list_eq_dec string_dec x t) as [->|Hne].
    + right. rewrite Hg in Hx. inversion Hx; subst f. rewrite Hm. lia.
    + left. rewrite (Hoth x Hne) in Hx. exact Hx.
  - destruct stale; [eapply IHk; exact H|].
    match type of H with (let '(_, _) := ?X in _) = _ => destruct X as [w1 [r1 o]] eqn:E end.
    apply IHk in H. eapply tu_trans; [|exact H].
    refine (m_build_file_tu p c f a kw _ _ w w1 _ E). intros sa skw. apply IHfn.
  - destruct stale; [eapply IHk; exact H|].
    match type of H with (let '(_, _) := ?X in _) = _ => destruct X as [w1 [r1 o]] eqn:E end.
    apply IHk in H. eapply tu_trans; [|exact H].
    refine (m_subbuild_tu f a kw _ _ w w1 _ E). intros sa skw. apply IHfn.
Qed.


Print Assumptions run_tu.

(* ------------------------------------------------------------------ no file newer than the clock *)
Definition files_old (fs : fsT) (clock : N) : Prop :=
  forall p f, lookup fs p = Some (NFile f) -> (f_mtime f <= clock)%N.

Lemma tu_files_old : forall w w', tu w w' -> files_old (w_fs w) (w_clock w) -> files_old (w_fs w') (w_clock w').
Proof.
  intros w w' [A1 A2] H p f Hp. destruct (A2 p f Hp) as [K|K]; [|exact K].
  eapply N.le_trans; [exact (H p f K)|exact A1].
Qed.

Theorem run_files_old : forall pr target subs w w' r, run pr target subs w = (w', r) ->
  files_old (w_fs w) (w_clock w) -> files_old (w_fs w') (w_clock w').
Proof. intros pr target subs w w' r H. apply tu_files_old. exact (run_tu pr target subs w w' r H). Qed.

(* ------------------------------------------------------------------ the commit phase *)
From FB.Proofs Require RollbackDirsLaws.
Lemma set_created_dirs_tu : forall ccd, pres tuPO (set_created_dirs ccd).
Proof.
  intros ccd w w' r H. unfold set_created_dirs in H. unfold bind, get, put, ret in H. cbv zeta in H.
  inversion H; subst. tu_solve.
Qed.
#[local] Hint Resolve set_created_dirs_tu : pres.

Lemma bd_pre_tu : forall cf ccd, pres tuPO (RollbackDirsLaws.bd_pre cf ccd).
Proof. intros cf ccd. unfold RollbackDirsLaws.bd_pre. pres_auto. Qed.

Lemma effect_write_tu : forall what p bytes j m i w w' r,
  effect what p (fun fs => write_file fs p bytes j m i) w = (w', r) -> (m <= w_clock w)%N -> tu w w'.
Proof.
  intros what p bytes j m i w w' r H Hm. unfold effect in H. cbv zeta in H.
  destruct (existsb (Nat.eqb (w_effects w)) (w_faults w)); [inversion H; subst; tu_solve|].
  cbn [w_fs set_effects] in H.
  destruct (write_file (w_fs w) p bytes j m i) as [fs'|e] eqn:E; inversion H; subst; [|tu_solve].
  split; [cbn; apply N.le_refl|]. intros x f Hx. cbn [w_fs set_log set_fs set_effects w_clock] in *.
  destruct (write_file_frame _ _ _ _ _ _ _ E) as [[g [Hg [_ [Hmt _]]]] Hoth].
  destruct (list_eq_dec string_dec x p) as [->|Hne].
  - right. rewrite Hg in Hx. inversion Hx; subst f. rewrite Hmt. exact Hm.
  - left. rewrite (Hoth x Hne) in Hx. exact Hx.
Qed.

Lemma write_cache_tu : pres tuPO write_cache.
Proof.
  intros w w' r H. change (tu w w'). unfold write_cache in H. unfold bind at 1, get in H.
  destruct (cache_to_json (w_new w)) as [j|]; [|inversion H; subst; apply tu_refl]. cbv zeta in H.
  apply bind_inv in H. destruct H as [(w1 & u1 & E1 & H) | (e & E1 & H)].
  2:{ inversion H; subst. exact (effect_write_tu _ _ _ _ _ _ _ _ _ E1 (N.le_refl _)). }
  pose proof (effect_write_tu _ _ _ _ _ _ _ _ _ E1 (N.le_refl _)) as Q1.
  apply bind_inv in H. destruct H as [(w2 & u2 & E2 & H) | (e & E2 & H)]; [|inversion E2].
  unfold modify in E2. inversion E2; subst w2 u2. clear E2.
  eapply tu_trans; [exact Q1|].
  assert (Q2 : tu w1 (set_clock (w_clock w1) (N.succ (w_nextid w1)) w1)) by (apply tu_of_fsub; [reflexivity|intros x f X; exact X]).
  eapply tu_trans; [exact Q2|].
  refine (effect_write_tu _ _ _ _ _ _ _ _ _ H _). cbn [w_clock set_clock]. destruct Q1 as [Q1 _]. exact Q1.
Qed.

Lemma commit_tu : forall err, pres tuPO (commit err).
Proof.
  intro err. unfold commit. apply pres_bind; [apply pres_get|]. intro w0.
  apply pres_bind.
  - apply pres_mapM_. intro f. pres_auto.
  - intros _. apply pres_bind; [|intros extra; pres_auto].
    induction (c_dirs (w_old w0)) as [|d ds IH]; pres_auto.
Qed.

(* a committed build keeps "no regular file is newer than the clock" *)
Theorem build_files_old : forall cf nm vers root w w' v,
  run_build cf nm vers root w = (w', Done (inl v)) ->
  files_old (w_fs w) (w_clock w) -> files_old (w_fs w') (w_clock w') /\ (w_clock w <= w_clock w')%N.
Proof.
  intros cf nm vers root w w' v H Hold.
  unfold run_build in H.
  destruct (m_build cf nm vers (fun w0 => run root None [] w0) w) as [wf r1] eqn:E.
  inversion H; subst w' r1; clear H.
  change (w_fs (end_build wf)) with (w_fs wf). change (w_clock (end_build wf)) with (w_clock wf).
  assert (G : forall svers old0, RollbackDirsLaws.m_accept cf nm svers (fun w0 => run root None [] w0) w old0 = (wf, Done (inl v)) -> tu w wf).
  { intros svers old0 Y. unfold RollbackDirsLaws.m_accept in Y. cbv zeta in Y.
    assert (Q0 : tu w (start_world w cf old0 nm svers)) by (apply tu_of_fsub; [reflexivity|intros x f X; exact X]).
    destruct (make_dirs (dirname cf) (start_world w cf old0 nm svers)) as [w1 [ccd|e1]] eqn:E1.
    2:{ destruct (roll_back [] w1) as [wr [u|e']]; discriminate Y. }
    pose proof (make_dirs_tu _ _ _ _ E1) as Q1.
    match type of Y with (let '(_, _) := ?Z in _) = _ => destruct Z as [w2 [res x]] eqn:E2 end.
    pose proof (run_tu _ _ _ _ _ _ E2) as Q2.
    destruct res as [v0|e2]; [|destruct (roll_back ccd w2) as [wr [u|e']]; discriminate Y].
    destruct (RollbackDirsLaws.bd_pre cf ccd w2) as [w3 [err|e3]] eqn:E3; [|destruct (roll_back ccd w3) as [wr [u|e']]; discriminate Y].
    pose proof (bd_pre_tu _ _ _ _ _ E3) as Q3.
    destruct (write_cache w3) as [w4 [u4|e4]] eqn:E4.
    2:{ destruct (try_to_remove_file cf w4) as [w5 r5]. destruct (roll_back ccd w5) as [wr [u|e']]; discriminate Y. }
    pose proof (write_cache_tu _ _ _ E4) as Q4.
    destruct (commit err w4) as [w5 [u5|e5]] eqn:E5; [|discriminate Y].
    inversion Y; subst w5. pose proof (commit_tu _ _ _ _ E5) as Q5.
    eapply tu_trans; [exact Q0|]. eapply tu_trans; [exact Q1|]. eapply tu_trans; [apply (tu_set_log (LInvoke "<root>" None PNone PNone :: w_log w1) w1)|].
    eapply tu_trans; [exact Q2|]. eapply tu_trans; [exact Q3|]. eapply tu_trans; [exact Q4|exact Q5]. }
  assert (T : tu w wf).
  { rewrite RollbackDirsLaws.m_build_unfold in E. destruct (sanitize vers) as [svers|]; [|discriminate E].
    destruct (lookup (w_fs w) cf) as [[g|]|].
    - destruct (cache_of_json (f_json g)) as [old0| |]; try discriminate E.
      destruct (String.eqb (c_name old0) nm); [|discriminate E]. exact (G _ _ E).
    - discriminate E.
    - exact (G _ _ E). }
  split; [exact (tu_files_old _ _ T Hold)|exact (proj1 T)].
Qed.

Print Assumptions build_files_old.
