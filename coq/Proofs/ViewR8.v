(* Proofs/ViewR8.v — C04, arbitrary previous caches, part 8: across builds.  The cache that the
   next build reads back from the file written at commit (Proofs/CacheRTMain.cache_roundtrip)
   is well formed (and calm) when the tables written are: the record predicates do not look
   at the values that the write/read cycle normalises.                                   *)
From Coq Require Import List String Ascii NArith ZArith Bool Arith Lia.
From FB.Base Require Import PyVal Fs.
From FB.Gen Require Import JsonUtilGen.
From FB.Model Require Import Types SimpleOps Builder Persist PersistSpec.
From FB.Proofs Require Import JsonLaws ReplayLaws CacheRTDefs CacheRTMain ViewH4 ViewR2 ViewR6.
Import ListNotations.
Open Scope list_scope.

Lemma san_dict_shape : forall d acc s, san_dict d acc = Some s -> exists a, s = PDict a.
Proof.
  induction d as [|[k x] d IH]; intros acc s H; cbn [san_dict] in H.
  - inversion H. eexists. reflexivity.
  - destruct (sanitize x); cbn [obind] in H; [|discriminate].
    destruct (key_to_str k); cbn [obind] in H; [|discriminate]. apply (IH _ _ H).
Qed.

Lemma pnone_norm : forall v, pnone (norm_val v) = pnone v.
Proof.
  intro v. unfold norm_val. destruct v as [| b | z | f | s | l | l | d | o]; try reflexivity.
  - rewrite sanitize_list_eq. destruct (mapM sanitize l); reflexivity.
  - rewrite sanitize_tuple_eq. destruct (mapM sanitize l); reflexivity.
  - rewrite sanitize_dict_eq. destruct (san_dict d []) as [s|] eqn:E; [|reflexivity].
    destruct (san_dict_shape _ _ _ E) as [a ->]. reflexivity.
Qed.

Lemma wfrec_norm : forall o, wfrec (norm_op o) = wfrec o.
Proof.
  induction o as [q r e|p c f a k subs r cr ra sf IH|f a k subs r ra sf IH] using op_ind'; cbn [norm_op wfrec].
  - reflexivity.
  - rewrite pnone_norm. f_equal. induction IH as [|s rest Hs HF IHl]; [reflexivity|].
    cbn [map forallb]. rewrite Hs, IHl. reflexivity.
  - induction IH as [|s rest Hs HF IHl]; [reflexivity|]. cbn [map forallb]. rewrite Hs, IHl. reflexivity.
Qed.

Lemma calm_norm : forall o, calm (norm_op o) = calm o.
Proof.
  induction o as [q r e|p c f a k subs r cr ra sf IH|f a k subs r ra sf IH] using op_ind'; cbn [norm_op calm].
  - reflexivity.
  - f_equal. induction IH as [|s rest Hs HF IHl]; [reflexivity|]. cbn [map forallb]. rewrite Hs, IHl. reflexivity.
  - induction IH as [|s rest Hs HF IHl]; [reflexivity|]. cbn [map forallb]. rewrite Hs, IHl. reflexivity.
Qed.

(* what a committed cache satisfies, in the next build *)
Theorem wf_readback : forall c roots, writable c roots -> tables_from_forest c roots -> WfCache c ->
  exists j c', cache_to_json c = Some j /\ cache_of_json (Some j) = ReadOk c' /\ WfCache c' /\
               (CalmCache c -> CalmCache c').
Proof.
  intros c roots W TF [HF HS].
  destruct (cache_roundtrip c roots W) as (j & c' & J1 & J2 & _ & _ & _ & _ & _ & _ & _ & _ & _ & _ & _ & HT & _).
  destruct (HT TF) as (T1 & _ & T3).
  exists j, c'. split; [exact J1|]. split; [exact J2|]. split; [split|].
  - intros p rec H. rewrite T1 in H. destruct (cache_get_file c p) as [o|] eqn:E; [|discriminate].
    inversion H; subst. rewrite wfrec_norm. apply (HF _ _ E).
  - intros k rec H. rewrite T3 in H. destruct (subs_get (c_subs c) k) as [[o|]|] eqn:E; try discriminate.
    inversion H; subst. rewrite wfrec_norm. apply (HS _ _ E).
  - intros [CF CS]. split.
    + intros p rec H. rewrite T1 in H. destruct (cache_get_file c p) as [o|] eqn:E; [|discriminate].
      inversion H; subst. rewrite calm_norm. apply (CF _ _ E).
    + intros k rec H. rewrite T3 in H. destruct (subs_get (c_subs c) k) as [[o|]|] eqn:E; try discriminate.
      inversion H; subst. rewrite calm_norm. apply (CS _ _ E).
Qed.

Print Assumptions wf_readback.
