(* Proofs/ViewXMake1.v — C04, reachability: what _dirs_to_make returns: the ancestors of the
   target that are not visible (nearest last); everything above them is a visible directory
   recorded in bd_exists. *)
From Coq Require Import List String Ascii NArith ZArith Bool Arith Lia.
From FB.Base Require Import PyVal Fs.
From FB.Model Require Import Types Monad CreatedFiles BuildDirs SimpleOps Builder.
From FB.Proofs Require Import FsLemmas CleanLaws JsonLaws CoreLawsChildren ReplayLaws
     ViewDefs ViewLemmas ViewScan ViewQueries ViewAnswers ViewPres ViewFrame
     ViewXDefs ViewXFrame ViewXQuery.
Import ListNotations.
Open Scope list_scope.
Open Scope m_scope.

(* a query step seen from XInv *)
Lemma qrel_facts : forall T w w', XInv T w -> qrel w w' ->
  XInv T w' /\ same_view w w' /\ same_but_view w w' /\ sfr (w_fs w) (w_bd w) (w_bd w').
Proof.
  intros T w w' HX Q. split; [eapply qrel_XInv; eassumption|].
  destruct Q as (V & F & S). pose proof (x_binv _ _ HX) as HB.
  split; [apply (good_sv _ _ (V HB))|]. split; [exact S|].
  apply (F (bi_wf _ HB) (x_sinv _ _ HX) (bi_counts_up _ HB)).
Qed.

Lemma qrel_refl : forall w, qrel w w.
Proof. intro w. split; [apply vrel_refl|]. split; [apply frel_refl|apply svb_refl]. Qed.

Lemma qrel_trans : forall a b c, qrel a b -> qrel b c -> qrel a c.
Proof.
  intros a b c (A1 & A2 & A3) (B1 & B2 & B3). split; [eapply vrel_trans; eassumption|].
  split; [eapply frel_trans; eassumption|eapply svb_trans; eassumption].
Qed.

Lemma m_is_dir_q : forall p cf w w' r, m_is_dir p cf w = (w', r) -> qrel w w'.
Proof. intros p cf. apply qrel_of; [apply m_is_dir_v|apply m_is_dir_f|apply m_is_dir_svb]. Qed.
Lemma m_is_file_q : forall p cf w w' r, m_is_file p cf w = (w', r) -> qrel w w'.
Proof. intros p cf. apply qrel_of; [apply m_is_file_v|apply m_is_file_f|apply m_is_file_svb]. Qed.

(* the value is_file returns *)
Lemma m_is_file_inl : forall w p w1 bb, BInv w -> m_is_file p None w = (w1, inl bb) -> bb = vfile w p.
Proof.
  intros w p w1 bb HB H. destruct (m_is_file_view w p HB) as [w' [E _]]. rewrite E in H. inversion H. reflexivity.
Qed.

(* the value is_dir returns; when it is True, p and its ancestors are in bd_exists afterwards *)
Lemma m_is_dir_inl : forall T w p w1 bb, XInv T w -> m_is_dir p None w = (w1, inl bb) ->
  bb = vdir w p /\ (bb = true -> forall x, suffix x p -> mem_path x (bd_exists (w_bd w1)) = true).
Proof.
  intros T w p w1 bb HX H. pose proof (x_binv _ _ HX) as HB.
  unfold m_is_dir in H. cbn [cf_has_dir cf_has_file] in H.
  apply bind_inv in H.
  destruct (m_is_removed_sound w p HB) as [w' [G [[r' [E Hr]]|[E _]]]]; rewrite E in H.
  2:{ destruct H as [[wa [a [Ea _]]]|[e [_ Ee]]]; discriminate. }
  destruct H as [[wa [a [Ea H]]]|[e [_ Ee]]]; [|discriminate]. inversion Ea; subst wa a.
  unfold vdir. destruct r'.
  - inversion H; subst. split; [|discriminate].
    destruct (isdir (w_fs w) p) eqn:Ei; [|reflexivity]. rewrite <- (Hr eq_refl). reflexivity.
  - apply bind_inv in H. unfold get in H.
    destruct H as [[wa [a [Ea' H]]]|[e [Ee _]]]; [|discriminate]. inversion Ea'; subst wa a.
    rewrite (sv_fs _ _ (good_sv _ _ G)) in H.
    destruct (isdir (w_fs w) p) eqn:Ei.
    + rewrite <- (Hr eq_refl). cbn [andb negb].
      apply bind_inv in H. destruct H as [[wa [a [Eh H]]]|[e [Eh Ee]]]; [|discriminate].
      inversion H; subst. split; [reflexivity|]. intros _ x Hx.
      unfold m_handle_dir_exists, modify in Eh. inversion Eh; subst. cbn [w_bd set_bd].
      apply hde_all; [|exact Hx].
      (* bd_exists of w' is closed upwards: SInv holds there *)
      assert (Q: qrel w w').
      { apply (qrel_of _ (m_is_removed p) (m_is_removed_v p) (m_is_removed_f p) (m_is_removed_svb p) w w' (inl false)). exact E. }
      destruct (qrel_facts _ _ _ HX Q) as (HX' & _). apply SInv_up; [apply (x_sinv _ _ HX')|apply (bi_counts_up _ (x_binv _ _ HX'))].
    + inversion H; subst. split; [reflexivity|discriminate].
Qed.

(* ------------------------------------------------------------------ dirs_to_make *)
Record dtm_post (T : list path) (d : path) (w w1 : world) (ds : list path) : Prop := {
  dp_q : qrel w w1;
  dp_in : forall y, In y ds -> suffix y d /\ y <> [] /\ vdir w y = false /\ vfile w y = false /\ y <> w_cachefile w;
  dp_out : forall y, suffix y d -> ~ In y ds -> mem_path y (bd_exists (w_bd w1)) = true /\ vdir w y = true
}.

Lemma ex_mono_q : forall T w w' y, XInv T w -> qrel w w' -> mem_path y (bd_exists (w_bd w)) = true ->
  mem_path y (bd_exists (w_bd w')) = true.
Proof. intros T w w' y HX Q H. destruct (qrel_facts _ _ _ HX Q) as (_ & _ & _ & F). apply (q_ex _ _ _ F). exact H. Qed.

Theorem dirs_to_make_spec : forall d T w w1 ds, XInv T w -> dirs_to_make d None w = (w1, inl ds) -> dtm_post T d w w1 ds.
Proof.
  induction d as [|n d IH]; intros T w w1 ds HX H; cbn [dirs_to_make] in H.
  - (* the root is always a visible directory *)
    apply bind_inv in H. destruct H as [[wa [isd [Ed H]]]|[e [_ H]]]; [|discriminate].
    destruct (m_is_dir_inl _ _ _ _ _ HX Ed) as [Eisd Hex]. pose proof (m_is_dir_q _ _ _ _ _ Ed) as Qa.
    rewrite (vdir_root _ (x_binv _ _ HX)) in Eisd. subst isd.
    apply bind_inv in H. destruct H as [[wb [isf [Ef H]]]|[e [_ H]]]; [|discriminate].
    inversion Ef; subst wb isf. inversion H; subst w1 ds.
    constructor; [exact Qa|intros y []|].
    intros y Hy _. split; [apply Hex; [reflexivity|exact Hy]|].
    apply suffix_nil in Hy. subst. apply vdir_root. apply (x_binv _ _ HX).
  - apply bind_inv in H. destruct H as [[wa [isd [Ed H]]]|[e [_ H]]]; [|discriminate].
    destruct (m_is_dir_inl _ _ _ _ _ HX Ed) as [Eisd Hex]. pose proof (m_is_dir_q _ _ _ _ _ Ed) as Qa.
    destruct (qrel_facts _ _ _ HX Qa) as (HXa & Sa & _ & _).
    apply bind_inv in H. destruct H as [[wb [isf [Ef H]]]|[e [_ H]]]; [|discriminate].
    destruct isd.
    + (* visible directory: nothing to make *)
      inversion Ef; subst wb isf. inversion H; subst w1 ds.
      constructor; [exact Qa|intros y []|].
      intros y Hy _. split; [apply Hex; [reflexivity|exact Hy]|].
      symmetry in Eisd. pose proof (vdir_visible _ _ Eisd) as Vv.
      unfold vdir. rewrite (visible_alive_up w (n :: d) y (bi_wf _ (x_binv _ _ HX)) Vv Hy).
      unfold vdir in Eisd. apply andb_true_iff in Eisd. destruct Eisd as [Ei _]. apply isdir_lookup in Ei.
      unfold isdir. rewrite (wf_suffix_dir _ _ _ (bi_wf _ (x_binv _ _ HX)) Ei Hy). reflexivity.
    + pose proof (m_is_file_inl _ _ _ _ (x_binv _ _ HXa) Ef) as Eisf. pose proof (m_is_file_q _ _ _ _ _ Ef) as Qb.
      destruct (qrel_facts _ _ _ HXa Qb) as (HXb & Sb & _ & _).
      destruct isf; [discriminate|].
      apply bind_inv in H. destruct H as [[wc [icf [Ec H]]]|[e [_ H]]]; [|discriminate].
      unfold is_cache_file in Ec.
      assert (E1: wc = wb) by congruence. assert (E2: icf = path_eqb (n :: d) (w_cachefile wb)) by congruence.
      subst wc icf. clear Ec.
      destruct (path_eqb (n :: d) (w_cachefile wb)) eqn:Ecf; [unfold raise in H; discriminate|].
      apply bind_inv in H. destruct H as [[wd [r [Er H]]]|[e [_ H]]]; [|discriminate].
      inversion H; subst w1 ds.
      destruct (IH T wb wd r HXb Er) as [Q1 I1 O1].
      pose proof (qrel_trans _ _ _ Qa Qb) as Qab. pose proof (same_view_trans _ _ _ Sa Sb) as Sab.
      constructor.
      * eapply qrel_trans; eassumption.
      * intros y Hy. apply in_app_iff in Hy. destruct Hy as [Hy|[<-|[]]].
        -- destruct (I1 y Hy) as (A & B & C & D & E). split; [apply suffix_cons; exact A|]. split; [exact B|].
           rewrite <- (same_view_vdir _ _ _ Sab), <- (same_view_vfile _ _ _ Sab), <- (sv_cf _ _ Sab). auto.
        -- split; [apply suffix_refl|]. split; [discriminate|]. split; [symmetry; exact Eisd|].
           split; [rewrite <- (same_view_vfile _ _ _ Sa); symmetry; exact Eisf|].
           rewrite <- (sv_cf _ _ Sab). apply path_eqb_neq. exact Ecf.
      * intros y Hy Hn. apply suffix_inv in Hy. destruct Hy as [->|Hy].
        -- exfalso. apply Hn. apply in_or_app. right. left. reflexivity.
        -- destruct (O1 y Hy) as [A B]; [intro K; apply Hn; apply in_or_app; left; exact K|].
           split; [exact A|]. rewrite <- (same_view_vdir _ _ _ Sab). exact B.
Qed.

Print Assumptions dirs_to_make_spec.
