(* Proofs/CoreRebuild9.v — the records a run registers are, up to order, the records registered by
   adopting the records it appends (a run registers a call when it ends, the adoption of a cached tree
   registers the call first); cleanliness and distinctness of the registered records do not depend on
   the order. *)
From Coq Require Import List String Ascii NArith ZArith Bool Arith Lia Permutation.
From FB.Base Require Import PyVal Fs.
From FB.Gen Require Import JsonUtilGen.
From FB.Spec Require Import JsonSpec Prog Ref Oracle Faithful.
From FB.Model Require Import Types SimpleOps Builder Persist Core CoreOracle CoreCache.
From FB.Proofs Require Import FsLemmas JsonLaws CoreLaws1 CoreLaws2 CoreLaws3 CoreLaws4 CoreLaws5
     CoreRebuildDefs CoreRebuild1 CoreRebuild2 CoreRebuild3 CoreRebuild4.
Import ListNotations.
Local Open Scope list_scope.

Lemma tree_regs_finish : forall s2 p c fname sa skw bsubs res pend2 s3 out o,
  core_finish s2 p c fname sa skw bsubs res pend2 = (s3, out, o) ->
  tree_regs o = ((p, o) :: fst (rgl bsubs), snd (rgl bsubs)).
Proof.
  intros. destruct (core_finish_cases _ _ _ _ _ _ _ _ _ _ _ _ H) as [(sv & bytes & fs3 & g & _ & _ & _ & -> & _)|(e & -> & _)]; reflexivity.
Qed.

Theorem run_regs : forall pr tgt pend s s' out pend' new,
  Run pr tgt pend s s' out pend' new ->
  Permutation (k_newF s') (k_newF s ++ fst (rgl new)) /\ Permutation (k_newS s') (k_newS s ++ snd (rgl new)).
Proof.
  intros pr tgt pend s s' out pend' new H.
  induction H; try (split; rewrite app_nil_r; apply Permutation_refl); try exact IHRun.
  - (* Ask *) destruct IHRun as [A B]. rewrite rgl_cons. destruct (record_answer (k_fs s) q); exact (conj A B).
  - (* hit *) destruct IHRun as [A B]. rewrite rgl_cons. cbn [fst snd].
    cbn [core_put adopt ks_with k_newF k_newS core_s0] in A, B. rewrite <- !app_assoc in A, B. exact (conj A B).
  - (* run *) destruct IHRun1 as [A1 B1]. destruct IHRun2 as [A2 B2].
    destruct (finish_kconst _ _ _ _ _ _ _ _ _ _ _ _ H4) as [_ [EF _]].
    assert (ES : k_newS s3 = k_newS s2).
    { destruct (core_finish_cases _ _ _ _ _ _ _ _ _ _ _ _ H4) as [(sv & bytes & fs3 & g & _ & _ & _ & _ & -> & _)|(e & _ & -> & _)]; reflexivity. }
    rewrite rgl_cons, (tree_regs_finish _ _ _ _ _ _ _ _ _ _ _ _ H4). cbn [fst snd]. split.
    + cbn [core_start klog ks_with k_newF core_s0] in A1. rewrite EF in A2.
      eapply Permutation_trans; [exact A2|].
      eapply Permutation_trans; [apply Permutation_app_tail, Permutation_app_tail; exact A1|].
      rewrite <- !app_assoc. apply Permutation_app_head. cbn [app]. apply Permutation_sym, Permutation_middle.
    + cbn [core_start klog ks_with k_newS core_s0] in B1. rewrite ES in B2.
      eapply Permutation_trans; [exact B2|].
      eapply Permutation_trans; [apply Permutation_app_tail; exact B1|]. rewrite <- !app_assoc. reflexivity.
  - (* subbuild hit *) destruct IHRun as [A B]. rewrite rgl_cons. cbn [fst snd].
    cbn [adopt ks_with k_newF k_newS] in A, B. rewrite <- !app_assoc in A, B. exact (conj A B).
  - (* subbuild run *) destruct IHRun1 as [A1 B1]. destruct IHRun2 as [A2 B2].
    assert (Erg : tree_regs (sub_rec fname sa skw bsubs res) =
                  (fst (rgl bsubs), (subbuild_key fname sa skw, sub_rec fname sa skw bsubs res) :: snd (rgl bsubs))).
    { unfold sub_rec. destruct res as [v|e]; [destruct (sanitize v)|]; reflexivity. }
    rewrite rgl_cons, Erg. cbn [fst snd]. cbn [core_subreg ks_with k_newF k_newS] in A2, B2.
    cbn [core_substart klog ks_with k_newF k_newS] in A1, B1. split.
    + eapply Permutation_trans; [exact A2|].
      eapply Permutation_trans; [apply Permutation_app_tail; exact A1|]. rewrite <- !app_assoc. reflexivity.
    + eapply Permutation_trans; [exact B2|].
      eapply Permutation_trans; [apply Permutation_app_tail, Permutation_app_tail; exact B1|].
      rewrite <- !app_assoc. apply Permutation_app_head. cbn [app]. apply Permutation_sym, Permutation_middle.
Qed.

(* ------------------------------------------------------------------ *)
(* order does not matter                                              *)
(* ------------------------------------------------------------------ *)
Lemma mem_path_perm : forall p l l', Permutation l l' -> mem_path p l = mem_path p l'.
Proof.
  intros p l l' H. induction H; cbn [mem_path]; auto.
  - rewrite IHPermutation. reflexivity.
  - destruct (path_eqb y p), (path_eqb x p); reflexivity.
  - congruence.
Qed.

Lemma distinct_paths_perm : forall l l', Permutation l l' -> distinct_paths l = distinct_paths l'.
Proof.
  intros l l' H. induction H; cbn [distinct_paths]; auto.
  - rewrite IHPermutation, (mem_path_perm x _ _ H). reflexivity.
  - cbn [mem_path]. rewrite (path_eqb_sym y x).
    destruct (path_eqb x y), (mem_path y l), (mem_path x l), (distinct_paths l); reflexivity.
  - congruence.
Qed.

Lemma existsb_perm : forall {A} (f : A -> bool) l l', Permutation l l' -> existsb f l = existsb f l'.
Proof.
  intros A f l l' H. induction H; cbn [existsb]; auto.
  - rewrite IHPermutation. reflexivity.
  - destruct (f x), (f y); reflexivity.
  - congruence.
Qed.

Lemma distinct_keys_perm : forall l l', Permutation l l' -> distinct_keys l = distinct_keys l'.
Proof.
  intros l l' H. induction H; cbn [distinct_keys]; auto.
  - rewrite IHPermutation, (existsb_perm _ _ _ H). reflexivity.
  - cbn [existsb]. rewrite (orb_comm (py_eq y x) (py_eq x y)).
    destruct (py_eq x y || py_eq y x), (existsb (fun q => py_eq y q || py_eq q y) l),
      (existsb (fun q => py_eq x q || py_eq q x) l), (distinct_keys l); reflexivity.
  - congruence.
Qed.

Lemma records_clean_perm : forall s s', Permutation (k_newF s) (k_newF s') -> Permutation (k_newS s) (k_newS s') ->
  records_clean s = records_clean s'.
Proof.
  intros s s' HF HS. unfold records_clean. rewrite (forallb_perm _ _ _ HF), (forallb_perm _ _ _ HS). reflexivity.
Qed.

Lemma records_distinct_perm : forall s s', Permutation (k_newF s) (k_newF s') -> Permutation (k_newS s) (k_newS s') ->
  records_distinct s = records_distinct s'.
Proof.
  intros s s' HF HS. unfold records_distinct.
  rewrite (distinct_paths_perm _ _ (Permutation_map fst HF)), (distinct_keys_perm _ _ (Permutation_map fst HS)). reflexivity.
Qed.
