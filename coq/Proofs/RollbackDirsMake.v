(* Proofs/RollbackDirsMake.v — _make_dirs, the registration of what it made
   (BuildDirs.started_building_file) and the directory invariant.

   _make_dirs makes directories that are registered only afterwards, by
   started_building_file, and only if the walk from the target's parent towards the root
   is not stopped by a lock count.  [PendC made w] describes the directories made so far:
   they are directories now, nothing at or below them is locked (they did not exist a
   moment ago and a locked directory exists), and they contain nothing but each other.
   If a later mkdir fails, _remove_empty_dirs really removes all of them; if all succeed,
   the walk of started_building_file reaches every one of them.
   A regular file in the way is an output of the previous build (it is moved to the
   backups first: [make_one_dir_spec]); a foreign file, the cache file or a target in
   progress makes _dirs_to_make raise before anything is made ([dirs_to_make_files]). *)
From Coq Require Import List String Ascii NArith ZArith Bool Arith Lia Sorted.
From FB.Base Require Import PyVal Fs.
From FB.Gen Require Import JsonUtilGen.
From FB.Spec Require Import Prog.
From FB.Model Require Import Types Monad CreatedFiles BuildDirs SimpleOps Builder Persist Build Run Frame.
From FB.Proofs Require Import FsLemmas ReplayLaws FrameLaws CleanLaws RollbackDirsLaws
  RollbackDirsView RollbackDirsBase RollbackDirsInv.
Import ListNotations.
Local Open Scope list_scope.

Lemma absent_err_not_eexist : forall fs p, absent_err fs p <> EEXIST.
Proof.
  intros fs p. induction p as [|n d IH]; cbn [absent_err]; [discriminate|].
  destruct (lookup fs d) as [[g|]|]; [discriminate | destruct (name_ok n); discriminate | exact IH].
Qed.

Lemma mkdir_eexist : forall fs d, mkdir fs d = inr EEXIST -> d = [] \/ exists x, lookup fs d = Some x.
Proof.
  intros fs d H. unfold mkdir in H. destruct d as [|n d]; [left; reflexivity|]. right.
  destruct (lookup fs (n :: d)) as [x|] eqn:E; [eauto|]. exfalso.
  destruct (lookup fs d) as [[g|]|]; try discriminate H.
  - destruct (name_ok n); discriminate H.
  - unfold stat_err in H. inversion H as [H1]. exact (absent_err_not_eexist fs (n :: d) H1).
Qed.

Section Make.

Variable fs0 : fsT.
Variable old : cache.
Variable cf : path.
Variable P : path -> Prop.

Hypothesis HypA : forall a t, Tgt old cf P t -> below a t = true -> ~ P a.
Hypothesis Hwf0 : fs_wf fs0.

Notation RI := (RInv fs0 old cf P).
Notation AT := (AncT old cf P).
Notation DI := (DInv fs0 old cf P).
Notation FI := (FInv fs0 old cf P).
Notation WP := (Wp fs0 old).

(* ================================================================== *)
(* 1. One mkdir of _make_dirs                                          *)
(* ================================================================== *)

(* what a backup may do to the tree: a regular file disappears *)
Definition fless (fs fsm : fsT) : Prop :=
  forall q, lookup fsm q = lookup fs q \/ (exists g, lookup fs q = Some (NFile g) /\ lookup fsm q = None).

Lemma fless_refl : forall fs, fless fs fs.
Proof. intros fs q. left. reflexivity. Qed.

Lemma back_up_raises_os : forall p w w' e, back_up_and_remove p w = (w', inr e) -> is_os e = true.
Proof.
  intros p w w' e H. unfold back_up_and_remove in H.
  apply bind_inv in H. destruct H as [(w1 & u & E1 & H) | (e1 & E1 & Y)].
  - cbv zeta in H. destruct (existsb (Nat.eqb (w_effects w1)) (w_faults w1)); [inversion H; reflexivity|].
    destruct (rename_out (w_fs (set_effects (S (w_effects w1)) w1)) p) as [[fs' [f|]]|e0]; try (inversion H; fail).
    destruct e0; inversion H; reflexivity.
  - inversion Y; subst. eapply effect_raises_os; eauto.
Qed.

(* the virtual view denies a regular file that is really there only for the cache file, a
   path claimed and in progress, and an output of the previous build *)
Lemma m_is_file_false_cases : forall a w w', m_is_file a None w = (w', inl false) ->
  isfile (w_fs w) a = true ->
  a = w_cachefile w \/ pending (w_new w) a \/ cache_created_file (w_old w) a = true.
Proof.
  intros a w w' H Hf. unfold m_is_file in H.
  apply bind_inv in H. destruct H as [(w1 & x & E1 & H) | (e & E1 & H)]; [|discriminate H].
  unfold is_file_no_read in E1. cbn [cf_has_file cf_has_dir] in E1.
  destruct (path_eqb a (w_cachefile w)) eqn:G1.
  { left. apply path_eqb_eq. exact G1. }
  destruct (cache_has_file (w_new w) a) eqn:G2.
  { unfold cache_get_file in E1. unfold cache_has_file in G2.
    destruct (files_get (c_files (w_new w)) a) as [[o|]|] eqn:G3; try discriminate G2.
    - inversion E1; subst. unfold bind at 1, get in H. rewrite Hf in H.
      apply bind_inv in H. destruct H as [(w2 & y & E2 & H) | (e & E2 & H)]; [inversion H | discriminate H].
    - right; left. exact G3. }
  destruct (cache_created_file (w_old w) a) eqn:G3; [right; right; reflexivity|].
  inversion E1; subst. unfold bind at 1, get in H. rewrite Hf in H.
  apply bind_inv in H. destruct H as [(w2 & y & E2 & H) | (e & E2 & H)]; [inversion H | discriminate H].
Qed.

Lemma make_one_dir_spec : forall d w w' r, make_one_dir d w = (w', r) -> RI w -> AT d ->
  (isfile (w_fs w) d = true -> cache_created_file old d = true) ->
  exists wm, w_bd wm = w_bd w /\ w_bd w' = w_bd w /\ RI wm /\ dkeep w wm /\ fless (w_fs w) (w_fs wm) /\
  ((r = inl true /\ mkdir (w_fs wm) d = inl (w_fs w')) \/
   (r = inl false /\ w_fs w' = w_fs wm /\ lookup (w_fs wm) d = Some NDir) \/
   (exists e, r = inr e /\ is_os e = true /\ w_fs w' = w_fs wm)).
Proof.
  intros d w w' r H Hinv Ha Hpre. pose proof Hinv as (Hf & Bold & _).
  unfold make_one_dir in H. unfold bind at 1, get in H.
  (* the mkdir step, from a world wm in which no regular file sits at d *)
  assert (G : forall wm, w_faults wm = [] -> (forall g, lookup (w_fs wm) d <> Some (NFile g)) ->
            catch (bind (effect "mkdir" d (fun fs => mkdir fs d)) (fun _ => ret true))
                  (fun e => if is_os_class XFileExists e then ret false else raise e) wm = (w', r) ->
            w_bd w' = w_bd wm /\
            ((r = inl true /\ mkdir (w_fs wm) d = inl (w_fs w')) \/
             (r = inl false /\ w_fs w' = w_fs wm /\ lookup (w_fs wm) d = Some NDir) \/
             (exists e, r = inr e /\ is_os e = true /\ w_fs w' = w_fs wm))).
  { intros wm Hfm Hnf K. unfold catch, bind in K. rewrite (effect_nofault' _ _ _ _ Hfm) in K.
    destruct (mkdir (w_fs wm) d) as [fs'|e] eqn:E.
    - inversion K; subst. cbn. split; [reflexivity|]. left. split; reflexivity.
    - destruct e; cbn in K; inversion K; subst; cbn; (split; [reflexivity|]);
        try (right; right; eexists; split; [reflexivity|]; split; reflexivity).
      right; left. split; [reflexivity|]. split; [reflexivity|].
      destruct (mkdir_eexist _ _ E) as [->|[x Hx]]; [reflexivity|].
      destruct x as [g|]; [exfalso; exact (Hnf g Hx) | exact Hx]. }
  destruct (isfile (w_fs w) d && cache_created_file (w_old w) d) eqn:Eg.
  - apply andb_true_iff in Eg. destruct Eg as [Ef _]. pose proof (isfile_not_dir _ _ Ef) as Hnd.
    pose proof (AncT_not_built fs0 old cf P HypA d w Ha Hinv) as Hnb.
    apply bind_inv in H. destruct H as [(w1 & u & E1 & H) | (e & E1 & ->)].
    + apply bind_inv in E1. destruct E1 as [(w2 & b & E2 & H2) | (e & _ & Y)]; [|discriminate Y].
      inversion H2; subst w2; clear H2.
      destruct (back_up_and_remove_T fs0 old cf P _ _ _ _ E2 Hinv Hnd Hnb) as [Hinv1 _].
      pose proof (back_up_dkeep _ _ _ _ E2 Hnd) as K1.
      destruct (back_up_spec _ _ _ _ E2 Hf Hnd) as (F1 & _ & _ & _ & [(f & _ & G1 & G2 & G3 & _) | (G1 & _ & [(_ & G3) | (e & Y)])]).
      * destruct (G w1 F1) as [Gb Gc]; [intros g Y; congruence | exact H|].
        exists w1. destruct K1 as (Kb & _). split; [exact Kb|]. split; [congruence|]. split; [exact Hinv1|].
        split; [exact (back_up_dkeep _ _ _ _ E2 Hnd)|]. split; [|exact Gc].
        intro q. destruct (path_eq_dec q d) as [->|N]; [right; exists f; split; assumption | left; apply G3; exact N].
      * exfalso. apply isfile_lookup in Ef. destruct Ef as [g Hg]. congruence.
      * discriminate Y.
    + apply bind_inv in E1. destruct E1 as [(w2 & b & E2 & H2) | (e' & E2 & Y)]; [inversion H2|].
      inversion Y; subst e'; clear Y.
      destruct (back_up_and_remove_T fs0 old cf P _ _ _ _ E2 Hinv Hnd Hnb) as [Hinv1 _].
      pose proof (back_up_dkeep _ _ _ _ E2 Hnd) as K1.
      destruct (back_up_spec _ _ _ _ E2 Hf Hnd) as (F1 & _ & _ & _ & [(f & Y & _) | (G1 & _ & _)]); [discriminate Y|].
      exists w'. destruct K1 as (Kb & K2 & K3). split; [exact Kb|]. split; [exact Kb|]. split; [exact Hinv1|].
      split; [split; [exact Kb | split; assumption]|]. split; [intro q; left; rewrite G1; reflexivity|].
      right; right. exists e. split; [reflexivity|]. split; [eapply back_up_raises_os; eauto | reflexivity].
  - apply bind_inv in H. destruct H as [(w1 & u & E1 & H) | (e & E1 & _)]; [|discriminate E1].
    inversion E1; subst w1; clear E1.
    destruct (G w Hf) as [Gb Gc]; [|exact H|].
    { intros g Hg. assert (Ef : isfile (w_fs w) d = true) by (apply isfile_lookup; eauto).
      rewrite Ef, Bold, (Hpre Ef) in Eg. discriminate Eg. }
    exists w. split; [reflexivity|]. split; [exact Gb|]. split; [exact Hinv|].
    split; [apply dkeep_refl|]. split; [apply fless_refl | exact Gc].
Qed.

(* ================================================================== *)
(* 2. The loop of _make_dirs                                           *)
(* ================================================================== *)

Variable X : list path.

Definition PendC (made : list path) (w : world) : Prop :=
  forall d, In d made -> d <> [] /\ lookup (w_fs w) d = Some NDir /\
    (forall a, a = d \/ below d a = true -> in_counts (w_bd w) a = false) /\
    (forall n x, lookup (w_fs w) (n :: d) = Some x -> In (n :: d) made).

Lemma DI_same : forall Y w w', DI Y w -> w_fs w' = w_fs w -> w_bd w' = w_bd w -> DI Y w'.
Proof. intros Y w w' H E1 E2. apply (dkeep_D fs0 old cf P Y w w'); [apply dkeep_same; assumption | exact H]. Qed.

(* a directory made just now is recorded by the previous build or is no directory of fs0 *)
Lemma Wp_of_absent : forall Y w d, DI Y w -> lookup (w_fs w) d <> Some NDir -> WP d.
Proof.
  intros Y w d (_ & _ & I2 & _) Hn. unfold Wp. destruct (lookup fs0 d) as [[g|]|] eqn:E; try (right; discriminate).
  destruct (I2 d E) as [Z|Z]; [contradiction | left; exact Z].
Qed.

Lemma DI_after_mkdir : forall made w w' d, DI (made ++ X) w -> PendC made w ->
  mkdir (w_fs w) d = inl (w_fs w') -> w_bd w' = w_bd w ->
  DI ((made ++ [d]) ++ X) w' /\ PendC (made ++ [d]) w'.
Proof.
  intros made w w' d HD HP Hm Hb. pose proof (mkdir_wf _ _ _ Hm) as Hwf.
  pose proof (mkdir_frame _ _ _ Hm) as (G1 & G2 & G3).
  pose proof HD as (I0 & I1 & I2 & I3 & I4).
  assert (Hne : d <> []) by (intro E; subst d; cbn in G2; discriminate G2).
  assert (Hw : WP d) by (apply (Wp_of_absent _ w d HD); congruence).
  split.
  - unfold DInv. rewrite Hb. split; [auto|]. split; [|split; [|split]].
    + intros q Hq. destruct (path_eq_dec q d) as [->|N].
      * right; right. apply in_or_app. left. apply in_or_app. right. left. reflexivity.
      * rewrite (G3 q N) in Hq. destruct (I1 q Hq) as [Z|[Z|Z]]; auto. right; right.
        apply in_app_or in Z. destruct Z as [Z|Z]; apply in_or_app; [left; apply in_or_app; left; exact Z | right; exact Z].
    + intros q Hq. destruct (I2 q Hq) as [Z|Z]; [|right; exact Z]. left.
      destruct (path_eq_dec q d) as [->|N]; [exact G1 | rewrite (G3 q N); exact Z].
    + intros q [Hq|[Hq|[Hq|Hq]]]; [apply I3; auto | apply I3; auto | apply I3; auto |].
      apply in_app_or in Hq. destruct Hq as [Hq|Hq].
      * apply in_app_or in Hq. destruct Hq as [Hq|[<-|[]]]; [|exact Hw].
        apply I3. right; right; right. apply in_or_app. left. exact Hq.
      * apply I3. right; right; right. apply in_or_app. right. exact Hq.
    + intros a Ha. destruct (I4 a Ha) as [Z1 Z2]. split; [|exact Z2].
      destruct (path_eq_dec a d) as [->|N]; [exact G1 | rewrite (G3 a N); exact Z1].
  - intros q Hq. rewrite Hb. apply in_app_or in Hq. destruct Hq as [Hq|[<-|[]]].
    + destruct (HP q Hq) as (Q1 & Q2 & Q3 & Q4). split; [exact Q1|].
      assert (Nq : q <> d) by (intro E; subst q; congruence).
      split; [rewrite (G3 q Nq); exact Q2|]. split; [exact Q3|].
      intros n x Hx. destruct (path_eq_dec (n :: q) d) as [E|N].
      * rewrite E. apply in_or_app. right. left. reflexivity.
      * rewrite (G3 _ N) in Hx. apply in_or_app. left. eapply Q4; eauto.
    + split; [exact Hne|]. split; [exact G1|]. split.
      * intros a Ha. destruct (in_counts (w_bd w) a) eqn:Ec; [exfalso|reflexivity].
        destruct (I4 a Ec) as [Z _]. destruct Ha as [->|Ha]; [congruence|].
        pose proof (wf_ancestor_dir _ I0 a NDir d Z Ha). congruence.
      * intros n x Hx. exfalso. rewrite (G3 (n :: d) (cons_neq_self n d)) in Hx.
        rewrite (wf_no_child_of_absent _ _ I0 G2 n) in Hx. discriminate Hx.
Qed.

(* when a later mkdir fails, every directory made so far is removed again *)
Lemma made_all_removed : forall made w w' r, remove_empty_dirs made w = (w', r) -> w_faults w = [] ->
  PendC made w -> forall d, In d made -> lookup (w_fs w') d <> Some NDir.
Proof.
  intros made w w' r H Hf HP.
  destruct (remove_empty_dirs_spec _ _ _ _ H Hf) as (_ & _ & _ & R3 & R4 & _).
  assert (G : forall k d, list_max (map (@List.length name) made) < List.length d + k ->
                In d made -> lookup (w_fs w') d = Some NDir -> False).
  { induction k as [|k IH]; intros d Hk Hd Hdir.
    - pose proof (length_le_max made d Hd). lia.
    - destruct (HP d Hd) as (Q1 & Q2 & Q3 & Q4).
      destruct (R4 d Hd Q1 Hdir) as [n Hn].
      destruct (R3 (n :: d)) as [Y|(_ & _ & Y)]; [|contradiction].
      destruct (lookup (w_fs w) (n :: d)) as [x|] eqn:Ex; [|congruence].
      pose proof (Q4 n x Ex) as Hin. destruct (HP _ Hin) as (_ & Q2' & _).
      apply (IH (n :: d)); [cbn [List.length]; lia | exact Hin | congruence]. }
  intros d Hd Hdir. apply (G (S (list_max (map (@List.length name) made))) d); [lia | exact Hd | exact Hdir].
Qed.

Lemma DI_after_cleanup : forall made w w' r, remove_empty_dirs made w = (w', r) -> w_faults w = [] ->
  DI (made ++ X) w -> PendC made w -> DI X w'.
Proof.
  intros made w w' r H Hf HD HP. pose proof (made_all_removed _ _ _ _ H Hf HP) as Hgone.
  destruct (remove_empty_dirs_spec _ _ _ _ H Hf) as (_ & _ & Hb & R3 & _ & R5).
  destruct HD as (I0 & I1 & I2 & I3 & I4). unfold DInv. rewrite Hb.
  split; [auto|]. split; [|split; [|split]].
  - intros q Hq. destruct (R3 q) as [Y|(_ & _ & Y)]; [|congruence]. rewrite Y in Hq.
    destruct (I1 q Hq) as [Z|[Z|Z]]; auto. apply in_app_or in Z. destruct Z as [Z|Z]; [|auto].
    exfalso. apply (Hgone q Z). congruence.
  - intros q Hq. destruct (I2 q Hq) as [Z|Z]; [|right; exact Z].
    destruct (R3 q) as [Y|(Y1 & _ & _)]; [left; congruence|].
    assert (Hw : WP q) by (apply I3; right; right; right; apply in_or_app; left; exact Y1).
    destruct Hw as [Hw|Hw]; [right; exact Hw | contradiction].
  - intros q [Hq|[Hq|[Hq|Hq]]]; apply I3; auto. right; right; right. apply in_or_app. right. exact Hq.
  - intros a Ha. destruct (I4 a Ha) as [Z1 Z2]. split; [|exact Z2].
    destruct (R3 a) as [Y|(Y1 & _ & _)]; [congruence|].
    destruct (HP a Y1) as (_ & _ & Q3 & _). rewrite (Q3 a (or_introl eq_refl)) in Ha. discriminate Ha.
Qed.

Lemma PendC_fless : forall made w wm, PendC made w -> fless (w_fs w) (w_fs wm) -> w_bd wm = w_bd w -> PendC made wm.
Proof.
  intros made w wm HP Hl Hb d Hd. destruct (HP d Hd) as (Q1 & Q2 & Q3 & Q4). rewrite Hb.
  split; [exact Q1|]. split; [|split; [exact Q3|]].
  - destruct (Hl d) as [Y|(g & Y & _)]; congruence.
  - intros n x Hx. destruct (Hl (n :: d)) as [Y|(g & _ & Y)]; [|congruence]. rewrite Y in Hx. eapply Q4; eauto.
Qed.

Lemma fless_isfile : forall fs fsm q, fless fs fsm -> isfile fsm q = true -> isfile fs q = true.
Proof.
  intros fs fsm q Hl H. unfold isfile in *. destruct (Hl q) as [Y|(g & _ & Y)]; [rewrite <- Y; exact H|].
  rewrite Y in H. discriminate H.
Qed.

Lemma fless_dir : forall fs fsm q, fless fs fsm -> lookup fs q = Some NDir -> lookup fsm q = Some NDir.
Proof. intros fs fsm q Hl H. destruct (Hl q) as [Y|(g & Y & _)]; congruence. Qed.

Lemma make_dirs_loop_D : forall ds made w w' r, make_dirs_loop ds made w = (w', r) ->
  (forall d, In d ds -> AT d) ->
  (forall d, In d ds -> isfile (w_fs w) d = true -> cache_created_file old d = true) ->
  RI w -> DI (made ++ X) w -> PendC made w ->
  match r with
  | inl _ => exists made', DI (made' ++ X) w' /\ PendC made' w' /\
               (forall d, In d made' -> In d made \/ In d ds) /\
               (forall d, In d ds -> lookup (w_fs w') d = Some NDir) /\
               (forall q, lookup (w_fs w) q = Some NDir -> lookup (w_fs w') q = Some NDir)
  | inr _ => DI X w'
  end.
Proof.
  induction ds as [|d ds IH]; intros made w w' r H Hds Hfiles Hr HD HP; cbn [make_dirs_loop] in H.
  - inversion H; subst. exists made. split; [exact HD|]. split; [exact HP|]. split; [auto|]. split; [intros d []|auto].
  - apply bind_inv in H. destruct H as [(w1 & res & E1 & H) | (e & E1 & _)].
    2:{ apply attempt_inv in E1. destruct E1 as (x & _ & Y). discriminate Y. }
    apply attempt_inv in E1. destruct E1 as (x & E1 & Y). inversion Y; subst res; clear Y.
    assert (Hd : AT d) by (apply Hds; left; reflexivity).
    assert (T0 : tcond None w) by (intros q Y; discriminate Y).
    destruct (make_one_dir_T fs0 old cf P HypA None d Hd _ _ _ E1 Hr T0) as [Hr1 _].
    destruct (make_one_dir_spec _ _ _ _ E1 Hr Hd (Hfiles d (or_introl eq_refl)))
      as (wm & Hbm & Hb & Hrm & Km & Hl & [(-> & Hm) | [(-> & Hfs & Hdir) | (e & -> & Hos & Hfs)]]).
    + (* made now *)
      assert (HDm : DI (made ++ X) wm) by exact (dkeep_D fs0 old cf P _ _ _ Km HD).
      assert (HPm : PendC made wm) by exact (PendC_fless _ _ _ HP Hl Hbm).
      destruct (DI_after_mkdir made wm w1 d HDm HPm Hm) as [HD1 HP1]; [congruence|].
      pose proof (mkdir_frame _ _ _ Hm) as (G1 & G2 & G3).
      assert (Hfiles1 : forall q, In q ds -> isfile (w_fs w1) q = true -> cache_created_file old q = true).
      { intros q Hq Hf. apply (Hfiles q (or_intror Hq)). apply (fless_isfile _ _ _ Hl).
        unfold isfile in *. destruct (path_eq_dec q d) as [->|N]; [rewrite G1 in Hf; discriminate Hf | rewrite <- (G3 q N); exact Hf]. }
      pose proof (IH _ _ _ _ H (fun q Hq => Hds q (or_intror Hq)) Hfiles1 Hr1 HD1 HP1) as R.
      destruct r as [u|e]; [|exact R].
      destruct R as (made' & A1 & A2 & A3 & A4 & A5). exists made'.
      split; [exact A1|]. split; [exact A2|]. split; [|split].
      * intros q Hq. destruct (A3 q Hq) as [Z|Z]; [|right; right; exact Z].
        apply in_app_or in Z. destruct Z as [Z|[<-|[]]]; [left; exact Z | right; left; reflexivity].
      * intros q [<-|Hq]; [apply A5; exact G1 | apply A4; exact Hq].
      * intros q Hq. apply A5. apply (fless_dir _ _ _ Hl) in Hq.
        destruct (path_eq_dec q d) as [->|N]; [exact G1 | rewrite (G3 q N); exact Hq].
    + (* it was there *)
      assert (HDm : DI (made ++ X) wm) by exact (dkeep_D fs0 old cf P _ _ _ Km HD).
      assert (HPm : PendC made wm) by exact (PendC_fless _ _ _ HP Hl Hbm).
      assert (HD1 : DI (made ++ X) w1) by (eapply DI_same; eauto; congruence).
      assert (HP1 : PendC made w1) by (intros q Hq; rewrite Hfs, Hb, <- Hbm; exact (HPm q Hq)).
      assert (Hfiles1 : forall q, In q ds -> isfile (w_fs w1) q = true -> cache_created_file old q = true).
      { intros q Hq Hf. apply (Hfiles q (or_intror Hq)). apply (fless_isfile _ _ _ Hl). rewrite <- Hfs. exact Hf. }
      pose proof (IH _ _ _ _ H (fun q Hq => Hds q (or_intror Hq)) Hfiles1 Hr1 HD1 HP1) as R.
      destruct r as [u|e]; [|exact R].
      destruct R as (made' & A1 & A2 & A3 & A4 & A5). exists made'.
      split; [exact A1|]. split; [exact A2|]. split; [|split].
      * intros q Hq. destruct (A3 q Hq) as [Z|Z]; [left; exact Z | right; right; exact Z].
      * intros q [<-|Hq]; [apply A5; rewrite Hfs; exact Hdir | apply A4; exact Hq].
      * intros q Hq. apply A5. rewrite Hfs. apply (fless_dir _ _ _ Hl). exact Hq.
    + (* the step failed: what was made is removed again *)
      rewrite Hos in H. apply bind_inv in H. destruct H as [(w2 & u & E2 & H) | (e' & E2 & ->)].
      * inversion H; subst w2 r; clear H.
        assert (HDm : DI (made ++ X) wm) by exact (dkeep_D fs0 old cf P _ _ _ Km HD).
        assert (HPm : PendC made wm) by exact (PendC_fless _ _ _ HP Hl Hbm).
        assert (HD1 : DI (made ++ X) w1) by (eapply DI_same; eauto; congruence).
        assert (HP1 : PendC made w1) by (intros q Hq; rewrite Hfs, Hb, <- Hbm; exact (HPm q Hq)).
        destruct Hr1 as (Hf1 & _). exact (DI_after_cleanup _ _ _ _ E2 Hf1 HD1 HP1).
      * exfalso. exact (remove_empty_dirs_no_raise _ _ _ _ E2).
Qed.

(* ================================================================== *)
(* 3. _dirs_to_make and _make_dirs                                     *)
(* ================================================================== *)

Lemma Wp_of_virtual_absent : forall Y d w w', DI Y w -> m_is_dir d None w = (w', inl false) -> WP d.
Proof.
  intros Y d w w' HD H. destruct (m_is_dir_false _ _ _ H) as [Z|Z].
  - apply (Wp_of_absent Y w d HD). intro E. unfold isdir in Z. rewrite E in Z. discriminate Z.
  - destruct HD as (_ & _ & _ & I3 & _). apply I3. destruct Z as [Z|Z]; auto.
Qed.

Lemma dirs_to_make_D : forall parent w w' ds, dirs_to_make parent None w = (w', inl ds) -> DI X w ->
  (forall d, In d ds -> WP d) /\ (In parent ds \/ (ds = [] /\ lookup (w_fs w) parent = Some NDir)).
Proof.
  induction parent as [|n d0 IH]; intros w w' ds H HD; cbn [dirs_to_make] in H.
  - apply bind_inv in H. destruct H as [(w1 & isd & E1 & H) | (e & _ & Y)]; [|discriminate Y].
    destruct isd.
    + minv H. split; [intros d []|]. right. split; [reflexivity|]. apply isdir_lookup. eapply m_is_dir_true; eauto.
    + minv H.
  - apply bind_inv in H. destruct H as [(w1 & isd & E1 & H) | (e & _ & Y)]; [|discriminate Y].
    destruct isd.
    + minv H. split; [intros d []|]. right. split; [reflexivity|]. apply isdir_lookup. eapply m_is_dir_true; eauto.
    + pose proof (Wp_of_virtual_absent X _ _ _ HD E1) as Hw.
      pose proof (view_D fs0 old cf P X _ _ (m_is_dir_view _ _ _ _ _ E1) HD) as HD1.
      apply bind_inv in H. destruct H as [(w2 & isf & E2 & H) | (e & _ & Y)]; [|discriminate Y].
      pose proof (view_D fs0 old cf P X _ _ (m_is_file_view _ _ _ _ _ E2) HD1) as HD2.
      destruct isf; [inversion H|].
      apply bind_inv in H. destruct H as [(w3 & icf & E3 & H) | (e & _ & Y)]; [|discriminate Y].
      pose proof (view_D fs0 old cf P X _ _ (is_cache_file_view _ _ _ _ E3) HD2) as HD3.
      destruct icf; [inversion H|].
      apply bind_inv in H. destruct H as [(w4 & r & E4 & H) | (e & _ & Y)]; [|discriminate Y].
      inversion H; subst; clear H.
      destruct (IH _ _ _ E4 HD3) as [A1 _]. split.
      * intros d Hd. apply in_app_or in Hd. destruct Hd as [Hd|[<-|[]]]; [apply A1; exact Hd | exact Hw].
      * left. apply in_or_app. right. left. reflexivity.
Qed.

(* a regular file at a path of the list is an output of the previous build (the one case
   in which _make_dirs moves a file out of the way); a foreign file, the cache file or a
   target in progress makes _dirs_to_make raise *)
Lemma dirs_to_make_files : forall parent w w' ds, dirs_to_make parent None w = (w', inl ds) -> RI w ->
  forall d, In d ds -> AT d -> isfile (w_fs w) d = true -> cache_created_file old d = true.
Proof.
  assert (T0 : forall v, tcond None v) by (intros v q Y; discriminate Y).
  induction parent as [|n d0 IH]; intros w w' ds H Hr d Hd Ha Hf; cbn [dirs_to_make] in H.
  - apply bind_inv in H. destruct H as [(w1 & isd & E1 & H) | (e & _ & Y)]; [|discriminate Y].
    destruct isd; minv H. destruct Hd.
  - apply bind_inv in H. destruct H as [(w1 & isd & E1 & H) | (e & _ & Y)]; [|discriminate Y].
    destruct isd; [minv H; destruct Hd|].
    pose proof (m_is_dir_svb _ _ _ _ _ E1) as V1.
    destruct (svb_RelT fs0 old cf P None _ _ V1 Hr (T0 _)) as [Hr1 _].
    apply bind_inv in H. destruct H as [(w2 & isf & E2 & H) | (e & _ & Y)]; [|discriminate Y].
    pose proof (m_is_file_svb _ _ _ _ _ E2) as V2.
    destruct (svb_RelT fs0 old cf P None _ _ V2 Hr1 (T0 _)) as [Hr2 _].
    destruct isf; [inversion H|].
    apply bind_inv in H. destruct H as [(w3 & icf & E3 & H) | (e & _ & Y)]; [|discriminate Y].
    pose proof (is_cache_file_svb _ _ _ _ E3) as V3.
    destruct (svb_RelT fs0 old cf P None _ _ V3 Hr2 (T0 _)) as [Hr3 _].
    destruct icf; [inversion H|].
    apply bind_inv in H. destruct H as [(w4 & r & E4 & H) | (e & _ & Y)]; [|discriminate Y].
    inversion H; subst; clear H.
    assert (F1 : w_fs w1 = w_fs w) by (destruct V1 as (F & _); exact F).
    assert (F2 : w_fs w2 = w_fs w1) by (destruct V2 as (F & _); exact F).
    assert (F3 : w_fs w3 = w_fs w2) by (destruct V3 as (F & _); exact F).
    apply in_app_or in Hd. destruct Hd as [Hd|[<-|[]]].
    + apply (IH _ _ _ E4 Hr3 d Hd Ha). rewrite F3, F2, F1. exact Hf.
    + rewrite <- F1 in Hf. destruct (m_is_file_false_cases _ _ _ E2 Hf) as [Z|[Z|Z]].
      * exfalso. assert (Y2 : path_eqb (n :: d0) (w_cachefile w2) = false) by (unfold is_cache_file in E3; congruence).
        assert (Yc : w_cachefile w2 = w_cachefile w1) by (destruct V2 as (_ & _ & _ & _ & _ & _ & _ & C & _); exact C).
        rewrite Yc, <- Z, path_eqb_refl in Y2. discriminate Y2.
      * exfalso. destruct Hr1 as (_ & _ & _ & _ & _ & _ & _ & I5 & _ & I7).
        destruct (I5 _ (I7 _ Z)) as (_ & HPd & _). destruct Ha as (t & Ht & Hb). exact (HypA _ t Ht Hb HPd).
      * destruct Hr1 as (_ & B & _). rewrite B in Z. exact Z.
Qed.

Lemma make_dirs_D : forall dd w w' r, make_dirs dd w = (w', r) -> RI w -> DI X w ->
  (forall d, d <> [] -> d = dd \/ below d dd = true -> AT d) ->
  match r with
  | inl ds => exists made, DI (made ++ X) w' /\ PendC made w' /\ incl made ds /\
                (forall d, In d ds -> WP d /\ d <> [] /\ (d = dd \/ below d dd = true)) /\
                lookup (w_fs w') dd = Some NDir
  | inr _ => DI X w'
  end.
Proof.
  intros dd w w' r H Hr HD Hanc. unfold make_dirs in H.
  assert (T0 : forall v, tcond None v) by (intros v q Y; discriminate Y).
  apply bind_inv in H. destruct H as [(w0 & ds & E0 & H) | (e & E0 & ->)].
  2:{ exact (view_D fs0 old cf P X _ _ (dirs_to_make_view _ _ _ _ _ E0) HD). }
  pose proof (dirs_to_make_view _ _ _ _ _ E0) as V0.
  pose proof (view_D fs0 old cf P X _ _ V0 HD) as HD0.
  destruct (svb_RelT fs0 old cf P None _ _ (view_svb _ _ V0) Hr (T0 _)) as [Hr0 _].
  assert (Ffs : w_fs w0 = w_fs w) by (destruct V0 as ((F & _) & _); exact F).
  destruct (dirs_to_make_D _ _ _ _ E0 HD) as [HW Htop].
  assert (Hds : forall d, In d ds -> d <> [] /\ (d = dd \/ below d dd = true)) by (intros d Hd; eapply dirs_to_make_anc; eauto).
  assert (Hfl : forall d, In d ds -> isfile (w_fs w0) d = true -> cache_created_file old d = true).
  { intros d Hd Hf. rewrite Ffs in Hf.
    exact (dirs_to_make_files _ _ _ _ E0 Hr d Hd (Hanc d (proj1 (Hds d Hd)) (proj2 (Hds d Hd))) Hf). }
  apply bind_inv in H. destruct H as [(w1 & u & E1 & H) | (e & E1 & ->)].
  - inversion H; subst w1 r; clear H.
    assert (HP0 : PendC [] w0) by (intros d []).
    pose proof (make_dirs_loop_D ds [] w0 w' (inl u) E1
                  (fun d Hd => Hanc d (proj1 (Hds d Hd)) (proj2 (Hds d Hd))) Hfl Hr0 HD0 HP0) as R.
    cbn beta iota in R. destruct R as (made & A1 & A2 & A3 & A4 & A5). exists made.
    split; [exact A1|]. split; [exact A2|]. split; [|split].
    + intros d Hd. destruct (A3 d Hd) as [[]|Z]. exact Z.
    + intros d Hd. destruct (Hds d Hd) as [Z1 Z2]. split; [apply HW; exact Hd | split; assumption].
    + destruct Htop as [Z|(_ & Z)]; [apply A4; exact Z | apply A5; rewrite Ffs; exact Z].
  - assert (HP0 : PendC [] w0) by (intros d []).
    exact (make_dirs_loop_D ds [] w0 w' (inr e) E1
             (fun d Hd => Hanc d (proj1 (Hds d Hd)) (proj2 (Hds d Hd))) Hfl Hr0 HD0 HP0).
Qed.

(* ================================================================== *)
(* 4. started_building_file registers what was made                    *)
(* ================================================================== *)

Lemma lock_D : forall made ds p w w' r, m_bd_started p ds w = (w', r) ->
  DI (made ++ X) w -> PendC made w -> incl made ds ->
  (forall d, In d ds -> WP d /\ d <> [] /\ (d = dirname p \/ below d (dirname p) = true)) ->
  lookup (w_fs w) (dirname p) = Some NDir -> Tgt old cf P p -> DI X w'.
Proof.
  intros made ds p w w' r H HD HP Hincl Hds Hdir Ht. unfold m_bd_started in H.
  destruct (bd_started (w_bd w) p ds) as [b l] eqn:E. inversion H; subst w' r; clear H.
  destruct (bd_started_spec _ _ _ _ _ E) as (S1 & S2 & S3 & S4 & S5 & S6).
  destruct HD as (I0 & I1 & I2 & I3 & I4). unfold DInv. cbn [w_fs w_bd set_bd]. rewrite S1, S2.
  assert (Hp : made <> [] -> p <> []).
  { intros Hm Ep. subst p. destruct made as [|d made]; [contradiction|].
    destruct (Hds d (Hincl d (or_introl eq_refl))) as (_ & Z1 & [Z2|Z2]); [contradiction | cbn in Z2; discriminate Z2]. }
  split; [exact I0|]. split; [|split; [exact I2|split]].
  - intros d Hd. destruct (I1 d Hd) as [Z|[Z|Z]]; auto.
    apply in_app_or in Z. destruct Z as [Z|Z]; [|auto]. right; left; left.
    destruct (HP d Z) as (_ & _ & Q3 & _). destruct (Hds d (Hincl d Z)) as (_ & _ & Z2).
    apply S6; auto. apply Hp. intro Em. rewrite Em in Z. destruct Z.
  - intros d [Hd|[Hd|[Hd|Hd]]].
    + destruct (S4 d Hd) as [Z|Z]; [apply I3; auto | exact (proj1 (Hds d Z))].
    + apply I3; auto.
    + apply I3; auto.
    + apply I3. right; right; right. apply in_or_app. right. exact Hd.
  - intros a Ha. destruct (S5 a Ha) as [Z|(Z1 & Z2)]; [apply I4; exact Z|].
    destruct p as [|n dd]; [contradiction|]. cbn [dirname tl] in *. split.
    + destruct Z2 as [->|Z2]; [exact Hdir | exact (wf_ancestor_dir _ I0 dd NDir a Hdir Z2)].
    + exists (n :: dd). split; [exact Ht|]. destruct Z2 as [->|Z2]; [apply below_self_cons | apply below_cons; exact Z2].
Qed.

Lemma AncT_of_target : forall p d, Tgt old cf P p -> d <> [] -> d = dirname p \/ below d (dirname p) = true -> AT d.
Proof.
  intros p d Ht Hne Hd. exists p. split; [exact Ht|]. destruct p as [|n dd]; cbn [dirname tl] in Hd.
  - destruct Hd as [Hd|Hd]; [contradiction | discriminate Hd].
  - destruct Hd as [->|Hd]; [apply below_self_cons | apply below_cons; exact Hd].
Qed.

(* _make_dirs(dirname p) followed by started_building_file(p, created) *)
Lemma make_lock_F : forall t p A (k : list path -> M A), Tgt old cf P p ->
  (forall l, pres (FPO fs0 old cf P X t) (k l)) ->
  pres (FPO fs0 old cf P X t) (bind (make_dirs (dirname p)) (fun created => bind (m_bd_started p created) k)).
Proof.
  intros t p A k Ht Hk w w' r H [Hr HD] Htc.
  apply bind_inv in H. destruct H as [(w1 & ds & E1 & H) | (e & E1 & ->)].
  - destruct (make_dirs_T fs0 old cf P HypA t p Ht _ _ _ E1 Hr Htc) as [Hr1 L1].
    pose proof (make_dirs_D _ _ _ _ E1 Hr HD (fun d Hne Hd => AncT_of_target p d Ht Hne Hd)) as R. cbn beta iota in R.
    destruct R as (made & A1 & A2 & A3 & A4 & A5).
    apply bind_inv in H. destruct H as [(w2 & locked & E2 & H) | (e & E2 & ->)].
    + pose proof (lock_D _ _ _ _ _ _ E2 A1 A2 A3 A4 A5 Ht) as HD2.
      assert (Tc1 : tcond t w1) by (intros q Hq; apply L1, Htc, Hq).
      destruct (svb_RelT fs0 old cf P t _ _ (m_bd_started_svb _ _ _ _ _ E2) Hr1 Tc1) as [Hr2 L2].
      assert (Tc2 : tcond t w2) by (intros q Hq; apply L2, Tc1, Hq).
      destruct (Hk locked _ _ _ H (conj Hr2 HD2) Tc2) as [HF L3].
      split; [exact HF|]. eapply built_le_trans; [exact L1|]. eapply built_le_trans; eauto.
    + exfalso. unfold m_bd_started in E2. destruct (bd_started (w_bd w1) p ds). discriminate E2.
  - destruct (make_dirs_T fs0 old cf P HypA t p Ht _ _ _ E1 Hr Htc) as [Hr1 L1].
    pose proof (make_dirs_D _ _ _ _ E1 Hr HD (fun d Hne Hd => AncT_of_target p d Ht Hne Hd)) as R. cbn beta iota in R.
    split; [split; assumption | exact L1].
Qed.

End Make.
