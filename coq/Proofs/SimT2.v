(* Proofs/SimT2.v — towards SimN3.next_faithful_statement, continued.
   (1) faithfulness is NOT invariant under PersistSpec.norm_op (the write/read cycle of the cache
       file): a record whose function returns a dict with unsorted keys is faithful, its
       normal form is not (bf_end / sb_end compare the recorded return value with pyval_same).
       Counterexample by computation; corrected statement below.
   (2) faithful_cache transfers along a lookup-level link of two caches whose records are
       orel-related (SimT1), and, composed with CoreNextThm.core_build_next: faithful_cache of
       any cache linked to Core's new cache (next_faithful_partial), hypotheses listed there.
   (3) what remains, as statements.                                                          *)
From Coq Require Import List String Ascii NArith ZArith Bool Arith Lia Permutation.
From FB.Base Require Import PyVal Fs.
From FB.Gen Require Import JsonUtilGen.
From FB.Spec Require Import JsonSpec Prog Ref Oracle Faithful.
From FB.Model Require Import Types Monad CreatedFiles BuildDirs SimpleOps Builder PathNorm Persist PersistSpec Build Run Frame Core CoreOracle CoreCache.
From FB.Proofs Require Import FsLemmas CoreLaws4 CoreLawsJson ViewK3 CoreNextDefs CoreNextMono CoreNextThm
     CacheRTOpen SimF8 SimM6 SimN1 SimN2 SimN3 SimT1.
Import ListNotations.
Local Open Scope list_scope.

(* ------------------------------------------------------------------ (1) norm_op *)
Section Counterexample.
  Local Open Scope string_scope.
  Definition t2_d : pyval := PDict [(PStr "b", PInt 1%Z); (PStr "a", PInt 2%Z)].
  Definition t2_F : ftable :=
    {| ft_file := fun _ _ _ _ => Write "x" (Ret t2_d); ft_sub := fun _ _ _ => Ret t2_d |}.
  Definition t2_kp : kappa := fun _ _ _ => Some "x".
  Definition t2_o : op := OBuildFile ["out"] HASH "f" PNone PNone [] t2_d (PStr "h") false false.
  Definition t2_u : op := OSubbuild "g" PNone PNone [] t2_d false false.
End Counterexample.

(* the oracle is constant, the function tables ignore their arguments: nothing but the return value differs *)
Lemma norm_op_breaks_faithful_op :
  op_wf t2_o = true /\ faithful_op t2_kp t2_F t2_o = true /\ faithful_op t2_kp t2_F (norm_op t2_o) = false.
Proof. vm_compute. repeat split; reflexivity. Qed.

Lemma norm_op_breaks_faithful_sub_at :
  op_wf t2_u = true /\ faithful_sub_at t2_kp t2_F t2_u PNone PNone = true /\
  faithful_sub_at t2_kp t2_F (norm_op t2_u) PNone PNone = false.
Proof. vm_compute. repeat split; reflexivity. Qed.

(* hence: "faithful_op kp F o = true -> faithful_op kp F (norm_op o) = true" is false *)
Theorem norm_op_invariance_refuted :
  ~ (forall kp F o, op_wf o = true -> faithful_op kp F o = true -> faithful_op kp F (norm_op o) = true).
Proof.
  intro H. destruct norm_op_breaks_faithful_op as (W & T & N).
  rewrite (H t2_kp t2_F t2_o W T) in N. discriminate N.
Qed.

(* the values that [follows] compares with pyval_same: recorded return values, and the recorded
   arguments of subbuild calls; [vals_stable]: the write/read cycle leaves them alone *)
Fixpoint vals_stable (o : op) : bool :=
  match o with
  | OSimple _ _ _ => true
  | OBuildFile _ _ _ _ _ subs r _ _ _ => pyval_same (norm_val r) r && forallb vals_stable subs
  | OSubbuild _ a k subs r _ _ =>
      pyval_same (norm_val a) a && pyval_same (norm_val k) k && pyval_same (norm_val r) r && forallb vals_stable subs
  end.

(* corrected statement (not proved here): for records with stable values, an oracle that does not
   see the normal form of a comparison result, and build_file functions that respect JSON equality *)
Definition norm_faithful_statement : Prop :=
  forall kp F o, Respects F -> op_wf o = true -> vals_stable o = true ->
    (forall p c r, kp p c (norm_val r) = kp p c r) ->
    (faithful_op kp F o = true -> faithful_op kp F (norm_op o) = true) /\
    (forall sa skw, faithful_sub_at kp F o sa skw = true -> faithful_sub_at kp F (norm_op o) sa skw = true).

(* ------------------------------------------------------------------ (2) transfer along a link *)
Lemma orel_raised : forall kp kp' o o', orel kp kp' o o' -> op_raised o = op_raised o'.
Proof.
  intros kp kp' o o' H.
  destruct o as [?q ?r ?e|xp xc xf xa xk xsubs xret xcr xra xsf|xf xa xk xsubs xret xra xsf],
           o' as [?q ?r ?e|yp yc yf ya yk ysubs yret ycr yra ysf|yf ya yk ysubs yret yra ysf];
    cbn in H; try contradiction.
  - destruct H as (-> & _ & -> & _). reflexivity.
  - destruct H as (-> & -> & -> & -> & -> & _ & -> & _ & -> & -> & _). reflexivity.
  - destruct H as (-> & -> & -> & _ & -> & -> & ->). reflexivity.
Qed.

Lemma orel_replayable : forall kp kp' cM cK vers, (forall f, func_version cM f = func_version cK f) ->
  forall o o', orel kp kp' o o' -> replayable cM vers o = replayable cK vers o'.
Proof.
  intros kp kp' cM cK vers HV o.
  induction o as [q r e|p c f a k subs r cr ra sf IH|f a k subs r ra sf IH] using op_ind'; intros o' H; destruct o'; cbn in H; try contradiction.
  - reflexivity.
  - destruct H as (-> & -> & -> & -> & -> & Hs & -> & _ & -> & -> & _). cbn [replayable].
    unfold vers_equal. rewrite HV. f_equal.
    revert subs0 Hs. induction IH as [|x xs Hx _ IHx]; intros [|y ys] Hs; try contradiction; [reflexivity|].
    destruct Hs as [H1 H2]. cbn [forallb]. rewrite (Hx y H1), (IHx ys H2). reflexivity.
  - destruct H as (-> & -> & -> & Hs & -> & -> & ->). cbn [replayable].
    unfold vers_equal. rewrite HV. f_equal.
    revert subs0 Hs. induction IH as [|x xs Hx _ IHx]; intros [|y ys] Hs; try contradiction; [reflexivity|].
    destruct Hs as [H1 H2]. cbn [forallb]. rewrite (Hx y H1), (IHx ys H2). reflexivity.
Qed.

(* every registered record of cM has an orel-related record of cK under the same key; same versions *)
Definition link_caches (kpM kpK : kappa) (cM cK : cache) : Prop :=
  (forall p o, files_get (c_files cM) p = Some (Some o) ->
     exists o', files_get (c_files cK) p = Some (Some o') /\ orel kpM kpK o o') /\
  (forall key o, subs_get (c_subs cM) key = Some (Some o) ->
     exists o', subs_get (c_subs cK) key = Some (Some o') /\ orel kpM kpK o o') /\
  (forall f, func_version cM f = func_version cK f).

Theorem faithful_cache_transfer : forall kpM kpK F cM cK vers,
  link_caches kpM kpK cM cK -> faithful_cache kpK F cK vers -> faithful_cache kpM F cM vers.
Proof.
  intros kpM kpK F cM cK vers (LF & LS & LV) [H1 H2]. split.
  - intros p o Hg Hr Hp. destruct (LF p o Hg) as (o' & Hg' & Ho).
    rewrite (faithful_op_orel kpM kpK F o o' Ho). apply (H1 p o' Hg').
    + rewrite <- (orel_raised _ _ _ _ Ho). exact Hr.
    + rewrite <- (orel_replayable kpM kpK cM cK vers LV o o' Ho). exact Hp.
  - intros key f a k subs ret_ raised sf Hg Hr Hp sa skw Hsa Hskw Ha Hk.
    destruct (LS key _ Hg) as (o' & Hg' & Ho).
    rewrite (faithful_sub_at_orel kpM kpK F _ o' sa skw Ho).
    pose proof (orel_replayable kpM kpK cM cK vers LV _ o' Ho) as ER. rewrite Hp in ER.
    destruct o' as [?q ?r ?e|yp yc yf ya yk ysubs yret ycr yra ysf|yf ya yk ysubs yret yra ysf]; cbn in Ho; try contradiction.
    destruct Ho as (-> & -> & -> & Hs & -> & -> & ->).
    exact (H2 key yf ya yk ysubs yret yra ysf Hg' Hr (eq_sym ER) sa skw Hsa Hskw Ha Hk).
Qed.

(* composed with Core's chain theorem: the cache cM of a build (of any model) whose records are linked to
   the records of Core's new cache is faithful for the next build, for the oracle kpM.  Extra hypotheses
   with respect to SideH: WfArgs (sh_wa has it), RespectsS, deep_cache (instead of faithful_cache) of the
   cache read, kp_def, and for the next build coherent and cache_tame of CORE's new cache.            *)
Theorem next_faithful_partial : forall (kp : kappa) (F : ftable) fs cf old vers clock nextid root nm s1,
  Obeys F root -> WfArgs root -> Respects F -> RespectsS F ->
  cache_wf old -> deep_cache kp F old vers ->
  kp_init kp fs -> kp_new kp clock -> kp_def kp fs -> fs_wf fs ->
  cr_state (core_build fs cf old vers clock nextid root) = Some s1 ->
  forall F' vers' kpM cM,
    coherent (cache_of_state nm s1) vers' F F' -> cache_tame (cache_of_state nm s1) vers' ->
    link_caches kpM (kpx kp (k_fs s1)) cM (cache_of_state nm s1) ->
    faithful_cache kpM F' cM vers'.
Proof.
  intros kp F fs cf old vers clock nextid root nm s1 HO HWa HR HRS HW HD HI HN Hdef W Hs F' vers' kpM cM Hco Hta HL.
  destruct (core_build_next kp F fs cf old vers clock nextid root nm s1 HO HWa HR HRS HW HD HI HN Hdef W Hs)
    as (Wn & _ & Dn & _).
  apply (faithful_cache_transfer kpM (kpx kp (k_fs s1)) F' cM (cache_of_state nm s1) vers' HL).
  apply deep_faithful; [exact Wn|]. exact (Dn F' vers' Hco Hta).
Qed.

(* the global form of the link: rec_rel records, oracles that agree on all val_rel-related values *)
Corollary link_caches_rec_rel : forall kpM kpK cM cK, kp_rel kpM kpK ->
  (forall p o, files_get (c_files cM) p = Some (Some o) ->
     exists o', files_get (c_files cK) p = Some (Some o') /\ rec_rel o o') ->
  (forall key o, subs_get (c_subs cM) key = Some (Some o) ->
     exists o', subs_get (c_subs cK) key = Some (Some o') /\ rec_rel o o') ->
  (forall f, func_version cM f = func_version cK f) ->
  link_caches kpM kpK cM cK.
Proof.
  intros kpM kpK cM cK K LF LS LV. split; [|split]; [| |exact LV].
  - intros p o Hg. destruct (LF p o Hg) as (o' & Hg' & Ho). exists o'. split; [exact Hg'|]. exact (rec_rel_orel _ _ K _ _ Ho).
  - intros p o Hg. destruct (LS p o Hg) as (o' & Hg' & Ho). exists o'. split; [exact Hg'|]. exact (rec_rel_orel _ _ K _ _ Ho).
Qed.

(* ------------------------------------------------------------------ (3) what remains *)
(* (a) the link itself, for the mechanism's new cache: the build b has a Core twin (SimJ9.build_run_hash
       gives the final Sim3, whose s3_recF / s3_recS are rec_rel by lookup in k_newF / k_newS, not yet in
       cache_of_state), the cache read is deep_cache (the chain invariant would have to be deep_cache),
       and the two extended oracles agree where the records consult them *)
Definition next_faithful_link_statement : Prop :=
  forall cf nm b, SideH cf nm b -> CacheOkH cf nm b ->
    path_wf cf = true -> prog_paths_wf (b_root b) -> Written cf nm (w_fs (b_w b)) ->
    RespectsS (b_F b) -> kp_def (b_kp b) (w_fs (b_w b)) ->
    deep_cache (b_kp b) (b_F b) (b_old cf nm b) (b_svers b) ->
    exists s1,
      cr_state (core_build (w_fs (b_w b)) cf (b_old cf nm b) (b_svers b) (w_clock (b_w b)) (w_nextid (b_w b)) (b_root b)) = Some s1 /\
      link_caches (kpx (b_kp b) (w_fs (b_w' b))) (kpx (b_kp b) (k_fs s1)) (w_new (b_w' b)) (cache_of_state nm s1).

(* (b) the write/read cycle: norm_faithful_statement above (false without vals_stable), plus
       replayable / op_raised / versions through ReadBack *)

Print Assumptions norm_op_invariance_refuted.
Print Assumptions norm_op_breaks_faithful_sub_at.
Print Assumptions faithful_cache_transfer.
Print Assumptions next_faithful_partial.
Print Assumptions link_caches_rec_rel.
