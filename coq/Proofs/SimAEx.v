(* Proofs/SimAEx.v — C04, the link to Core, run level: validation by evaluation (vm_compute) of
   the new components of Sim4 (SimA0.sim4b), of the statement about error_building_file
   (SimA1.bd_error_view_statement), of the two side conditions TargetsClear / TargetsApart
   (without them the relation fails), and of the statement at the level of a whole build
   including the commit, which is NOT proved: [commit_agree_statement]. *)
From Coq Require Import List String Ascii NArith ZArith Bool Arith Lia.
From FB.Base Require Import PyVal Fs.
From FB.Gen Require Import JsonUtilGen.
From FB.Spec Require Import JsonSpec Prog Ref Oracle Faithful.
From FB.Model Require Import Types Monad CreatedFiles BuildDirs SimpleOps Builder Persist Build Run Frame Dsl Core CoreOracle.
From FB.Proofs Require Import BuildFileLaws HashMemoInv ViewDefs ViewInit ViewXDefs ViewR2 ViewR3 ViewK2 ViewK3 ViewK4 ViewK8 SimA0 SimA1.
Import ListNotations.
Open Scope list_scope.

(* ------------------------------------------------------------------ what is left: the commit *)
(* A whole build of the mechanism model (run_build: root function, then write the cache file, remove
   what the previous build made and is not needed any more, or roll back) against core_build:
   a build that commits returns the same value and leaves Core's tree (up to modification times and
   inode numbers) plus the cache file; a build that raises returns the same exception and leaves
   the tree as it was (C02). *)
Definition commit_agree_statement : Prop :=
  forall w cachefile nm vers svers root w' res,
    let old := old_cache_of (w_fs w) cachefile nm svers in
    sanitize vers = Some svers ->
    fs_wf (w_fs w) -> old_ok old cachefile -> WfCache old -> old_keys_ok old -> w_faults w = [] ->
    path_ok (dirname cachefile) = true -> isdir (w_fs w) cachefile = false -> maxlen (w_fs w) < walk_fuel ->
    vdir (Build.start_world w cachefile old nm svers) (dirname cachefile) = true ->
    AllTargets tgtP root -> NoNest [] root -> QueriesOk root -> WfArgs root ->
    TargetsClear old root -> TargetsApart old root ->
    run_build cachefile nm vers root w = (w', res) ->
    let cr := core_build (w_fs w) cachefile old svers (w_clock w) (w_nextid w) root in
    match res with
    | Done (inl v) => cr_outcome cr = inl v /\
                      forall p, p <> cachefile -> node_equiv (lookup (w_fs w') p) (lookup (cr_tree cr) p)
    | Done (inr e) => cr_outcome cr = inr e /\ forall p, lookup (w_fs w') p = lookup (w_fs w) p
    | Refused _ => False
    end.

Definition commit_agreesb (cf : path) (nm : string) (vers : pyval) (root : prog) (w : world) : bool :=
  match sanitize vers with
  | None => false
  | Some svers =>
    let '(w', res) := run_build cf nm vers root w in
    let cr := core_build (w_fs w) cf (old_cache_of (w_fs w) cf nm svers) svers (w_clock w) (w_nextid w) root in
    let ps := map fst (w_fs w') ++ map fst (cr_tree cr) ++ map fst (w_fs w) in
    match res with
    | Done (inl v) => outcome_sameb (inl v) (cr_outcome cr) &&
                      forallb (fun p => path_eqb p cf || node_equivb (lookup (w_fs w') p) (lookup (cr_tree cr) p)) ps
    | Done (inr e) => outcome_sameb (inr e) (cr_outcome cr) &&
                      forallb (fun p => node_sameb (lookup (w_fs w') p) (lookup (w_fs w) p)) ps
    | Refused _ => false
    end
  end.

Module Ex.
  Open Scope string_scope.
  Definition CF0 : path := ["cache"].
  Definition V := ViewK3.Check.V.
  Definition root := ViewK3.Check.root.

  Definition ok (p : path) (k : outcome -> prog) : prog :=
    BuildFile false p METADATA "g" PNone PNone (fun _ _ _ => Write "y" (Ret PNone)) k.
  Definition bad (p : path) (k : outcome -> prog) : prog :=
    BuildFile false p METADATA "h" PNone PNone (fun _ _ _ => Write "y" (Raise (XUser 1))) k.
  (* failing targets sharing directories with other targets; a dead directory as a target (r4:
     _make_room); nested functions (r6) *)
  Definition r1 : prog := bad ["x";"b";"a"] (fun _ => Ret PNone).
  Definition r2 : prog := ok ["y";"a"] (fun _ => bad ["x";"b";"a"] (fun _ => Ret PNone)).
  Definition r2x : prog := ok ["y";"a"] (fun _ => bad ["x";"b";"a"] (fun _ => Raise (XUser 3))).
  Definition r3 : prog := bad ["x";"b";"a"] (fun _ => ok ["z";"b";"a"] (fun _ => Ret PNone)).
  Definition r4 : prog := bad ["x";"b";"a"] (fun _ => ok ["b";"a"] (fun _ => Ret PNone)).
  Definition r5 : prog :=
    bad ["x";"b";"a"] (fun _ => bad ["y";"c";"b";"a"] (fun _ => Ask false (QWalk [] true) (fun _ => Ret PNone))).
  Definition r6 : prog :=
    BuildFile false ["o";"d"] METADATA "f" PNone PNone
      (fun _ _ _ => ok ["i";"e";"d"] (fun _ => bad ["j";"e2";"d"] (fun _ => Write "z" (Raise (XUser 2))))) (fun _ => Ret PNone).
  Definition w_r2 := fst (run_build CF0 "n" (PDict []) r2 init_world).
  Definition w_r6 := fst (run_build CF0 "n" (PDict []) r6 init_world).

  (* Sim4 (the components that do not mention the ghost list T) at the end of the root function:
     the history of CacheRTEx (three builds: the second and third are served from the cache), and
     the programs above as first builds and as second builds after r2 / r6 (records replayed) *)
  Example sim4_cachert :
    (build_agrees4 CF0 "n" V root init_world, build_agrees4 CF0 "n" V root ViewK3.Check.pre2,
     build_agrees4 CF0 "n" V root (fst ViewK3.Check.h2)) = (true, true, true).
  Proof. vm_compute. reflexivity. Qed.
  Example sim4_failing :
    map (fun r => build_agrees4 CF0 "n" (PDict []) r init_world) [r1;r2;r3;r4;r5;r6] = [true;true;true;true;true;true] /\
    map (fun r => build_agrees4 CF0 "n" (PDict []) r w_r2) [r1;r2;r3;r4;r5;r6] = [true;true;true;true;true;true] /\
    map (fun r => build_agrees4 CF0 "n" (PDict []) r w_r6) [r1;r2;r3;r4;r5;r6] = [true;true;true;true;true;true].
  Proof. vm_compute. auto. Qed.

  (* the two side conditions: an output of the previous build that is a proper ancestor of a
     target (TargetsApart) or lies below a target (TargetsClear) breaks Sim3 (its stale store) *)
  Definition ra : prog := ok ["a"] (fun _ => Ret PNone).
  Definition rax : prog := ok ["x";"a"] (fun _ => Ret PNone).
  Example apart_needed :
    build_agrees CF0 "n" (PDict []) rax (fst (run_build CF0 "n" (PDict []) ra init_world)) = false /\
    build_agrees CF0 "n" (PDict []) ra (fst (run_build CF0 "n" (PDict []) rax init_world)) = false.
  Proof. vm_compute. auto. Qed.

  (* SimA1.bd_error_view_statement on worlds in which the function of the target has just failed *)
  Definition pre_err (pre : (outcome -> prog) -> prog) (p : path) (inner : prog) : option world :=
    match mech_root CF0 "n" (PDict []) (pre (fun _ => Ret PNone)) init_world with
    | Some (w1, (w2, _)) =>
       match bf_setup p METADATA "h" PNone PNone w2 with
       | (w3, inl None) =>
          let '(w4, _) := run inner (Some p) [] (bf_invoke_world p "h" PNone PNone w3) in
          Some (fst (try_to_remove_file p w4))
       | _ => None
       end
    | None => None
    end.
  Definition check_err (pre : (outcome -> prog) -> prog) (p : path) (inner : prog) (T : list path) : bool :=
    match pre_err pre p inner with
    | Some w =>
       match m_bd_error p w with
       | (w', inl _) =>
          let b' := w_bd w' in
          let D := fun x => in_counts (w_bd w) x && negb (in_counts b' x) && mem_path x (bd_created (w_bd w)) in
          let ps := (map fst (w_fs w) ++ prefixes p)%list in
          let d := dirname p in
          forallb (fun a => node_sameb (lookup (view_fs w') a) (if D a then None else lookup (view_fs w) a)) ps &&
          forallb (fun x => Bool.eqb (D x) (existsb (path_eqb x) (prefixes d) && mem_path x (bd_created (w_bd w)) &&
                                            negb (existsb (is_ancestor x) (rm1 p T)))) ps &&
          forallb (fun x => Bool.eqb (mem_path x (bd_created b')) (mem_path x (bd_created (w_bd w)) && negb (D x))) ps &&
          forallb (fun x => if D x then isdir (view_fs w) x && forallb (fun m => D (m :: x)) (children (view_fs w) x) else true) ps
       | _ => false
       end
    | None => false
    end.
  Definition inner1 := Write "y" (Raise (XUser 1)).
  Definition inner2 := ok ["i";"e";"b";"a"] (fun _ => Write "z" (Raise (XUser 1))).
  Example bd_error_view_checked :
    [check_err (fun k => k (inl PNone)) ["x";"b";"a"] inner1 [["x";"b";"a"]];
     check_err (fun k => ok ["y";"a"] k) ["x";"b";"a"] inner1 [["x";"b";"a"]; ["y";"a"]];
     check_err (fun k => ok ["y";"b";"a"] k) ["x";"b";"a"] inner1 [["x";"b";"a"]; ["y";"b";"a"]];
     check_err (fun k => k (inl PNone)) ["x";"b";"a"] inner2 [["i";"e";"b";"a"];["x";"b";"a"]];
     check_err (fun k => k (inl PNone)) ["x";"c";"b";"a"] inner2 [["i";"e";"b";"a"];["x";"c";"b";"a"]]]
    = [true; true; true; true; true].
  Proof. vm_compute. reflexivity. Qed.

  (* the whole build, commit or rollback included (not proved: commit_agree_statement) *)
  Example commit_checked :
    (commit_agreesb CF0 "n" V root init_world, commit_agreesb CF0 "n" V root ViewK3.Check.pre2,
     commit_agreesb CF0 "n" V root (fst ViewK3.Check.h2)) = (true, true, true) /\
    map (fun r => commit_agreesb CF0 "n" (PDict []) r init_world) [r2;r2x;r4] = [true;true;true] /\
    map (fun r => commit_agreesb CF0 "n" (PDict []) r w_r2) [r2;r2x;r4] = [true;true;true].
  Proof. vm_compute. auto. Qed.
End Ex.
