(* Proofs/SimO1.v — C05 (unchanged rebuild) transferred to the MECHANISM model, part 1.
   build_agree_hash_ext : SimJ9.build_agree_hash with two things its proof has but its statement
     drops: the part of the visible log that was there before the root function started is the
     visible log after make_dirs (not just "some L0"), and the set W' of paths where the trees of
     the mechanism and of Core may differ in time/inode consists of files that Core's final tree
     dates AFTER the start clock of this build (SimC0.Extra, field ex_knew).
   mech_rebuild_same_value_and_log, mech_rebuild_runs_no_function :
     the mechanism's run of the root function, started on the tree (next_fs) and with the previous
     cache (cache_of_state) that a committed all-successful Core build left, returns the recorded
     value and adds to the visible log only the root entry and root-level answers: no function is
     invoked.  = build_agree_hash_ext composed with CoreRebuildMain.rebuild_hits_all.
   mech_rebuild_tree_partial : the view of the mechanism's final tree equals the tree the first
     build ended in, exactly outside c_built, up to time/inode inside.
   mech_rebuild_tree_identical : if moreover no file of that tree is dated after the start clock of
     the rebuild (FilesOld), the view equals it node for node (bytes, mtime, inode): nothing was
     rewritten. *)
From Coq Require Import List String Ascii NArith ZArith Bool Arith Lia.
From FB.Base Require Import PyVal Fs.
From FB.Gen Require Import JsonUtilGen.
From FB.Spec Require Import JsonSpec Prog Ref Oracle Faithful.
From FB.Model Require Import Types Monad CreatedFiles BuildDirs SimpleOps Builder Persist Build Run Frame Core CoreOracle CoreCache.
From FB.Proofs Require Import FsLemmas JsonLaws ReplayLaws CleanLaws BuildFileLaws HashMemoInv HashMemoRun CoreLaws1 CoreLaws2 CoreLaws3 CoreLaws4 CoreLaws6
     ViewDefs ViewLemmas ViewFrame ViewInit ViewPres ViewXDefs ViewXFrame ViewXError ViewXQuery ViewXSteps ViewXMake1 ViewXMake2 ViewXFail ViewXSetup ViewXRun
     ViewH7 ViewR1 ViewR2 ViewR3 ViewR9 ViewK1 ViewK2 ViewK3 ViewK4 ViewK5 ViewK7 ViewK8
     SimA0 SimARun SimA1 SimA1Keys SimA1Vlog SimA2Base SimA2 SimA3 SimA3Built SimA3Log SimA3Cf SimA2Claim SimA2Pre SimA2Finish SimA2Sub SimA2Node SimAStart SimAMain
     SimC0 SimC6 SimC7 SimC8 SimC9 SimC10 SimC11 SimC12 SimG1 SimG4 SimG5 SimJ4 SimJ8 SimJ9
     CoreRebuildDefs CoreRebuildMain.
Import ListNotations.
Open Scope list_scope.
Open Scope m_scope.

(* ------------------------------------------------------------------ build_agree_hash, with what its proof knows *)
Theorem build_agree_hash_ext : forall w cachefile old nm svers root w1 w2 r l,
  okcH (w_clock w) old -> fs_wf (w_fs w) -> old_ok old cachefile -> WfCache old -> old_keys_ok old -> w_faults w = [] ->
  path_ok (dirname cachefile) = true -> isdir (w_fs w) cachefile = false -> maxlen (w_fs w) < walk_fuel ->
  vdir (Build.start_world w cachefile old nm svers) (dirname cachefile) = true ->
  AllTargets tgtP root -> NoNest [] root -> QueriesOkP root -> WfArgs root ->
  TargetsClear old root -> TargetsApart old root ->
  make_dirs (dirname cachefile) (Build.start_world w cachefile old nm svers) = (w1, inl []) ->
  run root None [] (set_log (LInvoke "<root>"%string None PNone PNone :: w_log w1) w1) = (w2, (r, l)) ->
  let cr := core_build (w_fs w) cachefile old svers (w_clock w) (w_nextid w) root in
  cr_outcome cr = r /\
  vis_log (w_log w2) = rev (cr_log cr) ++ vis_log (w_log w1) /\
  exists W', Wincl W' (c_built (w_new w2)) /\ trel W' (view_fs w2) (cr_tree cr) /\
             (forall p f, mem_path p W' = true -> lookup (cr_tree cr) p = Some (NFile f) -> (w_clock w < f_mtime f)%N).
Proof.
  intros w cachefile old nm svers root w1 w2 r l HokcH Hwf Hok HW HKo HF Hp Hnc Hml Hd Hat Hnn Hqk Hwa Hcl Hap Emk Erun cr.
  destruct (sim4_start w cachefile old nm svers Hwf Hok HW HKo HF Hp Hnc Hml Hd) as (w1b & Eb & HS0 & HC0 & Hold0).
  assert (w1b = w1) by congruence. subst w1b. clear Eb. cbv zeta in HS0, HC0, Hold0.
  destruct (sim3_start w cachefile old nm svers Hwf Hok HF Hp Hd) as (w1c & Ec & Hmiss & _).
  set (lg := LInvoke "<root>"%string None PNone PNone :: w_log w1) in *.
  set (s0 := ViewK4.core_start (w_fs w) cachefile old svers (w_clock w) (w_nextid w) lg) in *.
  assert (Ecr: cr = let '(s1, (res, _, _)) := core_run root None None [] (with_log [LInvoke "<root>"%string None PNone PNone] s0) in
                    {| cr_outcome := res; cr_tree := k_fs s1; cr_log := rev (k_log s1); cr_state := Some s1 |}).
  { unfold cr, core_build. rewrite Hmiss. cbn [mkdir_all fold_left]. reflexivity. }
  destruct (core_run root None None [] (with_log [LInvoke "<root>"%string None PNone PNone] s0)) as [s1 [[res pd] sb]] eqn:Ecore.
  destruct (core_log root None None [] s0 [LInvoke "<root>"%string None PNone PNone] s1 (res, pd, sb) Ecore lg) as (ex & Elog & Erun2).
  assert (Es0: with_log lg s0 = s0) by (apply (with_log_self s0)).
  rewrite Es0 in Erun2.
  destruct (core_log_noeffect root None None [] _ _ _ Ecore) as (ex' & Elog' & Hne).
  assert (ex' = ex).
  { change (k_log (with_log [LInvoke "<root>"%string None PNone PNone] s0)) with [LInvoke "<root>"%string None PNone PNone] in Elog'.
    rewrite Elog in Elog'. apply app_inv_tail in Elog'. symmetry. exact Elog'. }
  subst ex'.
  assert (HE0: Extra (w_clock w) [] (set_log lg w1) s0).
  { constructor.
    - intros p Hp0. discriminate.
    - cbn [w_clock set_log]. apply (make_dirs_tq _ _ _ _ Emk).
    - apply N.le_refl.
    - intros p f Hp0. discriminate.
    - intros p f Hp0. discriminate. }
  assert (HP0: PendClock (w_clock w) None s0) by (intro K; contradiction).
  destruct (sim5_run_hash (w_clock w) root old HokcH Hat Hqk Hwa Hcl Hap [] Hnn None None [] [] [] []
              (set_log lg w1) s0 w2 r l (with_log (ex ++ lg) s1) res pd sb Hold0 (conj HS0 HE0) HC0 HP0 I Erun Erun2)
    as (T' & W' & [A1 AE] & A2 & A3 & A4 & A5 & A6 & A7 & _).
  rewrite Ecr. cbn [cr_outcome cr_log cr_tree].
  split; [symmetry; exact A4|]. split.
  - rewrite rev_involutive, Elog.
    rewrite (s3_log _ _ _ (Sim4_sim3 _ _ _ _ A1)).
    change (k_log (with_log (ex ++ lg) s1)) with (ex ++ lg). rewrite vis_log_app, (vis_log_noeffect _ Hne).
    unfold lg. cbn [vis_log filter]. rewrite <- app_assoc. reflexivity.
  - exists W'. pose proof (Sim4_trel _ _ _ _ A1) as Ht. split; [|split].
    + destruct A1 as (_ & _ & _ & HWb). exact HWb.
    + exact Ht.
    + intros p f Hm Hl. apply (ex_knew _ _ _ _ AE p f Hm). exact Hl.
Qed.

(* ------------------------------------------------------------------ the unchanged rebuild *)
(* the hypotheses of build_agree_hash about the second build, gathered *)
Definition MechBuildHyps (w : world) (cachefile : path) (old : cache) (nm : string) (svers : pyval) (root : prog)
           (w1 w2 : world) (r : outcome) (l : list op) : Prop :=
  okcH (w_clock w) old /\ fs_wf (w_fs w) /\ old_ok old cachefile /\ WfCache old /\ old_keys_ok old /\ w_faults w = [] /\
  path_ok (dirname cachefile) = true /\ isdir (w_fs w) cachefile = false /\ maxlen (w_fs w) < walk_fuel /\
  vdir (Build.start_world w cachefile old nm svers) (dirname cachefile) = true /\
  AllTargets tgtP root /\ NoNest [] root /\ QueriesOkP root /\ WfArgs root /\
  TargetsClear old root /\ TargetsApart old root /\
  make_dirs (dirname cachefile) (Build.start_world w cachefile old nm svers) = (w1, inl []) /\
  run root None [] (set_log (LInvoke "<root>"%string None PNone PNone :: w_log w1) w1) = (w2, (r, l)).

Lemma mech_hyps_agree : forall w cachefile old nm svers root w1 w2 r l,
  MechBuildHyps w cachefile old nm svers root w1 w2 r l ->
  let cr := core_build (w_fs w) cachefile old svers (w_clock w) (w_nextid w) root in
  cr_outcome cr = r /\
  vis_log (w_log w2) = rev (cr_log cr) ++ vis_log (w_log w1) /\
  exists W', Wincl W' (c_built (w_new w2)) /\ trel W' (view_fs w2) (cr_tree cr) /\
             (forall p f, mem_path p W' = true -> lookup (cr_tree cr) p = Some (NFile f) -> (w_clock w < f_mtime f)%N).
Proof.
  intros w cachefile old nm svers root w1 w2 r l
    (H1 & H2 & H3 & H4 & H5 & H6 & H7 & H8 & H9 & H10 & H11 & H12 & H13 & H14 & H15 & H16 & H17 & H18).
  exact (build_agree_hash_ext w cachefile old nm svers root w1 w2 r l H1 H2 H3 H4 H5 H6 H7 H8 H9 H10 H11 H12 H13 H14 H15 H16 H17 H18).
Qed.

Section Rebuild.
  (* the first build: a committed, all-successful Core build (the hypotheses of rebuild_hits_all) *)
  Variables (fs : fsT) (cf : path) (old0 : cache) (svers : pyval) (clock nextid : N) (root : prog) (v : pyval) (s1 : kstate).
  Let cr1 := core_build fs cf old0 svers clock nextid root.
  Hypothesis Hout : cr_outcome cr1 = inl v.
  Hypothesis Hst : cr_state cr1 = Some s1.
  Hypothesis Hwf : fs_wf fs.
  Hypothesis Hcfd : isdir fs cf = false.
  Hypothesis Hvs : sanitized svers = true.
  Hypothesis Hcl : records_clean s1 = true.
  Hypothesis Hdi : records_distinct s1 = true.
  Hypothesis Hnf : no_foreign_targets fs cf old0 s1.
  (* the second build, by the mechanism: on the tree the first build left, with the cache it left *)
  Variables (w : world) (nm0 nm : string) (w1 w2 : world) (r : outcome) (l : list op).
  Hypothesis Hfs : w_fs w = next_fs cf s1.
  Hypothesis Hmech : MechBuildHyps w cf (cache_of_state nm0 s1) nm svers root w1 w2 r l.

  Theorem mech_rebuild_same_value_and_log :
    r = inl v /\
    vis_log (w_log w2) =
      rev (build_top fs cf old0 svers clock nextid root) ++ LInvoke "<root>"%string None PNone PNone :: vis_log (w_log w1).
  Proof.
    destruct (mech_hyps_agree _ _ _ _ _ _ _ _ _ _ Hmech) as (A & B & _).
    rewrite Hfs in A, B.
    destruct (rebuild_hits_all fs cf old0 svers clock nextid root nm0 v s1 (w_clock w) (w_nextid w) Hout Hst Hwf Hcfd Hvs Hcl Hdi Hnf)
      as (C & D & _).
    split; [rewrite <- A; exact C|].
    rewrite B, D. cbn [rev]. rewrite <- app_assoc. reflexivity.
  Qed.

  (* in the form of Properties/C05.v, C05_unchanged_rebuild_runs_no_function: the mechanism's log is newest first *)
  Theorem mech_rebuild_runs_no_function :
    r = inl v /\
    exists answers,
      vis_log (w_log w2) = rev (LInvoke "<root>"%string None PNone PNone :: answers) ++ vis_log (w_log w1) /\
      forallb is_answer answers = true.
  Proof.
    destruct (mech_hyps_agree _ _ _ _ _ _ _ _ _ _ Hmech) as (A & B & _).
    rewrite Hfs in A, B.
    destruct (rebuild_hits_all fs cf old0 svers clock nextid root nm0 v s1 (w_clock w) (w_nextid w) Hout Hst Hwf Hcfd Hvs Hcl Hdi Hnf)
      as (C & _ & _).
    destruct (rebuild_runs_nothing fs cf old0 svers clock nextid root nm0 v s1 (w_clock w) (w_nextid w) Hout Hst Hwf Hcfd Hvs Hcl Hdi Hnf)
      as (answers & D & E).
    split; [rewrite <- A; exact C|].
    exists answers. split; [|exact E]. rewrite B, D. reflexivity.
  Qed.

  (* the number of function invocations the run of the root function adds to the visible log: none *)
  Definition is_invoke (e : logentry) : bool := match e with LInvoke _ _ _ _ => true | _ => false end.

  Lemma answers_no_invoke : forall a, forallb is_answer a = true -> filter is_invoke a = [].
  Proof.
    induction a as [|e a IH]; intro H; [reflexivity|]. cbn [forallb] in H. apply andb_true_iff in H. destruct H as [H1 H2].
    cbn [filter]. destruct e; try discriminate. cbn [is_invoke]. apply IH. exact H2.
  Qed.

  Lemma filter_rev : forall (A : Type) (f : A -> bool) (x : list A), filter f (rev x) = rev (filter f x).
  Proof.
    intros A f. induction x as [|a x IH]; [reflexivity|]. cbn [rev filter].
    rewrite filter_app, IH. cbn [filter]. destruct (f a); cbn [rev]; [reflexivity|rewrite app_nil_r; reflexivity].
  Qed.

  Corollary mech_rebuild_invocations :
    filter is_invoke (vis_log (w_log w2)) =
      LInvoke "<root>"%string None PNone PNone :: filter is_invoke (vis_log (w_log w1)).
  Proof.
    destruct mech_rebuild_runs_no_function as (_ & answers & E & F).
    rewrite E. cbn [rev]. rewrite <- app_assoc, filter_app, filter_rev, (answers_no_invoke _ F). reflexivity.
  Qed.

  (* ---------------------------------------------------------------- the tree *)
  Theorem mech_rebuild_tree_partial :
    trel (c_built (w_new w2)) (view_fs w2) (cr_tree cr1).
  Proof.
    destruct (mech_hyps_agree _ _ _ _ _ _ _ _ _ _ Hmech) as (_ & _ & W' & I1 & I2 & _).
    rewrite Hfs in I2.
    destruct (rebuild_hits_all fs cf old0 svers clock nextid root nm0 v s1 (w_clock w) (w_nextid w) Hout Hst Hwf Hcfd Hvs Hcl Hdi Hnf)
      as (_ & _ & T).
    apply (trel_mono W' _ _ _ I1). intro p. specialize (I2 p). rewrite (T p) in I2. exact I2.
  Qed.

  (* no file of the tree the first build ended in is dated after the start of the rebuild *)
  Definition FilesOld (t : fsT) (c : N) : Prop := forall p f, lookup t p = Some (NFile f) -> (f_mtime f <= c)%N.

  Theorem mech_rebuild_tree_identical : FilesOld (cr_tree cr1) (w_clock w) ->
    forall p, lookup (view_fs w2) p = lookup (cr_tree cr1) p.
  Proof.
    intros Hold p.
    destruct (mech_hyps_agree _ _ _ _ _ _ _ _ _ _ Hmech) as (_ & _ & W' & I1 & I2 & I3).
    rewrite Hfs in I2, I3.
    destruct (rebuild_hits_all fs cf old0 svers clock nextid root nm0 v s1 (w_clock w) (w_nextid w) Hout Hst Hwf Hcfd Hvs Hcl Hdi Hnf)
      as (_ & _ & T).
    specialize (I2 p). specialize (I3 p). rewrite (T p) in I2, I3. fold cr1 in I2, I3.
    destruct (mem_path p W') eqn:E; [|exact I2].
    destruct (lookup (cr_tree cr1) p) as [[f|]|] eqn:El.
    - pose proof (I3 f eq_refl eq_refl) as K. pose proof (Hold p f El) as K2. exfalso. apply (N.lt_irrefl (w_clock w)).
      eapply N.lt_le_trans; eassumption.
    - unfold node_equiv in I2. destruct (lookup (view_fs w2) p) as [[g|]|]; try contradiction. reflexivity.
    - unfold node_equiv in I2. destruct (lookup (view_fs w2) p) as [[g|]|]; try contradiction. reflexivity.
  Qed.
End Rebuild.

Print Assumptions build_agree_hash_ext.
Print Assumptions mech_rebuild_same_value_and_log.
Print Assumptions mech_rebuild_runs_no_function.
Print Assumptions mech_rebuild_invocations.
Print Assumptions mech_rebuild_tree_partial.
Print Assumptions mech_rebuild_tree_identical.
