(* Proofs/SimC5.v — glue SimA/SimB, part 5: what the class SimC0.okc gives for a record that is
   looked up: the side conditions of SimB8 (file_rec_ok / sub_rec_ok with hk = false), from the
   static conditions of the class, the claims of the targets in W, and the clock facts (the files
   written in this build are newer than c0); and small facts about calm reusable trees.       *)
From Coq Require Import List String Ascii NArith ZArith Bool Arith Lia.
From FB.Base Require Import PyVal Fs.
From FB.Gen Require Import JsonUtilGen.
From FB.Spec Require Import JsonSpec Prog Ref Oracle Faithful.
From FB.Model Require Import Types Monad CreatedFiles BuildDirs SimpleOps Builder Persist Build Run Frame Core CoreOracle.
From FB.Proofs Require Import FsLemmas JsonLaws ReplayLaws BuildFileLaws CoreLaws1 CoreLaws2 CoreLaws3 CoreLaws4 CoreNextRegs CoreNextKeys
     ViewDefs ViewLemmas ViewXDefs ViewXFail ViewXSetup ViewH4 ViewH5 ViewH6 ViewR2 ViewR3 ViewK3 ViewK4 ViewK8
     SimA0 SimB1 SimB2 SimB3 SimB4 SimB7 SimB8 SimB9 SimB11 SimB12 SimB15 SimB16 SimC0 SimC1.
Import ListNotations.
Open Scope list_scope.

(* ------------------------------------------------------------------ booleans to propositions *)
Lemma nodupb_NoDup : forall l, nodupb l = true -> NoDup l.
Proof.
  induction l as [|x l IH]; intro H; [constructor|]. cbn [nodupb] in H. apply andb_true_iff in H. destruct H as [H1 H2].
  constructor; [|apply IH; exact H2]. intro K. apply ViewLemmas.mem_path_In in K. rewrite K in H1. discriminate.
Qed.

Lemma kfreshb_kfresh : forall l, kfreshb l = true -> kfresh l.
Proof.
  induction l as [|x l IH]; intro H; [exact I|]. cbn [kfreshb] in H. apply andb_true_iff in H. destruct H as [H1 H2].
  split; [|apply IH; exact H2]. intros y Hy. rewrite forallb_forall in H1. apply negb_true_iff. apply H1. exact Hy.
Qed.

Lemma older_fresh : forall c0 rt, older c0 rt = true ->
  rt = PNone \/ exists sz t, rt = PDict [(PStr "size"%string, sz); (PStr "timeNs"%string, PInt t)] /\ (t < Z.of_N (N.succ c0))%Z.
Proof.
  intros c0 rt H. destruct rt as [| | | | |l|l|d|n]; try discriminate; [left; reflexivity|]. right.
  destruct d as [|[k1 sz] d]; [discriminate|]. destruct k1; try discriminate.
  destruct d as [|[k2 tv] d]; [discriminate|]. destruct k2; try discriminate. destruct tv; try discriminate.
  destruct d; [|discriminate]. cbn [older] in H.
  apply andb_true_iff in H. destruct H as [H H3]. apply andb_true_iff in H. destruct H as [H1 H2].
  apply String.eqb_eq in H1. apply String.eqb_eq in H2. subst. apply Z.leb_le in H3.
  exists sz, z. split; [reflexivity|]. rewrite N2Z.inj_succ. lia.
Qed.

(* fewer enclosing targets: fewer conditions *)
Lemma rec_ok_weaken : forall hk o st st', (forall t, In t st' -> In t st) ->
  rec_ok hk st o = true -> rec_ok hk st' o = true.
Proof.
  intro hk. induction o as [q r e|p c f a k subs r cr ra sf IH|f a k subs r ra sf IH] using op_ind'; intros st st' Hi H; cbn [rec_ok] in *.
  - exact H.
  - apply andb_true_iff in H. destruct H as [H Hsubs]. apply andb_true_iff in H. destruct H as [H Hcross].
    rewrite H. cbn [andb].
    assert (A: forallb (fun t => negb (is_ancestor t p) && negb (is_ancestor p t)) st' = true).
    { apply forallb_forall. intros t Ht. rewrite forallb_forall in Hcross. apply Hcross. apply Hi. exact Ht. }
    rewrite A. cbn [andb].
    revert Hsubs. clear -IH Hi. induction IH as [|x rest Hx Hrest IHl]; intro K; [reflexivity|]. cbn [forallb] in *.
    apply andb_true_iff in K. destruct K as [K1 K2]. rewrite (Hx (p :: st) (p :: st')), (IHl K2); [reflexivity| |exact K1].
    intros t [<-|Ht]; [left; reflexivity|right; apply Hi; exact Ht].
  - revert H. clear -IH Hi. induction IH as [|x rest Hx Hrest IHl]; intro K; [reflexivity|]. cbn [forallb] in *.
    apply andb_true_iff in K. destruct K as [K1 K2]. rewrite (Hx st st' Hi K1), (IHl K2). reflexivity.
Qed.

Lemma rec_ok_weaken_list : forall hk subs st st', (forall t, In t st' -> In t st) ->
  forallb (rec_ok hk st) subs = true -> forallb (rec_ok hk st') subs = true.
Proof.
  intros hk subs st st' Hi H. rewrite forallb_forall in *. intros x Hx. apply (rec_ok_weaken hk x st st' Hi). apply H. exact Hx.
Qed.

(* ------------------------------------------------------------------ the side conditions of SimB8 *)
Section Class.
  Variables (c0 : N) (W : list path) (w : world) (s : kstate).
  (* the files written in this build are newer than c0 *)
  Hypothesis Hnew : forall q g, mem_path q W = true ->
    lookup (w_fs w) q = Some (NFile g) \/ lookup (k_fs s) q = Some (NFile g) -> (c0 < f_mtime g)%N.

  Lemma static_sem : forall subs, forallb (node_static (w_old w) c0) (flat_map nodes subs) = true -> sem_okl W w s subs.
  Proof.
    intros subs H x Hx. rewrite forallb_forall in H. specialize (H x Hx).
    destruct x as [q rt ex|p c f a k sb rt cr ra sf|f a k sb rt ra sf]; cbn [node_sem node_static] in *.
    - destruct q as [p|p|p|p|p tf|p|p cm]; try (intros p' f' E; discriminate).
      destruct cm; [|intros p' f' E; discriminate].
      apply (fresh_of_older W w s (QRead p METADATA) rt (N.succ c0)).
      + intros q g Hq Hg. pose proof (Hnew q g Hq Hg). lia.
      + apply older_fresh. exact H.
    - intro Hra. subst ra. exact H.
    - exact I.
  Qed.

  Lemma static_subs_ok : forall p0 subs, subs_static (w_old w) c0 p0 subs = true -> subs_ok false W w s p0 subs.
  Proof.
    intros p0 subs H. unfold subs_static in H. repeat (apply andb_true_iff in H; destruct H as [H ?]).
    split; [apply (rec_ok_weaken_list false subs (ostack p0) []); [intros t []|exact H]|].
    split; [apply static_sem; assumption|]. split; [apply nodupb_NoDup; assumption|].
    intros t Ht E. match goal with K : forallb (fun t => negb (opath_eqb t p0)) _ = true |- _ => rewrite forallb_forall in K; specialize (K t Ht) end.
    subst p0. cbn [opath_eqb] in *. rewrite path_eqb_refl in *. discriminate.
  Qed.
End Class.

(* what else the static conditions give *)
Lemma static_parts : forall old c0 p0 subs, subs_static old c0 p0 subs = true ->
  forallb (rec_ok false []) subs = true /\ forallb calm subs = true /\
  forallb (node_static old c0) (flat_map nodes subs) = true /\ NoDup (flat_map regp subs) /\
  (forall t, In t (flat_map regp subs) -> Some t <> p0) /\ kfresh (snd (cll subs)) /\ forallb wfrec subs = true.
Proof.
  intros old c0 p0 subs H. unfold subs_static in H. repeat (apply andb_true_iff in H; destruct H as [H ?]).
  split; [apply (rec_ok_weaken_list false subs (ostack p0) []); [intros t []|exact H]|]. split; [assumption|]. split; [assumption|]. split; [apply nodupb_NoDup; assumption|].
  split; [|split; [apply kfreshb_kfresh; assumption|assumption]].
  intros t Ht E. match goal with K : forallb (fun t => negb (opath_eqb t p0)) _ = true |- _ => rewrite forallb_forall in K; specialize (K t Ht) end.
  subst p0. cbn [opath_eqb] in *. rewrite path_eqb_refl in *. discriminate.
Qed.

(* ------------------------------------------------------------------ calm reusable trees *)
Lemma calm_reusable_adopted : forall fs new cfp o, reusable fs new cfp o = true -> calm o = true -> adopted o = regp o.
Proof.
  intros fs new cfp. induction o as [q r e|p c f a k subs r cr ra sf IH|f a k subs r ra sf IH] using op_ind'; intros Hr Hc;
    cbn [reusable calm adopted regp] in *.
  - reflexivity.
  - repeat (apply andb_true_iff in Hr; destruct Hr as [Hr ?]). apply negb_true_iff in Hr. subst sf.
    apply andb_true_iff in Hc. destruct Hc as [Hra Hc]. apply negb_true_iff in Hra. subst ra. f_equal.
    clear -IH H Hc. induction IH as [|x rest Hx Hrest IHl]; [reflexivity|]. cbn [forallb flat_map] in *.
    apply andb_true_iff in H. destruct H as [A B]. apply andb_true_iff in Hc. destruct Hc as [C D].
    rewrite (Hx A C), (IHl B D). reflexivity.
  - repeat (apply andb_true_iff in Hr; destruct Hr as [Hr ?]).
    clear -IH H Hc. induction IH as [|x rest Hx Hrest IHl]; [reflexivity|]. cbn [forallb flat_map] in *.
    apply andb_true_iff in H. destruct H as [A B]. apply andb_true_iff in Hc. destruct Hc as [C D].
    rewrite (Hx A C), (IHl B D). reflexivity.
Qed.

Lemma calm_reusable_adopted_list : forall fs new cfp subs, forallb (reusable fs new cfp) subs = true -> forallb calm subs = true ->
  flat_map adopted subs = flat_map regp subs.
Proof.
  intros fs new cfp subs. induction subs as [|x rest IH]; intros Hr Hc; [reflexivity|]. cbn [forallb flat_map] in *.
  apply andb_true_iff in Hr. destruct Hr as [A B]. apply andb_true_iff in Hc. destruct Hc as [C D].
  rewrite (calm_reusable_adopted _ _ _ x A C), (IH B D). reflexivity.
Qed.

(* the subbuild keys of a tree are the keys of its subbuild nodes *)
Lemma tree_keys_nodes : forall o key, In key (snd (tree_claims o)) ->
  exists f a k sb rt ra sf, In (OSubbuild f a k sb rt ra sf) (nodes o) /\ key = subbuild_key f a k.
Proof.
  induction o as [q r e|p c f a k subs r cr ra sf IH|f a k subs r ra sf IH] using op_ind'; intros key Hk.
  - destruct Hk.
  - rewrite tree_claims_BF in Hk. assert (Hk': In key (snd (cll subs))) by (destruct sf; exact Hk). clear Hk.
    cbn [nodes].
    assert (G: exists f0 a0 k0 sb rt ra0 sf0, In (OSubbuild f0 a0 k0 sb rt ra0 sf0) (flat_map nodes subs) /\ key = subbuild_key f0 a0 k0).
    { clear -IH Hk'. induction IH as [|x rest Hx Hrest IHl]; [destruct Hk'|]. rewrite cll_cons in Hk'. cbn [snd] in Hk'.
      apply in_app_iff in Hk'. destruct Hk' as [K|K].
      - destruct (Hx key K) as (f0 & a0 & k0 & sb & rt & ra0 & sf0 & A & B). exists f0, a0, k0, sb, rt, ra0, sf0.
        split; [cbn [flat_map]; apply in_or_app; left; exact A|exact B].
      - destruct (IHl K) as (f0 & a0 & k0 & sb & rt & ra0 & sf0 & A & B). exists f0, a0, k0, sb, rt, ra0, sf0.
        split; [cbn [flat_map]; apply in_or_app; right; exact A|exact B]. }
    destruct G as (f0 & a0 & k0 & sb & rt & ra0 & sf0 & A & B). exists f0, a0, k0, sb, rt, ra0, sf0. split; [right; exact A|exact B].
  - rewrite tree_claims_SB in Hk. cbn [nodes].
    assert (G: In key (snd (cll subs)) -> exists f0 a0 k0 sb rt ra0 sf0, In (OSubbuild f0 a0 k0 sb rt ra0 sf0) (flat_map nodes subs) /\ key = subbuild_key f0 a0 k0).
    { clear -IH. intro Hk'. induction IH as [|x rest Hx Hrest IHl]; [destruct Hk'|]. rewrite cll_cons in Hk'. cbn [snd] in Hk'.
      apply in_app_iff in Hk'. destruct Hk' as [K|K].
      - destruct (Hx key K) as (f0 & a0 & k0 & sb & rt & ra0 & sf0 & A & B). exists f0, a0, k0, sb, rt, ra0, sf0.
        split; [cbn [flat_map]; apply in_or_app; left; exact A|exact B].
      - destruct (IHl K) as (f0 & a0 & k0 & sb & rt & ra0 & sf0 & A & B). exists f0, a0, k0, sb, rt, ra0, sf0.
        split; [cbn [flat_map]; apply in_or_app; right; exact A|exact B]. }
    destruct sf.
    + destruct (G Hk) as (f0 & a0 & k0 & sb & rt & ra0 & sf0 & A & B). exists f0, a0, k0, sb, rt, ra0, sf0. split; [right; exact A|exact B].
    + cbn [snd] in Hk. destruct Hk as [<-|Hk].
      * exists f, a, k, subs, r, ra, false. split; [left; reflexivity|reflexivity].
      * destruct (G Hk) as (f0 & a0 & k0 & sb & rt & ra0 & sf0 & A & B). exists f0, a0, k0, sb, rt, ra0, sf0. split; [right; exact A|exact B].
Qed.

Lemma cll_keys_wf : forall old c0 subs, forallb (node_static old c0) (flat_map nodes subs) = true ->
  forall key, In key (snd (cll subs)) -> wfkey key.
Proof.
  intros old c0 subs H key Hk. rewrite forallb_forall in H.
  assert (G: exists f a k sb rt ra sf, In (OSubbuild f a k sb rt ra sf) (flat_map nodes subs) /\ key = subbuild_key f a k).
  { clear H. induction subs as [|x rest IH]; [destruct Hk|]. rewrite cll_cons in Hk. cbn [snd] in Hk.
    apply in_app_iff in Hk. destruct Hk as [K|K].
    - destruct (tree_keys_nodes x key K) as (f0 & a0 & k0 & sb & rt & ra0 & sf0 & A & B). exists f0, a0, k0, sb, rt, ra0, sf0.
      split; [cbn [flat_map]; apply in_or_app; left; exact A|exact B].
    - destruct (IH K) as (f0 & a0 & k0 & sb & rt & ra0 & sf0 & A & B). exists f0, a0, k0, sb, rt, ra0, sf0.
      split; [cbn [flat_map]; apply in_or_app; right; exact A|exact B]. }
  destruct G as (f & a & k & sb & rt & ra & sf & A & ->). specialize (H _ A). cbn [node_static] in H.
  repeat (apply andb_true_iff in H; destruct H as [H ?]). exists f, a, k. repeat split; assumption.
Qed.

Print Assumptions static_subs_ok.
Print Assumptions cll_keys_wf.
