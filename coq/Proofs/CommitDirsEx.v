(* Proofs/CommitDirsEx.v — concrete committed builds (vm_compute) for Proofs/CommitDirsMain.v:
   the statements of [commit_leaves] and [clean_after_commit_*], as boolean checks over every
   path of the two trees, on a first build, an unchanged rebuild (everything served from the
   cache), a rebuild that reuses a cached subtree, a build with a caught failure, dropped
   outputs, foreign files in recorded directories, directories made for the cache file.
   Also checked (true on every history, NOT proved in general): no empty directory made by
   the build remains, i.e. the third alternative of statement (b1) -- a non-empty
   error-created directory -- never materialises here. *)
From Coq Require Import List String NArith ZArith Bool Arith.
From FB.Base Require Import PyVal Fs.
From FB.Gen Require Import JsonUtilGen.
From FB.Spec Require Import Prog Ref Oracle.
From FB.Model Require Import Types Monad SimpleOps Builder Persist Build Run Dsl Frame.
Import ListNotations.
Open Scope string_scope.

Definition cfp : path := ["cache.gz"].
Definition wr (c : string) : path -> pyval -> pyval -> prog := fun _ _ _ => Write c (Ret PNone).
Definition bfw (p : path) (fn : path -> pyval -> pyval -> prog) (k : outcome -> prog) : prog :=
  BuildFile false p METADATA "f" (PList [PStr (path_str p)]) (PDict []) fn k.
Definition bf (p : path) (k : outcome -> prog) : prog := bfw p (wr "data") k.
Definition boom : prog := Raise (XUser 7).
Definition ok : outcome -> prog := fun _ => Ret PNone.
Definition B (p : prog) := HBuild (PDict []) p.

Fixpoint steps (cf : path) (h : list hstep) (w : world) : world :=
  match h with
  | [] => w
  | HMutate ops :: r => steps cf r (fold_left apply_fsop ops w)
  | HBuild vers root :: r => steps cf r (fst (run_build cf "n" vers root w))
  | HClean n :: r => steps cf r (fst (m_clean cf n w))
  end.

Definition node_eqb (a b : option node) : bool :=
  match a, b with
  | Some (NFile f), Some (NFile g) =>
      String.eqb (f_bytes f) (f_bytes g) && N.eqb (f_mtime f) (f_mtime g) && N.eqb (f_id f) (f_id g)
  | Some NDir, Some NDir => true
  | None, None => true
  | _, _ => false
  end.
Definition allp (fs0 fs' : fsT) : list path := all_paths fs0 ++ all_paths fs'.

Definition chkA (cf : path) (old newc : cache) (fs0 fs' : fsT) : bool :=
  forallb (fun p =>
    if path_eqb p cf then isfile fs' p else
    match cache_get_file newc p with
    | Some o => Bool.eqb (isfile fs' p) (negb (op_raised o)) &&
                (if negb (op_raised o) && negb (mem_path p (c_built newc)) then node_eqb (lookup fs' p) (lookup fs0 p) else true)
    | None =>
        if cache_has_file newc p then false else
        if mem_path p (cache_created_files old) then negb (isfile fs' p)
        else (if isfile fs0 p || isfile fs' p then node_eqb (lookup fs' p) (lookup fs0 p) else true)
    end) (cf :: allp fs0 fs' ++ map fst (c_files newc)).

Definition chkB1 (newc : cache) (fs0 fs' : fsT) : bool :=
  forallb (fun d => if isdir fs' d then isdir fs0 d || mem_path d (c_dirs newc) else true) (allp fs0 fs').
Definition chkB2 (newc : cache) (fs' : fsT) : bool := forallb (fun d => isdir fs' d) (c_dirs newc).
Definition chkB3 (old : cache) (fs0 fs' : fsT) : bool :=
  forallb (fun d => if isdir fs0 d then isdir fs' d || (mem_path d (c_dirs old) && negb (lexists fs' d)) else true) (allp fs0 fs').
Definition chkB4 (old newc : cache) (fs0 : fsT) : bool :=
  forallb (fun d => negb (isdir fs0 d) || mem_path d (c_dirs old)) (c_dirs newc).
Definition chkC (fs0 fs' : fsT) : bool :=
  forallb (fun d => if isdir fs' d && negb (isdir fs0 d) then match children fs' d with [] => false | _ => true end else true) (allp fs0 fs').
(* clean afterwards leaves nothing that was not there before *)
Definition chkD (cf : path) (newc : cache) (fs0 fs' : fsT) : bool :=
  let fc := ref_clean fs' cf (prev_of_cache newc) in
  forallb (fun p => match lookup fc p with
                    | Some (NFile _) => node_eqb (lookup fc p) (lookup fs0 p)
                    | Some NDir => isdir fs0 p
                    | None => true end) (allp fs0 fs').


Definition committed (r : build_result) : bool := match r with Done (inl _) => true | _ => false end.

(* (a), (b1) without its third alternative, (b2), (b3), (b4), no empty new directory, clean *)
Definition trialc (cf : path) (h : list hstep) (pr : prog) : bool :=
  let w := steps cf h init_world in
  let '(w', r) := run_build cf "n" (PDict []) pr w in
  let old := old_cache_of (w_fs w) cf "n" (PDict []) in
  let newc := w_new w' in
  committed r && chkA cf old newc (w_fs w) (w_fs w') && chkB1 newc (w_fs w) (w_fs w') && chkB2 newc (w_fs w') &&
  chkB3 old (w_fs w) (w_fs w') && chkB4 old newc (w_fs w) && chkC (w_fs w) (w_fs w') && chkD cf newc (w_fs w) (w_fs w').
Definition trial := trialc cfp.

Definition b1 : prog := bf ["out"; "d"; "c"] (fun _ => bf ["o2"; "e"] ok).
Definition nested : prog := bfw ["top"; "n"] (fun _ _ _ => bf ["in"; "m"; "n"] (fun _ => Write "t" (Ret PNone))) ok.

Example first_build : trial [HMutate [FWrite ["keep.txt"] "k"]] b1 = true.
Proof. vm_compute. reflexivity. Qed.
Example unchanged_rebuild_all_served : trial [HMutate [FWrite ["keep.txt"] "k"]; B b1] b1 = true.
Proof. vm_compute. reflexivity. Qed.
Example dropped_output_new_dirs_caught_failure :
  trial [HMutate [FWrite ["keep.txt"] "k"]; B b1]
    (bf ["out"; "d"; "c"] (fun _ => bfw ["z"; "h"; "g"] (fun _ _ _ => Write "zz" boom) (fun _ => bf ["x"; "b"; "a"] ok))) = true.
Proof. vm_compute. reflexivity. Qed.
Example cached_subtree_reused : trial [B nested] nested = true.
Proof. vm_compute. reflexivity. Qed.
Example foreign_file_in_recorded_dir :
  trial [B b1; HMutate [FWrite ["ff"; "e"] "foreign"]] (bf ["out"; "d"; "c"] ok) = true.
Proof. vm_compute. reflexivity. Qed.
Example recorded_dir_deleted_and_made_again : trial [B b1; HMutate [FRmtree ["c"]]] b1 = true.
Proof. vm_compute. reflexivity. Qed.
Example failed_dir_reused_by_success :
  trial [] (bfw ["x"; "a"] (fun _ _ _ => Write "z" boom) (fun _ => bf ["y"; "a"] ok)) = true.
Proof. vm_compute. reflexivity. Qed.
Example failed_dir_removed : trial [B b1] (bfw ["x"; "a"] (fun _ _ _ => Write "z" boom) ok) = true.
Proof. vm_compute. reflexivity. Qed.
Example cache_file_in_new_dirs : trialc ["cache.gz"; "k2"; "k1"] [] b1 = true.
Proof. vm_compute. reflexivity. Qed.
Example foreign_file_overwritten : trial [HMutate [FWrite ["t"; "u"] "foreign"]] (bf ["t"; "u"] ok) = true.
Proof. vm_compute. reflexivity. Qed.
