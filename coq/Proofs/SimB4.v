(* Proofs/SimB4.v — mechanism model vs Core, the hit/miss decision, part 4: the replay relation
   RRel between an overlay (CreatedFiles) of the mechanism's validation and the scratch state of
   Core's kreplay, and its preservation when a nested build_file record is entered
   (started_building_file vs mkdir_all + try_remove) and left with success
   (finished_building_file vs putting the file).                                           *)
From Coq Require Import List String Ascii NArith ZArith Bool Arith Lia.
From FB.Base Require Import PyVal Fs.
From FB.Gen Require Import JsonUtilGen.
From FB.Spec Require Import Prog Ref Oracle Faithful.
From FB.Model Require Import Types Monad CreatedFiles BuildDirs SimpleOps Builder Persist Core.
From FB.Proofs Require Import FsLemmas CleanLaws JsonLaws CoreLawsChildren ReplayLaws CoreLaws1 CoreLaws3 CoreLaws4
     ViewDefs ViewLemmas ViewScan ViewQueries ViewAnswers ViewPres ViewFrame ViewXDefs ViewXCount ViewXErr1 ViewXError
     ViewOverlay ViewOverlay2 ViewH1 ViewK3 ViewK4 SimB2 SimB3.
Import ListNotations.
Open Scope list_scope.

(* ------------------------------------------------------------------ what is assumed of Core's state *)
(* the bookkeeping of Core's state: a made directory is a directory above a needed target; the
   ancestors of a needed target are directories; a needed target is claimed, except the target
   [p0] whose record is being looked up *)
Record KInv (s : kstate) (p0 : option path) : Prop := {
  ki_made : forall x, In x (k_made s) -> lookup (k_fs s) x = Some NDir /\ existsb (is_ancestor x) (k_need s) = true;
  ki_need : forall t x, In t (k_need s) -> is_ancestor x t = true -> lookup (k_fs s) x = Some NDir;
  ki_claim : forall t, In t (k_need s) -> mem_path t (k_claimedF s) = true \/ Some t = p0
}.

Lemma missing_dirs_absent : forall fs cf d l y, missing_dirs fs cf d = inl l -> In y l -> lookup fs y = None.
Proof.
  intros fs cf. induction d as [|n up IH]; intros l y H Hy; cbn [missing_dirs] in H.
  - cbn [lookup] in H. inversion H; subst. destruct Hy.
  - destruct (lookup fs (n :: up)) as [[f|]|] eqn:El; try discriminate.
    + inversion H; subst. destruct Hy.
    + destruct (path_eqb (n :: up) cf); [discriminate|].
      destruct (missing_dirs fs cf up) as [l0|e] eqn:Em; [|discriminate]. inversion H; subst l.
      apply in_app_iff in Hy. destruct Hy as [Hy|[<-|[]]]; [apply (IH l0 y eq_refl Hy)|exact El].
Qed.

Lemma missing_dirs_suffix : forall fs cf d l y, missing_dirs fs cf d = inl l -> In y l -> suffix y d.
Proof.
  intros fs cf. induction d as [|n up IH]; intros l y H Hy; cbn [missing_dirs] in H.
  - cbn [lookup] in H. inversion H; subst. destruct Hy.
  - destruct (lookup fs (n :: up)) as [[f|]|] eqn:El; try discriminate.
    + inversion H; subst. destruct Hy.
    + destruct (path_eqb (n :: up) cf); [discriminate|].
      destruct (missing_dirs fs cf up) as [l0|e] eqn:Em; [|discriminate]. inversion H; subst l.
      apply in_app_iff in Hy. destruct Hy as [Hy|[<-|[]]]; [apply suffix_cons; apply (IH l0 y eq_refl Hy)|apply suffix_refl].
Qed.

Lemma node_equiv_none_l : forall b, node_equiv None b -> b = None.
Proof. intros [[g|]|] H; cbn in H; try contradiction; reflexivity. Qed.
Lemma node_equiv_none_r : forall a, node_equiv a None -> a = None.
Proof. intros [[g|]|] H; cbn in H; try contradiction; reflexivity. Qed.
Lemma node_equiv_dir_r : forall a, node_equiv a (Some NDir) -> a = Some NDir.
Proof. intros [[g|]|] H; cbn in H; try contradiction; reflexivity. Qed.
Lemma node_equiv_dir_l : forall b, node_equiv (Some NDir) b -> b = Some NDir.
Proof. intros [[g|]|] H; cbn in H; try contradiction; reflexivity. Qed.

Section Rel.
  Variables (W : list path) (w0 : world) (s : kstate).
  Hypothesis HS : Sim3 W w0 s.
  Hypothesis HB : BInv w0.
  (* the targets whose function ran in this build are claimed *)
  Hypothesis HWcl : forall p, mem_path p W = true -> cache_has_file (w_new w0) p = true.

  (* [St]: the nested build_file records being validated (innermost first); [Tl]: the targets
     started in the overlay that did not fail; [M]: the directories that the scratch copy made *)
  Record RRel (St Tl : list path) (cf : cfiles) (r : rstate') (M : list path) : Prop := {
    rr_cc : CCInv Tl w0 cf;
    rr_tree : trel W (overlay_fs w0 cf) (rp_fs r);
    rr_ovok : OvOk cf;
    rr_nodup : NoDup Tl;
    rr_files : forall x, mem_path x (cf_files cf) = true -> In x Tl;
    rr_st : forall t, In t Tl -> In t St \/ mem_path t (cf_files cf) = true;
    rr_unc : forall t, In t Tl -> cache_has_file (w_new w0) t = false;
    rr_need : rp_need r = Tl ++ k_need s;
    rr_made : rp_made r = k_made s ++ M;
    rr_clF : rp_claimedF r = k_claimedF s;
    rr_clS : rp_claimedS r = k_claimedS s;
    rr_m1 : forall x, In x M -> lookup (view_fs w0) x = None;
    rr_m2 : forall x, In x M -> existsb (is_ancestor x) Tl = true;
    rr_m3 : forall x, existsb (is_ancestor x) Tl = true -> lookup (view_fs w0) x = None -> In x M;
    rr_v : forall x f, existsb (is_ancestor x) Tl = true -> lookup (view_fs w0) x <> Some (NFile f);
    rr_w : forall x g, mem_path x W = true -> lookup (rp_fs r) x = Some (NFile g) -> lookup (k_fs s) x = Some (NFile g)
  }.

  Lemma RRel_te : forall St Tl cf r M, RRel St Tl cf r M -> tree_equiv (overlay_fs w0 cf) (rp_fs r).
  Proof. intros St Tl cf r M H. apply (trel_te W). apply (rr_tree _ _ _ _ _ H). Qed.

  Lemma RRel_wf : forall St Tl cf r M, RRel St Tl cf r M -> fs_wf (rp_fs r).
  Proof.
    intros St Tl cf r M H. apply (te_wf _ _ (RRel_te _ _ _ _ _ H)).
    apply (overlay_wf Tl w0 cf HB (rr_cc _ _ _ _ _ H)). apply (rr_files _ _ _ _ _ H).
  Qed.

  Lemma RRel_start_state : forall p0, KInv s p0 ->
    RRel [] [] cf_empty (start_replay s) [].
  Proof.
    intros p0 HK. constructor; cbn [start_replay rp_fs rp_need rp_made rp_claimedF rp_claimedS app]; try reflexivity.
    - apply CCInv_empty.
    - intro p. pose proof (s3_tree _ _ _ HS p) as K.
      assert (E: lookup (overlay_fs w0 cf_empty) p = lookup (view_fs w0) p) by reflexivity.
      rewrite E. exact K.
    - intros x [H|H]; discriminate.
    - constructor.
    - intros x H. discriminate.
    - intros t [].
    - intros t [].
    - rewrite app_nil_r. reflexivity.
    - intros x [].
    - intros x [].
    - intros x H. discriminate.
    - intros x f H. discriminate.
    - intros x g _ H. exact H.
  Qed.

  (* an unclaimed path is not in W *)
  Lemma unclaimed_notW : forall p, cache_has_file (w_new w0) p = false -> mem_path p W = false.
  Proof. intros p H. destruct (mem_path p W) eqn:E; [|reflexivity]. rewrite (HWcl p E) in H. discriminate. Qed.

  Lemma view_kfs_none : forall x, lookup (view_fs w0) x = None -> lookup (k_fs s) x = None.
  Proof.
    intros x H. pose proof (s3_tree _ _ _ HS x) as K. rewrite H in K. destruct (mem_path x W); [apply node_equiv_none_l; exact K|auto].
  Qed.

  (* ---------------------------------------------------------------- entering a build_file record *)
  Theorem start_rel : forall St Tl cf r M n d dirs fs1,
    RRel St Tl cf r M ->
    path_ok (n :: d) = true -> List.length (n :: d) < walk_fuel ->
    ~ In (n :: d) Tl -> existsb (is_ancestor (n :: d)) Tl = false ->
    cache_has_file (w_new w0) (n :: d) = false ->
    isfile (view_fs w0) (n :: d) = false ->
    missing_dirs (rp_fs r) (k_cachefile s) d = inl dirs -> mkdir_all (rp_fs r) dirs = inl fs1 ->
    RRel ((n :: d) :: St) ((n :: d) :: Tl) (cf_started cf (n :: d)) (rp_start r (n :: d) fs1 dirs) (M ++ dirs).
  Proof.
    intros St Tl cf r M n d dirs fs1 HR Hpok Hlen Hnin Hnb Hunc Hvf Hmiss Hmk.
    pose proof (RRel_te _ _ _ _ _ HR) as TE. pose proof (RRel_wf _ _ _ _ _ HR) as WF.
    pose proof (rr_cc _ _ _ _ _ HR) as HC. pose proof (cc_cinv _ _ _ HC) as HCI.
    destruct (setup_dirs _ _ _ _ _ WF Hmiss Hmk) as (Hd1 & WF1 & Hfr & Hanc).
    assert (Hsuf: forall y, In y dirs -> suffix y d) by (intros y Hy; eapply missing_dirs_suffix; eassumption).
    assert (Habs: forall y, In y dirs -> lookup (rp_fs r) y = None) by (intros y Hy; eapply missing_dirs_absent; eassumption).
    assert (Hdir1: forall x, suffix x d -> lookup fs1 x = Some NDir) by (intros x Hx; eapply wf_suffix_dir; eassumption).
    assert (Hov: forall x, lookup (overlay_fs w0 cf) x = ov w0 Tl (cf_files cf) x) by (intro x; apply lookup_overlay_ov; exact HC).
    (* no proper ancestor of the target is a finished file *)
    assert (Hnf: forall x, suffix x d -> mem_path x (cf_files cf) = false).
    { intros x Hx. destruct (mem_path x (cf_files cf)) eqn:Ef; [|reflexivity]. exfalso.
      pose proof (ci_file _ _ HCI _ Ef) as Hfile. apply isfile_lookup in Hfile. destruct Hfile as [g Hg].
      pose proof (ci_disj _ _ HCI _ Ef) as Hnd. rewrite (cf_dirs_anc _ _ _ x HC) in Hnd.
      pose proof (TE x) as K. rewrite Hov in K. unfold ov in K. rewrite Hnd, Ef, Hg in K.
      pose proof (Hdir1 x Hx) as K1. destruct (Hfr x) as [E|(E & _)].
      - rewrite E in K1. rewrite K1 in K. cbn in K. exact K.
      - rewrite E in K. cbn in K. exact K. }
    assert (HC': CCInv ((n :: d) :: Tl) w0 (cf_started cf (n :: d))) by (apply cf_started_CCInv; assumption).
    assert (EF: cf_files (cf_started cf (n :: d)) = cf_files cf) by apply cf_started_files.
    (* a directory that was made: absent in the view *)
    assert (Hm1: forall x, In x dirs -> lookup (view_fs w0) x = None /\ existsb (is_ancestor x) Tl = false).
    { intros x Hx. pose proof (TE x) as K. rewrite (Habs x Hx), Hov in K. apply node_equiv_none_r in K. unfold ov in K.
      destruct (existsb (is_ancestor x) Tl); [discriminate|]. split; [|reflexivity].
      rewrite (Hnf x (Hsuf x Hx)) in K. exact K. }
    (* an ancestor of the target that was not made is a directory in the overlay *)
    assert (Hold: forall x, suffix x d -> ~ In x dirs -> lookup (overlay_fs w0 cf) x = Some NDir).
    { intros x Hx Hn. pose proof (Hdir1 x Hx) as K1. destruct (Hfr x) as [E|(_ & _ & E)]; [|contradiction].
      rewrite E in K1. pose proof (TE x) as K. rewrite K1 in K. apply node_equiv_dir_r in K. exact K. }
    constructor.
    - exact HC'.
    - (* the trees *)
      intro x. rewrite (lookup_overlay_ov _ _ _ x HC'), EF, ov_started. cbn [rp_start rp_fs].
      destruct (is_ancestor x (n :: d)) eqn:Ea.
      + apply is_ancestor_suffix in Ea.
        assert (Hne: x <> n :: d) by (intro; subst x; apply suffix_length in Ea; simpl in Ea; lia).
        rewrite (try_remove_frame _ _ _ Hne), (Hdir1 x Ea). destruct (mem_path x W); [exact I|reflexivity].
      + assert (Hnd: ~ In x dirs).
        { intro Hx. apply Hsuf in Hx. apply (is_ancestor_suffix x n d) in Hx. congruence. }
        assert (E1: lookup fs1 x = lookup (rp_fs r) x) by (destruct (Hfr x) as [E|(_ & _ & E)]; [exact E|contradiction]).
        destruct (list_eq_dec string_dec x (n :: d)) as [->|Hne].
        * (* the target itself: nothing visible there *)
          assert (Eo: ov w0 Tl (cf_files cf) (n :: d) = None \/ ov w0 Tl (cf_files cf) (n :: d) = Some NDir).
          { unfold ov. rewrite Hnb.
            assert (Ef: mem_path (n :: d) (cf_files cf) = false).
            { destruct (mem_path (n :: d) (cf_files cf)) eqn:Ef; [|reflexivity]. exfalso. apply Hnin. apply (rr_files _ _ _ _ _ HR). exact Ef. }
            rewrite Ef. unfold isfile in Hvf. destruct (lookup (view_fs w0) (n :: d)) as [[g|]|]; [discriminate|right|left]; reflexivity. }
          pose proof (rr_tree _ _ _ _ _ HR (n :: d)) as K. rewrite Hov in K. rewrite (unclaimed_notW _ Hunc) in K |- *.
          destruct (try_remove_char fs1 (n :: d) (n :: d)) as [E|(_ & _ & g & E)].
          -- rewrite E, E1. exact K.
          -- exfalso. rewrite E1, <- K in E. destruct Eo as [Eo|Eo]; rewrite Eo in E; discriminate.
        * rewrite (try_remove_frame _ _ _ Hne), E1, <- Hov. apply (rr_tree _ _ _ _ _ HR).
    - apply (OvOk_started Tl w0 cf _ n d HC HC' EF (rr_ovok _ _ _ _ _ HR) Hpok Hlen).
    - constructor; [exact Hnin|apply (rr_nodup _ _ _ _ _ HR)].
    - intros x Hx. rewrite EF in Hx. right. apply (rr_files _ _ _ _ _ HR). exact Hx.
    - intros t [<-|Ht]; [left; left; reflexivity|]. rewrite EF.
      destruct (rr_st _ _ _ _ _ HR t Ht) as [K|K]; [left; right; exact K|right; exact K].
    - intros t [<-|Ht]; [exact Hunc|apply (rr_unc _ _ _ _ _ HR); exact Ht].
    - cbn [rp_start rp_need]. rewrite (rr_need _ _ _ _ _ HR). reflexivity.
    - cbn [rp_start rp_made]. rewrite (rr_made _ _ _ _ _ HR), app_assoc. reflexivity.
    - apply (rr_clF _ _ _ _ _ HR).
    - apply (rr_clS _ _ _ _ _ HR).
    - intros x Hx. apply in_app_iff in Hx. destruct Hx as [Hx|Hx]; [apply (rr_m1 _ _ _ _ _ HR); exact Hx|apply Hm1; exact Hx].
    - intros x Hx. cbn [existsb]. apply in_app_iff in Hx. destruct Hx as [Hx|Hx].
      + rewrite (rr_m2 _ _ _ _ _ HR x Hx). apply orb_true_r.
      + apply Hsuf in Hx. apply (is_ancestor_suffix x n d) in Hx. rewrite Hx. reflexivity.
    - intros x Hx Hv. cbn [existsb] in Hx. apply in_app_iff.
      destruct (existsb (is_ancestor x) Tl) eqn:Eo; [left; apply (rr_m3 _ _ _ _ _ HR); assumption|].
      rewrite orb_false_r in Hx. apply is_ancestor_suffix in Hx. right.
      destruct (in_dec (list_eq_dec string_dec) x dirs) as [Hi|Hni]; [exact Hi|]. exfalso.
      pose proof (Hold x Hx Hni) as K. rewrite Hov in K. unfold ov in K. rewrite Eo, (Hnf x Hx), Hv in K. discriminate.
    - intros x f Hx Hv. cbn [existsb] in Hx.
      destruct (existsb (is_ancestor x) Tl) eqn:Eo; [apply (rr_v _ _ _ _ _ HR x f Eo Hv)|].
      rewrite orb_false_r in Hx. apply is_ancestor_suffix in Hx.
      destruct (in_dec (list_eq_dec string_dec) x dirs) as [Hi|Hni].
      + destruct (Hm1 x Hi) as [K _]. congruence.
      + pose proof (Hold x Hx Hni) as K. rewrite Hov in K. unfold ov in K. rewrite Eo, (Hnf x Hx), Hv in K. discriminate.
    - intros x g Hx Hl. cbn [rp_start rp_fs] in Hl. apply try_remove_file in Hl.
      destruct (Hfr x) as [E|(_ & E & _)]; [|congruence]. rewrite E in Hl. apply (rr_w _ _ _ _ _ HR x g Hx Hl).
  Qed.

  (* ---------------------------------------------------------------- leaving it with success *)
  Theorem finish_rel : forall St Tl cf r M p f,
    RRel (p :: St) Tl cf r M -> In p Tl ->
    existsb (is_ancestor p) Tl = false -> p <> [] -> path_ok p = true -> List.length p < walk_fuel ->
    lookup (w_fs w0) p = Some (NFile f) ->
    RRel St Tl (cf_finished cf p) (rp_put r p f) M.
  Proof.
    intros St Tl cf r M p f HR Hin Hnb Hne Hpok Hlen Hf.
    pose proof (rr_cc _ _ _ _ _ HR) as HC.
    assert (Hnd: mem_path p (cf_dirs cf) = false) by (rewrite (cf_dirs_anc _ _ _ p HC); exact Hnb).
    assert (Hisf: isfile (w_fs w0) p = true) by (unfold isfile; rewrite Hf; reflexivity).
    assert (HC': CCInv Tl w0 (cf_finished cf p)).
    { destruct p as [|n d]; [congruence|]. apply cf_finished_CCInv; assumption. }
    assert (Hunc: cache_has_file (w_new w0) p = false) by (apply (rr_unc _ _ _ _ _ HR); exact Hin).
    constructor.
    - exact HC'.
    - intro x. rewrite (lookup_overlay_ov _ _ _ x HC'). cbn [rp_put rp_fs].
      pose proof (rr_tree _ _ _ _ _ HR x) as K. rewrite (lookup_overlay_ov _ _ _ x HC) in K. unfold ov in *.
      rewrite cf_finished_files.
      destruct (list_eq_dec string_dec x p) as [->|Hx].
      + rewrite Hnb, path_eqb_refl. cbn [orb]. rewrite (lookup_upd_eq _ _ _ Hne), Hf, (unclaimed_notW _ Hunc). reflexivity.
      + rewrite (lookup_upd_neq _ _ _ _ Hx). assert (E: path_eqb p x = false) by (apply path_eqb_neq; congruence).
        rewrite E. cbn [orb]. exact K.
    - apply OvOk_finished; [apply (rr_ovok _ _ _ _ _ HR)|exact Hpok|exact Hlen].
    - apply (rr_nodup _ _ _ _ _ HR).
    - intros x Hx. rewrite cf_finished_files in Hx. apply orb_true_iff in Hx.
      destruct Hx as [Hx|Hx]; [apply path_eqb_eq in Hx; subst x; exact Hin|apply (rr_files _ _ _ _ _ HR); exact Hx].
    - intros t Ht. rewrite cf_finished_files. destruct (rr_st _ _ _ _ _ HR t Ht) as [[<-|K]|K].
      + right. rewrite path_eqb_refl. reflexivity.
      + left. exact K.
      + right. rewrite K. apply orb_true_r.
    - apply (rr_unc _ _ _ _ _ HR).
    - apply (rr_need _ _ _ _ _ HR).
    - apply (rr_made _ _ _ _ _ HR).
    - apply (rr_clF _ _ _ _ _ HR).
    - apply (rr_clS _ _ _ _ _ HR).
    - apply (rr_m1 _ _ _ _ _ HR).
    - apply (rr_m2 _ _ _ _ _ HR).
    - apply (rr_m3 _ _ _ _ _ HR).
    - apply (rr_v _ _ _ _ _ HR).
    - intros x g Hx Hl. cbn [rp_put rp_fs] in Hl.
      destruct (list_eq_dec string_dec x p) as [->|Hxp].
      + rewrite (unclaimed_notW _ Hunc) in Hx. discriminate.
      + rewrite (lookup_upd_neq _ _ _ _ Hxp) in Hl. apply (rr_w _ _ _ _ _ HR x g Hx Hl).
  Qed.
End Rel.
