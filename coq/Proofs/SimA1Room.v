(* Proofs/SimA1Room.v — C04, the link to Core, run level: (D3) of SimA1.v.
   _make_room on a dead directory, without injected faults and with enough fuel for the depth
   of the tree, succeeds; BuildDirs' reservations (bd_counts), the directories this build
   created (bd_created) and the visible log are untouched. *)
From Coq Require Import List String Ascii NArith ZArith Bool Arith Lia.
From FB.Base Require Import PyVal Fs.
From FB.Gen Require Import JsonUtilGen.
From FB.Model Require Import Types Monad CreatedFiles BuildDirs SimpleOps Builder.
From FB.Proofs Require Import FsLemmas CleanLaws JsonLaws CoreLawsChildren ReplayLaws BuildFileLaws
     ViewDefs ViewLemmas ViewScan ViewQueries ViewAnswers ViewPres ViewFrame ViewPrepare
     ViewXDefs ViewXFrame ViewXQuery ViewXSteps ViewXMake1 ViewXMake2 ViewXFail ViewXRoom1 ViewXRoom2
     ViewK3 SimA0 SimA1.
Import ListNotations.
Open Scope list_scope.
Open Scope m_scope.

(* ------------------------------------------------------------------ what stays: the frame *)
(* reservations, created directories, visible log; the tree does not get deeper *)
Definition fq (w w1 : world) : Prop :=
  bd_counts (w_bd w1) = bd_counts (w_bd w) /\ bd_created (w_bd w1) = bd_created (w_bd w) /\
  vis_log (w_log w1) = vis_log (w_log w) /\ maxlen (w_fs w1) <= maxlen (w_fs w).

Lemma fq_refl : forall w, fq w w.
Proof. intro w. repeat split; auto. Qed.

Lemma fq_trans : forall a b c, fq a b -> fq b c -> fq a c.
Proof. intros a b c (A1 & A2 & A3 & A4) (B1 & B2 & B3 & B4). repeat split; try congruence. lia. Qed.

Lemma qrel_fq : forall T w w1, XInv T w -> qrel w w1 -> fq w w1.
Proof.
  intros T w w1 HX Q. destruct (qrel_facts _ _ _ HX Q) as (_ & S & SV & _).
  destruct SV as (_ & _ & _ & _ & _ & _ & _ & _ & L & _ & _).
  split; [apply (sv_counts _ _ S)|]. split; [apply (sv_created _ _ S)|]. split; [congruence|].
  rewrite (sv_fs _ _ S). apply le_n.
Qed.

Lemma maxlen_upd : forall fs p x v, lookup fs p = Some x -> maxlen (upd p v fs) = maxlen fs.
Proof.
  intros fs p x v H. apply lookup_maxlen in H. unfold upd. cbn [maxlen fold_right fst].
  change (fold_right (fun e m => Nat.max (List.length (fst e)) m) 0 fs) with (maxlen fs). lia.
Qed.

(* a library call without fault *)
Lemma effect_fq : forall what p f w w1 r, w_faults w = [] -> effect what p f w = (w1, r) ->
  (forall fs', f (w_fs w) = inl fs' -> maxlen fs' <= maxlen (w_fs w)) -> fq w w1.
Proof.
  intros what p f w w1 r Hf H Hm. unfold effect in H. rewrite Hf in H. cbn [existsb] in H.
  cbn [w_fs set_effects] in H. destruct (f (w_fs w)) as [fs'|e] eqn:E; inversion H; subst.
  - repeat split. cbn. apply Hm. reflexivity.
  - repeat split. cbn. apply le_n.
Qed.

(* moving a regular file away *)
Lemma back_up_fq : forall a w w1 r, w_faults w = [] -> isfile (w_fs w) a = true ->
  back_up_and_remove a w = (w1, r) -> fq w w1.
Proof.
  intros a w w1 r HF Hi H. unfold back_up_and_remove in H. apply bind_inv in H.
  destruct H as [[wa [u [E H]]]|[e [E _]]].
  2:{ exfalso. destruct (effect_nofault_inv _ _ _ _ _ _ HF E) as (_ & _ & [[fs' (_ & _ & R3)]|[e3 (R1 & _ & _)]]); discriminate. }
  assert (Q1: fq w wa).
  { eapply effect_fq; [exact HF|exact E|]. intros fs' Hfs. inversion Hfs; subst. apply le_n. }
  destruct (effect_nofault_inv _ _ _ _ _ _ HF E) as (Fa & Ca & [[fs' (R1 & R2 & _)]|[e3 (R1 & _ & _)]]); [|discriminate].
  assert (Efa: w_fs wa = w_fs w) by (inversion R1; congruence).
  eapply fq_trans; [exact Q1|]. rewrite Fa in H. cbn [existsb] in H. cbn [w_fs set_effects] in H.
  unfold rename_out in H. apply isfile_lookup in Hi. destruct Hi as [g Hg]. rewrite Efa, Hg in H.
  destruct a as [|n d]; [cbn in Hg; discriminate|]. inversion H; subst w1 r.
  repeat split. cbn [w_fs set_log set_backups set_fs set_effects]. rewrite Efa, (maxlen_upd _ _ _ None Hg). apply le_n.
Qed.

Lemma not_suffix_sibling : forall (n m : name) (p : path), m <> n -> ~ suffix (n :: p) (m :: p).
Proof.
  intros n m p Hne [l Hl]. destruct l as [|k l'].
  - cbn in Hl. congruence.
  - apply (f_equal (@List.length name)) in Hl. cbn [List.length app] in Hl. rewrite app_length in Hl.
    cbn [List.length] in Hl. lia.
Qed.

(* ------------------------------------------------------------------ the induction *)
Section Clear.
  Variable T : list path.

  Definition clear_post (w w1 : world) (r : unit + exn) : Prop := r = inl tt /\ fq w w1.

  (* the tree changes only at and below a *)
  Definition lfr (a : path) (w w1 : world) : Prop :=
    forall y, ~ suffix a y -> lookup (w_fs w1) y = lookup (w_fs w) y.

  Definition IHf (f : nat) : Prop :=
    forall p w w1 r, RI T p w -> maxlen (w_fs w) < f + List.length p ->
      make_room f p w = (w1, r) -> clear_post w w1 r.

  (* one entry that exists *)
  Lemma step_clear : forall f, IHf f ->
    forall p n w w1 r, RI T p w -> maxlen (w_fs w) < S f + List.length p ->
      lexists (w_fs w) (n :: p) = true -> room_step f p n w = (w1, r) ->
      clear_post w w1 r /\ lookup (w_fs w1) (n :: p) = None /\ lfr (n :: p) w w1.
  Proof.
    intros f IH p n w w1 r HR Hlen Hex H. pose proof HR as (HX & Hd & Hdead & HF).
    pose proof (x_binv _ _ HX) as HB.
    pose proof (dead_child_invis p w n Hdead Hex) as Hinv. rewrite invis_unfold in Hinv.
    unfold room_step in H. cbv zeta in H. apply bind_inv in H. unfold get in H.
    destruct H as [[wa [w0 [E H]]]|[e [E _]]]; [|discriminate]. inversion E; subst wa w0.
    destruct (isdir (w_fs w) (n :: p)) eqn:Ei.
    - (* a dead directory *)
      pose proof Ei as Ei'. apply isdir_lookup in Ei'. rewrite Ei' in Hinv.
      destruct (m_is_dir_view w (n :: p) HB (or_intror Hex)) as [wq [Eq _]].
      unfold vdir in Eq. rewrite Ei, Hinv in Eq. cbn [andb negb] in Eq.
      apply bind_inv in H. destruct H as [[wa [vd [Ed H]]]|[e [Ed Er]]]; [|rewrite Eq in Ed; discriminate].
      rewrite Eq in Ed. inversion Ed; subst wa vd. clear Ed.
      pose proof (m_is_dir_q _ _ _ _ _ Eq) as Q. destruct (qrel_facts _ _ _ HX Q) as (HXa & Sa & SVa & _).
      assert (HRa: RI T (n :: p) wq).
      { split; [exact HXa|]. split; [rewrite (sv_fs _ _ Sa); exact Ei|]. split; [rewrite (sv_dead _ _ Sa); exact Hinv|].
        destruct SVa as (_ & _ & _ & _ & _ & _ & _ & _ & _ & V & _). congruence. }
      assert (Hlena: maxlen (w_fs wq) < f + List.length (n :: p)).
      { rewrite (sv_fs _ _ Sa). cbn [List.length]. lia. }
      destruct (IH _ _ _ _ HRa Hlena H) as [Er Q2].
      destruct (make_room_ok T f _ _ _ _ HRa H) as (_ & R1 & Hgone).
      split; [split; [exact Er|eapply fq_trans; [eapply qrel_fq; eassumption|exact Q2]]|].
      split; [apply Hgone; exact Er|].
      intros y Hy. destruct (rr_same _ _ _ R1 y Hy) as [L _]. rewrite L, (sv_fs _ _ Sa). reflexivity.
    - (* a hidden regular file *)
      assert (Hfile: isfile (w_fs w) (n :: p) = true).
      { unfold lexists in Hex. unfold isdir in Ei. unfold isfile.
        destruct (lookup (w_fs w) (n :: p)) as [[g|]|]; try discriminate; reflexivity. }
      pose proof Hfile as Hl. apply isfile_lookup in Hl. destruct Hl as [g Hg]. rewrite Hg in Hinv.
      destruct (m_is_file_view w (n :: p) HB) as [wq [Eq _]].
      unfold vfile in Eq. rewrite Hfile, Hinv in Eq. cbn [andb negb] in Eq.
      apply bind_inv in H. destruct H as [[wa [vf [Ef H]]]|[e [Ef Er]]]; [|rewrite Eq in Ef; discriminate].
      rewrite Eq in Ef. inversion Ef; subst wa vf. clear Ef.
      pose proof (m_is_file_q _ _ _ _ _ Eq) as Q. destruct (qrel_facts _ _ _ HX Q) as (HXa & Sa & SVa & _).
      assert (HFa: w_faults wq = []).
      { destruct SVa as (_ & _ & _ & _ & _ & _ & _ & _ & _ & V & _). congruence. }
      assert (Hfa: isfile (w_fs wq) (n :: p) = true) by (rewrite (sv_fs _ _ Sa); exact Hfile).
      apply bind_inv in H. destruct H as [[wb [bb [Eb H]]]|[e [Eb Er]]].
      + destruct (back_up_nofault _ _ _ _ HFa Eb) as (_ & _ & Hf1 & _).
        destruct (Hf1 Hfa) as (_ & Hgone & Ho).
        inversion H; subst wb r.
        split; [split; [reflexivity|]|].
        * eapply fq_trans; [eapply qrel_fq; eassumption|]. eapply back_up_fq; eassumption.
        * split; [exact Hgone|]. intros y Hy. rewrite Ho, (sv_fs _ _ Sa); [reflexivity|].
          intro; subst y. apply Hy. apply suffix_refl.
      + exfalso. destruct (back_up_nofault _ _ _ _ HFa Eb) as (_ & _ & Hf1 & _).
        destruct (Hf1 Hfa) as (Hr & _). subst r. discriminate.
  Qed.

  (* the loop over the entries *)
  Lemma loop_clear : forall f, IHf f ->
    forall p ns w w1 r, RI T p w -> maxlen (w_fs w) < S f + List.length p -> NoDup ns ->
      (forall n, In n ns -> lexists (w_fs w) (n :: p) = true) ->
      mapM_ (room_step f p) ns w = (w1, r) ->
      clear_post w w1 r /\
      (forall k, (In k ns -> lookup (w_fs w1) (k :: p) = None) /\
                 (~ In k ns -> lookup (w_fs w1) (k :: p) = lookup (w_fs w) (k :: p))).
  Proof.
    intros f IH p ns. induction ns as [|n ns IHn]; intros w w1 r HR Hlen Hnd Hex H; cbn [mapM_] in H.
    - inversion H; subst. split; [split; [reflexivity|apply fq_refl]|]. intro k. split; [intros []|reflexivity].
    - inversion Hnd as [|? ? Hnin Hnd']; subst.
      assert (Hmk: forall p0 w0 w2 r0, RI T p0 w0 -> make_room f p0 w0 = (w2, r0) -> room_post T p0 w0 w2 r0)
        by (apply make_room_ok).
      apply bind_inv in H. destruct H as [[wa [u [E H]]]|[e [E Er]]].
      + destruct (step_clear f IH p n w wa _ HR Hlen (Hex n (or_introl eq_refl)) E) as ((_ & Qa) & Hgone & La).
        destruct (room_step_ok T f Hmk p n w wa _ HR E) as [HXa Ra].
        pose proof (RI_step T _ _ _ HR HXa Ra) as HRa.
        assert (Hlena: maxlen (w_fs wa) < S f + List.length p) by (destruct Qa as (_ & _ & _ & M); lia).
        assert (Hexa: forall m, In m ns -> lexists (w_fs wa) (m :: p) = true).
        { intros m Hm. unfold lexists. rewrite La; [apply (Hex m); right; exact Hm|].
          apply not_suffix_sibling. intro; subst m. contradiction. }
        destruct (IHn _ _ _ HRa Hlena Hnd' Hexa H) as ((Er & Q1) & Hk).
        split; [split; [exact Er|eapply fq_trans; eassumption]|].
        intro k. destruct (Hk k) as [K1 K2]. split.
        * intros [<-|Hin]; [|apply K1; exact Hin]. rewrite (K2 Hnin). exact Hgone.
        * intro Hn. rewrite K2 by (intro; apply Hn; right; assumption).
          apply La. apply not_suffix_sibling. intro; subst k. apply Hn. left; reflexivity.
      + exfalso. destruct (step_clear f IH p n w w1 _ HR Hlen (Hex n (or_introl eq_refl)) E) as ((Er' & _) & _).
        discriminate.
  Qed.

  Theorem make_room_clear_gen : forall f, IHf f.
  Proof.
    induction f as [|f IH]; intros p w w1 r HR Hlen H.
    - exfalso. destruct HR as (_ & Hd & _). apply isdir_lookup in Hd. apply lookup_maxlen in Hd. lia.
    - rewrite make_room_eq in H. apply bind_inv in H. unfold get in H.
      destruct H as [[wa [w0 [E H]]]|[e [E _]]]; [|discriminate]. inversion E; subst wa w0.
      pose proof HR as (HX & Hd & Hdead & HF).
      unfold listdir in H. pose proof Hd as Hd'. apply isdir_lookup in Hd'. rewrite Hd' in H.
      assert (Hmk: forall p0 w0 w2 r0, RI T p0 w0 -> make_room f p0 w0 = (w2, r0) -> room_post T p0 w0 w2 r0)
        by (apply make_room_ok).
      assert (Hnd: NoDup (children (w_fs w) p)) by (apply strict_sorted_NoDup, children_strict_sorted).
      assert (Hex: forall n, In n (children (w_fs w) p) -> lexists (w_fs w) (n :: p) = true)
        by (intros n Hn; apply children_In; exact Hn).
      apply bind_inv in H. destruct H as [[wa [u [E1 H]]]|[e [E1 Er]]].
      2:{ exfalso. destruct (loop_clear f IH p _ _ _ _ HR Hlen Hnd Hex E1) as ((Er' & _) & _). discriminate. }
      destruct (loop_clear f IH p _ _ _ _ HR Hlen Hnd Hex E1) as ((_ & Qa) & Hk).
      destruct (room_loop_ok T f Hmk p _ _ _ _ HR E1) as [HXa Ra].
      pose proof (RI_step T _ _ _ HR HXa Ra) as (_ & Hda & Hdeada & HFa).
      assert (Hkids: children (w_fs wa) p = []).
      { apply children_nil_iff. intro k. destruct (Hk k) as [K1 K2].
        destruct (in_dec string_dec k (children (w_fs w) p)) as [Hin|Hnin]; [apply K1; exact Hin|].
        rewrite (K2 Hnin). destruct (lookup (w_fs w) (k :: p)) as [x|] eqn:El; [|reflexivity].
        exfalso. apply Hnin. apply children_In. unfold lexists. rewrite El. reflexivity. }
      destruct p as [|m x].
      { exfalso. rewrite dead_unfold in Hdead. rewrite (bi_root _ (x_binv _ _ HX)) in Hdead. discriminate. }
      pose proof Hda as Hla. apply isdir_lookup in Hla.
      assert (Hrm: rmdir (w_fs wa) (m :: x) = inl (upd (m :: x) None (w_fs wa))).
      { unfold rmdir. rewrite Hla, Hkids. reflexivity. }
      unfold catch in H. destruct (effect "rmdir" (m :: x) (fun fs => rmdir fs (m :: x)) wa) as [wb rb] eqn:Ee.
      assert (Qb: fq wa wb).
      { eapply effect_fq; [exact HFa|exact Ee|]. intros fs' Hfs. cbv beta in Hfs. rewrite Hrm in Hfs.
        inversion Hfs; subst fs'. rewrite (maxlen_upd _ _ _ None Hla). apply le_n. }
      destruct (effect_nofault_inv _ _ _ _ _ _ HFa Ee) as (_ & _ & [[fs' (R1 & R2 & R3)]|[e (R1 & R2 & R3)]]).
      + subst rb. inversion H; subst w1 r. split; [reflexivity|]. eapply fq_trans; eassumption.
      + exfalso. cbv beta in R1. rewrite Hrm in R1. discriminate.
  Qed.
End Clear.

Theorem make_room_clear : make_room_clear_statement.
Proof.
  intros T p w w1 r (HX & _ & HF) Hlen Hd Hdead H.
  assert (HR: RI T p w) by (split; [exact HX|]; split; [exact Hd|]; split; [exact Hdead|exact HF]).
  destruct (make_room_clear_gen T room_fuel p w w1 r HR Hlen H) as (Er & Q1 & Q2 & Q3 & _).
  split; [exact Er|]. split; [exact Q1|]. split; [exact Q2|exact Q3].
Qed.

Print Assumptions make_room_clear.
