From Coq Require Import List String Ascii NArith ZArith Bool Arith.
From FB.Base Require Import PyVal Fs.
From FB.Gen Require Import JsonUtilGen.
From FB.Spec Require Import Prog Ref Oracle.
From FB.Model Require Import Types Monad BuildDirs SimpleOps Builder Persist Build Run Dsl Frame.
From FB.Proofs Require Import CommitDirsEx.
Import ListNotations.
Open Scope string_scope.

Fixpoint rep (n : nat) : string := match n with O => "" | S k => String "a"%char (rep k) end.
Definition LONG : string := rep 256.

Definition newdirs (fs0 fs' : fsT) : list path := filter (fun d => isdir fs' d && negb (isdir fs0 d)) (allp fs0 fs').
Definition tst (cf : path) (h : list hstep) (pr : prog) :=
  let w := steps cf h init_world in
  let '(w', r) := run_build cf "n" (PDict []) pr w in
  (committed r, chkB1 (w_new w') (w_fs w) (w_fs w'), newdirs (w_fs w) (w_fs w'), c_dirs (w_new w'), bd_err_created (w_bd w')).

Definition cf2 : path := ["cache.gz"; "k2"; "k1"].
Eval vm_compute in tst cf2 [] b1.
Eval vm_compute in tst cf2 [B b1] b1.
Eval vm_compute in tst cf2 [B b1] (bfw ["x"; "k2"; "k1"] (fun _ _ _ => Write "z" boom) ok).
Eval vm_compute in tst cf2 [B (bf ["o";"k2";"k1"] ok)] (bfw ["x"; "k3"; "k2"; "k1"] (fun _ _ _ => Write "z" boom) ok).
Eval vm_compute in tst cf2 [B (bf ["o";"k3";"k2";"k1"] ok)] (bfw ["x"; "k3"; "k2"; "k1"] (fun _ _ _ => Write "z" boom) ok).
(* long names *)
Eval vm_compute in tst cfp [] (bf ["out"; LONG; "c"] ok).
Eval vm_compute in tst cfp [] (bf ["o1"; "c"] (fun _ => bf ["out"; LONG; "c"] ok)).
Eval vm_compute in tst cfp [] (bf ["out"; LONG; "c"] (fun _ => bf ["o1"; "c"] ok)).
Eval vm_compute in tst cfp [] (bf ["out"; LONG; "d"; "c"] (fun _ => bf ["o1"; "c"] ok)).
Eval vm_compute in tst cfp [B (bf ["o1"; "d"; "c"] ok)] (bf ["out"; LONG; "d"; "c"] ok).
Eval vm_compute in tst cfp [B (bf ["o1"; "d"; "c"] ok)] (bf ["out"; LONG; "d"; "c"] (fun _ => bf ["o2"; "c"] ok)).
Eval vm_compute in tst cfp [] (bfw ["top";"t"] (fun _ _ _ => bf ["out"; LONG; "d"; "c"] (fun _ => Write "x" (Ret PNone))) ok).
Eval vm_compute in tst cfp [] (bfw ["top";"d";"c"] (fun _ _ _ => bf ["out"; LONG; "d"; "c"] (fun _ => Write "x" boom)) ok).
Eval vm_compute in tst cfp [] (bfw ["top";"d";"c"] (fun _ _ _ => bf ["out"; LONG; "e"; "d"; "c"] (fun _ => Write "x" boom)) ok).
