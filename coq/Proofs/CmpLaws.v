(* Proofs/CmpLaws.v — comparison results (C13): HASH results are equal iff the
   bytes are, METADATA results iff size and mtime are; the per-build hash memo
   answers with the hash of the current bytes as long as its invariant holds. *)
From Coq Require Import List String Ascii NArith ZArith Bool Arith Lia.
From FB.Base Require Import PyVal Fs.
From FB.Gen Require Import JsonUtilGen.
From FB.Model Require Import Types Monad SimpleOps Builder.
From FB.Proofs Require Import FsLemmas.
Import ListNotations.
Local Open Scope list_scope.

Lemma append_inj_l : forall (p a b : string), (p ++ a)%string = (p ++ b)%string -> a = b.
Proof. induction p as [|c p IH]; simpl; intros a b H; [assumption|]. inversion H. auto. Qed.

Theorem hash_equal_iff : forall b1 b2, is_equal (hash_of b1) (hash_of b2) = true <-> b1 = b2.
Proof.
  intros b1 b2. unfold hash_of. cbn [is_equal class_of pyclass_eqb py_eq].
  rewrite String.eqb_eq. split; intro H.
  - eapply append_inj_l. exact H.
  - subst. reflexivity.
Qed.

Definition meta_of (size : nat) (mtime : N) : pyval :=
  PDict [(PStr "size", PInt (Z.of_nat size)); (PStr "timeNs", PInt (Z.of_N mtime))].

Theorem meta_equal_iff : forall s1 t1 s2 t2,
  is_equal (meta_of s1 t1) (meta_of s2 t2) = true <-> s1 = s2 /\ t1 = t2.
Proof.
  intros. unfold meta_of.
  cbn [is_equal class_of pyclass_eqb py_len List.length Nat.eqb negb orb py_dict_mem py_dict_get py_items assoc_get
       py_eq String.eqb Ascii.eqb Bool.eqb andb].
  destruct (Z.eqb_spec (Z.of_nat s1) (Z.of_nat s2)) as [E1|E1];
  destruct (Z.eqb_spec (Z.of_N t1) (Z.of_N t2)) as [E2|E2]; cbn; split; intro H; try discriminate; try tauto.
  - split; [apply Nat2Z.inj; assumption | apply N2Z.inj; assumption].
  - destruct H; subst; contradiction.
  - destruct H; subst; contradiction.
  - destruct H; subst; contradiction.
Qed.

(* a comparison result never equals "no file" *)
Theorem cmp_results_not_none : forall b s t, is_equal (hash_of b) PNone = false /\ is_equal (meta_of s t) PNone = false /\
  is_equal PNone (hash_of b) = false /\ is_equal PNone (meta_of s t) = false.
Proof. intros. repeat split; reflexivity. Qed.

(* METADATA: the result is exactly (size, mtime) of the file on disk *)
Theorem file_metadata_spec : forall p w w' r, file_metadata p w = (w', r) ->
  w' = w /\
  match lookup (w_fs w) p with
  | Some (NFile f) => r = inl (meta_of (String.length (f_bytes f)) (f_mtime f))
  | Some NDir => r = inr (XOS XIsADirectory)
  | None => r = inr (XOS (err_of (stat_err (w_fs w) p)))
  end.
Proof.
  intros p w w' r H. unfold file_metadata in H.
  destruct (lookup (w_fs w) p) as [[f|]|]; inversion H; subst; split; reflexivity.
Qed.

(* the memo invariant: an entry whose "built" flag matches the current state of
   the path holds the hash of the bytes that are there now *)
Definition HashOk (w : world) : Prop :=
  forall p h b f, hash_get (w_hash w) p = Some (h, b) ->
    b = cache_has_file (w_new w) p -> lookup (w_fs w) p = Some (NFile f) -> h = hash_of (f_bytes f).

Lemma hash_get_cons : forall l p q e, hash_get ((q, e) :: l) p = if path_eqb q p then Some e else hash_get l p.
Proof. reflexivity. Qed.

Theorem file_hash_spec : forall p w w' r, HashOk w -> file_hash p w = (w', r) ->
  HashOk w' /\ w_fs w' = w_fs w /\ w_new w' = w_new w /\
  match lookup (w_fs w) p with
  | Some (NFile f) => r = inl (hash_of (f_bytes f))
  | Some NDir => r = inr (XOS XIsADirectory)
  | None => (exists e, r = inr (XOS e))
  end.
Proof.
  intros p w w' r Hok H. unfold file_hash in H.
  set (is_built := cache_has_file (w_new w) p) in *.
  assert (Fresh: forall w1 r1,
    match lookup (w_fs w) p with
    | Some (NFile f) => (set_hash ((p, (hash_of (f_bytes f), is_built)) :: w_hash w) w, inl (hash_of (f_bytes f)))
    | Some NDir => (w, inr (XOS XIsADirectory))
    | None => (w, inr (XOS (err_of (stat_err (w_fs w) p))))
    end = (w1, r1) ->
    HashOk w1 /\ w_fs w1 = w_fs w /\ w_new w1 = w_new w /\
    match lookup (w_fs w) p with
    | Some (NFile f) => r1 = inl (hash_of (f_bytes f))
    | Some NDir => r1 = inr (XOS XIsADirectory)
    | None => exists e, r1 = inr (XOS e)
    end).
  { intros w1 r1 H1. destruct (lookup (w_fs w) p) as [[f|]|] eqn:E; inversion H1; subst.
    - repeat split; try reflexivity.
      intros q h b g Hg Hb Hl. cbn [w_hash w_fs w_new set_hash] in Hg, Hl, Hb. rewrite hash_get_cons in Hg.
      destruct (path_eqb p q) eqn:Epq.
      + apply path_eqb_eq in Epq. subst q. inversion Hg; subst. rewrite E in Hl. inversion Hl; subst. reflexivity.
      + eapply Hok; eauto.
    - repeat split; auto.
    - repeat split; eauto. }
  destruct (hash_get (w_hash w) p) as [[h b]|] eqn:Eh.
  - destruct (Bool.eqb b is_built) eqn:Eb.
    + apply Bool.eqb_prop in Eb.
      destruct (isfile (w_fs w) p) eqn:Ef.
      * inversion H; subst. apply isfile_lookup in Ef. destruct Ef as [f Ef]. rewrite Ef.
        repeat split; auto. f_equal. eapply Hok; eauto.
      * destruct (isdir (w_fs w) p) eqn:Ed; inversion H; subst.
        -- apply isdir_lookup in Ed. rewrite Ed. repeat split; auto.
        -- unfold isfile in Ef. unfold isdir in Ed. destruct (lookup (w_fs w') p) as [[f|]|]; try discriminate.
           repeat split; eauto.
    + apply Fresh. exact H.
  - apply Fresh. exact H.
Qed.
