(* Proofs/ViewXInit.v — C04, reachability: XInv [] holds in the world in which a build starts. *)
From Coq Require Import List String Ascii NArith ZArith Bool Arith Lia.
From FB.Base Require Import PyVal Fs.
From FB.Model Require Import Types Monad CreatedFiles BuildDirs SimpleOps Builder Persist Build.
From FB.Proofs Require Import FsLemmas CleanLaws JsonLaws CoreLawsChildren
     ViewDefs ViewLemmas ViewScan ViewQueries ViewInit ViewXDefs.
Import ListNotations.
Open Scope list_scope.

Theorem XInv_start_world : forall w cachefile old nm vers,
  fs_wf (w_fs w) -> old_ok old cachefile -> XInv [] (start_world w cachefile old nm vers).
Proof.
  intros w cachefile old nm vers Hwf Hok.
  assert (Hrf: forall x, mem_path x (bd_removed_files (bd_init (c_dirs old) (cache_created_files old ++ [cachefile]))) = true
                         <-> In x (cache_created_files old) \/ x = cachefile).
  { intro x. cbn [bd_init bd_removed_files]. rewrite mem_fold_add. cbn [mem_path orb].
    rewrite mem_path_In, in_app_iff. cbn [In]. split; intros [H|H]; auto. destruct H as [H|[]]; auto. }
  assert (Hhid: forall a, hid (start_world w cachefile old nm vers) a = true <->
                          In a (cache_created_files old) \/ a = cachefile).
  { intro a. rewrite start_world_hidden, orb_true_iff, path_eqb_eq, (created_files_char _ _ (oo_keys _ _ Hok)). tauto. }
  constructor; cbn [start_world w_fs w_bd].
  - apply BInv_start_world; assumption.
  - constructor; cbn.
    + intros x H. discriminate.
    + intros x H. discriminate.
    + intros q H. discriminate.
    + intros x H. discriminate.
  - constructor.
  - intros x H. discriminate.
  - intro x. reflexivity.
  - intros x H. discriminate.
  - intros x H. discriminate.
  - intros t [].
  - intros x n H. discriminate.
  - intros x n H. discriminate.
  - intros a _ H _. apply Hrf. apply Hhid. exact H.
  - intros a H _. apply Hhid. apply Hrf. exact H.
Qed.

Print Assumptions XInv_start_world.
