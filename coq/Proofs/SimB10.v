(* Proofs/SimB10.v — mechanism model vs Core, after a hit, part 1: the view of the mechanism
   world after _apply_cached_suboperations.  For a record whose nodes are reusable (ViewH4),
   adopting the subtree reserves the directories above every successful nested target: in the
   view these become directories and nothing else changes (the adopted outputs stay hidden until
   the records are registered).  Also: the adoption logs library calls only.               *)
From Coq Require Import List String Ascii NArith ZArith Bool Arith Lia.
From FB.Base Require Import PyVal Fs.
From FB.Gen Require Import JsonUtilGen.
From FB.Spec Require Import Prog Ref Oracle Faithful.
From FB.Model Require Import Types Monad CreatedFiles BuildDirs SimpleOps Builder Persist Core.
From FB.Proofs Require Import FsLemmas CleanLaws JsonLaws CoreLawsChildren ReplayLaws BuildFileLaws CoreLaws1
     ViewDefs ViewLemmas ViewScan ViewQueries ViewAnswers ViewPres ViewFrame ViewPrepare
     ViewXDefs ViewXFrame ViewXQuery ViewXSteps ViewXMake1 ViewXMake2 ViewXFail ViewXSetup ViewH4 ViewH5 ViewR2
     ViewK3 ViewK4 ViewK5 ViewK6 SimB3 SimB4.
Import ListNotations.
Open Scope list_scope.
Open Scope m_scope.

(* ------------------------------------------------------------------ the visible log is kept *)
Definition vlog (w w' : world) : Prop := vis_log (w_log w') = vis_log (w_log w).
Lemma vlog_refl : forall w, vlog w w. Proof. intro w. reflexivity. Qed.
Lemma vlog_trans : forall a b c, vlog a b -> vlog b c -> vlog a c.
Proof. unfold vlog. intros a b c H1 H2. congruence. Qed.
Definition vlogPO : PO := {| rel := vlog; po_refl := vlog_refl; po_trans := vlog_trans |}.

Lemma svb_vlog : forall w w', svbPO w w' -> vlogPO w w'.
Proof.
  cbn. unfold same_but_view, vlog. intros w w' H.
  destruct H as (A1 & A2 & A3 & A4 & A5 & A6 & A7 & A8 & A9 & A10 & A11). rewrite A9. reflexivity.
Qed.

#[local] Hint Extern 8 (pres vlogPO _) => apply (pres_weaken svbPO vlogPO _ _ svb_vlog) : pres.
#[local] Hint Resolve m_handle_dir_exists_svb m_is_removed_svb is_file_no_read_svb is_cache_file_svb
  file_metadata_svb file_hash_svb list_dir_superset_svb file_comparison_result_svb
  m_is_file_svb m_is_dir_svb m_exists_svb noneable_cmp_svb version_equal_svb
  is_build_file_cached_svb dirs_to_make_svb build_file_cache_lookup_svb subbuild_cache_lookup_svb
  m_bd_started_svb m_bd_error_svb new_assert_no_file_svb new_assert_no_subbuild_svb : pres.

Ltac vlog_solve :=
  lazymatch goal with |- rel vlogPO ?a ?b => change (vlog a b) | _ => idtac end;
  first [ apply vlog_refl | unfold vlog; cbn; reflexivity ].

Lemma effect_vlog : forall what p f, pres vlogPO (effect what p f).
Proof. intros what p f w w' r H. unfold effect in H. cbv zeta in H. repeat dm H; inversion H; subst; vlog_solve. Qed.
#[local] Hint Resolve effect_vlog : pres.

Lemma back_up_and_remove_vlog : forall p, pres vlogPO (back_up_and_remove p).
Proof.
  intro p. unfold back_up_and_remove. apply pres_bind; [auto with pres|]. intros _.
  intros w w' r H. cbv zeta in H. repeat dm H; inversion H; subst; vlog_solve.
Qed.
#[local] Hint Resolve back_up_and_remove_vlog : pres.

Lemma remove_empty_dirs_vlog : forall ds, pres vlogPO (remove_empty_dirs ds).
Proof. intro ds. unfold remove_empty_dirs. pres_auto. Qed.
Lemma make_one_dir_vlog : forall d, pres vlogPO (make_one_dir d).
Proof. intro d. unfold make_one_dir. pres_auto. Qed.
#[local] Hint Resolve remove_empty_dirs_vlog make_one_dir_vlog : pres.

Lemma make_dirs_loop_vlog : forall ds made, pres vlogPO (make_dirs_loop ds made).
Proof. induction ds as [|d ds IH]; intro made; cbn [make_dirs_loop]; pres_auto. Qed.
#[local] Hint Resolve make_dirs_loop_vlog : pres.

Lemma make_dirs_vlog : forall d, pres vlogPO (make_dirs d).
Proof. intro d. unfold make_dirs. pres_auto. Qed.
#[local] Hint Resolve make_dirs_vlog : pres.

Lemma apply_cached_subs_of_vlog : forall o, pres vlogPO (apply_cached_subs_of o).
Proof.
  induction o as [q r e | p c f a k subs r cr ra sf IH | f a k subs r ra sf IH] using op_ind';
    cbn [apply_cached_subs_of].
  - apply pres_ret.
  - induction IH as [|s rest Hs HF IHl]; cbn beta iota fix; [apply pres_ret|].
    apply pres_bind; [|intros _; exact IHl]. pres_auto.
  - induction IH as [|s rest Hs HF IHl]; cbn beta iota fix; [apply pres_ret|].
    apply pres_bind; [|intros _; exact IHl]. pres_auto.
Qed.

Lemma new_use_cached_operation_vlog : forall o w w' r, new_use_cached_operation o w = (w', r) ->
  vis_log (w_log w') = vis_log (w_log w).
Proof.
  intros o w w' r H. unfold new_use_cached_operation, bind, get, put in H.
  destruct (assert_no_repeats (w_new w) o); inversion H; subst; reflexivity.
Qed.

(* ------------------------------------------------------------------ one target: the view after the setup *)
Lemma view_after_setup : forall T w n d w1 ds w2 locked,
  XInv T w -> PInv T w -> isdir (w_fs w) (n :: d) = false -> path_ok d = true ->
  make_dirs d w = (w1, inl ds) -> m_bd_started (n :: d) ds w1 = (w2, inl locked) ->
  (forall y, In y ds -> isfile (w_fs w2) y = false) ->
  forall a, lookup (view_fs w2) a = if is_ancestor a (n :: d) then Some NDir else lookup (view_fs w) a.
Proof.
  intros T w n d w1 ds w2 locked HX HP Hnd Hok Hmk Hst Hnf a.
  destruct (view_setup T w n d w1 ds w2 locked HX HP Hnd Hok Hmk Hst Hnf) as (Hmiss & fs1 & Emk & Hv).
  rewrite (Hv a).
  pose proof (view_tree_wf w (x_binv _ _ HX)) as WF.
  destruct (setup_dirs _ _ _ _ _ WF Hmiss Emk) as (Hd1 & WF1 & Hfr & Hanc).
  destruct (is_ancestor a (n :: d)) eqn:Ea.
  - apply is_ancestor_suffix in Ea. eapply wf_suffix_dir; eassumption.
  - destruct (Hfr a) as [E|(_ & _ & Hin)]; [exact E|]. exfalso.
    destruct (Hanc a Hin) as [->|K].
    + rewrite is_ancestor_dirname in Ea. discriminate.
    + assert (is_ancestor a (n :: d) = true) by (rewrite is_ancestor_cons, K; apply orb_true_r). congruence.
Qed.

(* ------------------------------------------------------------------ adopting the record tree *)
Definition adopt_post2 (L : list path) (T : list path) (w w' : world) (r : unit + exn) : Prop :=
  adopt_post L T w w' r /\
  forall a, lookup (view_fs w') a = if existsb (is_ancestor a) L then Some NDir else lookup (view_fs w) a.

Section Adopt2.
  Variables (fs0 : fsT) (new0 : cache) (cfp0 : path).
  Hypothesis Hcf : isdir fs0 cfp0 = false.

  Definition adoptable2 (o : op) : Prop :=
    forall T w w' r, forallb (reusable fs0 new0 cfp0) (op_subs o) = true -> forallb wfrec (op_subs o) = true ->
      RInv T w -> at0 fs0 new0 cfp0 w ->
      apply_cached_subs_of o w = (w', r) -> adopt_post2 (flat_map adopted (op_subs o)) T w w' r.

  Lemma adopt_go_ok2 : forall subs, Forall adoptable2 subs ->
    forall T w w' r, forallb (reusable fs0 new0 cfp0) subs = true -> forallb wfrec subs = true ->
      RInv T w -> at0 fs0 new0 cfp0 w ->
      adopt_go subs w = (w', r) -> adopt_post2 (flat_map adopted subs) T w w' r.
  Proof.
    intros subs H. induction H as [|s rest Hs Hrest IH]; intros T w w' r Hr Hwf HR Ha Hgo.
    - cbn in Hgo. inversion Hgo; subst. split; [|intro a; reflexivity].
      repeat split. exists T. split; [exact HR|]. split; [apply msub_refl|intros q []].
    - cbn [forallb] in Hr, Hwf. apply andb_true_iff in Hr. destruct Hr as [Hr1 Hr2].
      apply andb_true_iff in Hwf. destruct Hwf as [Hwf1 Hwf2].
      cbn [adopt_go] in Hgo. apply bind_inv in Hgo.
      assert (Hhead: forall wa ra,
                (match s with
                 | OBuildFile p _ _ _ _ _ _ _ false _ =>
                     created <- make_dirs (dirname p) ;; locked <- m_bd_started p created ;;
                     catch (apply_cached_subs_of s) (fun e => m_bd_error p ;;; raise e)
                 | OSimple _ _ _ => ret tt
                 | _ => apply_cached_subs_of s
                 end) w = (wa, ra) -> adopt_post2 (adopted s) T w wa ra).
      { intros wa ra Hh. destruct s as [q rt ex|p c f a k subs' rt cr ra' sf|f a k subs' rt ra' sf].
        - inversion Hh; subst. split; [|intro a; reflexivity].
          repeat split. exists T. split; [exact HR|]. split; [apply msub_refl|intros q0 []].
        - cbn [reusable] in Hr1. repeat (apply andb_true_iff in Hr1; destruct Hr1 as [Hr1 ?]).
          cbn [wfrec] in Hwf1. apply andb_true_iff in Hwf1. destruct Hwf1 as [Hwf1 Hwfs].
          apply andb_true_iff in Hwf1. destruct Hwf1 as [_ Htgt].
          destruct ra'.
          + cbn [adopted app]. apply (Hs T w wa ra); [cbn [op_subs]; assumption|cbn [op_subs]; assumption|exact HR|exact Ha|exact Hh].
          + destruct Ha as (A1 & A2 & A3). rename H0 into Hfile. rewrite <- A1 in Hfile.
            destruct p as [|n d]; [discriminate|]. cbn [dirname tl] in Hh.
            unfold tgt_ok in Htgt. apply andb_true_iff in Htgt. destruct Htgt as [Hpok _].
            assert (Hpd: path_ok d = true) by (cbn [path_ok forallb] in Hpok; apply andb_true_iff in Hpok; apply Hpok).
            apply bind_inv in Hh. destruct Hh as [[w1 [created [Em Hh]]]|[e [Em _]]].
            2:{ exfalso. destruct (make_dirs_existing T n d w wa (inr e) HR Hfile) as (ds & K & _); [rewrite A1, A3; exact Hcf|exact Em|discriminate]. }
            destruct (make_dirs_existing T n d w w1 (inl created) HR Hfile) as (ds & K & Efs); [rewrite A1, A3; exact Hcf|exact Em|].
            apply bind_inv in Hh. destruct Hh as [[w2 [locked [Eb Hh]]]|[e [Eb _]]].
            2:{ unfold m_bd_started in Eb. destruct (bd_started (w_bd w1) (n :: d) created); discriminate. }
            destruct HR as (HX & HP & HF).
            assert (Hnd: isdir (w_fs w) (n :: d) = false).
            { unfold isdir. apply isfile_lookup in Hfile. destruct Hfile as [g Hg]. rewrite Hg. reflexivity. }
            destruct (make_dirs_started_XInv T w n d w1 created w2 locked HX HP Hnd Em Eb) as (HX2 & HP2 & N2 & O2 & C2 & _).
            assert (Efs2: w_fs w2 = w_fs w).
            { unfold m_bd_started in Eb. destruct (bd_started (w_bd w1) (n :: d) created). inversion Eb; subst. cbn. exact Efs. }
            assert (HF2: w_faults w2 = []).
            { pose proof (make_dirs_quiet d _ _ _ Em) as [_ Q1]. unfold m_bd_started in Eb.
              destruct (bd_started (w_bd w1) (n :: d) created). inversion Eb; subst. cbn. congruence. }
            (* the view after the setup of the target *)
            assert (Hview2: forall x, lookup (view_fs w2) x = if is_ancestor x (n :: d) then Some NDir else lookup (view_fs w) x).
            { apply (view_after_setup T w n d w1 created w2 locked HX HP Hnd Hpd Em Eb).
              intros y Hy. rewrite Efs2.
              (* the directories above an existing file are directories *)
              assert (Hsuf: suffix y d).
              { unfold make_dirs in Em. apply bind_inv in Em. destruct Em as [[wx [ds0 [Eds Em]]]|[e [_ Em]]]; [|discriminate].
                apply bind_inv in Em. destruct Em as [[wy [u [_ Em]]]|[e [_ Em]]]; [|discriminate]. inversion Em; subst.
                eapply dirs_to_make_suffix; eassumption. }
              apply isfile_lookup in Hfile. destruct Hfile as [g Hg].
              pose proof (wf_suffix_dir _ _ _ (bi_wf _ (x_binv _ _ HX)) (bi_wf _ (x_binv _ _ HX) _ _ Hg) Hsuf) as Hd.
              unfold isfile. cbn [dirname tl] in Hd. rewrite Hd. reflexivity. }
            assert (HR2: RInv ((n :: d) :: T) w2) by (split; [exact HX2|split; [exact HP2|exact HF2]]).
            assert (Ha2: at0 fs0 new0 cfp0 w2) by (repeat split; congruence).
            unfold catch in Hh.
            destruct (apply_cached_subs_of (OBuildFile (n :: d) c f a k subs' rt cr false sf) w2) as [w3 r3] eqn:E3.
            pose proof (Hs ((n :: d) :: T) w2 w3 r3) as P. cbn [op_subs] in P.
            destruct (P ltac:(assumption) Hwfs HR2 Ha2 E3) as ((R1 & F3 & N3 & O3 & C3 & T3 & HR3 & M3 & L3) & V3).
            subst r3. inversion Hh; subst wa ra.
            split.
            * split; [reflexivity|]. split; [congruence|]. split; [congruence|]. split; [congruence|]. split; [congruence|].
              exists T3. split; [exact HR3|]. split; [eapply msub_trans; [apply msub_cons|exact M3]|].
              intros q Hq. cbn [adopted app] in Hq. destruct Hq as [<-|Hq]; [apply (msub_in _ _ _ M3); left; reflexivity|apply L3; exact Hq].
            * intro x. rewrite (V3 x), (Hview2 x). cbn [adopted app existsb].
              destruct (is_ancestor x (n :: d)); cbn [orb]; [destruct (existsb (is_ancestor x) (flat_map adopted subs')); reflexivity|reflexivity].
        - cbn [reusable] in Hr1. repeat (apply andb_true_iff in Hr1; destruct Hr1 as [Hr1 ?]).
          cbn [adopted]. apply (Hs T w wa ra); [cbn [op_subs]; assumption|cbn [op_subs]; exact Hwf1|exact HR|exact Ha|exact Hh]. }
      destruct Hgo as [[wa [u [Eh Hgo]]]|[e [Eh _]]].
      + destruct (Hhead _ _ Eh) as ((_ & F1 & N1 & O1 & C1 & T1 & HR1 & M1 & L1) & V1).
        assert (Ha1: at0 fs0 new0 cfp0 wa) by (destruct Ha as (A1 & A2 & A3); repeat split; congruence).
        destruct (IH T1 wa w' r Hr2 Hwf2 HR1 Ha1 Hgo) as ((R2 & F2 & N2 & O2 & C2 & T2 & HR2 & M2 & L2) & V2).
        split.
        * split; [exact R2|]. split; [congruence|]. split; [congruence|]. split; [congruence|]. split; [congruence|].
          exists T2. split; [exact HR2|]. split; [eapply msub_trans; eassumption|].
          intros q Hq. cbn [flat_map] in Hq. apply in_app_iff in Hq. destruct Hq as [Hq|Hq]; [apply (msub_in _ _ _ M2); apply L1; exact Hq|apply L2; exact Hq].
        * intro x. rewrite (V2 x), (V1 x). cbn [flat_map]. rewrite existsb_app_b.
          destruct (existsb (is_ancestor x) (adopted s)); cbn [orb]; [destruct (existsb (is_ancestor x) (flat_map adopted rest)); reflexivity|reflexivity].
      + destruct (Hhead _ _ Eh) as ((K & _) & _). discriminate.
  Qed.

  Theorem apply_cached_view : forall o, adoptable2 o.
  Proof.
    induction o as [q r e|p c f a k subs r cr ra sf IH|f a k subs r ra sf IH] using op_ind';
      intros T w w' res Hr Hwf HR Ha H; rewrite apply_cached_subs_of_eq in H; cbn [op_subs] in *.
    - cbn in H. inversion H; subst. split; [|intro a; reflexivity].
      repeat split. exists T. split; [exact HR|]. split; [apply msub_refl|intros q0 []].
    - eapply adopt_go_ok2; eassumption.
    - eapply adopt_go_ok2; eassumption.
  Qed.
End Adopt2.

Print Assumptions apply_cached_view.
Print Assumptions apply_cached_subs_of_vlog.
