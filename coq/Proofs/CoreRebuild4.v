(* Proofs/CoreRebuild4.v — invariants of a Core run whose registered records are all clean and whose
   targets held no regular file in the start tree [t0]:
   claims = claims of the records; every claimed target is registered; files at claimed paths stay;
   directories stay; the tree differs from [t0] only by listed new directories and claimed outputs. *)
From Coq Require Import List String Ascii NArith ZArith Bool Arith Lia Btauto.
From FB.Base Require Import PyVal Fs.
From FB.Gen Require Import JsonUtilGen.
From FB.Spec Require Import JsonSpec Prog Ref Oracle Faithful.
From FB.Model Require Import Types SimpleOps Builder Persist Core CoreOracle CoreCache.
From FB.Proofs Require Import FsLemmas CleanLaws CoreLawsChildren CoreLaws1 CoreLaws2 CoreLaws3 CoreLaws4 CoreLaws5
     CoreRebuildDefs CoreRebuild1 CoreRebuild2 CoreRebuild3.
Import ListNotations.
Local Open Scope list_scope.

(* ------------------------------------------------------------------ *)
(* reading the step functions                                         *)
(* ------------------------------------------------------------------ *)
Lemma bf_setup_ok : forall s p fs1 dirs, bf_setup s p = inl (fs1, dirs) ->
  mem_path p (k_claimedF s) = false /\ path_eqb p (k_cachefile s) = false /\
  setup_fs (k_fs s) (k_cachefile s) p = inl (fs1, dirs).
Proof.
  intros s p fs1 dirs H. unfold bf_setup, claim_check in H.
  destruct (mem_path p (k_claimedF s)); [discriminate|].
  destruct (path_eqb p (k_cachefile s)); [discriminate|]. auto.
Qed.

Lemma core_hit_ok : forall s s0 p fname sa skw f subs1 ret1 r,
  core_hit s s0 p fname sa skw = Some (f, subs1, ret1, r) ->
  kreplay_list s0 subs1 (start_replay s0) = Some r /\ phys (k_fs s0) (k_stale s0) p = Some f.
Proof.
  intros s s0 p fname sa skw f subs1 ret1 r H. unfold core_hit in H.
  destruct (cache_get_file (k_old s) p) as [[| p' c' fname' a' k' subs0 ret0 cmpres' raised' sf' |]|]; try discriminate.
  destruct raised'; [discriminate|]. destruct (negb (String.eqb fname' fname)); [discriminate|].
  destruct (negb (kversion_equal s fname)); [discriminate|].
  destruct (negb (is_equal a' sa) || negb (is_equal k' skw)); [discriminate|].
  destruct (phys (k_fs s0) (k_stale s0) p) as [f0|]; [|discriminate].
  destruct (negb (is_equal cmpres' (cmp_of c' f0))); [discriminate|].
  destruct (kreplay_list s0 subs0 (start_replay s0)) as [r0|] eqn:E; [|discriminate].
  inversion H; subst. auto.
Qed.

Lemma core_subhit_ok : forall s fname key subs1 ret1 r,
  core_subhit s fname key = Some (subs1, ret1, r) -> kreplay_list s subs1 (start_replay s) = Some r.
Proof.
  intros s fname key subs1 ret1 r H. unfold core_subhit in H.
  destruct (subs_get (c_subs (k_old s)) key) as [[[| |f' a' k' subs0 ret0 raised' sf']|]|]; try discriminate.
  destruct raised'; [discriminate|]. destruct (negb (kversion_equal s fname)); [discriminate|].
  destruct (kreplay_list s subs0 (start_replay s)) as [r0|] eqn:E; [|discriminate].
  inversion H; subst. exact E.
Qed.

Lemma finish_kconst : forall s2 p c fname sa skw bsubs res pend2 s3 out o,
  core_finish s2 p c fname sa skw bsubs res pend2 = (s3, out, o) ->
  kconst s2 s3 /\ k_newF s3 = k_newF s2 ++ [(p, o)] /\ k_claimedF s3 = k_claimedF s2 /\ k_claimedS s3 = k_claimedS s2.
Proof.
  intros s2 p c fname sa skw bsubs res pend2 s3 out o H.
  destruct (core_finish_cases _ _ _ _ _ _ _ _ _ _ _ _ H) as [(sv & bytes & fs3 & g & _ & _ & _ & _ & -> & _)|(e & _ & -> & _)];
    (split; [apply (kconst_intro _ _ [(p, o)] [] []); try reflexivity; cbn; rewrite app_nil_r; reflexivity|auto]).
Qed.

(* ------------------------------------------------------------------ *)
(* the generic induction: a relation between states that every step    *)
(* of a run preserves                                                  *)
(* ------------------------------------------------------------------ *)
Section Generic.
  Variable G : kstate -> Prop.
  Hypothesis G_mono : forall a b, kconst a b -> G b -> G a.
  Variable Rel : kstate -> kstate -> Prop.
  Hypothesis Rel_refl : forall s, Rel s s.
  Hypothesis Rel_trans : forall a b c, Rel a b -> Rel b c -> Rel a c.
  Hypothesis P_log : forall s e, Rel s (klog e s).
  Hypothesis P_tick : forall s, Rel s (ktick s).
  Hypothesis P_hit : forall s p c fname sa skw fs1 dirs f subs1 ret1 r,
    bf_setup s p = inl (fs1, dirs) ->
    core_hit s (core_s0 s p fs1 dirs) p fname sa skw = Some (f, subs1, ret1, r) ->
    G (core_put (adopt (core_s0 s p fs1 dirs) r (OBuildFile p c fname sa skw subs1 ret1 (cmp_of c f) false false)) p f) ->
    Rel s (core_put (adopt (core_s0 s p fs1 dirs) r (OBuildFile p c fname sa skw subs1 ret1 (cmp_of c f) false false)) p f).
  Hypothesis P_run : forall s p c fname sa skw fs1 dirs s2 res pend2 bsubs s3 out3 o,
    bf_setup s p = inl (fs1, dirs) ->
    Rel (core_start (core_s0 s p fs1 dirs) p fname sa skw) s2 ->
    kconst (core_start (core_s0 s p fs1 dirs) p fname sa skw) s2 ->
    core_finish s2 p c fname sa skw bsubs res pend2 = (s3, out3, o) ->
    G s3 -> Rel s s3.
  Hypothesis P_subhit : forall s fname sa skw subs1 ret1 r,
    existsb (py_eq (subbuild_key fname sa skw)) (k_claimedS s) = false ->
    core_subhit s fname (subbuild_key fname sa skw) = Some (subs1, ret1, r) ->
    G (adopt s r (OSubbuild fname sa skw subs1 ret1 false false)) ->
    Rel s (adopt s r (OSubbuild fname sa skw subs1 ret1 false false)).
  Hypothesis P_subrun : forall s fname sa skw s2 o,
    Rel (core_substart s fname sa skw) s2 -> Rel s (core_subreg s2 (subbuild_key fname sa skw) o).

  Theorem run_rel : forall pr tgt pend s s' out pend' new,
    Run pr tgt pend s s' out pend' new -> G s' -> Rel s s'.
  Proof.
    intros pr tgt pend s s' out pend' new H. induction H; intro HG; auto.
    - eapply Rel_trans; [apply P_log|auto].
    - eapply Rel_trans; [apply P_tick|auto].
    - eapply Rel_trans; [|apply IHRun; exact HG]. eapply P_hit; eauto.
      eapply G_mono; [eapply run_kconst; eauto|exact HG].
    - pose proof (G_mono _ _ (run_kconst _ _ _ _ _ _ _ _ H5) HG) as G3.
      destruct (finish_kconst _ _ _ _ _ _ _ _ _ _ _ _ H4) as [K23 _].
      eapply Rel_trans; [|apply IHRun2; exact HG].
      refine (P_run s p c fname sa skw fs1 dirs s2 res pend2 bsubs s3 out3 o H1 _ _ H4 G3).
      + apply IHRun1. eapply G_mono; eauto.
      + eapply run_kconst; eauto.
    - eapply Rel_trans; [|apply IHRun; exact HG]. eapply P_subhit; eauto.
      eapply G_mono; [eapply run_kconst; eauto|exact HG].
    - pose proof (G_mono _ _ (run_kconst _ _ _ _ _ _ _ _ H4) HG) as G3.
      eapply Rel_trans; [|apply IHRun2; exact HG]. eapply P_subrun. apply IHRun1.
      eapply G_mono; [|exact G3]. apply (kconst_intro _ _ [] [(subbuild_key fname sa skw, sub_rec fname sa skw bsubs res)] []); try reflexivity.
      cbn. rewrite app_nil_r. reflexivity.
  Qed.
End Generic.

(* ------------------------------------------------------------------ *)
(* claims                                                             *)
(* ------------------------------------------------------------------ *)
Lemma same_paths_app_l : forall a b c, same_paths b c -> same_paths (a ++ b) (a ++ c).
Proof. intros a b c H q. rewrite ?mem_path_app, (H q). reflexivity. Qed.

Lemma tree_claims_finish : forall s2 p c fname sa skw bsubs res pend2 s3 out o,
  core_finish s2 p c fname sa skw bsubs res pend2 = (s3, out, o) ->
  tree_claims o = (p :: fst (cll bsubs), snd (cll bsubs)).
Proof.
  intros. destruct (core_finish_cases _ _ _ _ _ _ _ _ _ _ _ _ H) as [(sv & bytes & fs3 & g & _ & _ & _ & -> & _)|(e & -> & _)]; reflexivity.
Qed.

Theorem run_claims : forall pr tgt pend s s' out pend' new,
  Run pr tgt pend s s' out pend' new ->
  same_paths (k_claimedF s') (fst (cll new) ++ k_claimedF s) /\ same_keys (k_claimedS s') (snd (cll new) ++ k_claimedS s).
Proof.
  intros pr tgt pend s s' out pend' new H.
  induction H; try (split; intro; reflexivity); try exact IHRun.
  - (* Ask *) destruct IHRun as [A B]. rewrite cll_cons. destruct (record_answer (k_fs s) q); exact (conj A B).
  - (* hit *) destruct IHRun as [A B]. rewrite cll_cons. cbn [fst snd]. split.
    + intro q. rewrite (A q). cbn [core_put adopt ks_with k_claimedF core_s0]. rewrite ?mem_path_app. btauto.
    + intro q. rewrite (B q). cbn [core_put adopt ks_with k_claimedS core_s0]. rewrite ?existsb_app. btauto.
  - (* run *) destruct IHRun1 as [A1 B1]. destruct IHRun2 as [A2 B2].
    destruct (finish_kconst _ _ _ _ _ _ _ _ _ _ _ _ H4) as [_ [_ [CF CS]]].
    rewrite cll_cons, (tree_claims_finish _ _ _ _ _ _ _ _ _ _ _ _ H4). cbn [fst snd]. split.
    + intro q. rewrite (A2 q), mem_path_app, CF, (A1 q). cbn [core_start klog ks_with k_claimedF core_s0].
      rewrite ?mem_path_app. cbn [mem_path]. rewrite ?mem_path_app. btauto.
    + intro q. rewrite (B2 q), existsb_app, CS, (B1 q). cbn [core_start klog ks_with k_claimedS core_s0].
      rewrite ?existsb_app. btauto.
  - (* subbuild hit *) destruct IHRun as [A B]. rewrite cll_cons. cbn [fst snd]. split.
    + intro q. rewrite (A q). cbn [adopt ks_with k_claimedF]. rewrite ?mem_path_app. btauto.
    + intro q. rewrite (B q). cbn [adopt ks_with k_claimedS]. rewrite ?existsb_app. btauto.
  - (* subbuild run *) destruct IHRun1 as [A1 B1]. destruct IHRun2 as [A2 B2].
    assert (Ecl : tree_claims (sub_rec fname sa skw bsubs res) = (fst (cll bsubs), subbuild_key fname sa skw :: snd (cll bsubs))).
    { unfold sub_rec. destruct res as [v|e]; [destruct (sanitize v)|]; reflexivity. }
    rewrite cll_cons, Ecl. cbn [fst snd]. split.
    + intro q. rewrite (A2 q), mem_path_app. cbn [core_subreg ks_with k_claimedF]. rewrite (A1 q).
      cbn [core_substart klog ks_with k_claimedF]. rewrite ?mem_path_app. btauto.
    + intro q. rewrite (B2 q), existsb_app. cbn [core_subreg ks_with k_claimedS]. rewrite (B1 q).
      cbn [core_substart klog ks_with k_claimedS]. rewrite ?existsb_app. cbn [existsb]. rewrite ?existsb_app. btauto.
Qed.

Lemma kconst_newF : forall a b, kconst a b -> forall e, In e (k_newF a) -> In e (k_newF b).
Proof. intros a b [_ [_ [_ [_ [[eF E] _]]]]] e H. rewrite E. apply in_or_app. auto. Qed.
Lemma kconst_newS : forall a b, kconst a b -> forall e, In e (k_newS a) -> In e (k_newS b).
Proof. intros a b [_ [_ [_ [_ [_ [[eS E] _]]]]]] e H. rewrite E. apply in_or_app. auto. Qed.

(* every target claimed by the records of a run is registered at its end *)
Theorem run_registered : forall pr tgt pend s s' out pend' new,
  Run pr tgt pend s s' out pend' new ->
  forall q, In q (fst (cll new)) -> In q (map fst (k_newF s')).
Proof.
  intros pr tgt pend s s' out pend' new H.
  induction H; intros q0 Hq; try contradiction; try (apply IHRun; exact Hq).
  - rewrite cll_cons in Hq. destruct (record_answer (k_fs s) q); apply IHRun; exact Hq.
  - rewrite cll_cons in Hq. cbn [fst] in Hq. apply in_app_or in Hq. destruct Hq as [Hq|Hq]; [|apply IHRun; exact Hq].
    pose proof (run_kconst _ _ _ _ _ _ _ _ H3) as K.
    destruct (regs_claims (OBuildFile p c fname sa skw subs1 ret1 (cmp_of c f) false false)) as [E _].
    rewrite <- E in Hq. apply in_map_iff in Hq. destruct Hq as [e [E1 E2]]. apply in_map_iff. exists e. split; [exact E1|].
    apply (kconst_newF _ _ K). cbn [core_put adopt ks_with k_newF core_s0]. apply in_or_app. right. exact E2.
  - rewrite cll_cons, (tree_claims_finish _ _ _ _ _ _ _ _ _ _ _ _ H4) in Hq. cbn [fst] in Hq.
    destruct (finish_kconst _ _ _ _ _ _ _ _ _ _ _ _ H4) as [K23 [EF _]].
    pose proof (run_kconst _ _ _ _ _ _ _ _ H5) as K3.
    apply in_app_or in Hq. destruct Hq as [[<-|Hq]|Hq]; [| |apply IHRun2; exact Hq].
    + apply in_map_iff. exists (p, o). split; [reflexivity|]. apply (kconst_newF _ _ K3). rewrite EF. apply in_or_app. right. left. reflexivity.
    + specialize (IHRun1 _ Hq). apply in_map_iff in IHRun1. destruct IHRun1 as [e [E1 E2]]. apply in_map_iff. exists e.
      split; [exact E1|]. apply (kconst_newF _ _ K3), (kconst_newF _ _ K23). exact E2.
  - rewrite cll_cons in Hq. cbn [fst] in Hq. apply in_app_or in Hq. destruct Hq as [Hq|Hq]; [|apply IHRun; exact Hq].
    pose proof (run_kconst _ _ _ _ _ _ _ _ H3) as K.
    destruct (regs_claims (OSubbuild fname sa skw subs1 ret1 false false)) as [E _].
    rewrite <- E in Hq. apply in_map_iff in Hq. destruct Hq as [e [E1 E2]]. apply in_map_iff. exists e. split; [exact E1|].
    apply (kconst_newF _ _ K). cbn [adopt ks_with k_newF]. apply in_or_app. right. exact E2.
  - assert (Ecl : tree_claims (sub_rec fname sa skw bsubs res) = (fst (cll bsubs), subbuild_key fname sa skw :: snd (cll bsubs))).
    { unfold sub_rec. destruct res as [v|e]; [destruct (sanitize v)|]; reflexivity. }
    rewrite cll_cons, Ecl in Hq. cbn [fst] in Hq.
    pose proof (run_kconst _ _ _ _ _ _ _ _ H4) as K3.
    apply in_app_or in Hq. destruct Hq as [Hq|Hq]; [|apply IHRun2; exact Hq].
    specialize (IHRun1 _ Hq). apply in_map_iff in IHRun1. destruct IHRun1 as [e [E1 E2]]. apply in_map_iff. exists e.
    split; [exact E1|]. apply (kconst_newF _ _ K3). exact E2.
Qed.

(* ------------------------------------------------------------------ *)
(* the tree                                                           *)
(* ------------------------------------------------------------------ *)
Section Tree.
  Variable t0 : fsT.

  Definition GoodEnd (s : kstate) : Prop :=
    (forall e, In e (k_newF s) -> op_clean (snd e) = true /\ isfile t0 (fst e) = false) /\
    (forall e, In e (k_newS s) -> op_clean (snd e) = true).

  Lemma good_mono : forall a b, kconst a b -> GoodEnd b -> GoodEnd a.
  Proof.
    intros a b K [G1 G2]. split; intros e He; [apply G1; eapply kconst_newF; eauto|apply G2; eapply kconst_newS; eauto].
  Qed.

  (* the tree extends [t0]: new directories are listed, new files are claimed targets *)
  Definition CB (s : kstate) : Prop :=
    forall q, lookup (k_fs s) q = lookup t0 q \/
              (lookup t0 q = None /\
               ((lookup (k_fs s) q = Some NDir /\ In q (k_made s)) \/
                (exists g, lookup (k_fs s) q = Some (NFile g) /\ mem_path q (k_claimedF s) = true))).

  Definition Stab (s s' : kstate) : Prop :=
    forall q, mem_path q (k_claimedF s) = true ->
              mem_path q (k_claimedF s') = true /\ forall g, file_at (k_fs s') q g <-> file_at (k_fs s) q g.
  Definition Dirs (s s' : kstate) : Prop := forall q, isdir (k_fs s) q = true -> isdir (k_fs s') q = true.
  Definition TRel (s s' : kstate) : Prop := Stab s s' /\ Dirs s s' /\ (CB s -> CB s').

  Lemma Stab_trans : forall a b c, Stab a b -> Stab b c -> Stab a c.
  Proof.
    intros a b c A1 B1 q H. destruct (A1 q H) as [H1 H2]. destruct (B1 q H1) as [H3 H4]. split; [exact H3|].
    intro g. rewrite H4. apply H2.
  Qed.

  Lemma TRel_refl : forall s, TRel s s.
  Proof. intro s. split; [|split]; auto; [|intros q H; exact H]. intros q H. split; [exact H|tauto]. Qed.

  Lemma TRel_trans : forall a b c, TRel a b -> TRel b c -> TRel a c.
  Proof.
    intros a b c [A1 [A2 A3]] [B1 [B2 B3]]. split; [|split]; auto. eapply Stab_trans; eauto. intros q H. auto.
  Qed.

  Lemma TRel_same_tree : forall s s',
    k_fs s' = k_fs s -> k_made s' = k_made s ->
    (forall q, mem_path q (k_claimedF s) = true -> mem_path q (k_claimedF s') = true) -> TRel s s'.
  Proof.
    intros s s' E1 E2 E3. split; [|split].
    - intros q H. split; [auto|]. rewrite E1. tauto.
    - intro q. rewrite E1. auto.
    - intros C q. rewrite E1, E2. destruct (C q) as [H|[H1 [H2|[g [H2 H3]]]]]; [left; exact H|right; auto|right].
      split; [exact H1|]. right. exists g. auto.
  Qed.

  (* the set-up of a target *)
  Lemma setup_TRel : forall s p fs1 dirs, bf_setup s p = inl (fs1, dirs) -> TRel s (core_s0 s p fs1 dirs).
  Proof.
    intros s p fs1 dirs H. destruct (bf_setup_ok _ _ _ _ H) as [_ [_ Hs]].
    destruct (setup_fs_frame _ _ _ _ _ Hs) as [_ [_ Fr]]. split; [|split].
    - intros q Hq. split; [exact Hq|]. intro g. unfold file_at. cbn [core_s0 ks_with k_fs].
      destruct (Fr q) as [E|[E1 [E2 _]]]; [rewrite E; tauto|rewrite E1, E2; split; discriminate].
    - intros q Hq. unfold isdir in *. cbn [core_s0 ks_with k_fs].
      destruct (Fr q) as [E|[E1 [E2 _]]]; [rewrite E; exact Hq|rewrite E2; reflexivity].
    - intros C q. cbn [core_s0 ks_with k_fs k_made k_claimedF].
      destruct (Fr q) as [E|[E1 [E2 E3]]].
      + rewrite E. destruct (C q) as [H0|[H1 [[H2 H3]|[g [H2 H3]]]]]; [left; exact H0|right|right].
        * split; [exact H1|]. left. split; [exact H2|apply in_or_app; auto].
        * split; [exact H1|]. right. exists g. auto.
      + right. assert (lookup t0 q = None).
        { destruct (C q) as [H0|[H1 _]]; [congruence|exact H1]. }
        split; [assumption|]. left. split; [exact E2|apply in_or_app; auto].
  Qed.

  (* adopting the result of a replay of clean records *)
  Lemma adopt_TRel : forall s0 subs r o,
    RepL s0 subs (start_replay s0) r -> 
    (forall q, In q (flat_map tree_outputs subs) -> In q (fst (tree_claims o)) /\ isfile t0 q = false) ->
    TRel s0 (adopt s0 r o).
  Proof.
    intros s0 subs r o HR Ho. split; [|split].
    - intros q Hq. split; [cbn; rewrite mem_path_app, Hq; apply orb_true_r|].
      intro g. cbn [adopt ks_with k_fs]. apply (RepL_stable _ _ _ _ HR q Hq g).
    - intros q Hq. cbn [adopt ks_with k_fs]. apply (RepL_dirs _ _ _ _ HR q Hq Hq).
    - intros C q. cbn [adopt ks_with k_fs k_made k_claimedF].
      destruct (RepL_made _ _ _ _ HR) as [ex Em]. cbn in Em.
      destruct (RepL_chg _ _ _ _ HR q) as [E|[[N [D M]]|[g [Gq [I Bd]]]]]; cbn [start_replay rp_fs] in *.
      + rewrite E. destruct (C q) as [H0|[H1 [[H2 H3]|[g [H2 H3]]]]]; [left; exact H0|right|right].
        * split; [exact H1|]. left. split; [exact H2|rewrite Em; apply in_or_app; auto].
        * split; [exact H1|]. right. exists g. split; [exact H2|]. rewrite mem_path_app, H3. apply orb_true_r.
      + right. assert (lookup t0 q = None) by (destruct (C q) as [H0|[H1 _]]; [congruence|exact H1]).
        split; [assumption|]. left. auto.
      + right. destruct (Ho q I) as [Icl If].
        assert (lookup t0 q = None).
        { destruct (C q) as [H0|[H1 _]]; [|exact H1]. unfold isdir in Bd. unfold isfile in If. rewrite <- H0 in If.
          destruct (lookup (k_fs s0) q) as [[x|]|]; try discriminate; auto. }
        split; [assumption|]. right. exists g. split; [exact Gq|]. rewrite mem_path_app. apply mem_path_In in Icl. rewrite Icl. reflexivity.
  Qed.

  (* all the records registered by adopting a clean tree: their targets are claimed by the tree *)
  Lemma good_hit_outputs : forall s o, GoodEnd s -> (forall e, In e (fst (tree_regs o)) -> In e (k_newF s)) -> op_clean o = true ->
    forall q, In q (tree_outputs o) -> In q (fst (tree_claims o)) /\ isfile t0 q = false.
  Proof.
    intros s o [G1 _] Hin Hc q Hq. pose proof (outputs_claims o Hc q Hq) as Hcl. split; [exact Hcl|].
    destruct (regs_claims o) as [E _]. rewrite <- E in Hcl. apply in_map_iff in Hcl. destruct Hcl as [e [E1 E2]].
    destruct (G1 e (Hin e E2)) as [_ Hf]. rewrite E1 in Hf. exact Hf.
  Qed.

  (* a file put at a claimed target that held no directory and no file of [t0] *)
  Lemma CB_put : forall s fs' p g, CB s -> p <> [] ->
    lookup fs' p = Some (NFile g) -> (forall q, q <> p -> lookup fs' q = lookup (k_fs s) q) ->
    isdir (k_fs s) p = false -> isfile t0 p = false ->
    forall s', k_fs s' = fs' -> k_made s' = k_made s -> mem_path p (k_claimedF s') = true ->
    (forall q, mem_path q (k_claimedF s) = true -> mem_path q (k_claimedF s') = true) -> CB s'.
  Proof.
    intros s fs' p g C Hne Hp Hoth Hnd Hnf s' E1 E2 Hcl Hmono q. rewrite E1, E2.
    destruct (path_eqb q p) eqn:E.
    - apply path_eqb_eq in E. subst q. right. split; [|right; exists g; auto].
      destruct (C p) as [H0|[H1 _]]; [|exact H1]. unfold isdir in Hnd. unfold isfile in Hnf. rewrite <- H0 in Hnf.
      destruct (lookup (k_fs s) p) as [[x|]|]; try discriminate; auto.
    - apply path_eqb_neq in E. rewrite (Hoth q E).
      destruct (C q) as [H0|[H1 [[H2 H3]|[g' [H2 H3]]]]]; [left; exact H0|right; auto|right].
      split; [exact H1|]. right. exists g'. auto.
  Qed.

  Lemma P_hit_T : forall s p c fname sa skw fs1 dirs f subs1 ret1 r,
    bf_setup s p = inl (fs1, dirs) ->
    core_hit s (core_s0 s p fs1 dirs) p fname sa skw = Some (f, subs1, ret1, r) ->
    GoodEnd (core_put (adopt (core_s0 s p fs1 dirs) r (OBuildFile p c fname sa skw subs1 ret1 (cmp_of c f) false false)) p f) ->
    TRel s (core_put (adopt (core_s0 s p fs1 dirs) r (OBuildFile p c fname sa skw subs1 ret1 (cmp_of c f) false false)) p f).
  Proof.
    intros s p c fname sa skw fs1 dirs f subs1 ret1 r Hs Hh HG.
    set (o := OBuildFile p c fname sa skw subs1 ret1 (cmp_of c f) false false) in *.
    set (s0 := core_s0 s p fs1 dirs) in *.
    destruct (bf_setup_ok _ _ _ _ Hs) as [Hpc [Hpcf Hsf]]. destruct (setup_fs_frame _ _ _ _ _ Hsf) as [Hnd [Hne _]].
    destruct (core_hit_ok _ _ _ _ _ _ _ _ _ _ Hh) as [Hk Hph].
    assert (Hreg : forall e, In e (fst (tree_regs o)) -> In e (k_newF (core_put (adopt s0 r o) p f))).
    { intros e He. cbn [core_put adopt ks_with k_newF]. apply in_or_app. right. exact He. }
    assert (Hco : op_clean o = true).
    { destruct HG as [G1 _]. apply (G1 (p, o)). apply Hreg. unfold o. rewrite tree_regs_BF. left. reflexivity. }
    pose proof Hco as Hco'. apply op_clean_BF in Hco'. destruct Hco' as [_ [_ Hcs]].
    pose proof (kreplay_RepL _ _ Hcs _ _ Hk) as HR.
    pose proof (good_hit_outputs _ o HG Hreg Hco) as Hout.
    assert (Hpt0 : isfile t0 p = false) by (apply (Hout p); unfold o; rewrite tree_outputs_BF; left; reflexivity).
    destruct (setup_TRel _ _ _ _ Hs) as [S1 [D1 C1]]. fold s0 in S1, D1, C1.
    assert (Hout' : forall q, In q (flat_map tree_outputs subs1) -> In q (fst (tree_claims o)) /\ isfile t0 q = false).
    { intros q Hq. apply Hout. unfold o; rewrite tree_outputs_BF. right. exact Hq. }
    destruct (adopt_TRel s0 subs1 r o HR Hout') as [S2 [D2 C2]].
    assert (Hnd0 : isdir (k_fs s0) p = false) by (eapply phys_notdir; eauto).
    split; [|split].
    - intros q Hq. assert (Hqp : q <> p) by (intro; subst; congruence).
      destruct (Stab_trans _ _ _ S1 S2 q Hq) as [Hc1 Hf1]. split; [exact Hc1|].
      intro g. rewrite <- Hf1. unfold file_at. cbn [core_put ks_with k_fs]. rewrite lookup_upd_neq by exact Hqp. tauto.
    - intros q Hq. pose proof (D1 q Hq) as Hq0. pose proof (D2 q Hq0) as Hq1.
      assert (Hqp : q <> p) by (intro; subst; congruence).
      unfold isdir. cbn [core_put ks_with k_fs]. rewrite lookup_upd_neq by exact Hqp. exact Hq1.
    - intro C. pose proof (C2 (C1 C)) as Ca.
      (* CB after the replay, then the output itself *)
      intro q. cbn [core_put ks_with k_fs k_made k_claimedF].
      destruct (path_eqb q p) eqn:E.
      + apply path_eqb_eq in E. subst q. rewrite lookup_upd_eq by exact Hne. right. split.
        * destruct (C1 C p) as [H0|[H1 _]]; [|exact H1]. unfold isdir in Hnd0. unfold isfile in Hpt0. rewrite <- H0 in Hpt0.
          destruct (lookup (k_fs s0) p) as [[x|]|]; try discriminate; auto.
        * right. exists f. split; [reflexivity|]. cbn [adopt ks_with k_claimedF]. unfold o; rewrite tree_claims_BF. cbn. rewrite path_eqb_refl. reflexivity.
      + apply path_eqb_neq in E. rewrite lookup_upd_neq by exact E. apply Ca.
  Qed.

  Lemma try_remove_keeps_isdir : forall fs p q, isdir fs q = true -> isdir (try_remove fs p) q = true.
  Proof. intros fs p q H. unfold isdir in *. destruct (lookup fs q) as [[x|]|] eqn:E; try discriminate. rewrite (try_remove_keeps_dir _ _ _ E). reflexivity. Qed.

  Lemma P_run_T : forall s p c fname sa skw fs1 dirs s2 res pend2 bsubs s3 out3 o,
    bf_setup s p = inl (fs1, dirs) ->
    TRel (core_start (core_s0 s p fs1 dirs) p fname sa skw) s2 ->
    kconst (core_start (core_s0 s p fs1 dirs) p fname sa skw) s2 ->
    core_finish s2 p c fname sa skw bsubs res pend2 = (s3, out3, o) ->
    GoodEnd s3 -> TRel s s3.
  Proof.
    intros s p c fname sa skw fs1 dirs s2 res pend2 bsubs s3 out3 o Hs [Sb [Db Cb]] Kb Hf HG.
    set (s0 := core_s0 s p fs1 dirs) in *.
    destruct (bf_setup_ok _ _ _ _ Hs) as [Hpc [Hpcf Hsf]]. destruct (setup_fs_frame _ _ _ _ _ Hsf) as [Hnd [Hne _]].
    destruct (finish_kconst _ _ _ _ _ _ _ _ _ _ _ _ Hf) as [K23 [EF [CF CS]]].
    assert (Hreg : In (p, o) (k_newF s3)) by (rewrite EF; apply in_or_app; right; left; reflexivity).
    destruct HG as [G1 G2]. destruct (G1 _ Hreg) as [Hco Hpt0]. cbn [fst snd] in Hco, Hpt0.
    destruct (core_finish_cases _ _ _ _ _ _ _ _ _ _ _ _ Hf) as [(sv & bytes & fs3 & g & Ep & Hw & Hg & Eo & Es3 & Eout)|(e & Eo & _)];
      [|subst o; discriminate].
    destruct (write_file_ok _ _ _ _ _ _ _ Hw) as [_ [Hndw [_ Hoth]]].
    destruct (setup_TRel _ _ _ _ Hs) as [S1 [D1 C1]]. fold s0 in S1, D1, C1.
    assert (Hpc2 : mem_path p (k_claimedF s2) = true).
    { apply (Sb p). cbn. rewrite path_eqb_refl. reflexivity. }
    split; [|split].
    - intros q Hq. assert (Hqp : q <> p) by (intro; subst; congruence).
      destruct (S1 q Hq) as [Hc1 Hf1].
      assert (Hcs : mem_path q (k_claimedF (core_start s0 p fname sa skw)) = true) by (cbn; cbn in Hc1; rewrite Hc1; apply orb_true_r).
      destruct (Sb q Hcs) as [Hc2 Hf2]. split; [rewrite CF; exact Hc2|].
      intro g'. rewrite <- Hf1. subst s3. unfold file_at. cbn [core_done ks_with k_fs]. rewrite (Hoth q Hqp).
      fold (file_at (k_fs s2) q g'). rewrite Hf2. unfold file_at. cbn [core_start klog ks_with k_fs].
      rewrite try_remove_frame by exact Hqp. tauto.
    - intros q Hq. pose proof (D1 q Hq) as Hq0.
      assert (Hqs : isdir (k_fs (core_start s0 p fname sa skw)) q = true) by (cbn; apply try_remove_keeps_isdir; exact Hq0).
      pose proof (Db q Hqs) as Hq2. subst s3. unfold isdir. cbn [core_done ks_with k_fs].
      assert (Hqp : q <> p). { intro; subst q. unfold isdir in Hq2. destruct (lookup (k_fs s2) p) as [[x|]|]; try discriminate. congruence. }
      rewrite (Hoth q Hqp). exact Hq2.
    - intro C. pose proof (C1 C) as C0.
      assert (Hnf0 : isfile (k_fs s0) p = false).
      { destruct (isfile (k_fs s0) p) eqn:Ei; [|reflexivity]. unfold isfile in Ei, Hpt0.
        destruct (C0 p) as [H0|[_ [[H2 _]|[g' [_ H3]]]]].
        - rewrite H0 in Ei. rewrite Ei in Hpt0. discriminate.
        - rewrite H2 in Ei. discriminate.
        - cbn in H3. congruence. }
      assert (Cs : CB (core_start s0 p fname sa skw)).
      { intro q. cbn [core_start klog ks_with k_fs k_made k_claimedF]. rewrite (try_remove_noop _ _ Hnf0).
        destruct (C0 q) as [H0|[H1 [[H2 H3]|[g' [H2 H3]]]]]; [left; exact H0|right; auto|right].
        split; [exact H1|]. right. exists g'. split; [exact H2|]. cbn. cbn in H3. rewrite H3. apply orb_true_r. }
      pose proof (Cb Cs) as C2. subst s3.
      eapply (CB_put s2 fs3 p g C2 Hne Hg Hoth); try reflexivity; auto.
      unfold isdir. destruct (lookup (k_fs s2) p) as [[x|]|]; try reflexivity. congruence.
  Qed.

  Lemma good_subhit_outputs : forall s o, GoodEnd s -> (forall e, In e (fst (tree_regs o)) -> In e (k_newF s)) -> op_clean o = true ->
    forall q, In q (tree_outputs o) -> In q (fst (tree_claims o)) /\ isfile t0 q = false.
  Proof. exact good_hit_outputs. Qed.

  Lemma P_subhit_T : forall s fname sa skw subs1 ret1 r,
    existsb (py_eq (subbuild_key fname sa skw)) (k_claimedS s) = false ->
    core_subhit s fname (subbuild_key fname sa skw) = Some (subs1, ret1, r) ->
    GoodEnd (adopt s r (OSubbuild fname sa skw subs1 ret1 false false)) ->
    TRel s (adopt s r (OSubbuild fname sa skw subs1 ret1 false false)).
  Proof.
    intros s fname sa skw subs1 ret1 r _ Hh HG.
    set (o := OSubbuild fname sa skw subs1 ret1 false false) in *.
    pose proof (core_subhit_ok _ _ _ _ _ _ Hh) as Hk.
    assert (Hco : op_clean o = true).
    { destruct HG as [_ G2]. apply (G2 (subbuild_key fname sa skw, o)). cbn [adopt ks_with k_newS]. apply in_or_app. right.
      unfold o. rewrite tree_regs_SB. left. reflexivity. }
    pose proof Hco as Hco'. apply op_clean_SB in Hco'. destruct Hco' as [_ [_ Hcs]].
    pose proof (kreplay_RepL _ _ Hcs _ _ Hk) as HR.
    apply (adopt_TRel s subs1 r o HR).
    intros q Hq. apply (good_hit_outputs _ o HG); [|exact Hco|exact Hq].
    intros e He. cbn [adopt ks_with k_newF]. apply in_or_app. right. exact He.
  Qed.

  Theorem run_tree : forall pr tgt pend s s' out pend' new,
    Run pr tgt pend s s' out pend' new -> GoodEnd s' -> TRel s s'.
  Proof.
    apply (run_rel GoodEnd good_mono TRel TRel_refl TRel_trans).
    - intros s e. apply TRel_same_tree; auto.
    - intros s. apply TRel_same_tree; auto.
    - exact P_hit_T.
    - exact P_run_T.
    - exact P_subhit_T.
    - intros s fname sa skw s2 o H. eapply TRel_trans; [|eapply TRel_trans; [exact H|]].
      + apply TRel_same_tree; auto.
      + apply TRel_same_tree; auto.
  Qed.
End Tree.
