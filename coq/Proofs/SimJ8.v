(* Proofs/SimJ8.v — HASH records in the PREVIOUS cache, part 8: the build_file node and the
   subbuild node for the relation Sim5 (SimC10.bf_node5, SimC11.sb_node5), for previous caches
   of the class SimJ4.okcH and for ANY comparison mode of the build_file call: no side
   condition CmpMeta (SimC12) / CmpOk (SimG1) is left.                                        *)
From Coq Require Import List String Ascii NArith ZArith Bool Arith Lia.
From FB.Base Require Import PyVal Fs.
From FB.Gen Require Import JsonUtilGen.
From FB.Spec Require Import JsonSpec Prog Ref Oracle Faithful.
From FB.Model Require Import Types Monad CreatedFiles BuildDirs SimpleOps Builder Persist Build Run Frame Core CoreOracle.
From FB.Proofs Require Import FsLemmas JsonLaws ReplayLaws CleanLaws BuildFileLaws HashMemoInv HashMemoRun CoreLaws1 CoreLaws2 CoreLaws3 CoreLaws4 CoreLaws6
     ViewDefs ViewLemmas ViewFrame ViewInit ViewPres ViewXDefs ViewXFrame ViewXError ViewXQuery ViewXSteps ViewXMake1 ViewXMake2 ViewXFail ViewXSetup ViewXRun
     ViewH7 ViewR1 ViewR2 ViewR3 ViewR9 ViewK1 ViewK2 ViewK3 ViewK4 ViewK5 ViewK7 ViewK8
     SimA0 SimARun SimA1 SimA1Keys SimA1Vlog SimA2Base SimA2 SimA3 SimA3Built SimA3Log SimA3Cf SimA2Claim SimA2Pre SimA2Finish SimA2Sub SimA2Node SimAStart SimAMain
     SimC0 SimC6 SimC7 SimC8 SimC9 SimC10 SimC11 SimJ4 SimJ5 SimJ6 SimJ7.
Import ListNotations.
Open Scope list_scope.
Open Scope m_scope.

Local Notation RInv2' := (RInv2 (fun _ => True)).

Section Node5H.
  Variable c0 : N.

  Theorem bf_node5H : forall st p cmpc fname a kw fn T W w s tg pend w1 r o,
    okcH c0 (w_old w) ->
    tgt_conds st (w_old w) p ->
    bf_body_ok5 c0 st (w_old w) p (fn p) ->
    Sim5 c0 T W w s -> Ctx4 st tg pend w ->
    m_build_file p cmpc fname a kw (fun p' sa skw w' => run (fn p' sa skw) (Some p') [] w') w = (w1, (r, o)) ->
    forall s1 r' o',
      core_bf_node p cmpc fname a kw (fun sa skw => core_run (fn p sa skw) (Some p) None []) s = (s1, (r', o')) ->
      node_post5 c0 st tg pend W w w1 r o s s1 r' o'.
  Proof.
    intros st p cmpc fname a kw fn T W w s tg pend w1 r o Hokc Hconds Hbody [HS HE] HC E1 s1 r' o' E2.
    pose proof HS as [[HP HL] [HI [HK HWb]]].
    destruct built as (Bclaim & Bpre & Blook & Breuse & Bfin & _).
    pose proof (node_HInv _ _ _ _ _ _ _ _ _ HI HK E1) as HI1.
    pose proof (node_old _ _ _ _ _ _ _ _ _ E1) as Hold1.
    pose proof (node_TSA tg _ _ _ _ _ _ _ _ _ HK (c4_tsa _ _ _ _ HC) E1) as HT1.
    assert (HK1: old_keys_ok (w_old w1)) by (rewrite Hold1; exact HK).
    pose proof (node_tq _ _ _ _ _ _ _ _ _ E1) as Htq1.
    pose proof (node_claims_has _ _ _ _ _ _ _ _ _ E1) as Hcl1.
    destruct (extra_mech c0 W w s w1 HE Htq1 Hcl1) as (M1 & M2 & M3).
    (* the common end *)
    assert (Hend: forall T' W' ro,
              Sim4c T' W' w1 s1 -> (forall y, inprog w1 y <-> inprog w y) ->
              (forall y, In y st -> lookup (w_fs w1) y = lookup (w_fs w) y) ->
              r = ro -> r' = ro -> orec_rel o o' -> Wincl W W' -> Wincl W' (c_built (w_new w1)) ->
              Extra c0 W' w1 s1 -> (k_clock s <= k_clock s1)%N ->
              node_post5 c0 st tg pend W w w1 r o s s1 r' o').
    { intros T' W' ro HS1 Hp1 Hf1 Er Er' Ho HW HWb1 HE1 Hck. exists T', W'.
      split; [split; [split; [exact HS1|split; [exact HI1|split; [exact HK1|exact HWb1]]]|exact HE1]|].
      split; [apply (ctx4_restore st tg pend w w1 HC Hp1 Hf1 HT1)|].
      split; [exact Hf1|]. split; [congruence|]. split; [exact Ho|]. split; [exact HW|]. split; [exact Hold1|exact Hck]. }
    (* Extra when Core's state is unchanged *)
    assert (HEsame: Extra c0 W w1 s).
    { constructor; [exact M1|exact M2|apply (ex_kclock _ _ _ _ HE)|exact M3|apply (ex_knew _ _ _ _ HE)]. }
    rewrite m_build_file_unfold in E1. unfold core_bf_node in E2.
    destruct (sanitize a) as [sa|].
    2:{ inversion E1; inversion E2; subst.
        apply (Hend T W (inr XType) (conj HP HL)); [intro; reflexivity|intros; reflexivity|reflexivity|reflexivity|exact I|apply Wincl_refl|exact HWb|exact HE|apply N.le_refl]. }
    destruct (sanitize kw) as [skw|].
    2:{ inversion E1; inversion E2; subst.
        apply (Hend T W (inr XType) (conj HP HL)); [intro; reflexivity|intros; reflexivity|reflexivity|reflexivity|exact I|apply Wincl_refl|exact HWb|exact HE|apply N.le_refl]. }
    cbv zeta in E2.
    destruct (bf_setup p cmpc fname sa skw w) as [wS rS] eqn:Es.
    pose proof Es as Es0. rewrite bf_setup_pre in Es.
    apply bind_inv in Es. destruct Es as [[wb [u [Epre Es]]]|[e [Epre Er]]].
    2:{ (* the setup fails before the reservation *)
        subst rS. pose proof (pre_ok st tg pend T W w s p wS (inr e) (conj HP HL) HC Hconds Epre) as (Hcore & HS1 & Hn1 & Hf1 & Ho1).
        inversion E1; subst w1 r o.
        assert (E2': (s, (@inr pyval exn e, Some (OBuildFile p cmpc fname sa skw [] PNone PNone true true))) = (s1, (r', o'))).
        { destruct Hcore as [Hc|[Hc Hs]]; [rewrite Hc in E2; exact E2|rewrite Hc, Hs in E2; exact E2]. }
        inversion E2'; subst s1 r' o'.
        apply (Hend T W (inr e) HS1); [|exact Hf1|reflexivity|reflexivity|apply rec_rel_refl|apply Wincl_refl|rewrite Hn1; exact HWb|exact HEsame|apply N.le_refl].
        intro y. unfold inprog. rewrite Hn1. reflexivity. }
    destruct u.
    pose proof (pre_ok st tg pend T W w s p wb (inl tt) (conj HP HL) HC Hconds Epre)
      as (Hcc & fs1 & dirs & Hsf & HSS & Hnb & Hfb & Hob).
    rewrite Hcc, Hsf in E2.
    set (s0 := core_s0 s p fs1 dirs) in *.
    pose proof HSS as (HPb & HLb & Huncb & Hndb).
    pose proof (s4_rinv _ _ _ _ HPb) as HR2b.
    (* what the lookup theorems need *)
    assert (Hncfb: path_eqb p (w_cachefile wb) = false).
    { rewrite <- (s3_cf _ _ _ (s4_sim _ _ _ _ HPb)). change (k_cachefile s0) with (k_cachefile s).
      unfold claim_check in Hcc. destruct (mem_path p (k_claimedF s)); [discriminate|].
      destruct (path_eqb p (k_cachefile s)); [discriminate|reflexivity]. }
    assert (HWclb: forall q, mem_path q W = true -> cache_has_file (w_new wb) q = true).
    { intros q Hq. rewrite Hnb. apply (ex_cl _ _ _ _ HE q Hq). }
    pose proof (bf_pre_fstep _ _ _ _ Epre) as (_ & _ & _ & Hfsub).
    assert (Hnewb: forall q g, mem_path q W = true ->
              lookup (w_fs wb) q = Some (NFile g) \/ lookup (k_fs s0) q = Some (NFile g) -> (c0 < f_mtime g)%N).
    { intros q g Hq [Hg|Hg].
      - apply (ex_wnew _ _ _ _ HE q g Hq). apply Hfsub. exact Hg.
      - apply (ex_knew _ _ _ _ HE q g Hq). apply (setup_fs_files _ _ _ _ _ (s4_kwf _ _ _ _ HP) Hsf q g Hg). }
    assert (Hokb: okcH c0 (w_old wb)) by (rewrite Hob; exact Hokc).
    assert (HIb: HInv wb) by (apply (fstep_brel w wb (bf_pre_fstep _ _ _ _ Epre) HI)).
    (* the lookup *)
    unfold catch in Es. destruct (bf_try p cmpc fname sa skw wb) as [wt rt] eqn:Et.
    unfold bf_try in Et. apply bind_inv in Et.
    destruct Et as [[wl [cached [El Et]]]|[e [El _]]].
    2:{ exfalso. apply (proj1 (noraise_holds (fun _ => True) _ _ HR2b) p fname sa skw wt e). exact El. }
    pose proof (build_file_cache_lookup_q _ _ _ _ _ _ _ El) as Ql.
    pose proof (simsetup_qrel _ _ _ _ _ _ HSS Ql) as HSSl.
    pose proof (RInv_X _ _ (RInv2_R' _ _ HR2b)) as HXb.
    destruct (qrel_facts _ _ _ HXb Ql) as (_ & Sl & _ & _).
    pose proof (file_lookup5H c0 T W wb s0 p Hokb HIb HSS (proj1 Hconds) Hncfb HWclb Hnewb fname sa skw wl cached El) as Hdec.
    change (core_hit s s0 p fname sa skw) with (core_hit s0 s0 p fname sa skw) in E2.
    apply bind_inv in Et.
    destruct cached as [co|].
    - (* both sides accept the record *)
      destruct (core_hit s0 s0 p fname sa skw) as [[[[fnode subs'] ret'] rr]|] eqn:Eh.
      2:{ exfalso. destruct Hdec as [_ Hdec]. specialize (Hdec eq_refl). discriminate. }
      destruct Et as [[wr [reused [Er Et]]]|[e [Er _]]].
      2:{ exfalso. destruct (file_hit5H c0 T W wb s0 p cmpc Hokb HIb HSS (proj1 Hconds) Hncfb HWclb Hnewb fname sa skw wl co wt (inr e) fnode subs' ret' rr El Eh Er)
            as (T' & X & _). discriminate. }
      destruct (file_hit5H c0 T W wb s0 p cmpc Hokb HIb HSS (proj1 Hconds) Hncfb HWclb Hnewb fname sa skw wl co wr (inl reused) fnode subs' ret' rr El Eh Er)
        as (T' & X & HS2 & Hp2 & Hfs2 & Ho2 & Hk2).
      inversion X; subst reused. clear X.
      inversion Et; subst wt rt. inversion Es; subst wS rS.
      inversion E1; subst w1 r o. inversion E2; subst s1 r' o'.
      apply (Hend T' W (inl ret') HS2); [| |reflexivity|reflexivity|apply rec_rel_refl|apply Wincl_refl| | |].
      + intro y. rewrite Hp2. unfold inprog. rewrite Hnb. reflexivity.
      + intros y Hy. rewrite Hfs2. apply Hfb. exact Hy.
      + rewrite (Breuse _ _ _ _ _ _ _ _ _ Er), (Blook _ _ _ _ _ _ _ El), (Bpre _ _ _ _ Epre). exact HWb.
      + constructor; [exact M1|exact M2|apply (ex_kclock _ _ _ _ HE)|exact M3|].
        intros x g Hx Hg. apply (ex_knew _ _ _ _ HE x g Hx).
        apply (setup_fs_files _ _ _ _ _ (s4_kwf _ _ _ _ HP) Hsf x g). apply (Hk2 x g Hx Hg).
      + apply N.le_refl.
    - (* both sides miss: the function runs *)
      destruct Hdec as [Hdec _]. specialize (Hdec eq_refl). rewrite Hdec in E2.
      destruct Et as [[wr [reused [Er Et]]]|[e [Er _]]]; [|cbn in Er; discriminate].
      cbn [bf_reuse] in Er. inversion Er; subst wr reused.
      destruct (claim_ok T W wl s0 p fname sa skw wt rt HSSl (proj1 Hconds) Et) as (Ert & HS2 & Hp2 & Hf2 & Hnone2 & Ho2).
      subst rt. inversion Es; subst wS rS.
      destruct (bf_setup_None _ _ _ _ _ _ _ Es0 HI) as (HIt & Hpt & Hnft & Hnot).
      unfold bf_rebuild in E1. cbv beta in E1.
      destruct (run (fn p sa skw) (Some p) [] (bf_invoke_world p fname sa skw wt)) as [w3 [res subs3]] eqn:Ef.
      destruct (core_run (fn p sa skw) (Some p) None [] (CoreLaws3.core_start s0 p fname sa skw)) as [s2 [[res' pend2] bsubs]] eqn:Ec.
      destruct (core_finish s2 p cmpc fname sa skw bsubs res' pend2) as [[s3 out] o3] eqn:Efin.
      inversion E2; subst s1 r' o'.
      assert (Holdt: w_old wt = w_old w).
      { rewrite Ho2. rewrite (sv_old _ _ Sl). exact Hob. }
      assert (Hpst: ~ In p st).
      { intro Hin. apply (proj2 (c4_prog _ _ _ _ HC p)) in Hin. unfold inprog in Hin.
        pose proof HSS as (_ & _ & Hu & _). unfold cache_has_file in Hu. rewrite Hnb, Hin in Hu. discriminate. }
      assert (HS0: Sim4 (p :: T) (p :: W) (bf_invoke_world p fname sa skw wt) (CoreLaws3.core_start s0 p fname sa skw)).
      { split; [exact HS2|]. split; [apply HInv_set_log; exact HIt|]. split; [cbn [bf_invoke_world w_old set_log]; rewrite Holdt; exact HK|].
        cbn [bf_invoke_world w_new set_log]. rewrite (Bclaim _ _ _ _ Et), (Blook _ _ _ _ _ _ _ El), (Bpre _ _ _ _ Epre).
        intros x Hx. cbn [mem_path] in Hx. rewrite ViewXMkfail.mem_app_path. cbn [mem_path]. rewrite orb_false_r.
        destruct (path_eqb p x) eqn:Epx; [rewrite orb_true_r; reflexivity|]. cbn [orb] in Hx. rewrite (HWb x Hx). reflexivity. }
      (* Extra when the function starts *)
      pose proof (bf_setup_tq p cmpc fname sa skw w wt _ Es0) as Htqt.
      assert (HE0: Extra c0 (p :: W) (bf_invoke_world p fname sa skw wt) (CoreLaws3.core_start s0 p fname sa skw)).
      { constructor.
        - intros x Hx. rewrite <- (s3_claimsF _ _ _ (s4_sim _ _ _ _ (proj1 HS2)) x).
          cbn [CoreLaws3.core_start klog ks_with k_claimedF core_s0 s0 mem_path] in *.
          destruct (path_eqb p x); [reflexivity|]. cbn [orb] in Hx |- *.
          rewrite (s3_claimsF _ _ _ (s4_sim _ _ _ _ HP) x). apply (ex_cl _ _ _ _ HE x Hx).
        - cbn [bf_invoke_world w_clock set_log]. eapply N.le_trans; [apply (ex_wclock _ _ _ _ HE)|apply Htqt].
        - cbn [CoreLaws3.core_start klog ks_with k_clock core_s0 s0]. apply (ex_kclock _ _ _ _ HE).
        - intros x g Hx Hg. cbn [bf_invoke_world w_fs set_log] in Hg. cbn [mem_path] in Hx.
          destruct (path_eqb p x) eqn:Epx; [apply path_eqb_eq in Epx; subst x; congruence|]. cbn [orb] in Hx.
          destruct (proj2 Htqt x g Hg) as [K|K]; [apply (ex_wnew _ _ _ _ HE x g Hx K)|].
          eapply N.le_lt_trans; [apply (ex_wclock _ _ _ _ HE)|exact K].
        - intros x g Hx Hg. cbn [mem_path] in Hx.
          destruct (path_eqb p x) eqn:Epx.
          + (* the target itself: nothing is there in Core's tree *)
            apply path_eqb_eq in Epx. subst x. exfalso.
            pose proof (s3_tree _ _ _ (s4_sim _ _ _ _ (proj1 HS2)) p) as Kt. cbn [mem_path] in Kt. rewrite path_eqb_refl in Kt. cbn [orb] in Kt.
            rewrite Hg in Kt.
            assert (Kv: lookup (view_fs (bf_invoke_world p fname sa skw wt)) p = None).
            { destruct p as [|n d]; [cbn in Hnone2; discriminate|].
              rewrite lookup_view by discriminate. cbn [bf_invoke_world w_fs set_log]. rewrite Hnone2.
              destruct (visible _ _); reflexivity. }
            rewrite Kv in Kt. exact Kt.
          + cbn [orb] in Hx. apply (ex_knew _ _ _ _ HE x g Hx).
            apply (setup_fs_files _ _ _ _ _ (s4_kwf _ _ _ _ HP) Hsf x g).
            cbn [CoreLaws3.core_start klog ks_with k_fs core_s0 s0] in Hg. apply (try_remove_file _ _ _ _ Hg). }
      assert (HC0: Ctx4 (p :: st) (Some p) None (bf_invoke_world p fname sa skw wt)).
      { constructor.
        - intro y. change (inprog (bf_invoke_world p fname sa skw wt) y) with (inprog wt y). rewrite Hp2.
          assert (Hwl: inprog wl y <-> inprog w y) by (unfold inprog; rewrite (sv_new _ _ Sl), Hnb; reflexivity).
          rewrite Hwl, (c4_prog _ _ _ _ HC y). cbn [In]. split; [intros [H|H]; [right; exact H|left; symmetry; exact H]|intros [H|H]; [right; symmetry; exact H|left; exact H]].
        - intros q Eq. inversion Eq; subst q. split; [left; reflexivity|exact (proj1 Hconds)].
        - cbn [pend_rel bf_invoke_world w_new w_fs set_log]. split; [exact Hpt|exact Hnft].
        - intros y Hy. cbn [bf_invoke_world w_fs set_log]. destruct Hy as [<-|Hy].
          + unfold isdir. rewrite Hnone2. reflexivity.
          + assert (Hne: y <> p) by (intro; subst; contradiction).
            unfold isdir. rewrite (Hf2 y Hne), (sv_fs _ _ Sl), (Hfb y Hy). apply (c4_nodir _ _ _ _ HC y Hy).
        - intros t Et0. inversion Et0; subst t. split; [exact Hpt|exact Hnot]. }
      destruct (Hbody sa skw (p :: T) (p :: W) (bf_invoke_world p fname sa skw wt) (CoreLaws3.core_start s0 p fname sa skw)
                      w3 res subs3 s2 res' pend2 bsubs Holdt (conj HS0 HE0) HC0 Ef Ec)
        as (T3 & W3 & [HS3 HE3] & HC3 & Hfr3 & Eres & Hsubs3 & HW3 & Ho3 & Hck3 & Hpc3).
      subst res'. destruct HS3 as [HS3c [HI3 [HK3 HWb3]]].
      assert (Hpcf: p <> w_cachefile w3).
      { rewrite (run_cf _ _ _ _ _ _ Ef).
        rewrite <- (s3_cf _ _ _ (s4_sim _ _ _ _ (proj1 HS2))). cbn [CoreLaws3.core_start klog ks_with k_cachefile core_s0 s0].
        unfold claim_check in Hcc. destruct (mem_path p (k_claimedF s)); [discriminate|].
        destruct (path_eqb p (k_cachefile s)) eqn:Ecf; [discriminate|]. apply path_eqb_neq. exact Ecf. }
      destruct (finish_ok_cf st T3 W3 w3 s2 p cmpc fname sa skw res subs3 bsubs pend2 w1 r o s3 out o3 HS3c HI3 HC3
                       (HW3 p (eq_trans (f_equal (fun b => b || mem_path p W) (path_eqb_refl p)) eq_refl)) Hpcf Hsubs3 E1 Efin)
        as (T' & HS' & Eout & Horec & Hp' & Hf' & Ho').
      (* Extra after the end of the function *)
      pose proof (bf_finish_tq p cmpc fname sa skw res subs3 w3 w1 _ E1) as Htqf.
      assert (Ecl3: forall x, mem_path x (k_claimedF s3) = mem_path x (k_claimedF s2)).
      { intro x. unfold core_finish in Efin. cbv zeta in Efin.
        destruct res as [v|e]; [destruct (sanitize v) as [sv|]; [destruct pend2 as [bytes|];
          [destruct (write_file (k_fs s2) p bytes None (k_clock s2) (k_nextid s2))|]|]|]; inversion Efin; subst; reflexivity. }
      assert (Eck3: k_clock s3 = k_clock s2).
      { unfold core_finish in Efin. cbv zeta in Efin.
        destruct res as [v|e]; [destruct (sanitize v) as [sv|]; [destruct pend2 as [bytes|];
          [destruct (write_file (k_fs s2) p bytes None (k_clock s2) (k_nextid s2))|]|]|]; inversion Efin; subst; reflexivity. }
      assert (Efs3: forall x g, lookup (k_fs s3) x = Some (NFile g) -> lookup (k_fs s2) x = Some (NFile g) \/ (c0 < f_mtime g)%N).
      { intros x g Hg. unfold core_finish in Efin. cbv zeta in Efin.
        assert (Hprune: forall oo, lookup (k_fs (core_prune s2 p oo)) x = Some (NFile g) -> lookup (k_fs s2) x = Some (NFile g)).
        { intros oo Hx. cbn [core_prune ks_with k_fs] in Hx. apply (fold_try_rmdir_file' _ _ _ _ Hx). }
        destruct res as [v|e]; [|inversion Efin; subst; left; eapply Hprune; exact Hg].
        destruct (sanitize v) as [sv|]; [|inversion Efin; subst; left; eapply Hprune; exact Hg].
        destruct pend2 as [bytes|]; [|inversion Efin; subst; left; eapply Hprune; exact Hg].
        destruct (write_file (k_fs s2) p bytes None (k_clock s2) (k_nextid s2)) as [fs3|e] eqn:Ew; [|inversion Efin; subst; left; eapply Hprune; exact Hg].
        inversion Efin; subst. cbn [ks_with k_fs] in Hg.
        destruct (write_file_frame _ _ _ _ _ _ _ Ew) as [[g0 [Hg0 [_ [Hm _]]]] Hoth].
        destruct (list_eq_dec string_dec x p) as [->|Hne].
        - right. rewrite Hg0 in Hg. inversion Hg; subst g. rewrite Hm. apply Hpc3. discriminate.
        - left. rewrite (Hoth x Hne) in Hg. exact Hg. }
      assert (HE': Extra c0 W3 w1 s3).
      { constructor.
        - intros x Hx. rewrite (sim3_claims_eq W3 w3 s2 W3 w1 s3 (s4_sim _ _ _ _ (proj1 HS3c)) (s4_sim _ _ _ _ (proj1 HS')) Ecl3 x).
          apply (ex_cl _ _ _ _ HE3 x Hx).
        - eapply N.le_trans; [apply (ex_wclock _ _ _ _ HE3)|apply Htqf].
        - rewrite Eck3. apply (ex_kclock _ _ _ _ HE3).
        - intros x g Hx Hg. destruct (proj2 Htqf x g Hg) as [K|K]; [apply (ex_wnew _ _ _ _ HE3 x g Hx K)|].
          eapply N.le_lt_trans; [apply (ex_wclock _ _ _ _ HE3)|exact K].
        - intros x g Hx Hg. destruct (Efs3 x g Hg) as [K|K]; [apply (ex_knew _ _ _ _ HE3 x g Hx K)|exact K]. }
      apply (Hend T' W3 out HS'); [| |exact Eout|reflexivity| | |rewrite (Bfin _ _ _ _ _ _ _ _ _ _ E1); exact HWb3|exact HE'|].
      + intro y. rewrite Hp'. rewrite (c4_prog _ _ _ _ HC3 y), (c4_prog _ _ _ _ HC y). cbn [In].
        split; [intros [[H|H] Hne]; [exfalso; apply Hne; symmetry; exact H|exact H]|intro H; split; [right; exact H|intro; subst; contradiction]].
      + intros y Hy. assert (Hne: y <> p) by (intro; subst; contradiction).
        rewrite (Hf' y Hne). rewrite (Hfr3 y (or_intror Hy)) by (intro X; inversion X; subst; contradiction).
        cbn [bf_invoke_world w_fs set_log]. rewrite (Hf2 y Hne), (sv_fs _ _ Sl). apply Hfb. exact Hy.
      + destruct o as [x|]; [exact Horec|destruct Horec].
      + intros x Hx. apply HW3. cbn [mem_path]. rewrite Hx. apply orb_true_r.
      + rewrite Eck3. eapply N.le_trans; [|exact Hck3]. apply N.le_refl.
  Qed.
End Node5H.

Section SubNode5H.
  Variable c0 : N.

  Theorem sb_node5H : forall st fname a kw fn T W w s tg pend w1 r o,
    okcH c0 (w_old w) ->
    pv_wf a = true -> pv_wf kw = true ->
    sb_body_ok5 c0 st (w_old w) fn ->
    Sim5 c0 T W w s -> Ctx4 st tg pend w ->
    m_subbuild fname a kw (fun sa skw w' => run (fn sa skw) None [] w') w = (w1, (r, o)) ->
    forall s1 r' o',
      core_sb_node fname a kw (fun sa skw => core_run (fn sa skw) None None []) s = (s1, (r', o')) ->
      node_post5 c0 st tg pend W w w1 r o s s1 r' o'.
  Proof.
    intros st f a kw fn T W w s tg pend w1 r o Hokc Wa Wk Hbody [HS HE] HC Hm s1 r' o' Hc.
    pose proof HS as [[HP HL] [HI [HK HB]]].
    pose proof (s4_sim _ _ _ _ HP) as HS3. pose proof (s4_rinv _ _ _ _ HP) as HR2.
    assert (HI1: HInv w1).
    { apply (m_subbuild_HInv f a kw (fun sa skw w' => run (fn sa skw) None [] w') w w1 (r, o)); [|exact Hm|exact HI|exact HK].
      intros sa skw w2 w3 r0 Hi2 Hk2 E. apply (run_HInv (fn sa skw) None [] w2 w3 r0 Hi2 Hk2); [|exact E].
      intros t Et. discriminate. }
    assert (HO1: w_old w1 = w_old w).
    { refine (m_subbuild_O f a kw (fun sa skw w' => run (fn sa skw) None [] w') _ w w1 _ Hm).
      intros sa skw. apply run_O. }
    assert (HT1: TSA tg w1).
    { apply (TSA_call tg w w1 HK); [|apply (c4_tsa _ _ _ _ HC)].
      intros t Et. refine (m_subbuild_P t f a kw (fun sa skw w' => run (fn sa skw) None [] w') _ w w1 _ Hm).
      intros sa skw. apply (run_P t (fn sa skw) None []). discriminate. }
    pose proof (subnode_tq _ _ _ _ _ _ _ Hm) as Htq1.
    pose proof (subnode_claims_has _ _ _ _ _ _ _ Hm) as Hcl1.
    destruct (extra_mech c0 W w s w1 HE Htq1 Hcl1) as (M1 & M2 & M3).
    rewrite m_subbuild_unfold in Hm. unfold core_sb_node in Hc.
    destruct (sanitize a) as [sa|] eqn:Sa.
    2:{ inversion Hm; inversion Hc; subst. apply (node_post5_same c0 st tg pend T W); [split; assumption|exact HC|exact I]. }
    destruct (sanitize kw) as [skw|] eqn:Sk.
    2:{ inversion Hm; inversion Hc; subst. apply (node_post5_same c0 st tg pend T W); [split; assumption|exact HC|exact I]. }
    cbv zeta in Hc.
    pose proof (wfkey_subbuild_key f a kw sa skw Wa Wk Sa Sk) as Hw.
    rewrite (s3_claimsS _ _ _ HS3 (subbuild_key f sa skw)) in Hc.
    destruct (sb_setup f sa skw w) as [w1' r1] eqn:Hs.
    destruct (sb_setup_cases _ _ _ _ _ _ Hs) as [(Hdup & -> & ->)|(Hunc & wl & x & El & Hx)].
    - rewrite Hdup in Hc. inversion Hm; inversion Hc; subst.
      apply (node_post5_same c0 st tg pend T W); [split; assumption|exact HC|apply orec_rel_refl].
    - rewrite Hunc in Hc.
      destruct x as [cached|e]; [|exfalso; exact (proj2 (noraise_holds (fun _ => True) T w HR2) _ _ _ _ El)].
      assert (HWcl: forall q, mem_path q W = true -> cache_has_file (w_new w) q = true) by (apply (ex_cl _ _ _ _ HE)).
      assert (Hnew: forall q g, mem_path q W = true ->
                lookup (w_fs w) q = Some (NFile g) \/ lookup (k_fs s) q = Some (NFile g) -> (c0 < f_mtime g)%N).
      { intros q g Hq [Hg|Hg]; [apply (ex_wnew _ _ _ _ HE q g Hq Hg)|apply (ex_knew _ _ _ _ HE q g Hq Hg)]. }
      pose proof (sub_lookup5H c0 T W w s (subbuild_key f sa skw) Hokc HI (conj HP HL) HWcl Hnew f wl cached El) as Hdec.
      destruct cached as [co|].
      + (* the lookup found a record *)
        destruct (core_subhit s f (subbuild_key f sa skw)) as [[[subs' ret'] rr]|] eqn:Eh.
        2:{ exfalso. destruct Hdec as [_ D]. discriminate (D eq_refl). }
        destruct r1 as [r1|e1].
        2:{ exfalso. destruct (sub_hit5H c0 T W w s Hokc HI (conj HP HL) HWcl Hnew f sa skw wl co w1' (inr e1) subs' ret' rr Hw Hunc El Eh Hx)
              as (T' & X & _). discriminate. }
        destruct (sub_hit5H c0 T W w s Hokc HI (conj HP HL) HWcl Hnew f sa skw wl co w1' (inl r1) subs' ret' rr Hw Hunc El Eh Hx)
          as (T' & X & HS' & Hprog & Hfs' & Hold & Hk').
        inversion X; subst r1. clear X.
        inversion Hm; subst w1' r o. inversion Hc; subst s1 r' o'.
        exists T', W. split; [|split; [|split; [|split; [|split; [|split; [|split]]]]]].
        * split.
          -- split; [exact HS'|]. split; [exact HI1|]. split; [rewrite Hold; exact HK|].
             rewrite (sb_setup_built built _ _ _ _ _ _ Hs). exact HB.
          -- constructor; [exact M1|exact M2|apply (ex_kclock _ _ _ _ HE)|exact M3|].
             intros q g Hq Hg. apply (ex_knew _ _ _ _ HE q g Hq). apply (Hk' q g Hq Hg).
        * apply (ctx4_restore st tg pend w w1 HC Hprog); [|exact HT1].
          intros y Hy. rewrite Hfs'. reflexivity.
        * intros y Hy. rewrite Hfs'. reflexivity.
        * reflexivity.
        * apply rec_rel_refl.
        * apply Wincl_refl.
        * exact Hold.
        * apply N.le_refl.
      + (* the lookup missed: the function runs *)
        destruct Hx as [-> ->].
        destruct (core_subhit s f (subbuild_key f sa skw)) as [[[subs' ret'] rr]|] eqn:Eh.
        { exfalso. destruct Hdec as [D _]. discriminate (D eq_refl). }
        unfold sb_rebuild in Hm.
        destruct (run (fn sa skw) None [] (sb_invoke_world f sa skw (start_world (subbuild_key f sa skw) wl))) as [w3 [res l3]] eqn:Er.
        destruct (core_run (fn sa skw) None None [] (core_substart s f sa skw)) as [s2 [[res' pend3] l3']] eqn:Ec.
        destruct (sb_claim_sim T W w s f sa skw wl HS Hw Hunc El Hs) as (HS2 & Ffs & Fnew & Fold).
        set (key := subbuild_key f sa skw) in *.
        set (w2 := sb_invoke_world f sa skw (start_world key wl)) in *.
        assert (HC2: Ctx4 st None None w2).
        { constructor.
          - intro y. rewrite <- (c4_prog _ _ _ _ HC y). unfold inprog.
            change (c_files (w_new w2)) with (c_files (w_new wl)). rewrite Fnew. reflexivity.
          - intros p Ep. discriminate.
          - exact I.
          - intros y Hy. change (w_fs w2) with (w_fs wl). rewrite Ffs. apply (c4_nodir _ _ _ _ HC y Hy).
          - intros t Et. discriminate. }
        assert (Hold2: w_old w2 = w_old w) by exact Fold.
        assert (Eclk: w_clock w2 = w_clock w).
        { change (w_clock w2) with (w_clock wl).
          pose proof (subbuild_cache_lookup_svb _ _ _ _ _ El) as (_ & A2 & _). exact A2. }
        assert (HE2: Extra c0 W w2 (core_substart s f sa skw)).
        { constructor.
          - intros q Hq. change (cache_has_file (w_new w2) q) with (cache_has_file (w_new wl) q). rewrite Fnew. apply HWcl. exact Hq.
          - rewrite Eclk. apply (ex_wclock _ _ _ _ HE).
          - apply (ex_kclock _ _ _ _ HE).
          - intros q g Hq Hg. change (w_fs w2) with (w_fs wl) in Hg. rewrite Ffs in Hg. apply (ex_wnew _ _ _ _ HE q g Hq Hg).
          - apply (ex_knew _ _ _ _ HE). }
        destruct (Hbody sa skw T W w2 (core_substart s f sa skw) w3 res l3 s2 res' pend3 l3' Hold2 (conj HS2 HE2) HC2 Er Ec)
          as (T3 & W3 & [HS3' HE3] & HC3 & Hfr & <- & Hrecs & HWi & Hold3 & Hck3 & _).
        assert (Hunc': cache_has_subbuild (w_new wl) key = false) by (rewrite Fnew; exact Hunc).
        pose proof (start_world_subs _ _ Hunc') as E2. rewrite Fnew in E2.
        destruct (run_S (fn sa skw) None [] w2 w3 _ Er) as [ext E3].
        change (c_subs (w_new w2)) with (c_subs (w_new (start_world key wl))) in E3. rewrite E2, <- app_assoc in E3.
        cbn [app] in E3.
        pose proof (sb_finish_gl walk_fuel _ _ _ _ _ _ _ _ Hm) as G.
        destruct (sb_finish_world _ _ _ _ _ _ _ _ _ Hm) as (oo & -> & Ew1 & Hcases).
        fold key in Ew1. fold (finish_world key oo w3) in Ew1. subst w1.
        assert (Hrel: rec_rel oo (sub_rec f sa skw l3' res) /\ r = sub_out res).
        { unfold sub_rec, sub_out. destruct Hcases as [(e & -> & -> & ->)|[(v & -> & Ev & -> & ->)|(v & sv & -> & Ev & -> & ->)]].
          - split; [apply rec_rel_SB; exact Hrecs|reflexivity].
          - rewrite Ev. split; [apply rec_rel_SB; exact Hrecs|reflexivity].
          - rewrite Ev. split; [apply rec_rel_SB; exact Hrecs|reflexivity]. }
        destruct Hrel as [Hrel Hr].
        inversion Hc; subst s1 r' o'.
        assert (Hprog: forall y, inprog (finish_world key oo w3) y <-> inprog w y).
        { intro y. rewrite (c4_prog _ _ _ _ HC y). rewrite <- (c4_prog _ _ _ _ HC3 y). reflexivity. }
        assert (Hfiles: forall y, In y st -> lookup (w_fs (finish_world key oo w3)) y = lookup (w_fs w) y).
        { intros y Hy. change (w_fs (finish_world key oo w3)) with (w_fs w3).
          rewrite (Hfr y Hy) by discriminate. change (w_fs w2) with (w_fs wl). rewrite Ffs. reflexivity. }
        exists T3, W3. split; [|split; [|split; [|split; [|split; [|split; [|split]]]]]].
        * split.
          -- apply (sb_finish_sim T3 W3 w3 s2 key (c_subs (w_new w)) ext oo); try assumption.
             apply has_false_none. exact Hunc.
          -- destruct HE3 as [E31 E32 E33 E34 E35]. constructor.
             ++ exact E31.
             ++ exact E32.
             ++ exact E33.
             ++ exact E34.
             ++ exact E35.
        * apply (ctx4_restore st tg pend w _ HC Hprog Hfiles HT1).
        * exact Hfiles.
        * exact Hr.
        * exact Hrel.
        * exact HWi.
        * exact HO1.
        * exact Hck3.
  Qed.
End SubNode5H.

Print Assumptions bf_node5H.
Print Assumptions sb_node5H.
