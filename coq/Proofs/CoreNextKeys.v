(* Proofs/CoreNextKeys.v — the subbuild keys claimed during a build are pairwise different (Python equality),
   so the cache made of the registered records holds every record under a key equal to its own. *)
From Coq Require Import List String Ascii NArith ZArith Bool Arith Lia.
From FB.Base Require Import PyVal Fs.
From FB.Gen Require Import JsonUtilGen.
From FB.Spec Require Import JsonSpec Prog Ref Oracle Faithful.
From FB.Model Require Import Types SimpleOps Builder Persist Core CoreOracle CoreCache.
From FB.Proofs Require Import FsLemmas JsonLaws CleanLaws CoreLawsJson CoreLaws1 CoreLaws2 CoreLaws3 CoreLaws4 CoreLaws5
     CoreNextDefs CoreNextJson CoreNextMono CoreNextFollows CoreNextRegs CoreNextState CoreNextAux.
Import ListNotations.
Local Open Scope list_scope.

(* later elements differ from earlier ones *)
Fixpoint kdl (l : list pyval) : Prop :=
  match l with [] => True | x :: r => (forall y, In y r -> py_eq y x = false) /\ kdl r end.

Lemma kdl_app : forall a b, kdl (a ++ b) <-> kdl a /\ kdl b /\ (forall x y, In x a -> In y b -> py_eq y x = false).
Proof.
  induction a as [|x a IH]; intro b; cbn [app kdl].
  - split; [intro H; repeat split; auto; intros ? ? []|tauto].
  - rewrite IH. split.
    + intros [H1 [H2 [H3 H4]]]. repeat split; auto.
      * intros y Hy. apply H1. apply in_or_app. left. exact Hy.
      * intros x0 y [<-|Hx] Hy; [apply H1; apply in_or_app; right; exact Hy|apply H4; assumption].
    + intros [[H1 H2] [H3 H4]]. repeat split; auto.
      * intros y Hy. apply in_app_or in Hy. destruct Hy as [Hy|Hy]; [apply H1; exact Hy|apply H4; [left; reflexivity|exact Hy]].
      * intros x0 y Hx Hy. apply H4; [right; exact Hx|exact Hy].
Qed.

(* both directions *)
Fixpoint KDf (l : list pyval) : Prop :=
  match l with [] => True | x :: r => (forall y, In y r -> py_eq x y = false /\ py_eq y x = false) /\ KDf r end.

Lemma KDf_app : forall a b, KDf (a ++ b) <-> KDf a /\ KDf b /\ (forall x y, In x a -> In y b -> py_eq x y = false /\ py_eq y x = false).
Proof.
  induction a as [|x a IH]; intro b; cbn [app KDf].
  - split; [intro H; split; [exact I|split; [exact H|intros ? ? []]]|tauto].
  - rewrite IH. split.
    + intros [H1 [H2 [H3 H4]]]. split; [split; [|exact H2]|split; [exact H3|]].
      * intros y Hy. apply H1. apply in_or_app. left. exact Hy.
      * intros x0 y [<-|Hx] Hy; [apply H1; apply in_or_app; right; exact Hy|apply H4; assumption].
    + intros [[H1 H2] [H3 H4]]. split; [|split; [exact H2|split; [exact H3|]]].
      * intros y Hy. apply in_app_or in Hy. destruct Hy as [Hy|Hy]; [apply H1; exact Hy|apply H4; [left; reflexivity|exact Hy]].
      * intros x0 y Hx Hy. apply H4; [right; exact Hx|exact Hy].
Qed.

Lemma kdl_KDf : forall l, Forall goodkey l -> kdl l -> KDf l.
Proof.
  induction l as [|x r IH]; intros G H; [exact I|]. inversion G as [|? ? Gx Gr]; subst. destruct H as [H1 H2]. split; [|auto].
  intros y Hy. rewrite Forall_forall in Gr. rewrite (goodkey_sym x y Gx (Gr y Hy)). split; apply H1; exact Hy.
Qed.

Lemma KDf_distinct : forall l, KDf l -> keys_distinct l.
Proof.
  induction l as [|x r IH]; intros H l1 z l2 E y Hy.
  - destruct l1; discriminate.
  - destruct H as [H1 H2]. destruct l1 as [|w l1]; cbn [app] in E; inversion E; subst.
    + apply H1. exact Hy.
    + eapply IH; eauto.
Qed.

(* ------------------------------------------------------------------ *)
(* keys of a successful trace                                         *)
(* ------------------------------------------------------------------ *)
Section Keys.
  Variable kp : kappa.

  Lemma follows_keys_init : forall pr tgt subs w cl out w' cl',
    follows kp tgt pr subs w cl = Some (out, w', [], cl') ->
    forall x, In x (snd (cll subs)) -> existsb (py_eq x) (snd cl) = false.
  Proof.
    intros pr tgt subs w cl out w' cl' H x Hx.
    pose proof (follows_free _ _ _ _ _ _ _ _ _ H) as Hf.
    destruct (cll_keys_deep _ _ Hx) as (f & a & k & s' & r & ra & sf & Hin & ->).
    pose proof (proj1 (frees_deep _ _ _) Hf _ Hin) as H1. cbn [free1] in H1. apply negb_true_iff in H1. exact H1.
  Qed.

  Lemma existsb_false_In : forall (x : pyval) l y, existsb (py_eq x) l = false -> In y l -> py_eq x y = false.
  Proof.
    intros x l y H Hy. destruct (py_eq x y) eqn:E; [|reflexivity].
    assert (existsb (py_eq x) l = true) by (apply existsb_exists; eauto). congruence.
  Qed.

  Lemma follows_keys : forall pr tgt subs w cl out w' cl',
    follows kp tgt pr subs w cl = Some (out, w', [], cl') -> kdl (snd (cll subs)).
  Proof.
    induction pr as [v|e|st q k IHk|c k IHk|st p c fname a kw fn IHfn k IHk|st fname a kw fn IHfn k IHk];
      intros tgt subs w cl out w' cl' H; cbn [follows] in H.
    - inversion H; subst. exact I.
    - inversion H; subst. exact I.
    - destruct st; [eapply IHk; eauto|].
      destruct subs as [|[q' r ex| |] rest]; try discriminate.
      destruct (negb (query_beq q q')); [discriminate|].
      rewrite cll_cons. cbn [tree_claims snd app].
      destruct ex as [c|]; [eapply IHk; eauto|].
      destruct (user_value kp q r); [eapply IHk; eauto|discriminate].
    - destruct tgt as [p|]; [|eapply IHk; eauto].
      destruct (path_ok p); [eapply IHk; eauto|]. inversion H; subst. exact I.
    - destruct st; [eapply IHk; eauto|].
      destruct (sanitize a) as [sa|]; [|eapply IHk; eauto]. destruct (sanitize kw) as [skw|]; [|eapply IHk; eauto].
      destruct subs as [|[|p' c' f' a' k' nsubs ret_ cmpres raised sf|] rest]; try discriminate.
      destruct (negb (path_eqb p p')); [discriminate|]. destruct sf; [discriminate|].
      destruct (mem_path p (fst cl) || existsb (is_ancestor p) (fst cl)); [discriminate|].
      destruct (follows kp (Some p) (fn p sa skw) nsubs None (fst cl ++ [p], snd cl)) as [[[[out_n bytes_n] rest_n] cl2]|] eqn:En; [|discriminate].
      destruct rest_n; [|discriminate].
      destruct (bf_end kp p c' nsubs ret_ cmpres raised out_n bytes_n cl2) as [o|]; [|discriminate].
      pose proof (follows_claims _ _ _ _ _ _ _ _ _ En) as Hcl2. subst cl2.
      rewrite cll_cons, tree_claims_BF. cbn [snd]. apply kdl_app. split; [eapply IHfn; eauto|]. split; [eapply IHk; eauto|].
      intros x y Hx Hy. pose proof (follows_keys_init _ _ _ _ _ _ _ _ H y Hy) as Hf. cbn [snd] in Hf.
      eapply existsb_false_In; [exact Hf|]. apply in_or_app. right. exact Hx.
    - destruct st; [eapply IHk; eauto|].
      destruct (sanitize a) as [sa|]; [|eapply IHk; eauto]. destruct (sanitize kw) as [skw|]; [|eapply IHk; eauto].
      destruct subs as [|[| |f' a' k' nsubs ret_ raised sf] rest]; try discriminate.
      destruct (String.eqb fname f' && pyval_same a' sa && pyval_same k' skw) eqn:Ek; [|discriminate]. cbn [negb] in H.
      apply andb_true_iff in Ek. destruct Ek as [Ek E3]. apply andb_true_iff in Ek. destruct Ek as [E1 E2].
      apply String.eqb_eq in E1. apply pyval_same_eq in E2, E3. subst f' a' k'.
      destruct sf; [discriminate|].
      destruct (existsb (py_eq (subbuild_key fname sa skw)) (snd cl)); [discriminate|].
      destruct (follows kp None (fn sa skw) nsubs None (fst cl, snd cl ++ [subbuild_key fname sa skw])) as [[[[out_n bytes_n] rest_n] cl2]|] eqn:En; [|discriminate].
      destruct rest_n; [|discriminate].
      destruct (sb_end ret_ raised out_n) as [o|]; [|discriminate].
      pose proof (follows_claims _ _ _ _ _ _ _ _ _ En) as Hcl2. subst cl2.
      rewrite cll_cons, tree_claims_SB. cbn [snd app kdl]. split.
      + intros y Hy. apply in_app_or in Hy. destruct Hy as [Hy|Hy].
        * pose proof (follows_keys_init _ _ _ _ _ _ _ _ En y Hy) as Hf. cbn [snd] in Hf.
          eapply existsb_false_In; [exact Hf|]. apply in_or_app. right. left. reflexivity.
        * pose proof (follows_keys_init _ _ _ _ _ _ _ _ H y Hy) as Hf. cbn [snd] in Hf.
          eapply existsb_false_In; [exact Hf|]. apply in_or_app. left. apply in_or_app. right. left. reflexivity.
      + apply kdl_app. split; [eapply IHfn; eauto|]. split; [eapply IHk; eauto|].
        intros x y Hx Hy. pose proof (follows_keys_init _ _ _ _ _ _ _ _ H y Hy) as Hf. cbn [snd] in Hf.
        eapply existsb_false_In; [exact Hf|]. apply in_or_app. right. exact Hx.
  Qed.
End Keys.

(* the keys claimed by adopting a tree are those it registers *)
Lemma tree_regs_keys : forall o, map fst (snd (tree_regs o)) = snd (tree_claims o).
Proof.
  induction o as [q r e|p c f a k subs r cr ra sf IH|f a k subs r ra sf IH] using op_ind'.
  - reflexivity.
  - assert (L : map fst (snd (rll subs)) = snd (cll subs)).
    { clear -IH. induction subs as [|x rest IHl]; [reflexivity|]. inversion IH as [|? ? Hx Hrest]; subst.
      rewrite rll_cons, cll_cons. cbn [snd]. rewrite map_app, Hx, (IHl Hrest). reflexivity. }
    rewrite tree_regs_BF, tree_claims_BF. destruct sf; exact L.
  - assert (L : map fst (snd (rll subs)) = snd (cll subs)).
    { clear -IH. induction subs as [|x rest IHl]; [reflexivity|]. inversion IH as [|? ? Hx Hrest]; subst.
      rewrite rll_cons, cll_cons. cbn [snd]. rewrite map_app, Hx, (IHl Hrest). reflexivity. }
    rewrite tree_regs_SB, tree_claims_SB. destruct sf; [exact L|]. cbn [snd map fst]. rewrite L. reflexivity.
Qed.


(* ------------------------------------------------------------------ *)
(* the keys claimed and registered during a run                       *)
(* ------------------------------------------------------------------ *)
Definition KD (s : kstate) : Prop :=
  KDf (k_claimedS s) /\ Forall goodkey (k_claimedS s) /\ KDf (map fst (k_newS s)) /\ incl (map fst (k_newS s)) (k_claimedS s).

Lemma KD_adopt : forall s s3 B,
  KD s -> k_claimedS s3 = B ++ k_claimedS s -> map fst (k_newS s3) = map fst (k_newS s) ++ B ->
  kdl B -> Forall goodkey B -> (forall x, In x B -> existsb (py_eq x) (k_claimedS s) = false) -> KD s3.
Proof.
  intros s s3 B [D1 [D2 [D3 D4]]] E1 E2 HB GB Hfr.
  assert (Cross : forall x y, In x B -> In y (k_claimedS s) -> py_eq x y = false /\ py_eq y x = false).
  { intros x y Hx Hy. rewrite Forall_forall in D2, GB. rewrite (goodkey_sym y x (D2 y Hy) (GB x Hx)).
    split; eapply existsb_false_In; eauto. }
  unfold KD. rewrite E1, E2. split; [|split; [|split]].
  - apply KDf_app. split; [apply kdl_KDf; assumption|]. split; [exact D1|exact Cross].
  - apply Forall_app. split; assumption.
  - apply KDf_app. split; [exact D3|]. split; [apply kdl_KDf; assumption|].
    intros x y Hx Hy. destruct (Cross y x Hy (D4 x Hx)). split; assumption.
  - intros x Hx. apply in_app_or in Hx. apply in_or_app. destruct Hx as [Hx|Hx]; [right; apply D4; exact Hx|left; exact Hx].
Qed.

Lemma core_finish_keys : forall s2 p c f sa skw bsubs res pend2 s3 out o,
  core_finish s2 p c f sa skw bsubs res pend2 = (s3, out, o) ->
  k_claimedS s3 = k_claimedS s2 /\ k_newS s3 = k_newS s2 /\ k_old s3 = k_old s2 /\ k_vers s3 = k_vers s2.
Proof.
  intros s2 p c f sa skw bsubs res pend2 s3 out o H. unfold core_finish in H.
  destruct res as [v|e]; [|inversion H; subst; auto].
  destruct (sanitize v) as [sv|]; [|inversion H; subst; auto].
  destruct pend2 as [b|]; [|inversion H; subst; auto].
  destruct (write_file (k_fs s2) p b None (k_clock s2) (k_nextid s2)); inversion H; subst; auto.
Qed.

Section KRun.
  Variable G : kstate -> Prop.     (* what is known about the state a hit is taken in: kept by every step *)
  Hypothesis Gext : forall s s', k_old s' = k_old s -> k_vers s' = k_vers s -> G s -> G s'.
  Hypothesis HhitF : forall s s0 p fname sa skw f subs' ret' r,
    G s -> k_old s0 = k_old s -> k_vers s0 = k_vers s -> core_hit s s0 p fname sa skw = Some (f, subs', ret', r) ->
    kdl (snd (cll subs')) /\ Forall goodkey (snd (cll subs')).
  Hypothesis HhitS : forall s fname sa skw subs' ret' r,
    G s -> sanitized sa = true -> sanitized skw = true ->
    core_subhit s fname (subbuild_key fname sa skw) = Some (subs', ret', r) ->
    kdl (subbuild_key fname sa skw :: snd (cll subs')) /\ Forall goodkey (snd (cll subs')).

  Lemma checks_keys : forall s0 subs1 rp', kreplay_list s0 subs1 (start_replay s0) = Some rp' ->
    forall x, In x (snd (cll subs1)) -> existsb (py_eq x) (k_claimedS s0) = false.
  Proof.
    intros s0 subs1 rp' Hkr x Hx. destruct (cll_keys_deep _ _ Hx) as (f & a & k & s' & r & ra & sf & Hin & ->).
    exact (kreplay_list_checks _ _ _ _ Hkr _ Hin).
  Qed.

  Theorem run_keys : forall pr tgt pend subs s s' out pend' subs',
    core_run pr tgt pend subs s = (s', (out, pend', subs')) -> G s -> KD s -> KD s'.
  Proof.
    induction pr as [v|e|st q k IHk|c k IHk|st p c fname a kw fn IHfn k IHk|st fname a kw fn IHfn k IHk];
      intros tgt pend subs s s' out pend' subs' H Gs D.
    - inversion H; subst. exact D.
    - inversion H; subst. exact D.
    - rewrite core_run_Ask in H. destruct st; [eapply IHk; eauto|]. cbv zeta in H.
      destruct (spec_answer (k_fs s) q); (eapply IHk; [exact H|apply (Gext s); [reflexivity|reflexivity|exact Gs]|exact D]).
    - rewrite core_run_Write in H. destruct tgt as [p|]; [|eapply IHk; eauto].
      destruct (path_ok p); [|inversion H; subst; exact D].
      eapply IHk; [exact H|apply (Gext s); [reflexivity|reflexivity|exact Gs]|exact D].
    - rewrite core_run_BuildFile in H. destruct st; [eapply IHk; eauto|].
      destruct (sanitize a) as [sa|]; [|eapply IHk; eauto]. destruct (sanitize kw) as [skw|]; [|eapply IHk; eauto].
      cbv zeta in H.
      destruct (claim_check (k_claimedF s) (k_cachefile s) p); [eapply IHk; eauto|].
      destruct (setup_fs (k_fs s) (k_cachefile s) p) as [[fs1 dirs]|e1]; [|eapply IHk; eauto].
      destruct (core_hit s (core_s0 s p fs1 dirs) p fname sa skw) as [[[[fh subs1] ret1] rp1]|] eqn:Ehit.
      + destruct (HhitF s (core_s0 s p fs1 dirs) _ _ _ _ _ _ _ _ Gs eq_refl eq_refl Ehit) as [HB GB].
        destruct (core_hit_inv _ _ _ _ _ _ _ _ _ _ Ehit) as [_ Hkr].
        eapply IHk; [exact H|apply (Gext s); [reflexivity|reflexivity|exact Gs]|].
        apply (KD_adopt s _ (snd (cll subs1)) D); auto.
        * cbn [core_put adopt ks_with k_newS]. rewrite map_app, tree_regs_keys. reflexivity.
        * intros x Hx. exact (checks_keys _ _ _ Hkr x Hx).
      + destruct (core_run (fn p sa skw) (Some p) None [] (core_start (core_s0 s p fs1 dirs) p fname sa skw)) as [s2 [[res pend2] bsubs]] eqn:Ec2.
        destruct (core_finish s2 p c fname sa skw bsubs res pend2) as [[s3 out3] o3] eqn:Ef.
        destruct (core_finish_keys _ _ _ _ _ _ _ _ _ _ _ _ Ef) as [F1 [F2 [F3 F4]]].
        destruct (core_run_ext _ _ _ _ _ _ _ _ _ Ec2) as [pn [_ Xn]]. destruct (x_const _ _ _ _ _ Xn) as [C1 [C2 _]].
        assert (G1 : G (core_start (core_s0 s p fs1 dirs) p fname sa skw)) by (apply (Gext s); [reflexivity|reflexivity|exact Gs]).
        pose proof (IHfn _ _ _ _ _ _ _ _ _ _ _ Ec2 G1 D) as D2.
        eapply IHk; [exact H|apply (Gext (core_start (core_s0 s p fs1 dirs) p fname sa skw)); [congruence|congruence|exact G1]|].
        unfold KD. rewrite F1, F2. exact D2.
    - rewrite core_run_Subbuild in H. destruct st; [eapply IHk; eauto|].
      destruct (sanitize a) as [sa|] eqn:Esa; [|eapply IHk; eauto]. destruct (sanitize kw) as [skw|] eqn:Eskw; [|eapply IHk; eauto].
      cbv zeta in H.
      pose proof (sanitize_sanitized _ _ Esa) as Ssa. pose proof (sanitize_sanitized _ _ Eskw) as Sskw.
      set (key := subbuild_key fname sa skw) in *.
      assert (Gk : goodkey key) by (exists fname, sa, skw; auto).
      destruct (existsb (py_eq key) (k_claimedS s)) eqn:Edup; [eapply IHk; eauto|].
      destruct (core_subhit s fname key) as [[[subs1 ret1] rp1]|] eqn:Ehit.
      + destruct (HhitS _ _ _ _ _ _ _ Gs Ssa Sskw Ehit) as [HB GB].
        pose proof (core_subhit_inv _ _ _ _ _ _ Ehit) as Hkr.
        eapply IHk; [exact H|apply (Gext s); [reflexivity|reflexivity|exact Gs]|].
        apply (KD_adopt s _ (key :: snd (cll subs1)) D); auto.
        * cbn [adopt ks_with k_newS]. rewrite map_app, tree_regs_keys. reflexivity.
        * intros x [<-|Hx]; [exact Edup|]. exact (checks_keys _ _ _ Hkr x Hx).
      + destruct (core_run (fn sa skw) None None [] (core_substart s fname sa skw)) as [s2 [[res pd] bsubs]] eqn:Ec2.
        destruct (core_run_ext _ _ _ _ _ _ _ _ _ Ec2) as [pn [_ Xn]]. destruct (x_const _ _ _ _ _ Xn) as [C1 [C2 _]].
        assert (G1 : G (core_substart s fname sa skw)) by (apply (Gext s); [reflexivity|reflexivity|exact Gs]).
        assert (D1 : KD (core_substart s fname sa skw)).
        { destruct D as [D1 [D2 [D3 D4]]]. unfold KD. cbn [core_substart klog ks_with k_claimedS k_newS]. split; [|split; [|split]]; auto.
          - cbn [KDf]. split; [|exact D1]. intros y Hy. rewrite Forall_forall in D2. rewrite (goodkey_sym y (subbuild_key fname sa skw) (D2 y Hy) Gk).
            split; eapply existsb_false_In; eauto.
          - intros x Hx. right. apply D4. exact Hx. }
        pose proof (IHfn _ _ _ _ _ _ _ _ _ _ Ec2 G1 D1) as D2.
        eapply IHk; [exact H|apply (Gext (core_substart s fname sa skw)); [exact C1|exact C2|exact G1]|].
        destruct D2 as [E1 [E2 [E3 E4]]].
        destruct (x_clS _ _ _ _ _ Xn) as [eS [Hcs HeS]]. destruct (x_newS _ _ _ _ _ Xn) as [nS [Hns HnS]].
        cbn [core_substart klog ks_with k_claimedS k_newS] in Hcs, Hns.
        unfold KD. cbn [core_subreg ks_with k_claimedS k_newS]. split; [exact E1|]. split; [exact E2|]. split.
        * rewrite map_app. cbn [map fst]. apply KDf_app. split; [exact E3|]. split; [split; [intros ? []|exact I]|].
          intros x y Hx [<-|[]]. rewrite Hcs in E1. apply KDf_app in E1. destruct E1 as [_ [Ek Ecross]].
          rewrite Hns, map_app in Hx. apply in_app_or in Hx. destruct Hx as [Hx|Hx].
          -- destruct D as [_ [_ [_ D4]]]. destruct Ek as [Ek _]. destruct (Ek x (D4 x Hx)). split; assumption.
          -- apply in_map_iff in Hx. destruct Hx as [[k0 o0] [<- Hin]]. cbn [fst].
             destruct (HnS _ _ Hin) as [_ [_ Hk0]]. apply HeS in Hk0. apply (Ecross k0 key Hk0). left. reflexivity.
        * rewrite map_app. cbn [map fst]. intros x Hx. apply in_app_or in Hx. destruct Hx as [Hx|[<-|[]]]; [apply E4; exact Hx|].
          rewrite Hcs. apply in_or_app. right. left. reflexivity.
  Qed.
End KRun.

Print Assumptions follows_keys.
Print Assumptions run_keys.
