(* Proofs/SimN1.v — from "the tables are those of the forest AS LISTS UP TO ORDER"
   (CacheRTDefs.tables_perm_forest, what SimH7 / SimH17 prove of the committed cache of the
   mechanism model) to "... BY LOOKUP" (CacheRTDefs.tables_from_forest, what
   CacheRTMain.cache_roundtrip needs for its entry-by-entry clause, i.e. SimF8.ReadBack).
   The file table is given by lookup already; for the subbuild table, whose keys are compared by
   Python == (py_eq), the order of the entries is irrelevant for EVERY lookup key as soon as the
   keys of the table are hashable-shaped (SimA1Keys.hsh: then py_eq against them is symmetric and
   transitive through any value) and pairwise different.  The keys of the forest's table are
   pairwise different (forest_good); they are hashable-shaped when the arguments of the subbuild
   records that can be looked up are well-formed values (pv_wf: finite floats; hypothesis
   [SubArgsWf], a consequence of SimF9.ShapeOk).
   [tables_from_forest_of_perm], [readback_of_perm] (ReadBack of the cache read from the file),
   and the part of ViewInit.old_ok that is a matter of the write/read cycle only
   [readback_files_nodup], [old_ok_readback].
   New file; edits nothing. *)
From Coq Require Import List String Ascii NArith ZArith Bool Arith Lia Permutation.
From FB.Base Require Import PyVal Fs.
From FB.Gen Require Import JsonUtilGen.
From FB.Spec Require Import JsonSpec Prog.
From FB.Model Require Import Types Monad CreatedFiles BuildDirs SimpleOps Builder PathNorm Persist PersistSpec Build Run.
From FB.Proofs Require Import FsLemmas JsonLaws PersistLaws CacheRTDefs CacheRTLaws CacheRTTables CacheRTCycle
  CacheRTForest CacheRTMain ViewDefs ViewLemmas ViewInit SimA0 SimA1Keys SimH6 SimF8.
Import ListNotations.
Local Open Scope list_scope.

(* ------------------------------------------------------------------ lookups by == in tables with different hashable keys *)
Lemma sg_some_in : forall l x v, subs_get l x = Some v -> exists q, In (q, v) l /\ py_eq q x = true.
Proof.
  induction l as [|[q o] l IH]; intros x v H; cbn [subs_get] in H; [discriminate|].
  destruct (py_eq q x) eqn:E.
  - inversion H; subst. exists q. split; [left; reflexivity | exact E].
  - destruct (IH _ _ H) as (q' & A & B). exists q'. split; [right; exact A | exact B].
Qed.

Lemma sg_in : forall l q v x,
  (forall k, In k (map fst l) -> hsh k = true) -> pw py_eq (map fst l) = true ->
  In (q, v) l -> py_eq q x = true -> subs_get l x = Some v.
Proof.
  induction l as [|[q' o'] l IH]; intros q v x Hh Hp Hin Hq; [destruct Hin|].
  cbn [map fst pw] in Hp. apply andb_true_iff in Hp. destruct Hp as [H1 H2]. cbn [subs_get].
  destruct Hin as [Hin|Hin].
  - inversion Hin; subst. rewrite Hq. reflexivity.
  - destruct (py_eq q' x) eqn:E.
    + exfalso. assert (Kq : In q (map fst l)) by (apply in_map_iff; exists (q, v); auto).
      assert (A : py_eq q' q = true).
      { apply (hsh_trans q' (Hh q' (or_introl eq_refl)) q (Hh q (or_intror Kq)) x E Hq). }
      rewrite forallb_forall in H1. specialize (H1 q Kq). rewrite A in H1. discriminate H1.
    + apply (IH q v x); auto. intros k Hk. apply Hh. right. exact Hk.
Qed.

Lemma sg_perm : forall l l' x, Permutation l l' ->
  (forall k, In k (map fst l) -> hsh k = true) -> pw py_eq (map fst l) = true ->
  subs_get l x = subs_get l' x.
Proof.
  intros l l' x P Hh Hp.
  assert (Hh' : forall k, In k (map fst l') -> hsh k = true).
  { intros k Hk. apply Hh. eapply Permutation_in; [apply Permutation_sym; apply Permutation_map; exact P | exact Hk]. }
  assert (Hp' : pw py_eq (map fst l') = true).
  { apply (pw_perm py_eq (map fst l) (map fst l')); [apply Permutation_map; exact P| |exact Hp].
    intros a b Ha _. apply hsh_sym. apply Hh. exact Ha. }
  destruct (subs_get l x) as [v|] eqn:E.
  - destruct (sg_some_in _ _ _ E) as (q & A & B). symmetry.
    apply (sg_in l' q v x Hh' Hp'); [eapply Permutation_in; [exact P | exact A] | exact B].
  - destruct (subs_get l' x) as [v|] eqn:E'; [|reflexivity].
    destruct (sg_some_in _ _ _ E') as (q & A & B).
    rewrite (sg_in l q v x Hh Hp) in E; [discriminate E| |exact B].
    eapply Permutation_in; [apply Permutation_sym; exact P | exact A].
Qed.

(* an entry of a table with different keys is found under its own key *)
Lemma sg_self : forall l q v, pw py_eq (map fst l) = true -> py_eq q q = true -> In (q, v) l -> subs_get l q = Some v.
Proof.
  induction l as [|[q' o'] l IH]; intros q v Hp Hr Hin; [destruct Hin|].
  cbn [map fst pw] in Hp. apply andb_true_iff in Hp. destruct Hp as [H1 H2]. cbn [subs_get].
  destruct Hin as [Hin|Hin].
  - inversion Hin; subst. rewrite Hr. reflexivity.
  - assert (Kq : In q (map fst l)) by (apply in_map_iff; exists (q, v); auto).
    rewrite forallb_forall in H1. specialize (H1 q Kq). apply negb_true_iff in H1. rewrite H1.
    apply IH; assumption.
Qed.

(* ------------------------------------------------------------------ the keys of the subbuild table of a forest *)
Lemma sents_entry : forall L k v, In (k, v) (sents L) ->
  exists f a kk subs r ra sf, In (OSubbuild f a kk subs r ra sf) L /\ k = subbuild_key f a kk /\
                              v = Some (OSubbuild f a kk subs r ra sf).
Proof.
  intros L k v H. unfold sents in H. apply in_flat_map in H. destruct H as (o & Ho & H).
  destruct o as [q r e | p c f a kk subs r cr ra sf | f a kk subs r ra sf]; cbn [sentry_of] in H; try destruct H.
  - inversion H; subst. repeat eexists. exact Ho.
  - destruct H.
Qed.

(* the arguments of the subbuild records that can be looked up are well-formed values *)
Definition SubArgsWf (c : cache) : Prop :=
  forall key o, subs_get (c_subs c) key = Some (Some o) ->
    exists f a k subs r ra sf, o = OSubbuild f a k subs r ra sf /\ pv_wf a = true /\ pv_wf k = true.

Theorem tables_from_forest_of_perm : forall c roots,
  forallb op_wf roots = true -> forest_good roots -> tables_perm_forest c roots ->
  (forall p, files_get (c_files c) p = files_get (c_files (tables_of (c_name c) (c_fvers c) (c_dirs c) roots)) p) ->
  SubArgsWf c ->
  tables_from_forest c roots.
Proof.
  intros c roots Hwf HG [_ PS] HF HA. cbv zeta in PS.
  split; [exact HF|]. cbv zeta.
  pose proof HG as (_ & G1 & G2 & _).
  destruct (tables_of_lists (c_name c) (c_fvers c) (c_dirs c) roots G1 G2) as [_ T2].
  rewrite T2 in *. set (L := flat_map kl roots) in *.
  assert (LW : forallb op_wf L = true) by (apply flat_kl_wf; exact Hwf).
  (* the keys of the forest's table: keys of sanitized arguments *)
  assert (KS : forall k v, In (k, v) (sents L) ->
             exists f a kk subs r ra sf, k = subbuild_key f a kk /\ v = Some (OSubbuild f a kk subs r ra sf) /\
                                         sanitized a = true /\ sanitized kk = true).
  { intros k v H. destruct (sents_entry L k v H) as (f & a & kk & subs & r & ra & sf & Hin & -> & ->).
    rewrite forallb_forall in LW. pose proof (LW _ Hin) as W. cbn [op_wf] in W.
    apply andb_true_iff in W. destruct W as [W _]. apply andb_true_iff in W. destruct W as [W _].
    apply andb_true_iff in W. destruct W as [W1 W2]. repeat eexists; assumption. }
  (* the table of c has different keys too *)
  assert (PC : pw py_eq (map fst (c_subs c)) = true).
  { apply (pw_perm py_eq (map fst (sents L)) (map fst (c_subs c))); [apply Permutation_map; apply Permutation_sym; exact PS| |exact G2].
    intros x y Hx Hy. apply in_map_iff in Hx. destruct Hx as ([k1 v1] & <- & H1). apply in_map_iff in Hy. destruct Hy as ([k2 v2] & <- & H2).
    destruct (KS _ _ H1) as (f1 & a1 & kk1 & _ & _ & _ & _ & -> & _ & A1 & K1).
    destruct (KS _ _ H2) as (f2 & a2 & kk2 & _ & _ & _ & _ & -> & _ & A2 & K2).
    cbn [fst]. apply py_eq_key_sym; assumption. }
  (* hence every key is hashable-shaped *)
  assert (HH : forall k, In k (map fst (c_subs c)) -> hsh k = true).
  { intros k Hk. apply in_map_iff in Hk. destruct Hk as ([k' v] & <- & Hin). cbn [fst].
    pose proof (Permutation_in _ PS Hin) as Hin'.
    destruct (KS _ _ Hin') as (f & a & kk & subs & r & ra & sf & -> & -> & A1 & K1).
    pose proof (sg_self (c_subs c) _ _ PC (subbuild_key_refl f a kk A1 K1) Hin) as Hg.
    destruct (HA _ _ Hg) as (f' & a' & k' & subs' & r' & ra' & sf' & E & Wa & Wk). inversion E; subst.
    apply wfkey_hsh. exists f', a', k'. repeat split; assumption. }
  intro k. exact (sg_perm (c_subs c) (sents L) k PS HH PC).
Qed.

(* the three lookup clauses of cache_roundtrip, i.e. SimF8.ReadBack, for the cache read from the file *)
Theorem readback_of_perm : forall c roots,
  writable c roots -> forest_good roots -> tables_perm_forest c roots ->
  (forall p, files_get (c_files c) p = files_get (c_files (tables_of (c_name c) (c_fvers c) (c_dirs c) roots)) p) ->
  SubArgsWf c ->
  exists j, cache_to_json c = Some j /\ cache_of_json (Some j) = ReadOk (read_back c roots) /\
            ReadBack c (read_back c roots).
Proof.
  intros c roots W HG TP HF HA.
  pose proof W as (_ & Wr & _).
  pose proof (tables_from_forest_of_perm c roots Wr HG TP HF HA) as TF.
  destruct (write_read c roots W) as (j & J1 & J2). exists j. split; [exact J1|]. split; [exact J2|].
  destruct (read_back_lookup c roots Wr TF) as (_ & B & _ & D & _).
  split; [exact B|]. split; [apply read_back_created_file; assumption | exact D].
Qed.

(* ------------------------------------------------------------------ old_ok: the part that is a matter of the cycle *)
Lemma pw_path_nodup : forall l, pw path_eqb l = true -> NoDup l.
Proof.
  induction l as [|p l IH]; intro H; [constructor|]. cbn [pw] in H. apply andb_true_iff in H. destruct H as [H1 H2].
  constructor; [|apply IH; exact H2]. intro Hin. rewrite forallb_forall in H1. specialize (H1 p Hin).
  rewrite path_eqb_refl in H1. discriminate H1.
Qed.

Theorem readback_files_nodup : forall c roots, forallb op_wf roots = true -> forest_good roots ->
  NoDup (map fst (c_files (read_back c roots))).
Proof.
  intros c roots Hwf (_ & G1 & G2 & _).
  destruct (read_back_tables c roots Hwf) as [TF _]. cbv zeta in TF. rewrite TF.
  destruct (tables_of_lists (c_name c) (c_fvers c) (c_dirs c) roots G1 G2) as [T1 _]. rewrite T1.
  rewrite map_map. cbn [norm_fentry fst]. apply pw_path_nodup. exact G1.
Qed.

Lemma created_files_In : forall c a, In a (cache_created_files c) ->
  exists o, In (a, Some o) (c_files c) /\ op_raised o = false.
Proof.
  intros c a H. unfold cache_created_files in H. apply in_flat_map in H. destruct H as ([p v] & Hin & H).
  cbn [fst snd] in H. destruct v as [o|]; [|destruct H]. destruct (op_raised o) eqn:E; [destruct H|].
  destruct H as [<-|[]]. exists o. split; assumption.
Qed.

(* old_ok of the cache read back, from two facts about the written cache c: the sandbox root is
   not listed as created, and no listed directory is at or below an output or the cache file *)
Theorem old_ok_readback : forall c roots cf, writable c roots -> forest_good roots ->
  tables_from_forest c roots ->
  ~ In [] (c_dirs c) ->
  (forall a d, cache_created_file c a = true \/ a = cf -> In d (c_dirs c) -> ~ suffix a d) ->
  old_ok (read_back c roots) cf.
Proof.
  intros c roots cf W HG TF Hroot Hdirs. pose proof W as (_ & Wr & _).
  pose proof (readback_files_nodup c roots Wr HG) as ND.
  destruct (read_back_fields c roots) as (_ & F2 & _).
  assert (Hd : forall d, In d (c_dirs (read_back c roots)) -> In d (c_dirs c)).
  { intros d Hin. rewrite F2 in Hin. apply mem_path_In. rewrite <- (dedup_paths_mem (c_dirs c) d). apply mem_path_In. exact Hin. }
  constructor.
  - exact ND.
  - intro H. apply Hroot. apply Hd. exact H.
  - intros a d Ha Hin. apply (Hdirs a d); [|apply Hd; exact Hin].
    destruct Ha as [Ha|Ha]; [left|right; exact Ha].
    destruct (created_files_In _ _ Ha) as (o & Hin' & Hr).
    rewrite <- (read_back_created_file c roots Wr TF a). unfold cache_created_file, cache_get_file.
    rewrite (proj1 (files_get_In _ a (Some o) ND) Hin'). rewrite Hr. reflexivity.
Qed.

Print Assumptions tables_from_forest_of_perm.
Print Assumptions readback_of_perm.
Print Assumptions readback_files_nodup.
Print Assumptions old_ok_readback.
