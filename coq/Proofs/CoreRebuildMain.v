(* Proofs/CoreRebuildMain.v — C05, second half, for the Core model: an unchanged rebuild after a
   committed build whose records are clean (nothing raised, no setup failure inside a record) and
   which found no foreign regular file at a target path
     - returns the value the first build returned,
     - re-runs no function: its log is the root entry followed by the root-level answers of the
       first build (the answers to the queries the root function itself makes),
     - ends in the tree the first build ended in, node for node (bytes, modification time, inode:
       the outputs are put back from the stale store, not rewritten). *)
From Coq Require Import List String Ascii NArith ZArith Bool Arith Lia Btauto Permutation.
From FB.Base Require Import PyVal Fs.
From FB.Gen Require Import JsonUtilGen.
From FB.Spec Require Import JsonSpec Prog Ref Oracle Faithful.
From FB.Model Require Import Types SimpleOps Builder Persist Core CoreOracle CoreCache.
From FB.Proofs Require Import FsLemmas JsonLaws PersistLaws CleanLaws CoreLawsChildren CoreLawsJson CoreLaws1 CoreLaws2 CoreLaws3 CoreLaws4 CoreLaws5 CoreLaws6
     CoreRebuildDefs CoreRebuild1 CoreRebuild2 CoreRebuild3 CoreRebuild4 CoreRebuild5 CoreRebuild6 CoreRebuild7 CoreRebuild8 CoreRebuild9.
Import ListNotations.
Local Open Scope list_scope.
Local Open Scope string_scope.

Definition init_state (t1 : fsT) (stale : list (path * fnode)) (staledirs dirs : list path) (clock nextid : N)
           (cf : path) (old : cache) (vers : pyval) : kstate :=
  {| k_fs := t1; k_stale := stale; k_staledirs := staledirs; k_claimedF := []; k_claimedS := [];
     k_need := []; k_made := dirs; k_clock := clock; k_nextid := nextid;
     k_log := [LInvoke "<root>" None PNone PNone]; k_cachefile := cf; k_old := old;
     k_vers := vers; k_newF := []; k_newS := [] |}.

(* the pieces of a successful core_build *)
Lemma core_build_inv : forall fs cf old vers clock nextid root s1,
  cr_state (core_build fs cf old vers clock nextid root) = Some s1 ->
  exists dirs t1 out pend recs,
    let t0 := start_tree fs cf old in
    let s0 := init_state t1 (stale_of fs (pv_outputs (prev_of_cache old)))
                         (filter (fun d => isdir fs d && negb (isdir t0 d)) (pv_dirs (prev_of_cache old)))
                         dirs clock nextid cf old vers in
    missing_dirs t0 cf (dirname cf) = inl dirs /\ mkdir_all t0 dirs = inl t1 /\
    core_run root None None [] s0 = (s1, (out, pend, recs)) /\
    cr_outcome (core_build fs cf old vers clock nextid root) = out /\
    cr_tree (core_build fs cf old vers clock nextid root) = k_fs s1 /\
    cr_log (core_build fs cf old vers clock nextid root) = rev (k_log s1) /\
    build_top fs cf old vers clock nextid root = core_top root None None [] s0.
Proof.
  intros fs cf old vers clock nextid root s1 H. unfold core_build, build_top, start_tree in *. cbv zeta in *.
  destruct (missing_dirs (ref_clean fs cf (prev_of_cache old)) cf (dirname cf)) as [dirs|c] eqn:Hmd; [|discriminate].
  destruct (mkdir_all (ref_clean fs cf (prev_of_cache old)) dirs) as [t1|e] eqn:Hmk; [|discriminate].
  fold (stale_of fs (pv_outputs (prev_of_cache old))) in *.
  fold (init_state t1 (stale_of fs (pv_outputs (prev_of_cache old)))
          (filter (fun d => isdir fs d && negb (isdir (ref_clean fs cf (prev_of_cache old)) d)) (pv_dirs (prev_of_cache old)))
          dirs clock nextid cf old vers) in *.
  destruct (core_run root None None [] _) as [s1' [[res pd] rs]] eqn:E. cbn in H. inversion H; subst s1'.
  exists dirs, t1, res, pd, rs. cbv zeta. unfold start_tree. repeat split; try reflexivity; assumption.
Qed.

(* the rebuild, with everything that is known about the state it ends in *)
Theorem rebuild_step : forall fs cf old vers clock nextid root nm v s1 clock' nextid',
  let cr1 := core_build fs cf old vers clock nextid root in
  cr_outcome cr1 = inl v -> cr_state cr1 = Some s1 ->
  fs_wf (start_tree fs cf old) -> isdir fs cf = false -> sanitized vers = true ->
  records_clean s1 = true -> records_distinct s1 = true -> no_foreign_targets fs cf old s1 ->
  let cr2 := core_build (next_fs cf s1) cf (cache_of_state nm s1) vers clock' nextid' root in
  exists s2,
    cr_state cr2 = Some s2 /\
    cr_outcome cr2 = inl v /\
    cr_log cr2 = LInvoke "<root>" None PNone PNone :: build_top fs cf old vers clock nextid root /\
    (forall p, lookup (cr_tree cr2) p = lookup (cr_tree cr1) p) /\
    leq (start_tree (next_fs cf s1) cf (cache_of_state nm s1)) (start_tree fs cf old) /\
    Permutation (k_newF s2) (k_newF s1) /\ Permutation (k_newS s2) (k_newS s1).
Proof.
  intros fs cf old vers clock nextid root nm v s1 clock' nextid' cr1 Hout Hst W0 Hcfd Hvs Hcl Hdi Hnf cr2.
  destruct (core_build_inv _ _ _ _ _ _ _ _ Hst) as (dirs & t1 & out & pend & recs & Hmd & Hmk & Hrun & Eout & Etree & Elog & Etop).
  fold cr1 in Eout, Etree, Elog. rewrite Hout in Eout. subst out.
  set (t0 := start_tree fs cf old) in *.
  set (s0 := init_state t1 (stale_of fs (pv_outputs (prev_of_cache old)))
               (filter (fun d => isdir fs d && negb (isdir t0 d)) (pv_dirs (prev_of_cache old))) dirs clock nextid cf old vers) in *.
  destruct (run_of_core _ _ _ _ _ _ _ _ _ Hrun) as [recs' [Erecs R]]. cbn [app] in Erecs. subst recs'.
  (* the hypotheses on the records *)
  unfold records_clean in Hcl. apply andb_true_iff in Hcl. destruct Hcl as [HclF HclS].
  rewrite forallb_forall in HclF, HclS.
  unfold records_distinct in Hdi. apply andb_true_iff in Hdi. destruct Hdi as [HDF HDS].
  assert (HG1 : GoodEnd t0 s1).
  { split; [|exact HclS]. intros e He. split; [apply HclF; exact He|]. apply Hnf. apply in_map. exact He. }
  (* the start of the first build *)
  assert (Hcfne : cf <> []) by (intro; subst; discriminate).
  assert (Hcf0 : lookup t0 cf = None).
  { unfold t0, start_tree. unfold isdir in Hcfd. destruct (lookup fs cf) as [[g|]|] eqn:E; [| discriminate |].
    - apply ref_clean_removes_cache. unfold isfile. rewrite E. reflexivity.
    - apply ref_clean_no_new. exact E. }
  assert (C0 : CB t0 s0).
  { intro q. cbn [s0 init_state k_fs k_made k_claimedF].
    destruct (mkdir_all_frame _ _ _ Hmk q) as [E|[E1 [E2 E3]]]; [left; exact E|right]. split; [exact E1|]. left. auto. }
  assert (M0 : MD0 t0 s0).
  { intros d Hd. cbn [s0 init_state k_made] in Hd. eapply mkdir_all_absent; eauto. }
  assert (N0 : NCF s0) by reflexivity.
  pose proof (run_tree t0 _ _ _ _ _ _ _ _ R HG1) as [S1 [D1 C1]].
  pose proof (run_made t0 _ _ _ _ _ _ _ _ R HG1) as [_ M1].
  pose proof (run_ncf t0 _ _ _ _ _ _ _ _ R HG1 N0) as N1.
  pose proof (run_kconst _ _ _ _ _ _ _ _ R) as K01. destruct K01 as [Kcf [Kold [Kvers _]]].
  cbn [s0 init_state k_cachefile k_vers] in Kcf, Kvers.
  assert (Hreg : forall q, mem_path q (k_claimedF s1) = true -> In q (map fst (k_newF s1))).
  { intros q Hq. destruct (run_claims _ _ _ _ _ _ _ _ R) as [Ac _]. rewrite (Ac q), mem_path_app in Hq.
    cbn [s0 init_state k_claimedF mem_path] in Hq. rewrite orb_false_r in Hq.
    apply (run_registered _ _ _ _ _ _ _ _ R). apply mem_path_In. exact Hq. }
  pose proof (clean_back t0 nm cf s1 W0 HG1 (C1 C0) (M1 C0 M0) Hreg Hcf0 Hcfne) as Lback.
  (* the rebuild *)
  set (new := cache_of_state nm s1) in *. set (fs1 := next_fs cf s1) in *.
  assert (Hmd2 : missing_dirs (start_tree fs1 cf new) cf (dirname cf) = inl dirs).
  { unfold start_tree. rewrite (leq_missing_dirs _ _ cf (dirname cf) Lback). exact Hmd. }
  pose proof (leq_mkdir_all dirs _ _ Lback) as Rk. rewrite Hmk in Rk.
  destruct (mkdir_all (ref_clean fs1 cf (prev_of_cache new)) dirs) as [t1'|e] eqn:Hmk2; simpl in Rk; [|contradiction].
  set (stale0 := stale_of fs1 (pv_outputs (prev_of_cache new))).
  set (s0' := init_state t1' stale0
                (filter (fun d => isdir fs1 d && negb (isdir (start_tree fs1 cf new) d)) (pv_dirs (prev_of_cache new)))
                dirs clock' nextid' cf new vers).
  assert (HSI : forall q g, mem_path q (k_claimedF s1) = true -> file_at (k_fs s1) q g -> stale_get stale0 q = Some g).
  { intros q g Hq Hf. unfold stale0. apply stale_of_get.
    - apply (outs_iff t0 nm s1 HG1). apply Hreg. exact Hq.
    - assert (q <> cf). { intro; subst q. unfold NCF in N1. rewrite Kcf in N1. congruence. }
      unfold fs1, next_fs. rewrite lookup_upd_neq by assumption. exact Hf. }
  assert (K0 : KM s1 nm vers stale0 s0' s0).
  { constructor; try reflexivity.
    - exact Rk.
    - intro q. reflexivity.
    - intro q. reflexivity. }
  destruct (rebuild_run t0 s1 nm vers stale0 HG1 HDF HDS Hvs Kvers HSI _ _ _ _ _ _ _ _ R eq_refl C0 N0 s0' K0 [] [])
    as [s2' [E2 [K2 L2]]].
  cbn [app] in E2.
  assert (Ecr2 : cr2 = {| cr_outcome := inl v; cr_tree := k_fs s2'; cr_log := rev (k_log s2'); cr_state := Some s2' |}).
  { unfold cr2, core_build. cbv zeta. fold new fs1. change (ref_clean fs1 cf (prev_of_cache new)) with (start_tree fs1 cf new).
    rewrite Hmd2. unfold start_tree at 1. rewrite Hmk2.
    fold (stale_of fs1 (pv_outputs (prev_of_cache new))). fold stale0.
    change (ref_clean fs1 cf (prev_of_cache new)) with (start_tree fs1 cf new).
    fold (init_state t1' stale0
            (filter (fun d => isdir fs1 d && negb (isdir (start_tree fs1 cf new) d)) (pv_dirs (prev_of_cache new)))
            dirs clock' nextid' cf new vers). fold s0'. rewrite E2. reflexivity. }
  exists s2'. rewrite Ecr2. cbn [cr_outcome cr_log cr_tree cr_state].
  split; [reflexivity|]. split; [reflexivity|]. split; [|split; [|split; [exact Lback|]]].
  - rewrite L2. cbn [s0' init_state k_log]. rewrite rev_app_distr, rev_involutive. cbn [rev app]. rewrite Etop. reflexivity.
  - intro p. rewrite Etree. apply (km_fs _ _ _ _ _ _ K2).
  - (* the same records are registered, in another order *)
    destruct (run_of_core _ _ _ _ _ _ _ _ _ E2) as [recs2 [Erecs2 R2]]. cbn [app] in Erecs2. subst recs2.
    destruct (run_regs _ _ _ _ _ _ _ _ R) as [P1 Q1]. destruct (run_regs _ _ _ _ _ _ _ _ R2) as [P2 Q2].
    cbn [s0 s0' init_state k_newF k_newS app] in P1, Q1, P2, Q2.
    split; [eapply Permutation_trans; [exact P2|apply Permutation_sym; exact P1]|
            eapply Permutation_trans; [exact Q2|apply Permutation_sym; exact Q1]].
Qed.

Theorem rebuild_hits_all : forall fs cf old vers clock nextid root nm v s1 clock' nextid',
  let cr1 := core_build fs cf old vers clock nextid root in
  cr_outcome cr1 = inl v -> cr_state cr1 = Some s1 ->
  fs_wf fs -> isdir fs cf = false -> sanitized vers = true ->
  records_clean s1 = true -> records_distinct s1 = true -> no_foreign_targets fs cf old s1 ->
  let cr2 := core_build (next_fs cf s1) cf (cache_of_state nm s1) vers clock' nextid' root in
  cr_outcome cr2 = inl v /\
  cr_log cr2 = LInvoke "<root>" None PNone PNone :: build_top fs cf old vers clock nextid root /\
  (forall p, lookup (cr_tree cr2) p = lookup (cr_tree cr1) p).
Proof.
  intros fs cf old vers clock nextid root nm v s1 clock' nextid' cr1 Hout Hst W Hcfd Hvs Hcl Hdi Hnf cr2.
  destruct (rebuild_step fs cf old vers clock nextid root nm v s1 clock' nextid' Hout Hst (ref_clean_wf _ _ _ W) Hcfd Hvs Hcl Hdi Hnf)
    as (s2 & _ & A & B & C & _). auto.
Qed.

(* the rebuild is itself a committed build to which the theorem applies: its hypotheses are inherited *)
Theorem rebuild_stable : forall fs cf old vers clock nextid root nm v s1 clock' nextid',
  let cr1 := core_build fs cf old vers clock nextid root in
  cr_outcome cr1 = inl v -> cr_state cr1 = Some s1 ->
  fs_wf (start_tree fs cf old) -> isdir fs cf = false -> sanitized vers = true ->
  records_clean s1 = true -> records_distinct s1 = true -> no_foreign_targets fs cf old s1 ->
  let fs1 := next_fs cf s1 in let new := cache_of_state nm s1 in
  let cr2 := core_build fs1 cf new vers clock' nextid' root in
  exists s2, cr_outcome cr2 = inl v /\ cr_state cr2 = Some s2 /\
    fs_wf (start_tree fs1 cf new) /\ isdir fs1 cf = false /\
    records_clean s2 = true /\ records_distinct s2 = true /\ no_foreign_targets fs1 cf new s2.
Proof.
  intros fs cf old vers clock nextid root nm v s1 clock' nextid' cr1 Hout Hst W0 Hcfd Hvs Hcl Hdi Hnf fs1 new cr2.
  destruct (rebuild_step fs cf old vers clock nextid root nm v s1 clock' nextid' Hout Hst W0 Hcfd Hvs Hcl Hdi Hnf)
    as (s2 & Est & Eo & _ & _ & Lb & PF & PS).
  fold fs1 new cr2 in Est, Eo, Lb. exists s2. split; [exact Eo|]. split; [exact Est|].
  assert (Hcfne : cf <> []) by (intro; subst; discriminate).
  split; [|split; [|split; [|split]]].
  - intros p n Hp. rewrite (Lb (dirname p)). rewrite (Lb p) in Hp. eapply W0; eauto.
  - unfold isdir, fs1, next_fs. rewrite lookup_upd_eq by exact Hcfne. reflexivity.
  - rewrite (records_clean_perm _ _ PF PS). exact Hcl.
  - rewrite (records_distinct_perm _ _ PF PS). exact Hdi.
  - intros p Hp. unfold isfile. rewrite (Lb p). apply Hnf.
    apply (Permutation_in _ (Permutation_map fst PF)). exact Hp.
Qed.

(* consequences in the words of the property *)
Corollary rebuild_runs_nothing : forall fs cf old vers clock nextid root nm v s1 clock' nextid',
  let cr1 := core_build fs cf old vers clock nextid root in
  cr_outcome cr1 = inl v -> cr_state cr1 = Some s1 ->
  fs_wf fs -> isdir fs cf = false -> sanitized vers = true ->
  records_clean s1 = true -> records_distinct s1 = true -> no_foreign_targets fs cf old s1 ->
  let cr2 := core_build (next_fs cf s1) cf (cache_of_state nm s1) vers clock' nextid' root in
  exists answers, cr_log cr2 = LInvoke "<root>" None PNone PNone :: answers /\ forallb is_answer answers = true.
Proof.
  intros fs cf old vers clock nextid root nm v s1 clock' nextid' cr1 Hout Hst W Hcfd Hvs Hcl Hdi Hnf cr2.
  destruct (rebuild_hits_all fs cf old vers clock nextid root nm v s1 clock' nextid' Hout Hst W Hcfd Hvs Hcl Hdi Hnf) as [_ [L _]].
  fold cr2 in L. exists (build_top fs cf old vers clock nextid root). split; [exact L|].
  destruct (core_build_inv _ _ _ _ _ _ _ _ Hst) as (dirs & t1 & out & pend & recs & Hmd & Hmk & Hrun & _ & _ & _ & Etop).
  rewrite Etop. destruct (run_of_core _ _ _ _ _ _ _ _ _ Hrun) as [recs' [_ R]].
  apply (core_top_answers _ _ _ _ _ _ _ _ R).
Qed.

Print Assumptions rebuild_hits_all.
Print Assumptions rebuild_runs_nothing.
Print Assumptions rebuild_stable.
