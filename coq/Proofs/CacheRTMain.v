(* Proofs/CacheRTMain.v — C16 at cache level, the statements in one place.

   c       a cache as Cache.write sees it (the new cache of a build at commit);
   roots   its operation forest: the records of its two tables that are not a
           suboperation of a record of the tables (cache_forest c = Some roots);
   c'      what Cache.read_immutable returns for the file written from c.

   Hypotheses ([writable]): no entry in progress; the records of the forest
   are well formed (legal paths, sanitized values: [op_wf]); the created
   directories are legal paths; the versions dict is sanitized (up to tuples).
   Optional hypotheses, each used for one conclusion only:
   [tables_from_forest] / [tables_perm_forest]: the tables of c are those of
   its forest (by lookup / as lists); [forest_good]: the forest has the shape
   of a committed one (top level = registered build_file records then
   registered subbuild records; registered records have distinct keys; a
   record whose setup failed has no registered descendant);
   [paths_nodup]: no created directory is listed twice.
   All of them hold, by computation, of the caches committed by the builds in
   CacheRTEx.v (three builds: fresh, partial rebuild, fully cached). *)
From Coq Require Import List String Ascii NArith ZArith Bool Arith Lia Permutation.
From FB.Base Require Import PyVal Fs.
From FB.Gen Require Import JsonUtilGen.
From FB.Spec Require Import JsonSpec.
From FB.Model Require Import Types Monad SimpleOps Builder PathNorm Persist PersistSpec Build.
From FB.Proofs Require Import FsLemmas JsonLaws PersistLaws CacheRTDefs CacheRTLaws CacheRTTables
  CacheRTCycle CacheRTForest CacheRTRefuse.
Import ListNotations.
Local Open Scope list_scope.

Theorem cache_roundtrip : forall c roots, writable c roots ->
  exists j c',
    (* the file is written, and read back *)
    cache_to_json c = Some j /\ cache_of_json (Some j) = ReadOk c' /\
    (* build name, function versions, created directories *)
    c_name c' = c_name c /\
    c_fvers c' = norm_val (c_fvers c) /\ is_equal (c_fvers c) (c_fvers c') = true /\
    (forall p, mem_path p (c_dirs c') = mem_path p (c_dirs c)) /\
    (paths_nodup (c_dirs c) = true -> c_dirs c' = c_dirs c) /\
    c_built c' = [] /\
    (* the forest: every record, every field; values JSON-equal *)
    c' = tables_of (c_name c') (c_fvers c') (c_dirs c') (map norm_op roots) /\
    all2 op_equiv roots (map norm_op roots) = true /\
    (forest_good roots -> cache_forest c' = Some (map norm_op roots)) /\
    (* the derived tables are those of the forest of c, record by record normalised *)
    c_files c' = map norm_fentry (c_files (tables_of (c_name c) (c_fvers c) (c_dirs c) roots)) /\
    c_subs c' = map norm_sentry (c_subs (tables_of (c_name c) (c_fvers c) (c_dirs c) roots)) /\
    (* hence the tables of c, entry by entry *)
    (tables_from_forest c roots ->
       (forall p, cache_get_file c' p = option_map norm_op (cache_get_file c p)) /\
       (forall p, cache_created_file c' p = cache_created_file c p) /\
       (forall k, subs_get (c_subs c') k = option_map (option_map norm_op) (subs_get (c_subs c) k))) /\
    (tables_perm_forest c roots ->
       Permutation (c_files c') (map norm_fentry (c_files c)) /\
       Permutation (c_subs c') (map norm_sentry (c_subs c))) /\
    (* second cycle: c' is a fixed point *)
    (forest_good roots ->
       exists j', cache_to_json c' = Some j' /\ cache_of_json (Some j') = ReadOk c').
Proof.
  intros c roots W. destruct (write_read c roots W) as (j & J1 & J2).
  exists j, (read_back c roots). set (c' := read_back c roots).
  destruct (read_back_fields c roots) as (F1 & F2 & F3 & F4). fold c' in F1, F2, F3, F4.
  pose proof W as (Wf & Wr & Wd & Wv).
  destruct (read_back_tables c roots Wr) as [T1 T2]. fold c' in T1, T2. cbv zeta in T1, T2.
  split; [exact J1|]. split; [exact J2|]. split; [exact F1|]. split; [exact F3|].
  split; [rewrite F3; apply norm_val_equal; exact Wv|].
  split; [intro p; rewrite F2; apply dedup_paths_mem|].
  split; [intro N; rewrite F2; apply dedup_paths_nodup; exact N|].
  split; [exact F4|].
  split; [rewrite F1, F2, F3; reflexivity|].
  split; [apply forest_equivalent; exact Wr|].
  split; [intro G; exact (forest_good_stable c roots W G)|].
  split; [exact T1|]. split; [exact T2|]. split.
  - intro TF. destruct (read_back_lookup c roots Wr TF) as (_ & B & _ & D & _).
    split; [exact B|]. split; [apply read_back_created_file; assumption | exact D].
  - split; [intro TP; exact (read_back_perm c roots Wr TP)|].
    intro G. destruct (read_back_fixed_point c roots W G) as (_ & _ & X). exact X.
Qed.

(* what the next build (or clean) does with a cache file, in all cases *)
Theorem cache_file_accepted_or_refused : forall cf nm vers svers root w f,
  sanitize vers = Some svers -> lookup (w_fs w) cf = Some (NFile f) ->
  match cache_of_json (f_json f) with
  | ReadOk old =>
      (* a cache of this software, format version and shape ... *)
      (exists d, f_json f = Some (PDict d) /\ top_get "software" d = Some (PStr "file_builder") /\
                 exists ver, top_get "cacheFileVersion" d = Some ver /\ is_equal ver PNone = true) /\
      (* ... is used if it is this build's, refused otherwise *)
      (c_name old <> nm -> m_build cf nm vers root w = (w, Refused (XRuntime RBuildName)))
  | ReadRuntime => m_build cf nm vers root w = (w, Refused (XRuntime RBadCache))
  | ReadMalformed => m_build cf nm vers root w = (w, Refused (XCrash "malformed cache"))
  end.
Proof.
  intros cf nm vers svers root w f Hs Hl.
  pose proof (build_refuses_bad_cache cf nm vers svers root w f Hs Hl) as H.
  destruct (cache_of_json (f_json f)) as [old| |] eqn:E; try exact H.
  split; [|exact H].
  destruct (f_json f) as [[| | | | | | |d|]|]; try discriminate E.
  exists d. split; [reflexivity|]. cbn [cache_of_json] in E.
  destruct (top_get "software" d) as [[| | | |s| | | |]|]; try discriminate E.
  destruct (String.eqb s "file_builder") eqn:Es; [|discriminate E]. apply String.eqb_eq in Es. subst s.
  split; [reflexivity|]. cbn [negb] in E.
  destruct (top_get "cacheFileVersion" d) as [ver|]; [|discriminate E].
  exists ver. split; [reflexivity|]. destruct (is_equal ver PNone); [reflexivity | discriminate E].
Qed.
