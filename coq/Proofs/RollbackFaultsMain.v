(* Proofs/RollbackFaultsMain.v — C14, file half: a build with injected faults that
   raises restores the regular files of the pre-state, provided no fault hits the undo
   itself.

   "The undo" = what the build does once it has decided to fail: the removal of a
   partially written cache file (only when Cache.write failed) followed by _roll_back.
   [undo_entry] computes the world in which the undo starts (it mirrors m_build); the
   hypothesis "faults only in the forward phase" reads
       forall n, In n (w_faults w) -> n < w_effects wx
   for that world wx: every injected fault has an ordinal below the number of mutating
   calls made before the undo starts, so it was hit (or skipped) before.  Faults of mkdir,
   makedirs, rename, replace, rmdir, remove and of both writes of the cache file are all
   covered; a fault inside the undo is out of scope (nothing can put a file back if the
   call that puts it back fails; see RollbackFaultsEx for what happens then).

   [rollback_restores_files_faults]: under side conditions A, C, D, E of
   RollbackLaws.rollback_restores_files and with ANY fault list, the regular files after
   the failed build are exactly those before, same nodes.  With [w_faults w = []] this is
   the fault-free theorem again ([rollback_restores_files_nofault]). *)
From Coq Require Import List String Ascii NArith ZArith Bool Arith Lia.
From FB.Base Require Import PyVal Fs.
From FB.Gen Require Import JsonUtilGen.
From FB.Spec Require Import Prog.
From FB.Model Require Import Types Monad CreatedFiles BuildDirs SimpleOps Builder Persist Build Run Frame.
From FB.Proofs Require Import FsLemmas ReplayLaws FrameLaws RollbackFaultsLaws.
Import ListNotations.
Local Open Scope list_scope.

(* the world in which the undo of a failing build starts, and the directories made for
   the cache file; None when the build commits *)
Definition undo_entry (cf : path) (nm : string) (svers : pyval) (root : body) (w : world) (old0 : cache)
  : option (list path * world) :=
  let w0 := start_world w cf old0 nm svers in
  match make_dirs (dirname cf) w0 with
  | (w1, inr _) => Some ([], w1)
  | (w1, inl ccd) =>
      let w1' := set_log (LInvoke "<root>" None PNone PNone :: w_log w1) w1 in
      let '(w2, (res, _)) := root w1' in
      match res with
      | inr _ => Some (ccd, w2)
      | inl _ =>
          match bd_pre cf ccd w2 with
          | (w3, inr _) => Some (ccd, w3)
          | (w3, inl _) =>
              match write_cache w3 with
              | (w4, inr _) => Some (ccd, w4)      (* the partial cache file is removed first *)
              | (w4, inl _) => None
              end
          end
      end
  end.

Section Accept.

Variable fs0 : fsT.
Variable old : cache.
Variable cf : path.
Variable P : path -> Prop.
Variable Flt : list nat.

Hypothesis HypA : forall a t, Tgt old cf P t -> below a t = true -> notorig fs0 a /\ ~ P a.
Hypothesis Hwf : fs_wf fs0.
Hypothesis Hnames : forall p f, origfile fs0 p f -> path_ok p = true.
Hypothesis HE : forall d, In d (c_dirs old) -> path_ok d = true.

Notation RI := (RInv fs0 old cf P Flt).

Lemma rollback_case : forall ccd e wx w' e0,
  match roll_back ccd wx with
  | (w', inl _) => (w', Done (inr e))
  | (w', inr e') => (w', Done (inr e'))
  end = (w', Done (inr e0)) ->
  RI wx -> fpassed wx -> forall p f, lookup (w_fs w') p = Some (NFile f) <-> origfile fs0 p f.
Proof.
  intros ccd e wx w' e0 H Hinv A. destruct (roll_back ccd wx) as [wr [u|e']] eqn:ER; inversion H; subst;
    eapply (roll_back_restores fs0 old cf P Flt Hwf Hnames); eauto.
Qed.

Lemma m_accept_faults : forall nm svers root w w' e,
  fs0 = w_fs w -> w_faults w = Flt -> pres (RPOt fs0 old cf P Flt None) root ->
  m_accept cf nm svers root w old = (w', Done (inr e)) ->
  exists ccd wx, undo_entry cf nm svers root w old = Some (ccd, wx) /\ w_faults wx = Flt /\
    (fpassed wx -> forall p f, lookup (w_fs w') p = Some (NFile f) <-> origfile fs0 p f).
Proof.
  intros nm svers root w w' e Hfs Hf Hroot H. unfold m_accept in H. unfold undo_entry. cbv zeta in H |- *.
  pose proof (RInv_start fs0 old cf P Flt w nm svers Hfs Hf) as Hinv0.
  assert (T0 : forall v, tcond None v) by (intros v q X; discriminate X).
  assert (Tcf : Tgt old cf P cf) by (right; left; reflexivity).
  destruct (make_dirs (dirname cf) (start_world w cf old nm svers)) as [w1 [ccd|e1]] eqn:E1;
    destruct (make_dirs_T fs0 old cf P Flt HypA None cf Tcf _ _ _ E1 Hinv0 (T0 _)) as [Hinv1 _].
  2:{ exists [], w1. split; [reflexivity|]. split; [exact (proj1 Hinv1)|]. intro A. eapply rollback_case; eauto. }
  match type of H with (let '(_, _) := ?X in _) = _ => destruct X as [w2 [res x]] eqn:E2 end.
  assert (Hinv2 : RI w2).
  { refine (proj1 (Hroot _ _ _ E2 _ (T0 _))). eapply RInv_ext; eauto. }
  destruct res as [v|e2].
  2:{ exists ccd, w2. split; [reflexivity|]. split; [exact (proj1 Hinv2)|]. intro A. eapply rollback_case; eauto. }
  destruct (bd_pre cf ccd w2) as [w3 [err|e3]] eqn:E3; destruct (bd_pre_inv fs0 old cf P Flt _ _ _ _ E3 Hinv2) as [Hinv3 Hnf].
  2:{ exists ccd, w3. split; [reflexivity|]. split; [exact (proj1 Hinv3)|]. intro A. eapply rollback_case; eauto. }
  destruct (write_cache w3) as [w4 [u4|e4]] eqn:E4.
  - destruct (commit err w4) as [w5 [u5|e5]] eqn:E5; [discriminate H|].
    exfalso. eapply commit_no_raise; [|exact E5].
    destruct Hinv3 as (_ & B & C & _). destruct (write_cache_only_cf cf _ _ _ C E4) as (_ & Y & _).
    rewrite Y, B. exact HE.
  - destruct (try_to_remove_file cf w4) as [w5 r5] eqn:E5.
    exists ccd, w4. split; [reflexivity|]. split.
    { destruct Hinv3 as (A3 & _ & C & _). destruct (write_cache_only_cf cf _ _ _ C E4) as (Y & _). congruence. }
    intro A. destruct (write_cache_fail_T fs0 old cf P Flt _ _ _ _ _ E4 E5 Hinv3 (Hnf _ eq_refl) A) as [Hinv5 A5].
    eapply rollback_case; eauto.
Qed.

End Accept.

Theorem rollback_restores_files_faults : forall cf nm vers svers root w w' e (P : path -> Prop),
  sanitize vers = Some svers ->
  AllTargets P root ->
  (* C: the pre-state is well formed *)
  fs_wf (w_fs w) ->
  (* D: every regular file of the pre-state has a path that can be created *)
  (forall p f, lookup (w_fs w) p = Some (NFile f) -> path_ok p = true) ->
  (* A: neither a regular file of the pre-state nor a target is a proper ancestor of a
     target, of the cache file or of a target recorded in the old cache *)
  (forall a t, (P t \/ t = cf \/ In t (cache_targets (old_cache_of (w_fs w) cf nm svers))) ->
     below a t = true -> (forall f, lookup (w_fs w) a <> Some (NFile f)) /\ ~ P a) ->
  (* E: the directories recorded by the old cache have creatable names *)
  (forall d, In d (c_dirs (old_cache_of (w_fs w) cf nm svers)) -> path_ok d = true) ->
  run_build cf nm vers root w = (w', Done (inr e)) ->
  exists ccd wx,
    undo_entry cf nm svers (fun w0 => run root None [] w0) w (old_cache_of (w_fs w) cf nm svers) = Some (ccd, wx) /\
    ((* every injected fault lies before the undo *)
     (forall n, In n (w_faults w) -> n < w_effects wx) ->
     forall p f, lookup (w_fs w') p = Some (NFile f) <-> lookup (w_fs w) p = Some (NFile f)).
Proof.
  intros cf nm vers svers root w w' e P Hsv Hat Hwf Hnames HA HE H.
  set (old := old_cache_of (w_fs w) cf nm svers) in *.
  unfold run_build in H.
  destruct (m_build cf nm vers (fun w0 => run root None [] w0) w) as [w1 r1] eqn:E.
  inversion H; subst w' r1; clear H.
  change (w_fs (end_build w1)) with (w_fs w1).
  assert (Hroot : pres (RPOt (w_fs w) old cf P (w_faults w) None) (fun w0 => run root None [] w0)).
  { exact (run_T (w_fs w) old cf P (w_faults w) HA root Hat None []). }
  assert (G : forall old0, old0 = old -> m_accept cf nm svers (fun w0 => run root None [] w0) w old0 = (w1, Done (inr e)) ->
    exists ccd wx, undo_entry cf nm svers (fun w0 => run root None [] w0) w old0 = Some (ccd, wx) /\
      ((forall n, In n (w_faults w) -> n < w_effects wx) ->
       forall p f, lookup (w_fs w1) p = Some (NFile f) <-> lookup (w_fs w) p = Some (NFile f))).
  { intros old0 -> X.
    destruct (m_accept_faults (w_fs w) old cf P (w_faults w) HA Hwf Hnames HE nm svers _ w w1 e eq_refl eq_refl Hroot X)
      as (ccd & wx & U1 & U2 & U3).
    exists ccd, wx. split; [exact U1|]. intro Hp. apply U3. intros n Hn. rewrite U2 in Hn. apply Hp. exact Hn. }
  rewrite m_build_unfold, Hsv in E. subst old. unfold old_cache_of in G |- *.
  destruct (lookup (w_fs w) cf) as [[g|]|].
  - destruct (cache_of_json (f_json g)) as [old0| |]; try discriminate E.
    destruct (String.eqb (c_name old0) nm); [|discriminate E]. exact (G old0 eq_refl E).
  - discriminate E.
  - exact (G _ eq_refl E).
Qed.

(* the single-fault case *)
Corollary rollback_restores_files_one_fault : forall cf nm vers svers root w w' e k (P : path -> Prop),
  w_faults w = [k] ->
  sanitize vers = Some svers -> AllTargets P root -> fs_wf (w_fs w) ->
  (forall p f, lookup (w_fs w) p = Some (NFile f) -> path_ok p = true) ->
  (forall a t, (P t \/ t = cf \/ In t (cache_targets (old_cache_of (w_fs w) cf nm svers))) ->
     below a t = true -> (forall f, lookup (w_fs w) a <> Some (NFile f)) /\ ~ P a) ->
  (forall d, In d (c_dirs (old_cache_of (w_fs w) cf nm svers)) -> path_ok d = true) ->
  run_build cf nm vers root w = (w', Done (inr e)) ->
  exists ccd wx,
    undo_entry cf nm svers (fun w0 => run root None [] w0) w (old_cache_of (w_fs w) cf nm svers) = Some (ccd, wx) /\
    (k < w_effects wx ->
     forall p f, lookup (w_fs w') p = Some (NFile f) <-> lookup (w_fs w) p = Some (NFile f)).
Proof.
  intros cf nm vers svers root w w' e k P Hk Hsv Hat Hwf Hnames HA HE H.
  destruct (rollback_restores_files_faults cf nm vers svers root w w' e P Hsv Hat Hwf Hnames HA HE H) as (ccd & wx & U1 & U2).
  exists ccd, wx. split; [exact U1|]. intro Hlt. apply U2. intros n Hn. rewrite Hk in Hn. destruct Hn as [<-|[]]. exact Hlt.
Qed.

(* without faults: the theorem of RollbackLaws, with "exactly" *)
Corollary rollback_restores_files_nofault : forall cf nm vers svers root w w' e (P : path -> Prop),
  w_faults w = [] ->
  sanitize vers = Some svers -> AllTargets P root -> fs_wf (w_fs w) ->
  (forall p f, lookup (w_fs w) p = Some (NFile f) -> path_ok p = true) ->
  (forall a t, (P t \/ t = cf \/ In t (cache_targets (old_cache_of (w_fs w) cf nm svers))) ->
     below a t = true -> (forall f, lookup (w_fs w) a <> Some (NFile f)) /\ ~ P a) ->
  (forall d, In d (c_dirs (old_cache_of (w_fs w) cf nm svers)) -> path_ok d = true) ->
  run_build cf nm vers root w = (w', Done (inr e)) ->
  forall p f, lookup (w_fs w') p = Some (NFile f) <-> lookup (w_fs w) p = Some (NFile f).
Proof.
  intros cf nm vers svers root w w' e P Hk Hsv Hat Hwf Hnames HA HE H.
  destruct (rollback_restores_files_faults cf nm vers svers root w w' e P Hsv Hat Hwf Hnames HA HE H) as (ccd & wx & U1 & U2).
  apply U2. intros n Hn. rewrite Hk in Hn. destruct Hn.
Qed.
