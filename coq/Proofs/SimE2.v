(* Proofs/SimE2.v — the invariant EDI of SimE1.v (an error-created directory on disk is dead)
   along the blocks of build_file / subbuild and along every run: the induction of
   CommitDirs3Run.run_Y2 with EDI carried next to YInv.  [run_E].
   New file; edits nothing. *)
From Coq Require Import List String Ascii NArith ZArith Bool Arith Lia.
From FB.Base Require Import PyVal Fs.
From FB.Gen Require Import JsonUtilGen.
From FB.Spec Require Import Prog.
From FB.Model Require Import Types Monad CreatedFiles BuildDirs SimpleOps Builder Persist Build Run Frame.
From FB.Proofs Require Import CoreLawsChildren ViewDefs ViewLemmas ViewFrame ViewXDefs ViewXQuery ViewXErr1 ViewXError ViewXSteps
     ViewXMake1 ViewXMake2 ViewXFail ViewXRoom2 ViewXSetup ViewPrepare ViewXMkfail ViewXRun BuildFileLaws
     ViewH4 ViewH5 ViewH6 ViewH7 ViewR1 ViewR2 ViewR3 ViewR9.
From FB.Proofs Require Import FsLemmas ReplayLaws FrameLaws CleanLaws RollbackDirsLaws
     RollbackDirsView RollbackDirsBase RollbackDirsInv RollbackDirsMake RollbackDirsRun
     CommitDirsInv CommitDirsRun CommitDirs2Y CommitDirs2Bd CommitDirs2Step CommitDirs2Run CommitDirs3Adopt CommitDirs3Run
     SimE1.
Import ListNotations.
Local Open Scope list_scope.

(* ------------------------------------------------------------------ the claims off one path *)
Definition npk (p : path) (w w' : world) : Prop :=
  (forall y, y <> p -> files_get (c_files (w_new w')) y = files_get (c_files (w_new w)) y) /\
  w_old w' = w_old w /\ w_cachefile w' = w_cachefile w.
Lemma npk_refl : forall p w, npk p w w.
Proof. intros p w. split; [reflexivity|split; reflexivity]. Qed.
Lemma npk_trans : forall p a b c, npk p a b -> npk p b c -> npk p a c.
Proof.
  intros p a b c (A1 & A2 & A3) (B1 & B2 & B3). split; [|split; congruence].
  intros y Hy. rewrite (B1 y Hy). exact (A1 y Hy).
Qed.
Definition npPO (p : path) : PO := {| rel := npk p; po_refl := npk_refl p; po_trans := npk_trans p |}.

Lemma npk_same : forall p w w', w_new w' = w_new w -> w_old w' = w_old w -> w_cachefile w' = w_cachefile w -> npk p w w'.
Proof. intros p w w' E1 E2 E3. split; [rewrite E1; reflexivity|split; assumption]. Qed.

Lemma svb_npk : forall p w w', svbPO w w' -> npPO p w w'.
Proof.
  cbn. unfold same_but_view. intros p w w' (A1 & A2 & A3 & A4 & A5 & A6 & A7 & A8 & _). apply npk_same; assumption.
Qed.

Lemma npk_hid : forall p w w' y, npk p w w' -> y <> p -> hid w' y = hid w y.
Proof.
  intros p w w' y (A1 & A2 & A3) Hy. unfold hid, cache_has_file, cache_get_file. rewrite (A1 y Hy), A2, A3. reflexivity.
Qed.

Ltac npk_solve :=
  lazymatch goal with |- rel (npPO ?p) ?a ?b => change (npk p a b) | _ => idtac end;
  first [ apply npk_refl | apply npk_same; reflexivity ].

Lemma effect_npk : forall q what p f, pres (npPO q) (effect what p f).
Proof. intros q what p f w w' r H. unfold effect in H. cbv zeta in H. repeat dm H; inversion H; subst; npk_solve. Qed.
Lemma effect_p_npk : forall q what p f, pres (npPO q) (effect_p what p f).
Proof. intros q what p f w w' r H. unfold effect_p in H. cbv zeta in H. repeat dm H; inversion H; subst; npk_solve. Qed.
#[local] Hint Resolve effect_npk effect_p_npk : pres.

Lemma back_up_and_remove_npk : forall q p, pres (npPO q) (back_up_and_remove p).
Proof.
  intros q p. unfold back_up_and_remove. apply pres_bind; [auto with pres|]. intros _.
  intros w w' r H. cbv zeta in H. repeat dm H; inversion H; subst; npk_solve.
Qed.
Lemma try_to_remove_file_npk : forall q p, pres (npPO q) (try_to_remove_file p).
Proof. intros q p. unfold try_to_remove_file. pres_auto. Qed.
#[local] Hint Resolve back_up_and_remove_npk try_to_remove_file_npk : pres.

Lemma new_assert_no_file_npk : forall q p, pres (npPO q) (new_assert_no_file p).
Proof. intros q p. apply (pres_weaken svbPO (npPO q) _ _ (svb_npk q)). apply new_assert_no_file_svb. Qed.
#[local] Hint Resolve new_assert_no_file_npk : pres.

Lemma new_start_building_file_npk : forall p, pres (npPO p) (new_start_building_file p).
Proof.
  intro p. unfold new_start_building_file. apply pres_bind; [auto with pres|]. intros _.
  apply pres_modify. intro w. split; [|split; reflexivity].
  intros y Hy. cbn [w_new set_new c_files cache_with]. apply files_get_set_other. exact Hy.
Qed.
Lemma new_abort_building_file_npk : forall p, pres (npPO p) (new_abort_building_file p).
Proof.
  intro p. unfold new_abort_building_file. apply pres_modify. intro w. split; [|split; reflexivity].
  intros y Hy. cbn [w_new set_new c_files cache_with]. apply files_get_del_other. exact Hy.
Qed.
Lemma new_finish_building_file_npk : forall p o, pres (npPO p) (new_finish_building_file p o).
Proof.
  intros p o. unfold new_finish_building_file. apply pres_modify. intro w. split; [|split; reflexivity].
  intros y Hy. cbn [w_new set_new c_files cache_with]. apply files_get_set_other. exact Hy.
Qed.
#[local] Hint Resolve new_start_building_file_npk new_abort_building_file_npk new_finish_building_file_npk : pres.

Lemma bf_claim_npk : forall p, pres (npPO p) (bf_claim p).
Proof. intro p. unfold bf_claim. pres_auto. Qed.

(* a step at one live target: the tree and the claims change at most there *)
Lemma EDI_pstep : forall T w w' p, XInv T w -> In p T -> EDI w ->
  w_bd w' = w_bd w -> dirs_same (w_fs w) (w_fs w') ->
  (forall q, q <> p -> lookup (w_fs w') q = lookup (w_fs w) q) -> npk p w w' -> EDI w'.
Proof.
  intros T w w' p HX Hin HE Eb Hd Hq Hn.
  apply (EDI_tstep T w w' HX HE Eb).
  - intros y Hy. apply Hd. exact Hy.
  - intros y g Hy. destruct (path_eq_dec y p) as [->|N]; [left; exact Hin|right].
    split; [unfold isfile; rewrite <- (Hq y N), Hy; reflexivity|exact (npk_hid p w w' y Hn N)].
Qed.

(* ================================================================== *)
Section RunE.

Variable fs0 : fsT.
Variable old : cache.
Variable cf : path.
Variable P : path -> Prop.
Variable X : list path.
Hypothesis HypA : forall a t, Tgt old cf P t -> below a t = true -> ~ P a.
Hypothesis HS : forall a t, Tgt old cf P t -> below a t = true -> notorig fs0 a.
Hypothesis Hwf0 : fs_wf fs0.
Hypothesis HPt : forall p, P p -> tgtP p.

Notation RX := ViewXFail.RInv.
Notation R2 := (ViewR2.RInv2 (fun _ : cache => True)).
Notation RI := (RollbackDirsLaws.RInv fs0 old cf P).
Notation FI := (FInv fs0 old cf P X).
Notation EI := (EInv fs0 old cf P).
Notation GR := (GRel fs0 old cf P X).
Notation GP := (GPO fs0 old cf P X).
Notation TG := (Tgt old cf P).

(* ------------------------------------------------------------------ the failure path *)
Lemma bf_fail_E : forall T n d c f sa skw subs e w w' r oo,
  RX T w -> In (n :: d) T -> EDI w ->
  bf_fail (n :: d) c f sa skw subs e w = (w', (r, oo)) -> EDI w'.
Proof.
  intros T n d c f sa skw subs e w w' r oo HR Hin HE H.
  unfold bf_fail in H. cbv zeta in H.
  match type of H with (match ?Z with _ => _ end) = _ => destruct Z as [w1 x] eqn:E end.
  assert (W : w1 = w') by (destruct x; inversion H; reflexivity). subst w1. clear H.
  pose proof HR as (HX & HP & HF).
  apply bind_inv in E. destruct E as [(wa & u & E1 & E2) | (e1 & E1 & _)].
  2:{ destruct (try_to_remove_file_full _ _ _ _ E1 HF) as (Y & _). discriminate Y. }
  destruct (try_to_remove_target _ _ _ _ _ HR Hin E1) as [(HXa & HPa & HFa) Hnf].
  destruct (try_to_remove_file_full _ _ _ _ E1 HF) as (_ & F1 & _ & F3 & _ & G2).
  destruct (try_to_remove_file_dkeep _ _ _ _ E1) as (_ & Dk & _).
  pose proof (try_to_remove_file_npk (n :: d) (n :: d) _ _ _ E1) as Np.
  assert (HEa : EDI wa) by (exact (EDI_pstep T w wa (n :: d) HX Hin HE F3 Dk G2 Np)).
  destruct (m_bd_error_XInv T wa n d HXa Hin Hnf) as (b' & Eb & HXb).
  apply bind_inv in E2. rewrite Eb in E2. destruct E2 as [(wb & u' & E2 & E3) | (e1 & E2 & _)]; [|discriminate E2].
  inversion E2; subst wb u'; clear E2.
  assert (Ebd : bd_error (w_bd wa) (n :: d) = Some b').
  { unfold m_bd_error in Eb. destruct (bd_error (w_bd wa) (n :: d)) as [b|]; [|discriminate Eb].
    inversion Eb as [K]. congruence. }
  pose proof (EDI_bd_error T wa n d b' HXa Hin Hnf HEa Ebd) as HEb.
  pose proof (new_finish_building_file_npk _ _ _ _ _ E3) as Np3.
  unfold new_finish_building_file, modify in E3. inversion E3; subst w'.
  apply (EDI_claims (rm1 (n :: d) T) (set_bd b' wa) _ HXb HEb); [reflexivity|reflexivity|].
  intros a Ha. left. cbn [w_fs set_bd] in Ha.
  assert (Na : a <> n :: d) by (intro Z; subst a; congruence).
  exact (npk_hid (n :: d) _ _ a Np3 Na).
Qed.

Lemma bf_finish_E : forall T n d c f sa skw res subs w w' r oo,
  RX T w -> In (n :: d) T -> EDI w ->
  bf_finish (n :: d) c f sa skw res subs w = (w', (r, oo)) -> EDI w'.
Proof.
  intros T n d c f sa skw res subs w w' r oo HR Hin HE H. unfold bf_finish in H.
  destruct res as [v|e]; [|eapply bf_fail_E; eassumption].
  destruct (sanitize v) as [sv|]; [|eapply bf_fail_E; eassumption].
  destruct (noneable_cmp (n :: d) c w) as [w4 rc] eqn:Ec.
  pose proof (noneable_cmp_q _ _ _ _ _ Ec) as Q.
  pose proof (qrel_RInv T _ _ Q HR) as HR4.
  pose proof (EDI_query T _ _ (proj1 HR) Q HE) as HE4.
  destruct rc as [cmp|e]; [|eapply bf_fail_E; eassumption].
  destruct cmp; try (eapply bf_fail_E; eassumption);
    (destruct (new_finish_building_file (n :: d) _ w4) as [w5 u] eqn:E5; inversion H; subst;
     pose proof (new_finish_building_file_npk _ _ _ _ _ E5) as Np;
     unfold new_finish_building_file, modify in E5; inversion E5; subst;
     apply (EDI_pstep T w4 _ (n :: d) (proj1 HR4) Hin HE4); [reflexivity|apply dirs_same_refl|reflexivity|exact Np]).
Qed.

(* ------------------------------------------------------------------ _apply_cached_suboperations *)
Section Adopt.
  Variables (fsr : fsT) (newr : cache) (cfr : path).
  Hypothesis Hcf : isdir fsr cfr = false.

  Definition adoptableE (o : op) : Prop :=
    forall t T w w' r, (forall x, In x (flat_map op_targets (op_subs o)) -> TG x) ->
      forallb (reusable fsr newr cfr) (op_subs o) = true -> RX T w -> at0 fsr newr cfr w ->
      FI w -> EI w -> tcond t w -> gcond t w -> EDI w ->
      apply_cached_subs_of o w = (w', r) -> EDI w'.

  Lemma adopt_go_E : forall subs, Forall adoptableE subs ->
    forall t T w w' r, (forall x, In x (flat_map op_targets subs) -> TG x) ->
      forallb (reusable fsr newr cfr) subs = true -> RX T w -> at0 fsr newr cfr w ->
      FI w -> EI w -> tcond t w -> gcond t w -> EDI w ->
      adopt_go subs w = (w', r) -> EDI w'.
  Proof.
    intros subs H. induction H as [|s rest Hs Hrest IH]; intros t T w w' r Ht Hr HR Ha Fw Ew Tw Gw HY Hgo.
    - cbn in Hgo. inversion Hgo; subst. exact HY.
    - cbn [forallb] in Hr. apply andb_true_iff in Hr. destruct Hr as [Hr1 Hr2].
      assert (Ht1 : forall x, In x (op_targets s) -> TG x).
      { intros x Hx. apply Ht. cbn [flat_map]. apply in_or_app. left. exact Hx. }
      assert (Ht2 : forall x, In x (flat_map op_targets rest) -> TG x).
      { intros x Hx. apply Ht. cbn [flat_map]. apply in_or_app. right. exact Hx. }
      rewrite adopt_go_cons in Hgo.
      assert (Hhead : forall wa ra, head_of s w = (wa, ra) -> EDI wa).
      { intros wa ra Hh. destruct s as [q rt ex|p c f a k subs' rt cr ra' sf|f a k subs' rt ra' sf].
        - cbn [head_of] in Hh. inversion Hh; subst. exact HY.
        - destruct (reusable_bf _ _ _ _ _ _ _ _ _ _ _ _ _ Hr1) as [Hfile Hsub].
          assert (Hts : forall x, In x (flat_map op_targets (op_subs (OBuildFile p c f a k subs' rt cr ra' sf))) -> TG x).
          { intros x Hx. apply Ht1. cbn [op_targets op_subs] in *. right. exact Hx. }
          destruct ra'.
          + cbn [head_of] in Hh. exact (Hs t T w wa ra Hts Hsub HR Ha Fw Ew Tw Gw HY Hh).
          + destruct Ha as (A1 & A2 & A3). rewrite <- A1 in Hfile.
            destruct p as [|n d]; [discriminate Hfile|]. cbn [head_of dirname tl] in Hh.
            apply bind_inv in Hh. destruct Hh as [[w1 [created [Em Hh]]]|[e [Em _]]].
            2:{ exfalso. destruct (make_dirs_existing T n d w wa (inr e) HR Hfile) as (ds & K & _); [rewrite A1, A3; exact Hcf|exact Em|discriminate K]. }
            destruct (make_dirs_existing T n d w w1 (inl created) HR Hfile) as (ds & K & Efs); [rewrite A1, A3; exact Hcf|exact Em|].
            apply bind_inv in Hh. destruct Hh as [[w2 [locked [Eb Hh]]]|[e [Eb _]]].
            2:{ unfold m_bd_started in Eb. destruct (bd_started (w_bd w1) (n :: d) created); discriminate Eb. }
            pose proof HR as (HX & HP & HF).
            assert (Hnd : isdir (w_fs w) (n :: d) = false).
            { unfold isdir. apply isfile_lookup in Hfile. destruct Hfile as [g Hg]. rewrite Hg. reflexivity. }
            destruct (make_dirs_started_XInv T w n d w1 created w2 locked HX HP Hnd Em Eb) as (HX2 & HP2 & N2 & O2 & C2 & _).
            pose proof (EDI_make_started T w n d w1 created w2 locked HX HP Hnd
                          (FI_C1 fs0 old cf P X _ Fw) (EI_Z fs0 old cf P _ Ew) HY Em Eb) as HY2.
            assert (Eml : make_lock (n :: d) w = (w2, inl locked)).
            { unfold make_lock, bind. cbn [dirname tl]. rewrite Em, Eb. reflexivity. }
            destruct (make_lock_G fs0 old cf P X HypA HS t (n :: d) (Ht1 _ (or_introl eq_refl)) _ _ _ Eml Fw Ew Tw Gw)
              as (F2 & L2 & E2 & S2).
            assert (T2 : tcond t w2) by (intros q Hq; apply L2, Tw, Hq).
            assert (G2 : gcond t w2) by (eapply gcond_stable; eauto).
            assert (Efs2 : w_fs w2 = w_fs w).
            { unfold m_bd_started in Eb. destruct (bd_started (w_bd w1) (n :: d) created). inversion Eb; subst. cbn. exact Efs. }
            assert (HR2 : RX ((n :: d) :: T) w2) by (split; [exact HX2|split; [exact HP2|exact (proj1 (proj1 F2))]]).
            assert (Ha2 : at0 fsr newr cfr w2) by (repeat split; congruence).
            unfold catch in Hh.
            destruct (apply_cached_subs_of (OBuildFile (n :: d) c f a k subs' rt cr false sf) w2) as [w3 r3] eqn:E3.
            pose proof (Hs t ((n :: d) :: T) w2 w3 r3 Hts Hsub HR2 Ha2 F2 E2 T2 G2 HY2 E3) as HY3.
            destruct (apply_cached_ok fsr newr cfr Hcf (OBuildFile (n :: d) c f a k subs' rt cr false sf) ((n :: d) :: T) w2 w3 r3 Hsub HR2 Ha2 E3) as (R1 & _).
            subst r3. inversion Hh; subst wa ra. exact HY3.
        - pose proof (reusable_sb _ _ _ _ _ _ _ _ _ _ Hr1) as Hsub.
          cbn [head_of] in Hh. refine (Hs t T w wa ra _ Hsub HR Ha Fw Ew Tw Gw HY Hh).
          intros x Hx. apply Ht1. cbn [op_targets op_subs] in *. exact Hx. }
      apply bind_inv in Hgo. destruct Hgo as [[wa [u [Eh Hgo]]]|[e [Eh _]]].
      + destruct (head_facts fs0 old cf P X HypA HS fsr newr cfr Hcf t s T w wa (inl u) Ht1 Hr1 HR Ha Fw Ew Tw Gw Eh)
          as (_ & Ha1 & (T1 & HR1) & F1 & E1 & T1c & G1c).
        exact (IH t T1 wa w' r Ht2 Hr2 HR1 Ha1 F1 E1 T1c G1c (Hhead _ _ Eh) Hgo).
      + exact (Hhead _ _ Eh).
  Qed.

  Theorem adopt_E : forall o, adoptableE o.
  Proof.
    induction o as [q r e|p c f a k subs r cr ra sf IH|f a k subs r ra sf IH] using op_ind';
      intros t T w w' res Ht Hr HR Ha Fw Ew Tw Gw HY H; rewrite apply_cached_subs_of_eq in H; cbn [op_subs] in *.
    - cbn in H. inversion H; subst. exact HY.
    - eapply adopt_go_E; eassumption.
    - eapply adopt_go_E; eassumption.
  Qed.
End Adopt.

(* ------------------------------------------------------------------ registering an adopted record *)
Lemma hid_cfiles : forall w w', c_files (w_new w') = c_files (w_new w) -> w_old w' = w_old w ->
  w_cachefile w' = w_cachefile w -> forall a, hid w' a = hid w a.
Proof. intros w w' E1 E2 E3 a. unfold hid, cache_has_file, cache_get_file. rewrite E1, E2, E3. reflexivity. Qed.

Lemma EDI_cfiles : forall T w w', XInv T w -> EDI w -> w_fs w' = w_fs w -> w_bd w' = w_bd w ->
  c_files (w_new w') = c_files (w_new w) -> w_old w' = w_old w -> w_cachefile w' = w_cachefile w -> EDI w'.
Proof.
  intros T w w' HX HE E1 E2 E3 E4 E5. apply (EDI_claims T w w' HX HE E1 E2).
  intros a _. left. apply hid_cfiles; assumption.
Qed.

Lemma use_cached_E : forall T w o w1 r, XInv T w ->
  (forall a, In a (regp o) -> In a T \/ isfile (w_fs w) a = false) -> EDI w ->
  new_use_cached_operation o w = (w1, r) -> EDI w1.
Proof.
  intros T w o w1 r HX Hreg HE H. unfold new_use_cached_operation, bind, get in H.
  destruct (assert_no_repeats (w_new w) o); [unfold put in H|]; inversion H; subst; [|exact HE].
  apply (EDI_claims T w _ HX HE); [reflexivity|reflexivity|].
  intros a Hf. destruct (in_dec (list_eq_dec string_dec) a (regp o)) as [Hi|Hni].
  + destruct (Hreg a Hi) as [K|K]; [right; exact K|congruence].
  + left. unfold hid, cache_has_file, cache_get_file. cbn [w_new w_old w_cachefile set_new].
    rewrite (proj1 (reg_all o (w_new w) a) Hni). reflexivity.
Qed.

Lemma regp_subs_cases : forall fs new cfp subs, forallb (reusable fs new cfp) subs = true ->
  forall a, In a (flat_map regp subs) -> In a (flat_map adopted subs) \/ lexists fs a = false.
Proof.
  intros fs new cfp subs Hr a Ha. induction subs as [|s rest IH]; cbn [flat_map forallb] in *; [destruct Ha|].
  apply andb_true_iff in Hr. destruct Hr as [H1 H2]. apply in_app_iff in Ha. destruct Ha as [Ha|Ha].
  - destruct (regp_cases _ _ _ _ H1 a Ha) as [K|K]; [left; apply in_or_app; left; exact K|right; exact K].
  - destruct (IH H2 Ha) as [K|K]; [left; apply in_or_app; right; exact K|right; exact K].
Qed.

Lemma bf_reuse_E : forall t T n d c f sa skw cached wl wr rr,
  match cached with Some co => forall x, In x (op_targets co) -> TG x | None => True end ->
  RX ((n :: d) :: T) wl -> isdir (w_fs wl) (w_cachefile wl) = false ->
  (forall co, cached = Some co -> forallb (reusable (w_fs wl) (w_new wl) (w_cachefile wl)) (op_subs co) = true) ->
  FI wl -> EI wl -> tcond t wl -> gcond t wl -> EDI wl ->
  bf_reuse (n :: d) c f sa skw cached wl = (wr, rr) -> EDI wr.
Proof.
  intros t T n d c f sa skw cached wl wr rr Hc HRl Hcf Hreu Fl El Tl Gl HYl H.
  destruct cached as [co|]; [|cbn [bf_reuse] in H; inversion H; subst; exact HYl].
  specialize (Hreu co eq_refl). cbn [bf_reuse] in H. cbv zeta in H.
  apply bind_inv in H. destruct H as [[wc [cmp [Ec H]]]|[e [Ec Ee]]].
  2:{ exact (EDI_query _ _ _ (proj1 HRl) (noneable_cmp_q _ _ _ _ _ Ec) HYl). }
  pose proof (noneable_cmp_q _ _ _ _ _ Ec) as Qc. pose proof (qrel_RInv _ _ _ Qc HRl) as HRc.
  pose proof (EDI_query _ _ _ (proj1 HRl) Qc HYl) as HYc.
  destruct (qrel_at _ _ Qc) as (F2 & N2 & C2 & O2).
  destruct (G_view fs0 old cf P X t _ _ (noneable_cmp_view (n :: d) c) _ _ _ Ec Fl El Tl Gl) as (Fc & Lc & Ewc & Sc).
  assert (Tc : tcond t wc) by (intros q Hq; apply Lc, Tl, Hq).
  assert (Gc : gcond t wc) by (eapply gcond_stable; eauto).
  assert (Hreuse : forall x,
            (bind (apply_cached_subs_of co) (fun _ =>
             bind (attempt (new_use_cached_operation (OBuildFile (n :: d) c f sa skw (op_subs co) (op_ret co) cmp false false))) (fun r0 =>
              match r0 with
              | inl _ => ret (Some (inl (OBuildFile (n :: d) c f sa skw (op_subs co) (op_ret co) cmp false false)))
              | inr e => ret (Some (inr (e, OBuildFile (n :: d) c f sa skw (op_subs co) (op_ret co) cmp true true)))
              end))) wc = (wr, x) -> EDI wr).
  { intros x Hx. apply bind_inv in Hx.
    assert (Hat : at0 (w_fs wl) (w_new wl) (w_cachefile wl) wc) by (repeat split; congruence).
    assert (Hadopt : forall wd ra, apply_cached_subs_of co wc = (wd, ra) -> EDI wd).
    { intros wd ra Ha.
      refine (adopt_E (w_fs wl) (w_new wl) (w_cachefile wl) Hcf co t ((n :: d) :: T) wc wd ra
                _ Hreu HRc Hat Fc Ewc Tc Gc HYc Ha).
      intros y Hy. apply Hc. apply subs_targets_incl. exact Hy. }
    destruct Hx as [[wd [u [Ea Hx]]]|[e [Ea _]]]; [|exact (Hadopt _ _ Ea)].
    pose proof (Hadopt _ _ Ea) as HYd.
    destruct (apply_cached_ok (w_fs wl) (w_new wl) (w_cachefile wl) Hcf co ((n :: d) :: T) wc wd (inl u) Hreu HRc Hat Ea)
      as (_ & F3 & N3 & O3 & C3 & T' & HR' & M' & L').
    apply bind_inv in Hx. unfold attempt in Hx.
    destruct (new_use_cached_operation (OBuildFile (n :: d) c f sa skw (op_subs co) (op_ret co) cmp false false) wd) as [we re] eqn:Eu.
    assert (HEe : EDI we).
    { apply (use_cached_E T' wd (OBuildFile (n :: d) c f sa skw (op_subs co) (op_ret co) cmp false false) we re (proj1 HR')); [|exact HYd|exact Eu].
      intros a Ha. cbn [regp app] in Ha. destruct Ha as [<-|Ha]; [left; apply (msub_in _ _ _ M'); left; reflexivity|].
      destruct (regp_subs_cases _ _ _ _ Hreu a Ha) as [G|G]; [left; apply L'; exact G|right].
      rewrite F3, F2. unfold lexists in G. unfold isfile. destruct (lookup (w_fs wl) a); [discriminate|reflexivity]. }
    destruct Hx as [[wf [r0 [E0 Hx]]]|[e [E0 _]]]; [|discriminate E0]. inversion E0; subst wf r0.
    destruct re; inversion Hx; subst; exact HEe. }
  destruct cmp; try (exact (Hreuse _ H)). inversion H; subst. exact HYc.
Qed.

Theorem bf_try_E : forall t T n d c f sa skw w wc rt, P (n :: d) -> n :: d <> cf ->
  R2 ((n :: d) :: T) w -> FI w -> EI w -> tcond t w -> gcond t w -> EDI w ->
  cache_has_file (w_new w) (n :: d) = false -> isdir (w_fs w) (n :: d) = false ->
  bf_try (n :: d) c f sa skw w = (wc, rt) -> EDI wc.
Proof.
  intros t T n d c f sa skw w wc rt HPp Ncf HR2 Fw Ew Tw Gw HY Hunc Hnd H.
  pose proof HR2 as (HR & (HNC & HSH) & HW & _).
  pose proof (noraise_holds (fun _ => True) _ _ HR2) as [Hnr _].
  unfold bf_try in H.
  apply bind_inv in H. destruct H as [[wl [cached [El H]]]|[e [El _]]]; [|exfalso; eapply Hnr; exact El].
  pose proof (build_file_cache_lookup_q _ _ _ _ _ _ _ El) as Ql. pose proof (qrel_RInv _ _ _ Ql HR) as HRl.
  pose proof (EDI_query _ _ _ (proj1 HR) Ql HY) as HYl.
  destruct (qrel_at _ _ Ql) as (F1 & N1 & C1 & O1).
  destruct (G_view fs0 old cf P X t _ _ (build_file_cache_lookup_view (n :: d) f sa skw) _ _ _ El Fw Ew Tw Gw) as (Fl & Ll & Ewl & Sl).
  assert (Tl : tcond t wl) by (intros q Hq; apply Ll, Tw, Hq).
  assert (Gl : gcond t wl) by (eapply gcond_stable; eauto).
  assert (Hc : match cached with Some co => forall x, In x (op_targets co) -> TG x | None => True end).
  { destruct cached as [co|]; [|exact I]. pose proof (proj1 Fw) as (_ & B & _).
    apply lookup_never_raised in El. destruct El as (E & _). rewrite B in E.
    intros x Hx. right. right. eapply cache_get_file_targets; eauto. }
  assert (Hg : forall rec, cache_get_file (w_old w) (n :: d) = Some rec -> goodrec rec = true).
  { intros rec Hrec. apply wfrec_goodrec. apply (proj1 HW _ _ Hrec). }
  assert (Hreu : forall co, cached = Some co -> forallb (reusable (w_fs wl) (w_new wl) (w_cachefile wl)) (op_subs co) = true).
  { intros co ->. rewrite F1, N1, C1. apply (lookup_found _ _ _ _ _ _ _ El Hg). }
  assert (Hcfl : isdir (w_fs wl) (w_cachefile wl) = false) by (rewrite F1, C1; exact HNC).
  assert (Huncl : cache_has_file (w_new wl) (n :: d) = false) by (rewrite N1; exact Hunc).
  assert (Hclaim : forall wq, qrel wl wq -> EDI wq -> bf_claim (n :: d) wq = (wc, rt) -> EDI wc).
  { intros wq Qq HYq Hcl. pose proof (qrel_RInv _ _ _ Qq HRl) as (HXq & _ & HFq).
    destruct (qrel_at _ _ Qq) as (F2 & N2 & C2 & O2).
    assert (Hndq : isdir (w_fs wq) (n :: d) = false) by (rewrite F2, F1; exact Hnd).
    destruct (bf_claim_frame _ _ _ _ Hcl HFq Hndq) as (Tc1 & Tc2 & Tc3).
    exact (EDI_pstep ((n :: d) :: T) wq wc (n :: d) HXq (or_introl eq_refl) HYq Tc1 Tc2 Tc3 (bf_claim_npk _ _ _ _ Hcl)). }
  apply bind_inv in H. destruct H as [[wr [reused [Er H]]]|[e [Er Ee]]].
  - pose proof (bf_reuse_E t T n d c f sa skw cached wl wr _ Hc HRl Hcfl Hreu Fl Ewl Tl Gl HYl Er) as HYr.
    destruct (bf_reuse_ok T n d c f sa skw cached wl wr (inl reused) HRl Huncl Hcfl Hreu Er)
      as [[K Q]|[(o & T' & K & HR' & M')|(e & K & _)]]; [| |discriminate K].
    + inversion K; subst reused. exact (Hclaim wr Q HYr H).
    + inversion K; subst reused. inversion H; subst. exact HYr.
  - subst rt.
    exact (bf_reuse_E t T n d c f sa skw cached wl wc _ Hc HRl Hcfl Hreu Fl Ewl Tl Gl HYl Er).
Qed.

Lemma new_start_subbuild_fields : forall k w wb x, new_start_subbuild k w = (wb, x) ->
  w_fs wb = w_fs w /\ w_bd wb = w_bd w /\ c_files (w_new wb) = c_files (w_new w) /\
  w_old wb = w_old w /\ w_cachefile wb = w_cachefile w.
Proof.
  intros k w wb x H. unfold new_start_subbuild, new_assert_no_subbuild, bind, get, modify in H.
  destruct (cache_has_subbuild (w_new w) k); inversion H; subst; cbn; auto.
Qed.

Theorem sb_setup_E : forall t T f sa skw w w1 r,
  R2 T w -> FI w -> EI w -> tcond t w -> gcond t w -> EDI w ->
  sb_setup f sa skw w = (w1, r) -> EDI w1.
Proof.
  intros t T f sa skw w w1 r HR2 Fw Ew Tw Gw HY H.
  pose proof HR2 as (HR & (HNC & HSH) & HW & _).
  pose proof (noraise_holds (fun _ => True) _ _ HR2) as [_ Hnr].
  unfold sb_setup in H. cbv zeta in H.
  apply bind_inv in H. destruct H as [[wa [u [E H]]]|[e [E _]]].
  2:{ unfold new_assert_no_subbuild, bind, get in E. destruct (cache_has_subbuild (w_new w) _); inversion E; subst. exact HY. }
  assert (Hw : wa = w).
  { unfold new_assert_no_subbuild, bind, get in E. destruct (cache_has_subbuild (w_new w) _); inversion E; auto. }
  subst wa.
  apply bind_inv in H. destruct H as [[wl [cached [El H]]]|[e [El _]]]; [|exfalso; eapply Hnr; exact El].
  pose proof (subbuild_cache_lookup_q _ _ _ _ _ El) as Ql. pose proof (qrel_RInv _ _ _ Ql HR) as HRl.
  pose proof (EDI_query _ _ _ (proj1 HR) Ql HY) as HYl.
  destruct (qrel_at _ _ Ql) as (F1 & N1 & C1 & O1).
  destruct (G_view fs0 old cf P X t _ _ (subbuild_cache_lookup_view (subbuild_key f sa skw) f) _ _ _ El Fw Ew Tw Gw) as (Fl & Ll & Ewl & Sl).
  assert (Tl : tcond t wl) by (intros q Hq; apply Ll, Tw, Hq).
  assert (Gl : gcond t wl) by (eapply gcond_stable; eauto).
  destruct cached as [co|].
  - assert (Hg : forall rec, subs_get (c_subs (w_old w)) (subbuild_key f sa skw) = Some (Some rec) -> goodrec rec = true).
    { intros rec Hrec. apply wfrec_goodrec. apply (proj2 HW _ _ Hrec). }
    destruct (sublookup_found _ _ _ _ _ El Hg) as [Hreu _].
    assert (Hc : forall x, In x (op_targets co) -> TG x).
    { pose proof (proj1 Fw) as (_ & B & _).
      pose proof (sublookup_never_raised _ _ _ _ _ El) as (E0 & _). rewrite B in E0.
      intros y Hy. right. right. eapply subs_get_targets; eauto. }
    apply bind_inv in H.
    assert (Hat : at0 (w_fs w) (w_new w) (w_cachefile w) wl) by (repeat split; congruence).
    assert (Hadopt : forall wd ra, apply_cached_subs_of co wl = (wd, ra) -> EDI wd).
    { intros wd ra Ha.
      refine (adopt_E (w_fs w) (w_new w) (w_cachefile w) HNC co t T wl wd ra
                _ Hreu HRl Hat Fl Ewl Tl Gl HYl Ha).
      intros y Hy. apply Hc. apply subs_targets_incl. exact Hy. }
    destruct H as [[wd [u' [Ea H]]]|[e [Ea _]]]; [|exact (Hadopt _ _ Ea)].
    pose proof (Hadopt _ _ Ea) as HYd.
    destruct (apply_cached_ok (w_fs w) (w_new w) (w_cachefile w) HNC co T wl wd (inl u') Hreu HRl Hat Ea)
      as (_ & F3 & N3 & O3 & C3 & T' & HR' & M' & L').
    apply bind_inv in H. unfold attempt in H.
    destruct (new_use_cached_operation (OSubbuild f sa skw (op_subs co) (op_ret co) false false) wd) as [we re] eqn:Eu.
    assert (HEe : EDI we).
    { apply (use_cached_E T' wd (OSubbuild f sa skw (op_subs co) (op_ret co) false false) we re (proj1 HR')); [|exact HYd|exact Eu].
      intros a Ha. cbn [regp] in Ha.
      destruct (regp_subs_cases _ _ _ _ Hreu a Ha) as [G|G]; [left; apply L'; exact G|right].
      rewrite F3, F1. unfold lexists in G. unfold isfile. destruct (lookup (w_fs w) a); [discriminate|reflexivity]. }
    destruct H as [[wf [r0 [E0 H]]]|[e [E0 _]]]; [|discriminate E0]. inversion E0; subst wf r0.
    destruct re; inversion H; subst; exact HEe.
  - apply bind_inv in H.
    assert (Hst : forall wb x, new_start_subbuild (subbuild_key f sa skw) wl = (wb, x) -> EDI wb).
    { intros wb x Hs. destruct (new_start_subbuild_fields _ _ _ _ Hs) as (A1 & A2 & A3 & A4 & A5).
      exact (EDI_cfiles T wl wb (proj1 HRl) HYl A1 A2 A3 A4 A5). }
    destruct H as [[wb [u' [E2 H]]]|[e [E2 _]]].
    + inversion H; subst. exact (Hst _ _ E2).
    + exact (Hst _ _ E2).
Qed.

(* ------------------------------------------------------------------ room for the target *)
Lemma pfc_room_E2 : forall T n d w w' r, RX T w -> EDI w -> pfc_room (n :: d) w = (w', r) ->
  EDI w' /\ RX T w' /\ w_new w' = w_new w /\ (r = inl tt -> isdir (w_fs w') (n :: d) = false).
Proof.
  intros T n d w w' r HR HY H. split; [exact (pfc_room_E T n d w w' r HR HY H)|].
  pose proof HR as (HX & HP & HF).
  unfold pfc_room in H. unfold bind at 1, get in H.
  destruct (isdir (w_fs w) (n :: d)) eqn:Ei.
  2:{ inversion H; subst. split; [exact HR|]. split; [reflexivity | intros _; exact Ei]. }
  apply bind_inv in H. destruct H as [[wa [vd [Ed E1]]]|[e [Ed Er]]].
  2:{ subst r. pose proof (m_is_dir_q _ _ _ _ _ Ed) as Q. destruct (qrel_facts _ _ _ HX Q) as (_ & Sa & _ & _).
      split; [exact (qrel_RInv T _ _ Q HR)|].
      split; [apply (sv_new _ _ Sa) | discriminate]. }
  pose proof (m_is_dir_q _ _ _ _ _ Ed) as Q. pose proof (qrel_RInv T _ _ Q HR) as HRa.
  destruct (qrel_facts _ _ _ HX Q) as (HXa & Sa & _ & _).
  destruct (m_is_dir_inl _ _ _ _ _ HX Ed) as [Evd _].
  destruct vd.
  { inversion E1; subst. split; [exact HRa|]. split; [apply (sv_new _ _ Sa) | discriminate]. }
  assert (Hdead: dead w (n :: d) = true).
  { unfold vdir in Evd. rewrite Ei in Evd. cbn [andb] in Evd. symmetry in Evd. apply negb_false_iff in Evd. exact Evd. }
  assert (HRI: ViewXRoom2.RI T (n :: d) wa).
  { split; [exact HXa|]. split; [rewrite (sv_fs _ _ Sa); exact Ei|]. split; [rewrite (sv_dead _ _ Sa); exact Hdead|apply HRa]. }
  destruct (make_room_ok T _ _ _ _ _ HRI E1) as (HXb & Rb & Hgone).
  pose proof (RInv_rrel _ _ _ _ HRa HXb Rb) as HRb.
  split; [exact HRb|]. split.
  - rewrite (rr_new _ _ _ Rb). apply (sv_new _ _ Sa).
  - intro Hr. unfold isdir. rewrite (Hgone Hr). reflexivity.
Qed.

(* ------------------------------------------------------------------ everything before the function *)
Lemma P_lenE : forall p, P p -> List.length p < walk_fuel.
Proof. intros p H. apply tgtP_len. apply HPt. exact H. Qed.

Lemma bf_setup_E : forall t T p c f sa skw w w1 r, P p -> List.length p < walk_fuel ->
  R2 T w -> FI w -> EI w -> tcond t w -> gcond t w -> EDI w ->
  bf_setup p c f sa skw w = (w1, r) -> EDI w1.
Proof.
  intros t T p c f sa skw w w1 r HPp Hlen HR2 Fw Ew Tw Gw HY H.
  pose proof (RInv2_R _ _ HR2) as HR. pose proof HR as (HX & HP & HF).
  rewrite bf_setup_eq in H.
  apply bind_inv in H. destruct H as [[wa [u [E H]]]|[e [E Er]]].
  2:{ unfold new_assert_no_file in E. apply bind_inv in E. unfold get in E.
      destruct E as [[wb [w0 [E0 E]]]|[e' [E0 _]]]; [|discriminate E0]. inversion E0; subst wb w0.
      destruct (cache_has_file (w_new w) p); inversion E; subst. exact HY. }
  assert (Hunclaimed: wa = w /\ cache_has_file (w_new w) p = false).
  { unfold new_assert_no_file in E. apply bind_inv in E. unfold get in E.
    destruct E as [[wb [w0 [E0 E]]]|[e' [E0 _]]]; [|discriminate E0]. inversion E0; subst wb w0.
    destruct (cache_has_file (w_new w) p); inversion E; subst. auto. }
  destruct Hunclaimed as [-> Hunc].
  apply bind_inv in H. destruct H as [[wa [icf [E1 H]]]|[e [E1 _]]]; [|discriminate E1].
  unfold is_cache_file in E1. unfold bind, get, ret in E1.
  assert (Hicf : wa = w /\ icf = path_eqb p (w_cachefile w)) by (inversion E1; auto).
  destruct Hicf as [-> Hicf].
  apply bind_inv in H. destruct H as [[wa [u1 [E2 H]]]|[e [E2 Er]]].
  2:{ subst r. destruct icf; inversion E2; subst. exact HY. }
  destruct icf; [discriminate E2|]. inversion E2; subst wa u1.
  assert (Ncf : p <> cf).
  { pose proof (proj1 Fw) as (_ & _ & Ecf & _). rewrite Ecf in Hicf. intro K. subst p. rewrite path_eqb_refl in Hicf. discriminate Hicf. }
  destruct p as [|n d].
  { (* the root: every outcome is the state after the is_dir query *)
    apply bind_inv in H. destruct H as [[wa [created [E3 H]]]|[e [E3 Er]]].
    - exfalso. unfold prepare_file_creation in E3. apply bind_inv in E3. unfold get in E3.
      destruct E3 as [[wb [w0 [E0 E3]]]|[e' [E0 _]]]; [|discriminate E0]. inversion E0; subst wb w0.
      cbn [isdir lookup] in E3. apply bind_inv in E3. destruct E3 as [[wb [u2 [E4 _]]]|[e' [_ E4]]]; [|discriminate E4].
      apply bind_inv in E4. destruct E4 as [[wc [vd [Ed E4]]]|[e' [_ E4]]]; [|discriminate E4].
      destruct (m_is_dir_inl _ _ _ _ _ HX Ed) as [Evd _]. rewrite (vdir_root _ (x_binv _ _ HX)) in Evd. subst vd. discriminate E4.
    - subst r. unfold prepare_file_creation in E3. apply bind_inv in E3. unfold get in E3.
      destruct E3 as [[wb [w0 [E0 E3]]]|[e' [E0 _]]]; [|discriminate E0]. inversion E0; subst wb w0.
      cbn [isdir lookup] in E3. apply bind_inv in E3. destruct E3 as [[wb [u2 [E4 E5]]]|[e' [E4 _]]].
      + exfalso. apply bind_inv in E4. destruct E4 as [[wc [vd [Ed E4]]]|[e' [_ E4]]]; [|discriminate E4].
        destruct (m_is_dir_inl _ _ _ _ _ HX Ed) as [Evd _]. rewrite (vdir_root _ (x_binv _ _ HX)) in Evd. subst vd. discriminate E4.
      + apply bind_inv in E4. destruct E4 as [[wc [vd [Ed E4]]]|[e'' [Ed _]]].
        * pose proof (EDI_query T _ _ HX (m_is_dir_q _ _ _ _ _ Ed) HY) as HYc.
          destruct (m_is_dir_inl _ _ _ _ _ HX Ed) as [Evd _]. rewrite (vdir_root _ (x_binv _ _ HX)) in Evd. subst vd.
          inversion E4; subst. exact HYc.
        * exact (EDI_query T _ _ HX (m_is_dir_q _ _ _ _ _ Ed) HY). }
  rewrite prep_assoc in H.
  apply bind_inv in H. destruct H as [[wpre [u0 [Ep H]]]|[e [Ep Er]]].
  2:{ exact (proj1 (pfc_room_E2 T n d _ _ _ HR HY Ep)). }
  destruct (pfc_room_E2 T n d _ _ _ HR HY Ep) as (HYp & HRp & Hnew & Hnd). destruct u0.
  specialize (Hnd eq_refl).
  destruct (pfc_room_G fs0 old cf P X HypA t (n :: d) HPp _ _ _ Ep Fw Ew Tw Gw) as (Fp & Lp & Ewp & Sp).
  assert (Tp : tcond t wpre) by (intros q Hq; apply Lp, Tw, Hq).
  assert (Gp : gcond t wpre) by (eapply gcond_stable; eauto).
  cbn [dirname tl] in H.
  apply bind_inv in H. destruct H as [[w2 [created [Hmk H]]]|[e [Hmk Er]]].
  2:{ exact (EDI_mkfail T _ _ _ _ HRp HYp Hmk). }
  apply bind_inv in H. destruct H as [[w3 [locked [E4 H]]]|[e [E4 _]]].
  2:{ unfold m_bd_started in E4. destruct (bd_started (w_bd w2) (n :: d) created); discriminate E4. }
  destruct HRp as (HXp & HPq & HFp).
  destruct (make_dirs_started_XInv T wpre n d w2 created w3 locked HXp HPq Hnd Hmk E4) as (HXb & HPb & Nb & Ob & Cb & Fsb).
  pose proof (EDI_make_started T wpre n d w2 created w3 locked HXp HPq Hnd (FI_C1 fs0 old cf P X _ Fp) (EI_Z fs0 old cf P _ Ewp) HYp Hmk E4) as HY3.
  assert (Eml : make_lock (n :: d) wpre = (w3, inl locked)).
  { unfold make_lock, bind. cbn [dirname tl]. rewrite Hmk, E4. reflexivity. }
  destruct (make_lock_G fs0 old cf P X HypA HS t (n :: d) (or_introl HPp) _ _ _ Eml Fp Ewp Tp Gp) as (F3 & L3 & Ew3 & S3).
  assert (T3 : tcond t w3) by (intros q Hq; apply L3, Tp, Hq).
  assert (G3 : gcond t w3) by (eapply gcond_stable; eauto).
  assert (HFb : w_faults w3 = []) by (exact (proj1 (proj1 F3))).
  assert (HRb : RX ((n :: d) :: T) w3) by (split; [exact HXb|split; [exact HPb|exact HFb]]).
  assert (Hunc_b : cache_has_file (w_new w3) (n :: d) = false) by (rewrite Nb, Hnew; exact Hunc).
  assert (Hnd_b : isdir (w_fs w3) (n :: d) = false).
  { unfold isdir. rewrite Fsb; [exact Hnd|]. intro Hs. apply suffix_length in Hs. simpl in Hs. lia. }
  unfold catch in H. destruct (bf_try (n :: d) c f sa skw w3) as [wc rt] eqn:Et.
  assert (E3p : prepare_file_creation (n :: d) w = (w2, inl created)).
  { pose proof (prep_assoc (n :: d) _ (fun l : list path => ret l) w) as K. unfold bind in K.
    rewrite Ep in K. cbn [dirname tl] in K. rewrite Hmk in K.
    unfold ret in K. destruct (prepare_file_creation (n :: d) w) as [wz [l|e]]; [inversion K; reflexivity | discriminate K]. }
  assert (Gb : gl walk_fuel w w3).
  { eapply gl_trans; [apply (prepare_file_creation_gl walk_fuel _ _ _ _ E3p); cbn [dirname tl List.length] in *; lia|].
    apply svb_gl. apply (m_bd_started_svb _ _ _ _ _ E4). }
  pose proof (RInv2_step _ _ _ _ HR2 Gb HRb) as HRb2.
  pose proof (bf_try2 (noraise_holds _) T n d c f sa skw w3 wc rt HRb2 Hunc_b Hnd_b Et) as Post.
  pose proof (bf_try_E t T n d c f sa skw w3 wc rt HPp Ncf HRb2 F3 Ew3 T3 G3 HY3 Hunc_b Hnd_b Et) as HYc.
  destruct rt as [x|e].
  - inversion H; subst. exact HYc.
  - destruct Post as (HRc2 & Hnf & Hnp). destruct (RInv2_R _ _ HRc2) as (HXc & HPc & HFc).
    destruct (m_bd_error_XInv ((n :: d) :: T) wc n d HXc (or_introl eq_refl) Hnf) as (b' & Eb & HXe).
    apply bind_inv in H. rewrite Eb in H. destruct H as [[wd [u2 [E5 H]]]|[e' [E5 _]]]; [|discriminate E5].
    inversion E5; subst wd u2. inversion H; subst w1 r.
    assert (Ebd : bd_error (w_bd wc) (n :: d) = Some b').
    { unfold m_bd_error in Eb. destruct (bd_error (w_bd wc) (n :: d)) as [b|]; [|discriminate Eb].
      inversion Eb as [K]. congruence. }
    exact (EDI_bd_error ((n :: d) :: T) wc n d b' HXc (or_introl eq_refl) Hnf HYc Ebd).
Qed.

(* ------------------------------------------------------------------ build_file *)
Lemma dead_hid_ext : forall w w', w_fs w' = w_fs w -> w_bd w' = w_bd w -> (forall a, hid w' a = hid w a) ->
  forall x, dead w' x = dead w x.
Proof.
  intros w w' Ef Eb Hh. apply (depth_ind (w_fs w)). intros x IH.
  rewrite (dead_unfold w' x), (dead_unfold w x), Ef, Eb.
  destruct (trk (w_bd w) x); [cbn [andb]|reflexivity].
  destruct (lookup (w_fs w) x) as [[g|]|]; try reflexivity.
  apply forallb_ext_in'. intros m Hm. rewrite !invis_unfold, Ef.
  destruct (lookup (w_fs w) (m :: x)) as [[g|]|]; [apply Hh|apply IH; exact Hm|reflexivity].
Qed.

Lemma EDI_hid_ext : forall w w', w_fs w' = w_fs w -> w_bd w' = w_bd w -> (forall a, hid w' a = hid w a) -> EDI w -> EDI w'.
Proof.
  intros w w' Ef Eb Hh H d Hd Hl. rewrite (dead_hid_ext w w' Ef Eb Hh). rewrite Eb in Hd. rewrite Ef in Hl. exact (H d Hd Hl).
Qed.

Lemma m_build_file_E : forall t T p c f a kw (fn : path -> pyval -> pyval -> body) w w' res, P p ->
  (forall sa skw T0 w0 w1 r, R2 T0 w0 -> In p T0 -> fn p sa skw w0 = (w1, r) ->
     exists T1, R2 T1 w1 /\ msub T0 T1) ->
  (forall sa skw, pres (GP (Some p)) (fn p sa skw)) ->
  (forall sa skw T0 w0 w1 r, R2 T0 w0 -> In p T0 -> FI w0 -> EI w0 -> tcond (Some p) w0 -> gcond (Some p) w0 ->
     EDI w0 -> fn p sa skw w0 = (w1, r) -> EDI w1) ->
  R2 T w -> FI w -> EI w -> tcond t w -> gcond t w -> EDI w ->
  m_build_file p c f a kw fn w = (w', res) -> EDI w'.
Proof.
  intros t T p c f a kw fn w w' res HPp HfnR HfnG HfnY HR Fw Ew Tw Gw HY H.
  rewrite BuildFileLaws.m_build_file_unfold in H.
  destruct (sanitize a) as [sa|]; [|inversion H; subst; exact HY].
  destruct (sanitize kw) as [skw|]; [|inversion H; subst; exact HY].
  destruct (BuildFileLaws.bf_setup p c f sa skw w) as [w1 r1] eqn:Es.
  pose proof (bf_setup_E t T p c f sa skw w w1 r1 HPp (P_lenE _ HPp) HR Fw Ew Tw Gw HY Es) as HY1.
  pose proof (bf_setup2 (fun _ => True) (noraise_holds _) T p c f sa skw w w1 r1 (P_lenE _ HPp) HR Es) as Post.
  unfold setup_post2 in Post.
  destruct r1 as [[[o|[e o]]|]|e]; try (inversion H; subst; exact HY1).
  destruct Post as (HR1 & Hprog & Hne & Hold).
  destruct (bf_setup_G fs0 old cf P X HypA HS t p c f sa skw HPp _ _ _ Es Fw Ew Tw Gw) as (F1 & _ & Ew1 & _).
  pose proof (RollbackDirsLaws.bf_setup_none _ _ _ _ _ _ _ Es) as Hb1.
  unfold bf_rebuild in H.
  destruct (fn p sa skw (bf_invoke_world p f sa skw w1)) as [w3 [res3 subs3]] eqn:Ef.
  assert (HRi : R2 (p :: T) (bf_invoke_world p f sa skw w1)) by (eapply RInv2_fields; [exact HR1|..]; reflexivity).
  assert (Ti : tcond (Some p) (bf_invoke_world p f sa skw w1)) by (apply tcond_some; exact Hb1).
  assert (Gi : gcond (Some p) (bf_invoke_world p f sa skw w1)) by (apply gcond_some; exact Hprog).
  destruct (GRel_set_log fs0 old cf P X (Some p) (LInvoke f (Some p) sa skw :: w_log w1) w1 F1 Ew1
              (tcond_some _ _ Hb1) (gcond_some _ _ Hprog)) as (Fi & _ & Ewi & _).
  change (set_log (LInvoke f (Some p) sa skw :: w_log w1) w1) with (bf_invoke_world p f sa skw w1) in Fi, Ewi.
  assert (HYi : EDI (bf_invoke_world p f sa skw w1)) by (apply (EDI_ext w1); try reflexivity; exact HY1).
  pose proof (HfnY sa skw (p :: T) _ _ _ HRi (or_introl eq_refl) Fi Ewi Ti Gi HYi Ef) as HY3.
  destruct (HfnR sa skw (p :: T) _ _ _ HRi (or_introl eq_refl) Ef) as (T1 & HR3 & M1).
  destruct p as [|n d]; [contradiction|].
  assert (Hin : In (n :: d) T1) by (apply (msub_in _ _ _ M1); left; reflexivity).
  destruct res as [ro oo].
  exact (bf_finish_E T1 n d c f sa skw res3 subs3 w3 w' ro oo (RInv2_R _ _ HR3) Hin HY3 H).
Qed.

(* ------------------------------------------------------------------ subbuild *)
Lemma m_subbuild_E : forall t T f a kw (fn : pyval -> pyval -> body) w w' res,
  (forall sa skw T0 w0 w1 r, R2 T0 w0 -> FI w0 -> EI w0 -> tcond t w0 -> gcond t w0 -> EDI w0 ->
     fn sa skw w0 = (w1, r) -> EDI w1) ->
  R2 T w -> FI w -> EI w -> tcond t w -> gcond t w -> EDI w ->
  m_subbuild f a kw fn w = (w', res) -> EDI w'.
Proof.
  intros t T f a kw fn w w' res HfnY HR Fw Ew Tw Gw HY H.
  rewrite BuildFileLaws.m_subbuild_unfold in H.
  destruct (sanitize a) as [sa|]; [|inversion H; subst; exact HY].
  destruct (sanitize kw) as [skw|]; [|inversion H; subst; exact HY].
  destruct (sb_setup f sa skw w) as [w1 r1] eqn:Es.
  destruct (sb_setup2 (noraise_holds _) T f sa skw w w1 r1 HR Es) as (T1 & HR1 & M1 & Hold).
  pose proof (sb_setup_E t T f sa skw w w1 r1 HR Fw Ew Tw Gw HY Es) as HY1.
  destruct (sb_setup_GR fs0 old cf P X HypA HS t f sa skw _ _ _ Es Fw Ew Tw Gw) as (F1 & L1 & Ew1 & S1).
  assert (T1c : tcond t w1) by (intros q Hq; apply L1, Tw, Hq).
  assert (G1c : gcond t w1) by (eapply gcond_stable; eauto).
  destruct r1 as [[[o|[e o]]|]|e]; try (inversion H; subst; exact HY1).
  unfold sb_rebuild in H.
  destruct (fn sa skw (sb_invoke_world f sa skw w1)) as [w3 [res3 subs3]] eqn:Ef.
  assert (HRi : R2 T1 (sb_invoke_world f sa skw w1)) by (eapply RInv2_fields; [exact HR1|..]; reflexivity).
  destruct (GRel_set_log fs0 old cf P X t (LInvoke f None sa skw :: w_log w1) w1 F1 Ew1 T1c G1c) as (Fi & Li & Ewi & Si).
  change (set_log (LInvoke f None sa skw :: w_log w1) w1) with (sb_invoke_world f sa skw w1) in Fi, Ewi, Li, Si.
  assert (HYi : EDI (sb_invoke_world f sa skw w1)) by (apply (EDI_ext w1); try reflexivity; exact HY1).
  assert (Ti : tcond t (sb_invoke_world f sa skw w1)) by (intros q Hq; apply Li, T1c, Hq).
  assert (Gi : gcond t (sb_invoke_world f sa skw w1)) by (eapply gcond_stable; eauto).
  pose proof (HfnY sa skw T1 _ _ _ HRi Fi Ewi Ti Gi HYi Ef) as HY3.
  unfold sb_finish in H. cbv zeta in H.
  assert (Hfin : forall o w4 u, new_finish_subbuild (subbuild_key f sa skw) o w3 = (w4, u) -> EDI w4).
  { intros o w4 u E. unfold new_finish_subbuild, modify in E. inversion E; subst.
    apply (EDI_hid_ext w3); [reflexivity | reflexivity | | exact HY3].
    intro a0. apply hid_cfiles; reflexivity. }
  destruct res3 as [v|e].
  - destruct (sanitize v);
      match type of H with (match ?Z with _ => _ end) = _ => destruct Z as [w4 u] eqn:E4 end;
      inversion H; subst; eapply Hfin; exact E4.
  - match type of H with (match ?Z with _ => _ end) = _ => destruct Z as [w4 u] eqn:E4 end.
    inversion H; subst. eapply Hfin; exact E4.
Qed.

(* ------------------------------------------------------------------ every program *)
Theorem run_E : forall pr, AllTargets P pr ->
  forall target subs T w w' res,
    R2 T w -> FI w -> EI w -> tcond target w -> gcond target w ->
    (forall p, target = Some p -> In p T /\ List.length p < walk_fuel) -> EDI w ->
    run pr target subs w = (w', res) -> EDI w'.
Proof.
  intros pr Hat.
  induction Hat as [v | e | s q k Hk IHk | c k Hk IHk | s p c f a kw fn k Hp Hfn IHfn Hk IHk
                    | s f a kw fn k Hfn IHfn Hk IHk];
    intros target subs T w w' res HR Fw Ew Tw Gw Htg HY H; cbn [run] in H.
  - inversion H; subst. exact HY.
  - inversion H; subst. exact HY.
  - destruct s; [eapply IHk; eauto|].
    destruct (m_query q w) as [w1 [r1 o]] eqn:E.
    pose proof (m_query_RInv2 (fun _ => True) _ _ _ _ _ _ HR E) as HR1.
    destruct (m_query_G fs0 old cf P X target q _ _ _ E Fw Ew Tw Gw) as (F1 & L1 & Ew1 & S1).
    assert (T1c : tcond target w1) by (intros x Hx; apply L1, Tw, Hx).
    assert (G1c : gcond target w1) by (eapply gcond_stable; eauto).
    assert (HY1 : EDI w1).
    { unfold m_query in E. destruct (exec_query q None w) as [w2 x] eqn:Eq.
      pose proof (EDI_query T _ _ (proj1 (RInv2_R _ _ HR)) (exec_query_q _ _ _ _ _ Eq) HY) as K.
      destruct x as [v|[]]; inversion E; subst; exact K. }
    set (r' := user_answer q r1 w1) in *.
    destruct (GRel_log_answer fs0 old cf P X target q r' w1 F1 Ew1 T1c G1c) as (F2 & L2 & Ew2 & S2).
    eapply (IHk r' target _ T); [apply log_answer_RInv2; exact HR1 | exact F2 | exact Ew2 | | | exact Htg | | exact H].
    + intros x Hx. apply L2, T1c, Hx.
    + eapply gcond_stable; eauto.
    + apply (EDI_ext w1); [| | | | |exact HY1]; unfold log_answer; destruct r' as [?|[]]; reflexivity.
  - destruct target as [p|]; [|eapply IHk; eauto].
    destruct (write_file (w_fs w) p c None (N.succ (w_clock w)) (w_nextid w)) as [fs'|e] eqn:Ew0.
    2:{ inversion H; subst. exact HY. }
    set (w1 := set_clock (N.succ (w_clock w)) (N.succ (w_nextid w)) (set_fs fs' w)) in *.
    destruct (Htg p eq_refl) as [Hin Hl].
    pose proof (write_RInv2 (fun _ => True) _ _ _ _ _ HR Hin Hl Ew0) as HR1. fold w1 in HR1.
    assert (Erun : run (Write c (Ret PNone)) (Some p) [] w = (w1, (inl PNone, []))).
    { cbn [run]. rewrite Ew0. reflexivity. }
    destruct (run_G fs0 old cf P X HypA HS _ (AT_Write P c _ (AT_Ret P PNone)) (Some p) [] _ _ _ Erun Fw Ew Tw Gw)
      as (F1 & L1 & Ew1 & S1).
    eapply (IHk (Some p) _ T w1); [exact HR1 | exact F1 | exact Ew1 | | | exact Htg | | exact H].
    + intros x Hx. apply L1, Tw, Hx.
    + eapply gcond_stable; eauto.
    + apply (EDI_target T w w1 p (proj1 (RInv2_R _ _ HR)) Hin HY); try reflexivity.
      * exact (write_file_dirs_same _ _ _ _ _ _ _ Ew0).
      * intros x Hx. exact (proj2 (write_file_frame _ _ _ _ _ _ _ Ew0) x Hx).
  - destruct s; [eapply IHk; eauto|].
    match type of H with (let '(_, _) := ?Z in _) = _ => destruct Z as [w1 [r1 o]] eqn:E end.
    pose proof (fun sa skw => run_G fs0 old cf P X HypA HS _ (Hfn p sa skw) (Some p) []) as HfnG.
    assert (HfnR : forall sa skw T0 w0 w2 r, R2 T0 w0 -> In p T0 ->
              run (fn p sa skw) (Some p) [] w0 = (w2, r) -> exists T1, R2 T1 w2 /\ msub T0 T1).
    { intros sa skw T0 w0 w2 r HR0 Hin Hf.
      eapply (run2 (fun _ => True) (noraise_holds _) _ (AllTargets_mono P tgtP _ HPt (Hfn p sa skw))); [exact HR0 | | exact Hf].
      intros p0 Hp0. inversion Hp0; subst. split; [exact Hin | exact (P_lenE _ Hp)]. }
    assert (HY1 : EDI w1).
    { apply (m_build_file_E target T p c f a kw (fun p' sa skw w0 => run (fn p' sa skw) (Some p') [] w0) w w1 (r1, o) Hp
               HfnR HfnG); [|exact HR|exact Fw|exact Ew|exact Tw|exact Gw|exact HY|exact E].
      intros sa skw T0 w0 w2 r HR0 Hin F0 E0 T0c G0c HY0 Hf.
      eapply (IHfn p sa skw (Some p) [] T0); [exact HR0|exact F0|exact E0|exact T0c|exact G0c| |exact HY0|exact Hf].
      intros p0 Hp0. inversion Hp0; subst. split; [exact Hin | exact (P_lenE _ Hp)]. }
    destruct (m_build_file2 (fun _ => True) (noraise_holds _) T p c f a kw
                (fun p' sa skw w0 => run (fn p' sa skw) (Some p') [] w0) w w1 (r1, o)) as (T1 & HR1 & M1);
      [exact (P_lenE _ Hp)| |exact HR|exact E|].
    { intros sa skw T0 w0 w2 r HR0 Hin Hf. exact (HfnR sa skw T0 w0 w2 r HR0 Hin Hf). }
    destruct (m_build_file_G fs0 old cf P X HypA HS p c f a kw _ Hp HfnG target _ _ _ E Fw Ew Tw Gw) as (F1 & L1 & Ew1 & S1).
    eapply (IHk r1 target _ T1 w1); [exact HR1 | exact F1 | exact Ew1 | | | | exact HY1 | exact H].
    + intros x Hx. apply L1, Tw, Hx.
    + eapply gcond_stable; eauto.
    + intros p0 Hp0. destruct (Htg p0 Hp0) as [A Bl]. split; [apply (msub_in _ _ _ M1); exact A | exact Bl].
  - destruct s; [eapply IHk; eauto|].
    match type of H with (let '(_, _) := ?Z in _) = _ => destruct Z as [w1 [r1 o]] eqn:E end.
    assert (HfnG : forall sa skw, pres (GP target) (fun w0 => run (fn sa skw) None [] w0)).
    { intros sa skw. apply pres_None_G. exact (run_G fs0 old cf P X HypA HS _ (Hfn sa skw) None []). }
    assert (HY1 : EDI w1).
    { apply (m_subbuild_E target T f a kw (fun sa skw w0 => run (fn sa skw) None [] w0) w w1 (r1, o));
        [|exact HR|exact Fw|exact Ew|exact Tw|exact Gw|exact HY|exact E].
      intros sa skw T0 w0 w2 r HR0 F0 E0 _ _ HY0 Hf.
      eapply (IHfn sa skw None [] T0); [exact HR0|exact F0|exact E0| | | |exact HY0|exact Hf];
        intros p0 Hp0; discriminate Hp0. }
    destruct (m_subbuild2 (fun _ => True) (noraise_holds _) T f a kw (fun sa skw w0 => run (fn sa skw) None [] w0) w w1 (r1, o))
      as (T1 & HR1 & M1); [|exact HR|exact E|].
    { intros sa skw T0 w0 w2 r HR0 Hf.
      eapply (run2 (fun _ => True) (noraise_holds _) _ (AllTargets_mono P tgtP _ HPt (Hfn sa skw))); [exact HR0 | | exact Hf].
      intros p0 Hp0. discriminate Hp0. }
    destruct (m_subbuild_G fs0 old cf P X HypA HS f a kw _ target HfnG _ _ _ E Fw Ew Tw Gw) as (F1 & L1 & Ew1 & S1).
    eapply (IHk r1 target _ T1 w1); [exact HR1 | exact F1 | exact Ew1 | | | | exact HY1 | exact H].
    + intros x Hx. apply L1, Tw, Hx.
    + eapply gcond_stable; eauto.
    + intros p0 Hp0. destruct (Htg p0 Hp0) as [A Bl]. split; [apply (msub_in _ _ _ M1); exact A | exact Bl].
Qed.

End RunE.

Print Assumptions run_E.
