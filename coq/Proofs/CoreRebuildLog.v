(* Proofs/CoreRebuildLog.v — the root-level answers of a build are entries of its log, in order: the log of
   the rebuild is a subsequence of the log of the first build. *)
From Coq Require Import List String Ascii NArith ZArith Bool Arith Lia.
From FB.Base Require Import PyVal Fs.
From FB.Gen Require Import JsonUtilGen.
From FB.Spec Require Import JsonSpec Prog Ref Oracle Faithful.
From FB.Model Require Import Types SimpleOps Builder Persist Core CoreOracle CoreCache.
From FB.Proofs Require Import FsLemmas CoreLaws1 CoreLaws2 CoreLaws3 CoreLaws4 CoreLaws5 CoreLaws6
     CoreRebuildDefs CoreRebuild1 CoreRebuild2 CoreRebuild3 CoreRebuild4 CoreRebuild7 CoreRebuildMain.
Import ListNotations.
Local Open Scope list_scope.

Theorem run_top_sublog : forall pr tgt pend s s' out pend' new,
  Run pr tgt pend s s' out pend' new ->
  forall subs, exists ext, k_log s' = ext ++ k_log s /\ sublog (core_top pr tgt pend subs s) (rev ext).
Proof.
  intros pr tgt pend s s' out pend' new H. induction H; intro sb.
  - exists []. split; [reflexivity|constructor].
  - exists []. split; [reflexivity|constructor].
  - destruct (IHRun sb) as [ext [E L]]. exists ext. cbn [core_top]. auto.
  - destruct (IHRun (sb ++ [record_of q (record_answer (k_fs s) q)])) as [ext [E L]].
    exists (ext ++ [LAnswer q (spec_answer (k_fs s) q)]). split; [rewrite E, <- app_assoc; reflexivity|].
    rewrite core_top_Ask_ans, rev_app_distr. cbn [rev app]. apply sl_keep. exact L.
  - destruct (IHRun sb) as [ext [E L]]. exists ext. cbn [core_top]. auto.
  - destruct (IHRun sb) as [ext [E L]]. exists ext. cbn [core_top]. rewrite H. auto.
  - exists []. split; [reflexivity|]. cbn [core_top]. rewrite H. constructor.
  - destruct (IHRun sb) as [ext [E L]]. exists ext. rewrite (core_top_skipBF _ _ _ _ _ _ _ _ _ _ _ _ _ H). auto.
  - destruct (IHRun (sb ++ [OBuildFile p c fname sa skw [] PNone PNone true true])) as [ext [E L]]. exists ext.
    rewrite (core_top_BF_setup _ _ _ _ _ _ _ _ _ _ _ sa skw H H0), H1. auto.
  - destruct (IHRun (sb ++ [OBuildFile p c fname sa skw subs1 ret1 (cmp_of c f) false false])) as [ext [E L]]. exists ext.
    rewrite (core_top_BF_setup _ _ _ _ _ _ _ _ _ _ _ sa skw H H0), H1. cbv zeta. rewrite H2. auto.
  - destruct (IHRun1 []) as [extb [Eb _]]. destruct (IHRun2 (sb ++ [o])) as [ext [E L]].
    assert (El3 : k_log s3 = k_log s2).
    { destruct (core_finish_cases _ _ _ _ _ _ _ _ _ _ _ _ H4) as [(sv & bytes & fs3 & g & _ & _ & _ & _ & -> & _)|(e & _ & -> & _)]; reflexivity. }
    exists (ext ++ extb ++ [LInvoke fname (Some p) sa skw]). split.
    + rewrite E, El3, Eb. cbn [core_start klog ks_with k_log core_s0]. rewrite <- !app_assoc. reflexivity.
    + rewrite (core_top_BF_setup _ _ _ _ _ _ _ _ _ _ _ sa skw H H0), H1. cbv zeta. rewrite H2.
      rewrite (core_of_run _ _ _ _ _ _ _ _ H3 []). cbn [app]. rewrite H4.
      rewrite !rev_app_distr. rewrite <- app_assoc. apply sublog_app_r, sublog_app_r. exact L.
  - destruct (IHRun sb) as [ext [E L]]. exists ext. rewrite (core_top_skipSB _ _ _ _ _ _ _ _ _ _ _ H). auto.
  - destruct (IHRun (sb ++ [OSubbuild fname sa skw [] PNone true true])) as [ext [E L]]. exists ext.
    rewrite (core_top_SB_steps _ _ _ _ _ _ _ _ _ sa skw H H0). cbv zeta. rewrite H1. auto.
  - destruct (IHRun (sb ++ [OSubbuild fname sa skw subs1 ret1 false false])) as [ext [E L]]. exists ext.
    rewrite (core_top_SB_steps _ _ _ _ _ _ _ _ _ sa skw H H0). cbv zeta. rewrite H1, H2. auto.
  - destruct (IHRun1 []) as [extb [Eb _]]. destruct (IHRun2 (sb ++ [sub_rec fname sa skw bsubs res])) as [ext [E L]].
    exists (ext ++ extb ++ [LInvoke fname None sa skw]). split.
    + rewrite E. cbn [core_subreg ks_with k_log]. rewrite Eb. cbn [core_substart klog ks_with k_log]. rewrite <- !app_assoc. reflexivity.
    + rewrite (core_top_SB_steps _ _ _ _ _ _ _ _ _ sa skw H H0). cbv zeta. rewrite H1, H2.
      rewrite (core_of_run _ _ _ _ _ _ _ _ H3 []). cbn [app].
      rewrite !rev_app_distr. rewrite <- app_assoc. apply sublog_app_r, sublog_app_r. exact L.
Qed.

(* the log of the rebuild is a subsequence of the log of the first build *)
Theorem rebuild_log_sublog : forall fs cf old vers clock nextid root nm v s1 clock' nextid',
  let cr1 := core_build fs cf old vers clock nextid root in
  cr_outcome cr1 = inl v -> cr_state cr1 = Some s1 ->
  fs_wf fs -> isdir fs cf = false -> sanitized vers = true ->
  records_clean s1 = true -> records_distinct s1 = true -> no_foreign_targets fs cf old s1 ->
  let cr2 := core_build (next_fs cf s1) cf (cache_of_state nm s1) vers clock' nextid' root in
  sublog (cr_log cr2) (cr_log cr1).
Proof.
  intros fs cf old vers clock nextid root nm v s1 clock' nextid' cr1 Hout Hst W Hcfd Hvs Hcl Hdi Hnf cr2.
  destruct (rebuild_hits_all fs cf old vers clock nextid root nm v s1 clock' nextid' Hout Hst W Hcfd Hvs Hcl Hdi Hnf) as [_ [L _]].
  fold cr2 in L. rewrite L.
  destruct (core_build_inv _ _ _ _ _ _ _ _ Hst) as (dirs & t1 & out & pend & recs & Hmd & Hmk & Hrun & _ & _ & Elog & Etop).
  fold cr1 in Elog. rewrite Elog, Etop. destruct (run_of_core _ _ _ _ _ _ _ _ _ Hrun) as [recs' [_ R]].
  destruct (run_top_sublog _ _ _ _ _ _ _ _ R []) as [ext [E Ls]]. rewrite E. cbn [init_state k_log].
  rewrite rev_app_distr. cbn [rev app]. apply sl_keep. exact Ls.
Qed.

Print Assumptions rebuild_log_sublog.
