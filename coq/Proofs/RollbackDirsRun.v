(* Proofs/RollbackDirsRun.v — user code keeps the file-and-directory invariant
   [FInv X]: _make_room, _prepare_file_creation, the replay of cached suboperations,
   build_file, subbuild, queries and writes (the architecture of RollbackDirsLaws section 5,
   over the stronger preorder [FPO X t]). *)
From Coq Require Import List String Ascii NArith ZArith Bool Arith Lia Sorted.
From FB.Base Require Import PyVal Fs.
From FB.Gen Require Import JsonUtilGen.
From FB.Spec Require Import Prog.
From FB.Model Require Import Types Monad CreatedFiles BuildDirs SimpleOps Builder Persist Build Run Frame.
From FB.Proofs Require Import FsLemmas ReplayLaws FrameLaws CleanLaws RollbackDirsLaws
  RollbackDirsView RollbackDirsBase RollbackDirsInv RollbackDirsMake.
Import ListNotations.
Local Open Scope list_scope.

#[local] Hint Resolve m_handle_dir_exists_svb m_is_removed_svb is_file_no_read_svb is_cache_file_svb
  file_metadata_svb file_hash_svb list_dir_superset_svb file_comparison_result_svb
  m_is_file_svb m_is_dir_svb m_exists_svb exec_query_svb noneable_cmp_svb version_equal_svb
  is_build_file_cached_svb dirs_to_make_svb is_op_cached_svb are_subs_cached_svb
  build_file_cache_lookup_svb subbuild_cache_lookup_svb m_bd_started_svb m_bd_error_svb
  new_assert_no_file_svb new_assert_no_subbuild_svb m_query_svb : pres.

#[local] Hint Resolve m_handle_dir_exists_view m_is_removed_view is_file_no_read_view is_cache_file_view
  file_metadata_view file_hash_view list_dir_superset_view file_comparison_result_view
  m_is_file_view m_is_dir_view m_exists_view exec_query_view noneable_cmp_view version_equal_view
  is_build_file_cached_view dirs_to_make_view is_op_cached_view are_subs_cached_view
  build_file_cache_lookup_view subbuild_cache_lookup_view
  new_assert_no_file_view new_assert_no_subbuild_view m_query_view : pres.

Section RunF.

Variable fs0 : fsT.
Variable old : cache.
Variable cf : path.
Variable P : path -> Prop.

Hypothesis HypA : forall a t, Tgt old cf P t -> below a t = true -> ~ P a.
Hypothesis Hwf0 : fs_wf fs0.

Variable X : list path.

Notation RI := (RInv fs0 old cf P).
Notation AT := (AncT old cf P).
Notation TG := (Tgt old cf P).
Notation DI := (DInv fs0 old cf P).
Notation FI := (FInv fs0 old cf P).
Notation WP := (Wp fs0 old).
Notation RP := (RPOt fs0 old cf P).
Notation DP := (DPO fs0 old cf P X).
Notation FP := (FPO fs0 old cf P X).

Hint Extern 8 (pres (RPOt _ _ _ _ _) _) => apply pres_svb_T : pres.
Hint Extern 8 (pres (DPO _ _ _ _ _) _) => apply pres_view_D : pres.

(* a read-only routine keeps everything *)
Lemma F_view : forall t Y (m : world -> world * Y), pres viewPO m -> pres (FP t) m.
Proof.
  intros t Y m H. apply F_lift.
  - apply pres_svb_T. eapply pres_weaken; [apply view_svb | exact H].
  - apply pres_view_D. exact H.
Qed.
Hint Extern 8 (pres (FPO _ _ _ _ _ _) _) => apply F_view : pres.

Lemma F_dkeep : forall t Y (m : world -> world * Y), pres (RP t) m -> pres dkeepPO m -> pres (FP t) m.
Proof. intros t Y m H1 H2. apply F_lift; [exact H1 | apply pres_dkeep_D; exact H2]. Qed.

Lemma new_finish_building_file_F : forall t p o, pres (FP t) (new_finish_building_file p o).
Proof. intros. apply F_dkeep; [apply new_finish_building_file_T | apply new_finish_building_file_dkeep]. Qed.
Lemma new_start_subbuild_F : forall t k, pres (FP t) (new_start_subbuild k).
Proof. intros. apply F_dkeep; [apply new_start_subbuild_T | apply new_start_subbuild_dkeep]. Qed.
Lemma new_finish_subbuild_F : forall t k o, pres (FP t) (new_finish_subbuild k o).
Proof. intros. apply F_dkeep; [apply new_finish_subbuild_T | apply new_finish_subbuild_dkeep]. Qed.
Lemma new_use_cached_operation_F : forall t o, pres (FP t) (new_use_cached_operation o).
Proof. intros. apply F_dkeep; [apply new_use_cached_operation_T | apply new_use_cached_operation_dkeep]. Qed.
Lemma m_bd_error_F : forall t p, pres (FP t) (m_bd_error p).
Proof. intros. apply F_lift; [apply pres_svb_T; apply m_bd_error_svb | apply m_bd_error_D]. Qed.
Lemma try_to_remove_file_F : forall p, pres (FP (Some p)) (try_to_remove_file p).
Proof. intros. apply F_dkeep; [apply try_to_remove_file_T | apply try_to_remove_file_dkeep]. Qed.

Hint Resolve new_finish_building_file_F new_start_subbuild_F new_finish_subbuild_F
  new_use_cached_operation_F m_bd_error_F : pres.

(* ================================================================== *)
(* 1. _make_room                                                       *)
(* ================================================================== *)

Lemma effect_rmdir_D : forall what d, WP d -> (forall a, AT a -> a <> d) ->
  pres DP (effect what d (fun fs => rmdir fs d)).
Proof.
  intros what d Hw Hna w w' r H HD. unfold effect in H. cbv zeta in H.
  destruct (existsb (Nat.eqb (w_effects w)) (w_faults w)).
  { inversion H; subst. eapply DI_same; eauto. }
  cbn [w_fs set_effects] in H. destruct (rmdir (w_fs w) d) as [fs'|e] eqn:E; inversion H; subst; clear H.
  2:{ eapply DI_same; eauto. }
  pose proof (rmdir_wf _ _ _ E) as Hwf. apply rmdir_frame in E. destruct E as (G1 & _ & _ & G4 & G5).
  destruct HD as (I0 & I1 & I2 & I3 & I4). unfold DInv. cbn [w_fs w_bd set_log set_fs set_effects].
  split; [auto|]. split; [|split; [|split; [exact I3|]]].
  - intros q Hq. destruct (path_eq_dec q d) as [->|N]; [congruence|]. rewrite (G5 q N) in Hq. apply I1. exact Hq.
  - intros q Hq. destruct (I2 q Hq) as [Z|Z]; [|right; exact Z].
    destruct (path_eq_dec q d) as [->|N]; [|left; rewrite (G5 q N); exact Z].
    destruct Hw as [Hw|Hw]; [right; exact Hw | contradiction].
  - intros a Ha. destruct (I4 a Ha) as [Z1 Z2]. split; [|exact Z2].
    rewrite (G5 a (Hna a Z2)). exact Z1.
Qed.

Lemma guarded_backup_dkeep : forall p,
  pres dkeepPO (bind get (fun w => if isfile (w_fs w) p then bind (back_up_and_remove p) (fun b => ret tt) else ret tt)).
Proof.
  intros p w w' r H. unfold bind at 1, get in H. destruct (isfile (w_fs w) p) eqn:Ef; [|inversion H; subst; apply dkeep_refl].
  apply isfile_not_dir in Ef.
  apply bind_inv in H. destruct H as [(w1 & b & E1 & H) | (e & E1 & _)].
  - inversion H; subst. eapply back_up_dkeep; eauto.
  - eapply back_up_dkeep; eauto.
Qed.

Lemma make_room_D : forall p0, P p0 -> forall fuel d, WP d -> d = p0 \/ below p0 d = true ->
  pres DP (make_room fuel d).
Proof.
  intros p0 HP0. induction fuel as [|fuel IH]; intros d Hw Hd; cbn [make_room]; [apply pres_raise|].
  apply pres_bind; [apply pres_get|]. intro w0.
  destruct (listdir (w_fs w0) d) as [names|e]; [|apply pres_raise].
  apply pres_bind.
  - apply pres_mapM_. intro n.
    assert (Hb : below p0 (n :: d) = true).
    { destruct Hd as [->|Hd]; [apply below_self_cons | apply below_cons; exact Hd]. }
    intros w w' r H HD. unfold bind at 1, get in H.
    destruct (isdir (w_fs w) (n :: d)) eqn:Ed.
    + apply bind_inv in H. destruct H as [(w1 & vd & E1 & H) | (e & E1 & _)].
      2:{ exact (view_D fs0 old cf P X _ _ (m_is_dir_view _ _ _ _ _ E1) HD). }
      pose proof (view_D fs0 old cf P X _ _ (m_is_dir_view _ _ _ _ _ E1) HD) as HD1.
      destruct vd; [inversion H; subst; exact HD1|].
      pose proof (Wp_of_virtual_absent fs0 old cf P X _ _ _ HD E1) as Hwa.
      exact (IH (n :: d) Hwa (or_intror Hb) _ _ _ H HD1).
    + apply bind_inv in H. destruct H as [(w1 & vf & E1 & H) | (e & E1 & _)].
      2:{ exact (view_D fs0 old cf P X _ _ (m_is_file_view _ _ _ _ _ E1) HD). }
      pose proof (m_is_file_view _ _ _ _ _ E1) as V1.
      pose proof (view_D fs0 old cf P X _ _ V1 HD) as HD1.
      assert (Ffs : w_fs w1 = w_fs w) by (destruct V1 as ((F & _) & _); exact F).
      destruct vf; [inversion H; subst; exact HD1|].
      assert (K : dkeep w1 w').
      { apply bind_inv in H. destruct H as [(w2 & b & E2 & H) | (e & E2 & _)].
        - inversion H; subst. eapply back_up_dkeep; eauto. rewrite Ffs. exact Ed.
        - eapply back_up_dkeep; eauto. rewrite Ffs. exact Ed. }
      exact (dkeep_D fs0 old cf P X _ _ K HD1).
  - intros _. apply pres_catch.
    + apply effect_rmdir_D; [exact Hw|]. intros a (t & Ht & Hbt) E. subst a.
      assert (Hpt : below p0 t = true).
      { destruct Hd as [->|Hd]; [exact Hbt | eapply below_trans; eauto]. }
      exact (HypA p0 t Ht Hpt HP0).
    + intro e. destruct (is_os e); apply pres_raise.
Qed.

(* the first half of _prepare_file_creation *)
Definition pfc_room (p : path) : M unit :=
  bind get (fun w =>
    if isdir (w_fs w) p then
      bind (m_is_dir p None) (fun vd => if vd then raise (XOS XIsADirectory) else make_room room_fuel p)
    else ret tt).

Lemma prep_assoc : forall p B (K : list path -> M B) w,
  bind (prepare_file_creation p) K w = bind (pfc_room p) (fun _ => bind (make_dirs (dirname p)) K) w.
Proof.
  intros p B K w. unfold prepare_file_creation, pfc_room, bind, get.
  destruct (isdir (w_fs w) p); [|reflexivity].
  destruct (m_is_dir p None w) as [w1 [[|]|e]]; try reflexivity.
  destruct (make_room room_fuel p w1) as [w2 [u|e]]; reflexivity.
Qed.

Lemma pfc_room_F : forall t p, P p -> pres (FP t) (pfc_room p).
Proof.
  intros t p HP. apply F_lift.
  - pose proof (make_room_T fs0 old cf P HypA t p HP room_fuel p (or_introl eq_refl)).
    unfold pfc_room. pres_auto.
  - intros w w' r H HD. unfold pfc_room in H. unfold bind at 1, get in H.
    destruct (isdir (w_fs w) p) eqn:Ed; [|inversion H; subst; exact HD].
    apply bind_inv in H. destruct H as [(w1 & vd & E1 & H) | (e & E1 & _)].
    2:{ exact (view_D fs0 old cf P X _ _ (m_is_dir_view _ _ _ _ _ E1) HD). }
    pose proof (view_D fs0 old cf P X _ _ (m_is_dir_view _ _ _ _ _ E1) HD) as HD1.
    destruct vd; [inversion H; subst; exact HD1|].
    pose proof (Wp_of_virtual_absent fs0 old cf P X _ _ _ HD E1) as Hwa.
    exact (make_room_D p HP room_fuel p Hwa (or_introl eq_refl) _ _ _ H HD1).
Qed.

(* ================================================================== *)
(* 2. Replaying cached suboperations                                   *)
(* ================================================================== *)

Lemma apply_step_F : forall t0 s (k : M unit),
  (forall t, In t (op_targets s) -> TG t) -> pres (FP t0) (apply_cached_subs_of s) -> pres (FP t0) k ->
  pres (FP t0)
    (bind (match s with
           | OBuildFile p _ _ _ _ _ _ _ false _ =>
               bind (make_dirs (dirname p)) (fun created =>
               bind (m_bd_started p created) (fun locked =>
               catch (apply_cached_subs_of s) (fun e => bind (m_bd_error p) (fun _ => raise e))))
           | OSimple _ _ _ => ret tt
           | _ => apply_cached_subs_of s
           end) (fun _ => k)).
Proof.
  intros t0 s k Ht Hs Hk. apply pres_bind; [|intros _; exact Hk].
  destruct s as [q r e | p c f a kw subs r cr ra sf | f a kw subs r ra sf]; [apply pres_ret | | exact Hs].
  destruct ra; [exact Hs|].
  apply (make_lock_F fs0 old cf P HypA X); [apply Ht; left; reflexivity|]. intro locked. pres_auto.
Qed.

Lemma apply_cached_subs_of_F : forall o, (forall t, In t (op_targets o) -> TG t) ->
  forall t0, pres (FP t0) (apply_cached_subs_of o).
Proof.
  induction o as [q r e | p c f a k subs r cr ra sf IH | f a k subs r ra sf IH] using op_ind';
    intros Ht t0; cbn [apply_cached_subs_of].
  - apply pres_ret.
  - assert (Ht' : forall t, In t (flat_map op_targets subs) -> TG t).
    { intros t Y. apply Ht. right. exact Y. }
    clear Ht. induction IH as [|s rest Hs HF IHl]; cbn beta iota fix; [apply pres_ret|].
    apply apply_step_F.
    + intros t Y. apply Ht'. cbn [flat_map]. apply in_or_app. left. exact Y.
    + apply Hs. intros t Y. apply Ht'. cbn [flat_map]. apply in_or_app. left. exact Y.
    + apply IHl. intros t Y. apply Ht'. cbn [flat_map]. apply in_or_app. right. exact Y.
  - assert (Ht' : forall t, In t (flat_map op_targets subs) -> TG t).
    { intros t Y. apply Ht. exact Y. }
    clear Ht. induction IH as [|s rest Hs HF IHl]; cbn beta iota fix; [apply pres_ret|].
    apply apply_step_F.
    + intros t Y. apply Ht'. cbn [flat_map]. apply in_or_app. left. exact Y.
    + apply Hs. intros t Y. apply Ht'. cbn [flat_map]. apply in_or_app. left. exact Y.
    + apply IHl. intros t Y. apply Ht'. cbn [flat_map]. apply in_or_app. right. exact Y.
Qed.

(* ================================================================== *)
(* 3. build_file                                                       *)
(* ================================================================== *)

Lemma bf_claim_F : forall t p, P p -> p <> cf -> pres (FP t) (bf_claim p).
Proof.
  intros t p HP Hcf. apply F_dkeep; [apply bf_claim_T; assumption|].
  unfold bf_claim. apply pres_bind; [apply new_start_building_file_dkeep|]. intros _.
  apply pres_bind; [|intro; apply pres_ret].
  apply pres_catch; [apply guarded_backup_dkeep|]. intro e.
  apply pres_bind; [apply new_abort_building_file_dkeep | intro; apply pres_raise].
Qed.

Lemma bf_reuse_F : forall t p c fname sargs skw cached,
  match cached with Some co => forall x, In x (op_targets co) -> TG x | None => True end ->
  pres (FP t) (bf_reuse p c fname sargs skw cached).
Proof.
  intros t p c fname sargs skw cached Hc. unfold bf_reuse. cbv zeta. destruct cached as [co|]; [|apply pres_ret].
  pose proof (apply_cached_subs_of_F co Hc t). pres_auto.
Qed.

Lemma bf_setup_F : forall t p c fname sargs skw, P p -> pres (FP t) (bf_setup p c fname sargs skw).
Proof.
  intros t p c fname sargs skw HP. unfold bf_setup.
  apply pres_bind; [auto with pres|]. intros _.
  apply (pres_bind_valF fs0 old cf P X t _ _ _ _ (fun icf => icf = path_eqb p cf)); [auto with pres | |].
  { intros w w1 a ((_ & _ & C & _) & _) E. unfold is_cache_file in E.
    assert (Ea : a = path_eqb p (w_cachefile w)) by congruence. rewrite <- C. exact Ea. }
  intros icf ->. destruct (path_eqb p cf) eqn:Ecf; [apply pres_bind_raise|]. apply path_eqb_neq in Ecf.
  apply pres_bind; [apply pres_ret|]. intros _.
  eapply pres_ext; [intro; apply prep_assoc|].
  apply pres_bind; [apply pfc_room_F; exact HP|]. intros _.
  apply (make_lock_F fs0 old cf P HypA X); [left; exact HP|]. intro locked.
  apply pres_catch; [|intro e; pres_auto].
  apply (pres_bind_valF fs0 old cf P X t _ _ _ _
           (fun cached => match cached with Some co => forall x, In x (op_targets co) -> TG x | None => True end));
    [auto with pres | |].
  { intros w w1 a ((_ & B & _) & _) E. destruct a as [co|]; [|exact I].
    apply lookup_never_raised in E. destruct E as (E & _). rewrite B in E.
    intros x Hx. right. right. eapply cache_get_file_targets; eauto. }
  intros cached Hc. apply pres_bind; [apply bf_reuse_F; exact Hc|]. intro reused.
  destruct reused as [[o|eo]|]; [pres_auto | pres_auto | apply bf_claim_F; assumption].
Qed.

Ltac relF_facts t :=
  repeat match goal with
  | E : ?m ?w = (?w1, _) |- _ =>
      lazymatch goal with
      | _ : FRel fs0 old cf P X t w w1 |- _ => fail
      | _ => let Y := fresh "RL" in
             assert (Y : FRel fs0 old cf P X t w w1) by (refine ((_ : pres (FP t) m) w w1 _ E); solve [pres_auto])
      end
  end.
Ltac relF_chain :=
  repeat first [ eassumption
               | apply FRel_refl
               | apply FRel_set_log
               | eapply FRel_trans; [eassumption|]
               | eapply FRel_trans; [apply FRel_set_log|];
                 first [ eassumption | eapply FRel_trans; [eassumption|] ] ].

Lemma bf_tail_none_F : forall p c fname sargs skw fn w1 w' r,
  (forall sa skw', pres (FP (Some p)) (fn p sa skw')) ->
  bf_tail p c fname sargs skw fn (w1, inl None) = (w', r) -> FRel fs0 old cf P X (Some p) w1 w'.
Proof.
  intros p c fname sargs skw fn w1 w' r Hfn H. unfold bf_tail in H. cbv zeta in H.
  pose proof (try_to_remove_file_F p) as T1.
  repeat dm H; inversion H; subst; relF_facts (Some p); relF_chain.
Qed.

Lemma m_build_file_F : forall p c f a kw fn, P p ->
  (forall sa skw, pres (FP (Some p)) (fn p sa skw)) ->
  forall t, pres (FP t) (m_build_file p c f a kw fn).
Proof.
  intros p c f a kw fn HP Hfn t w w' r H. rewrite m_build_file_unfold in H.
  destruct (sanitize a) as [sa|]; [|inversion H; subst; apply FRel_refl].
  destruct (sanitize kw) as [skw|]; [|inversion H; subst; apply FRel_refl].
  destruct (bf_setup p c f sa skw w) as [w1 sr] eqn:Hs.
  pose proof (bf_setup_F t p c f sa skw HP _ _ _ Hs) as R1. change (FRel fs0 old cf P X t w w1) in R1.
  change (FRel fs0 old cf P X t w w').
  destruct sr as [[[o|[e o]]|]|e]; try (cbn in H; inversion H; subst; exact R1).
  pose proof (bf_setup_none _ _ _ _ _ _ _ Hs) as Hb.
  pose proof (bf_tail_none_F _ _ _ _ _ _ _ _ _ Hfn H) as R2.
  intros Hinv Ht. destruct (R1 Hinv Ht) as [Hinv1 L1].
  assert (T1 : tcond (Some p) w1) by (intros q Y; inversion Y; subst; exact Hb).
  destruct (R2 Hinv1 T1) as [Hinv2 L2]. split; [exact Hinv2 | eapply built_le_trans; eauto].
Qed.

Lemma m_subbuild_F : forall f a kw fn t,
  (forall sa skw, pres (FP t) (fn sa skw)) -> pres (FP t) (m_subbuild f a kw fn).
Proof.
  intros f a kw fn t Hfn w w' r H. unfold m_subbuild in H.
  destruct (sanitize a) as [sa|]; [|inversion H; subst; apply FRel_refl].
  destruct (sanitize kw) as [skw|]; [|inversion H; subst; apply FRel_refl].
  cbv zeta in H.
  assert (Hset : pres (FP t)
    (bind (new_assert_no_subbuild (subbuild_key f sa skw)) (fun _ =>
     bind (subbuild_cache_lookup (subbuild_key f sa skw) f) (fun cached =>
     match cached with
     | Some co =>
         bind (apply_cached_subs_of co) (fun _ =>
         bind (attempt (new_use_cached_operation (OSubbuild f sa skw (op_subs co) (op_ret co) false false))) (fun r =>
         match r with
         | inl _ => ret (Some (inl (OSubbuild f sa skw (op_subs co) (op_ret co) false false)))
         | inr e => ret (Some (inr (e, OSubbuild f sa skw (op_subs co) (op_ret co) true true)))
         end))
     | None => bind (new_start_subbuild (subbuild_key f sa skw)) (fun _ => ret None)
     end)))).
  { apply pres_bind; [auto with pres|]. intros _.
    apply (pres_bind_valF fs0 old cf P X t _ _ _ _
           (fun cached => match cached with Some co => forall x, In x (op_targets co) -> TG x | None => True end));
      [auto with pres | |].
    { intros w0 w1 x ((_ & B & _) & _) E. destruct x as [co|]; [|exact I].
      apply sublookup_never_raised in E. destruct E as (E & _). rewrite B in E.
      intros y Hy. right. right. eapply subs_get_targets; eauto. }
    intros cached Hc. destruct cached as [co|]; [|pres_auto].
    pose proof (apply_cached_subs_of_F co Hc t). pres_auto. }
  match type of H with (match ?Z with _ => _ end) = _ => destruct Z as [w1 res] eqn:Hs end.
  change (FRel fs0 old cf P X t w w').
  repeat dm H; inversion H; subst; relF_facts t; relF_chain.
Qed.

Lemma m_query_F : forall t q, pres (FP t) (m_query q).
Proof. intros t q. apply F_view. apply m_query_view. Qed.

Lemma FRel_log_answer : forall t q r w, FRel fs0 old cf P X t w (log_answer q r w).
Proof.
  intros t q r w. apply FRel_of; [apply RelT_log_answer|]. apply (dkeep_D fs0 old cf P X). apply dkeep_log_answer.
Qed.

(* ================================================================== *)
(* 4. User code                                                        *)
(* ================================================================== *)

Theorem run_F : forall pr, AllTargets P pr ->
  forall target subs, pres (FP target) (run pr target subs).
Proof.
  intros pr Hat.
  induction Hat as [v | e | s q k Hk IHk | c k Hk IHk | s p c f a kw fn k Hp Hfn IHfn Hk IHk
                    | s f a kw fn k Hfn IHfn Hk IHk];
    intros target subs w w' r H; cbn [run] in H; change (FRel fs0 old cf P X target w w').
  - inversion H; subst. apply FRel_refl.
  - inversion H; subst. apply FRel_refl.
  - destruct s; [eapply IHk; eauto|].
    destruct (m_query q w) as [w1 [r1 o]] eqn:E.
    apply (m_query_F target) in E. apply IHk in H.
    eapply FRel_trans; [exact E|]. eapply FRel_trans; [apply FRel_log_answer | exact H].
  - destruct target as [p|]; [|eapply IHk; eauto].
    destruct (write_file (w_fs w) p c None (N.succ (w_clock w)) (w_nextid w)) as [fs'|e] eqn:E.
    + apply IHk in H. eapply FRel_trans; [|exact H].
      intros [Hr HD] Ht. split; [|apply built_le_same; reflexivity]. split.
      * eapply write_target_T; [exact Hr | apply Ht; reflexivity | exact E].
      * apply (dkeep_D fs0 old cf P X w); [|exact HD]. split; [reflexivity|]. cbn [w_fs set_clock set_fs].
        split; [eapply write_file_dirs_same; eauto | eapply write_file_wf; eauto].
    + inversion H; subst. apply FRel_refl.
  - destruct s; [eapply IHk; eauto|].
    match type of H with (let '(_, _) := ?Z in _) = _ => destruct Z as [w1 [r1 o]] eqn:E end.
    apply (m_build_file_F p c f a kw _ Hp) with (t := target) in E.
    + apply IHk in H. eapply FRel_trans; [exact E | exact H].
    + intros sa skw. apply IHfn.
  - destruct s; [eapply IHk; eauto|].
    match type of H with (let '(_, _) := ?Z in _) = _ => destruct Z as [w1 [r1 o]] eqn:E end.
    apply (m_subbuild_F f a kw _ target) in E.
    + apply IHk in H. eapply FRel_trans; [exact E | exact H].
    + intros sa skw. apply pres_None_F. apply IHfn.
Qed.

End RunF.
