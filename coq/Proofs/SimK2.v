(* Proofs/SimK2.v — C04, overlay queries, continued: when the side condition of get_size holds.
   DirsPhys w c: every overlay DIRECTORY entry is physically a directory.  It holds of the
   empty overlay, is kept by finished_building_file, and by started_building_file(p) whenever
   the parent of p is physically a directory - in particular whenever p is physically a file,
   which is what Builder.is_op_cached has checked (is_build_file_cached) before it calls
   cf_started for a record that did NOT raise.  Under DirsPhys every query kind, get_size
   included, answers like POSIX on the overlay tree, and the verdict of
   _is_simple_operation_cached is Core's verdict (SimB2.simple_corr, which excludes get_size)
   for get_size too.
   What is left out (see SimK1.overlay_get_size_dir_counterexample): the record of a build_file
   that RAISED: its directories are entered in the overlay although nothing is on disk; a
   recorded get_size of such a directory is answered FileNotFoundError by the validation. *)
From Coq Require Import List String Ascii NArith ZArith Bool Arith Lia.
From FB.Base Require Import PyVal Fs.
From FB.Gen Require Import JsonUtilGen.
From FB.Spec Require Import Prog Ref Oracle Faithful.
From FB.Model Require Import Types Monad CreatedFiles BuildDirs SimpleOps Builder Persist Build Run Frame Core CoreOracle.
From FB.Proofs Require Import FsLemmas CleanLaws JsonLaws CoreLawsChildren ReplayLaws CmpLaws CoreLaws1
     ViewDefs ViewLemmas ViewScan ViewQueries ViewAnswers ViewPres ViewOverlay ViewOverlay2 ViewH2
     ViewK3 ViewK4 SimB2 SimB6 SimG4 SimG7 SimK1.
Import ListNotations.
Open Scope list_scope.
Open Scope m_scope.

Definition DirsPhys (w : world) (c : cfiles) : Prop :=
  forall p, mem_path p (cf_dirs c) = true -> isdir (w_fs w) p = true.

Lemma DirsPhys_empty : forall w, DirsPhys w cf_empty.
Proof. intros w p H. discriminate. Qed.

Lemma DirsPhys_good : forall w w' c, good w w' -> DirsPhys w c -> DirsPhys w' c.
Proof. intros w w' c G H p Hp. rewrite (sv_fs _ _ (good_sv _ _ G)). apply H. exact Hp. Qed.

Lemma DirsPhys_finished : forall w c p, DirsPhys w c -> DirsPhys w (cf_finished c p).
Proof.
  intros w c p H q Hq. unfold cf_finished in Hq.
  destruct (add_sub_fields (cf_with c (add_path p (cf_files c)) (cf_dirs c) (cf_sub c) (cf_counts c)) p) as [_ Ed].
  rewrite Ed in Hq. apply H. exact Hq.
Qed.

(* the directory entries after started_building_file: the old ones and ancestors of the target *)
Lemma cf_started_from_dirs : forall parent c p,
  mem_path p (cf_dirs (cf_started_from c parent)) = true ->
  mem_path p (cf_dirs c) = true \/ suffix p parent.
Proof.
  induction parent as [|n d IH]; intros c p H; cbn [cf_started_from] in H.
  - destruct (Nat.ltb 0 _); [left; exact H|].
    cbn [cf_add_to_subfiles cf_dirs cf_with] in H. rewrite mem_add_path in H.
    apply orb_true_iff in H. destruct H as [H|H]; [|left; exact H].
    apply path_eqb_eq in H. subst p. right. apply suffix_refl.
  - destruct (Nat.ltb 0 _); [left; exact H|].
    apply IH in H. destruct H as [H|H]; [|right; apply suffix_cons; exact H].
    match type of H with mem_path _ (cf_dirs (cf_add_to_subfiles ?c0 ?q)) = true =>
      destruct (add_sub_fields c0 q) as [_ Ed] end.
    rewrite Ed in H. cbn [cf_dirs cf_with] in H. rewrite mem_add_path in H.
    apply orb_true_iff in H. destruct H as [H|H]; [|left; exact H].
    apply path_eqb_eq in H. subst p. right. apply suffix_refl.
Qed.

Theorem DirsPhys_started : forall w c n d, fs_wf (w_fs w) -> isdir (w_fs w) d = true ->
  DirsPhys w c -> DirsPhys w (cf_started c (n :: d)).
Proof.
  intros w c n d Hwf Hd H p Hp. unfold cf_started in Hp. apply cf_started_from_dirs in Hp.
  destruct Hp as [Hp|Hp]; [apply H; exact Hp|].
  apply isdir_lookup in Hd. unfold isdir. rewrite (wf_suffix_dir _ _ _ Hwf Hd Hp). reflexivity.
Qed.

(* the case of is_op_cached for a record that did not raise: the file has just been compared *)
Corollary DirsPhys_started_file : forall w c p, fs_wf (w_fs w) -> isfile (w_fs w) p = true ->
  DirsPhys w c -> DirsPhys w (cf_started c p).
Proof.
  intros w c p Hwf Hf H. destruct p as [|n d]; [exact H|].
  apply DirsPhys_started; try assumption.
  apply isfile_lookup in Hf. destruct Hf as [f Hf]. pose proof (Hwf _ _ Hf) as K. cbn [dirname tl] in K.
  unfold isdir. rewrite K. reflexivity.
Qed.

(* ------------------------------------------------------------------ answers under DirsPhys *)
Theorem overlay_get_size_answers_phys : forall w c p, BInv w -> CInv w c -> DirsPhys w c -> pok w p ->
  yields (m_get_size p (Some c)) w (to_res (spec_answer_raw (overlay_fs w c) (QGetSize p))).
Proof. intros w c p HB HC HD Hp. apply overlay_get_size_answers; try assumption. apply HD. Qed.

(* every recorded query on a creatable path; HASH reads when the memo is right *)
Definition qry_okK (hk : bool) (q : query) : bool :=
  path_ok (spec_query_path q) && match q with QRead _ c => cmp_okb hk c | _ => true end.

Lemma qry_ok_qry_okK : forall hk q, qry_ok hk q = true -> qry_okK hk q = true.
Proof.
  intros hk q H. unfold qry_ok in H. unfold qry_okK. apply andb_true_iff in H. destruct H as [H1 H2].
  rewrite H1. destruct q; try reflexivity; try exact H2.
Qed.

Theorem overlay_answers_all_phys : forall hk w c q, BInv w -> CInv w c -> DirsPhys w c -> OvOk c ->
  maxlen (w_fs w) < walk_fuel -> (hk = true -> hash_ok w \/ HashOk w) -> qry_okK hk q = true ->
  yields (exec_query q (Some c)) w (to_res (record_answer (overlay_fs w c) q)).
Proof.
  intros hk w c q HB HC HD HO Hm Hh Hq. unfold qry_okK in Hq. apply andb_true_iff in Hq. destruct Hq as [Hp Hq].
  apply (overlay_answers_all_OvOk hk); try assumption.
  - destruct q; try exact I. exact Hq.
  - intros p _. apply HD.
Qed.

(* the verdict on one recorded query is Core's verdict on a related scratch tree: get_size too *)
Theorem simple_corr_K : forall hk W w c fsr q ret_ ex,
  BInv w -> CInv w c -> DirsPhys w c -> OvOk c -> maxlen (w_fs w) < walk_fuel ->
  (hk = true -> hash_ok w \/ HashOk w) ->
  qry_okK hk q = true -> trel W (overlay_fs w c) fsr -> fresh_read W (overlay_fs w c) fsr q ret_ ->
  yields (is_simple_operation_cached q ret_ ex c) w (inl (simple_verdict fsr q ret_ ex)).
Proof.
  intros hk W w c fsr q ret_ ex HB HC HD HO Hm Hh Hq HT HF.
  destruct (overlay_answers_all_phys hk w c q HB HC HD HO Hm Hh Hq) as [w' [E G]].
  exists w'. split; [|exact G]. unfold is_simple_operation_cached, bind, attempt. rewrite E.
  unfold simple_verdict.
  destruct (record_answer_trel_cases W _ _ q HT) as [Eq|(p & f & g & Eqq & Em & Ea & Eb & Ra & Rb)].
  - rewrite <- Eq. destruct (record_answer (overlay_fs w c) q) as [v|c0]; cbn [to_res].
    + destruct ex; [rewrite andb_false_r|rewrite andb_true_r]; reflexivity.
    + destruct ex; [reflexivity|rewrite andb_false_r; reflexivity].
  - rewrite Ra, Rb. cbn [to_res]. destruct (HF p f g Eqq Em Ea Eb) as [F1 F2]. rewrite F1, F2.
    destruct ex; reflexivity.
Qed.

Print Assumptions DirsPhys_started.
Print Assumptions DirsPhys_started_file.
Print Assumptions DirsPhys_finished.
Print Assumptions overlay_get_size_answers_phys.
Print Assumptions overlay_answers_all_phys.
Print Assumptions simple_corr_K.
