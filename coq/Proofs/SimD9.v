(* Proofs/SimD9.v — C01 for the whole build of the mechanism model with one assumption less:
   CfListed (SimD4.EndInv) is proved from SimD8 — the cache file of the previous build stays in
   place while the root function runs — under two more side conditions:
     - the previous cache does not record the cache file as an output;
     - (from condition A of SimD4) no target is a proper ancestor of the cache file.
   What is still assumed about the end of the run: ErrDead, for previous caches that record
   directories ([ErrDeadInv], [err_dead_statement]).                                        *)
From Coq Require Import List String Ascii NArith ZArith Bool Arith Lia.
From FB.Base Require Import PyVal Fs.
From FB.Gen Require Import JsonUtilGen.
From FB.Spec Require Import JsonSpec Prog Ref Oracle Faithful.
From FB.Model Require Import Types Monad CreatedFiles BuildDirs SimpleOps Builder Persist Build Run Frame Core CoreOracle.
From FB.Proofs Require Import FsLemmas JsonLaws BuildFileLaws HashMemoInv CoreLaws1 CoreLaws2 CoreLaws6
     ViewDefs ViewLemmas ViewInit ViewXDefs ViewXFail ViewR2 ViewR3 ViewK3 ViewK4 ViewK8 SimA0 SimAMain SimC0 SimC12 SimC13 SimC15.
From FB.Proofs Require Import ReplayLaws RollbackLaws RollbackDirsLaws RollbackDirsBase RollbackDirsInv RollbackDirsMain
     CommitDirsInv CommitDirsMain CommitDirs2FileMain CommitDirs2Y CommitDirs3Run CommitDirs3Main SimD1 SimD2 SimD3 SimD4 SimD8.
Import ListNotations.
Open Scope list_scope.

Lemma below_app : forall p n l, below p ((n :: l) ++ p) = true.
Proof.
  intros p n l. revert n. induction l as [|m l IH]; intro n.
  - apply below_self_cons.
  - change ((n :: m :: l) ++ p) with (n :: ((m :: l) ++ p)). apply below_cons. apply IH.
Qed.

(* what is still assumed about the end of the run *)
Definition ErrDeadInv (cf : path) (nm : string) (svers : pyval) (root : prog) (w : world) : Prop :=
  let old := old_cache_of (w_fs w) cf nm svers in
  forall w1 w2 r l,
    make_dirs (dirname cf) (Build.start_world w cf old nm svers) = (w1, inl []) ->
    run root None [] (set_log (LInvoke "<root>"%string None PNone PNone :: w_log w1) w1) = (w2, (r, l)) ->
    ErrDead (w_fs w) old w2.

(* the cache file stays in place: CfListed *)
Theorem cf_in_place : forall cf nm svers root w (P : path -> Prop) w1 w2 r l,
  let old := old_cache_of (w_fs w) cf nm svers in
  w_faults w = [] -> fs_wf (w_fs w) ->
  AllTargets P root ->
  (forall a t, (P t \/ t = cf \/ In t (cache_targets old)) ->
     below a t = true -> (forall f, lookup (w_fs w) a <> Some (NFile f)) /\ ~ P a) ->
  cache_created_file old cf = false ->
  c_dirs old <> [] ->
  make_dirs (dirname cf) (Build.start_world w cf old nm svers) = (w1, inl []) ->
  run root None [] (set_log (LInvoke "<root>"%string None PNone PNone :: w_log w1) w1) = (w2, (r, l)) ->
  CfListed cf w2.
Proof.
  intros cf nm svers root w P w1 w2 r l old Hf Hwf Hat HA Hcfo Hne Emk Erun.
  assert (HatN : AllTargets (NotAboveCf cf) root).
  { apply (AllTargets_mono P); [|exact Hat]. intros p Hp n l0 Z.
    apply (proj2 (HA p cf (or_intror (or_introl eq_refl)) ltac:(rewrite Z; apply below_app))). exact Hp. }
  pose proof (root_run_no_cf_backup cf old Hcfo w nm svers root w1 [] w2 (r, l) HatN Emk Erun) as (_ & _ & NBk).
  (* the cache file was a regular file: the previous cache records directories *)
  assert (Hcf : exists g, lookup (w_fs w) cf = Some (NFile g)).
  { unfold old, old_cache_of in Hne. destruct (lookup (w_fs w) cf) as [[g|]|]; [exists g; reflexivity| |]; exfalso; apply Hne; reflexivity. }
  destruct Hcf as [g Hg].
  (* RollbackDirsLaws.RInv at the end of the run: a regular file of the pre-state is in place or backed up *)
  assert (HA2 : forall a t, Tgt old cf P t -> below a t = true -> ~ P a) by (intros a t Ht Hb; exact (proj2 (HA a t Ht Hb))).
  assert (HS : forall a t, Tgt old cf P t -> below a t = true -> notorig (w_fs w) a) by (intros a t Ht Hb; exact (proj1 (HA a t Ht Hb))).
  pose proof (RInv_start (w_fs w) old cf P w nm svers eq_refl Hf) as Hr0.
  assert (T0 : forall u, tcond None u) by (intros u q Y; discriminate Y).
  assert (Tcf : Tgt old cf P cf) by (right; left; reflexivity).
  destruct (make_dirs_T (w_fs w) old cf P HA2 None cf Tcf _ _ _ Emk Hr0 (T0 _)) as [Hr1 _].
  assert (Hr1' : RollbackDirsLaws.RInv (w_fs w) old cf P (set_log (LInvoke "<root>"%string None PNone PNone :: w_log w1) w1)).
  { eapply RollbackDirsLaws.RInv_ext; [exact Hr1|..]; reflexivity. }
  destruct (run_T (w_fs w) old cf P HA2 root Hat None [] _ _ _ Erun Hr1' (T0 _)) as [Hr2 _].
  destruct Hr2 as (_ & _ & _ & Horig & _).
  right. destruct (Horig cf g Hg) as [Z|Z]; [unfold isfile; rewrite Z; reflexivity|exfalso; exact (NBk g Z)].
Qed.

(* ------------------------------------------------------------------ C01 for the whole build, with ErrDead only *)
Theorem mech_commit2 : forall (kp : kappa) (F : ftable) w cachefile nm vers svers root (P : path -> Prop) w' v,
  let old := old_cache_of (w_fs w) cachefile nm svers in
  let rr := ref_build (w_fs w) cachefile (prev_of_cache old) (w_clock w) (w_nextid w) root in
  sanitize vers = Some svers ->
  (* user obligations *)
  Obeys F root -> Respects F ->
  (* content / time *)
  kp_init kp (w_fs w) -> kp_new kp (w_clock w) ->
  (* the previous cache *)
  cache_wf old -> faithful_cache kp F old svers -> okc (w_clock w) old ->
  old_ok old cachefile -> WfCache old -> cache_created_file old cachefile = false ->
  (* the world *)
  fs_wf (w_fs w) -> w_faults w = [] ->
  path_ok (dirname cachefile) = true -> isdir (w_fs w) cachefile = false -> maxlen (w_fs w) < walk_fuel ->
  vdir (Build.start_world w cachefile old nm svers) (dirname cachefile) = true ->
  (* the program *)
  AllTargets tgtP root -> NoNest [] root -> QueriesOk root -> WfArgs root -> CmpMeta root ->
  TargetsClear old root -> TargetsApart old root ->
  (* the targets *)
  AllTargets P root -> (forall p, P p -> tgtP p) ->
  (forall a t, (P t \/ t = cachefile \/ In t (cache_targets old)) ->
     below a t = true -> (forall f, lookup (w_fs w) a <> Some (NFile f)) /\ ~ P a) ->
  (forall d, In d (c_dirs old) -> path_ok d = true) ->
  (* the end of the run, when the previous cache records directories *)
  (c_dirs old <> [] -> ErrDeadInv cachefile nm svers root w) ->
  run_build cachefile nm vers root w = (w', Done (inl v)) ->
  rr_outcome rr = inl v /\
  forall p, p <> cachefile -> node_equiv (lookup (w_fs w') p) (lookup (rr_tree rr) p).
Proof.
  intros kp F w cachefile nm vers svers root P w' v old rr Hsv HO HR HI HN HCw HF Hokc Hok HW Hcfo Hwf Hfa Hp Hnc Hml Hd
         Hat Hnn Hqk Hwa Hcm Hcl Hap HatP HPt HA HE HErr H.
  apply (mech_commit kp F w cachefile nm vers svers root P Hsv HO HR HI HN HCw HF Hokc Hok HW Hwf Hfa Hp Hnc Hml Hd
           Hat Hnn Hqk Hwa Hcm Hcl Hap HatP HPt HA HE w' v); [|exact H].
  intros Hne w1 w2 r l Emk Erun. split.
  - exact (cf_in_place cachefile nm svers root w P w1 w2 r l Hfa Hwf HatP HA Hcfo Hne Emk Erun).
  - exact (HErr Hne w1 w2 r l Emk Erun).
Qed.

(* what remains *)
Definition err_dead_statement : Prop :=
  forall w cachefile nm svers root (P : path -> Prop),
    let old := old_cache_of (w_fs w) cachefile nm svers in
    okc (w_clock w) old -> old_ok old cachefile -> WfCache old ->
    fs_wf (w_fs w) -> w_faults w = [] ->
    path_ok (dirname cachefile) = true -> isdir (w_fs w) cachefile = false -> maxlen (w_fs w) < walk_fuel ->
    vdir (Build.start_world w cachefile old nm svers) (dirname cachefile) = true ->
    AllTargets tgtP root -> NoNest [] root -> QueriesOk root -> WfArgs root -> CmpMeta root ->
    TargetsClear old root -> TargetsApart old root ->
    AllTargets P root -> (forall p, P p -> tgtP p) ->
    (forall a t, (P t \/ t = cachefile \/ In t (cache_targets old)) ->
       below a t = true -> (forall f, lookup (w_fs w) a <> Some (NFile f)) /\ ~ P a) ->
    (forall d, In d (c_dirs old) -> path_ok d = true) ->
    ErrDeadInv cachefile nm svers root w.

Print Assumptions cf_in_place.
Print Assumptions mech_commit2.
