From Coq Require Import List String Ascii NArith ZArith Bool Arith Lia Sorted.
From FB.Base Require Import PyVal Fs.
From FB.Gen Require Import JsonUtilGen.
From FB.Spec Require Import Prog Ref Oracle.
From FB.Model Require Import Types Monad CreatedFiles BuildDirs SimpleOps Builder Persist Build Run Frame.
From FB.Proofs Require Import CoreLawsChildren ViewDefs ViewLemmas ViewInit ViewXDefs ViewXInit ViewXQuery ViewXSteps ViewXFail
     ViewXSetup ViewXRun ViewXReach ViewXC04 ViewR1 ViewR2 ViewR3 ViewR9 ViewXMake1 ViewXMake2.
From FB.Proofs Require Import FsLemmas ReplayLaws FrameLaws CleanLaws RollbackDirsLaws
  RollbackDirsView RollbackDirsBase RollbackDirsInv RollbackDirsMake RollbackDirsRun
  RollbackDirsMain CommitDirsInv CommitDirsRun CommitDirsMain
  CommitDirs2Y CommitDirs2Bd CommitDirs2Step CommitDirs2Run CommitDirs2Main CommitDirs3Adopt CommitDirs3Run CommitDirs3Main.
Check XInv_fields. Check dirs_to_make_q. Check qrel_RInv. Check qrel_facts. Check wf_ancestor_dir. Check RInv2_step. Check RInv2_start_world.
Print suffix. Print below. Print qrel. Print fs_wf. Print err_of. Check bind_inv. Print start_world. Print glw. Check svb_gl.
Print ret. Print bind. Print catch. Print get. Print same_view.
