(* Proofs/RollbackFaults2Ex.v — C14, single injected fault, on the model (vm_compute):
   a two-build history (the second build has a previous cache, overwrites a foreign file,
   rebuilds an old output, makes new directories, drops an old output and rewrites the
   cache file), run once for EVERY ordinal k of a mutating call of the second build.
   - [single_fault_cache_file_is_the_old_one]: after every single forward fault that makes
     build() raise, the cache file is the old one -- the same node (bytes, mtime, inode);
     this includes the faults on the two writes of Cache.write (ordinals 10 and 11: create
     and write) and on the rename that moves the old cache file away (ordinal 9);
   - [single_fault_directories]: ... and statements (2) and (3) of rollback_leaves_nothing_new
     hold as well (no new directory but recorded ones, no directory lost);
   - FINDING [double_fault_leaks_directory]: with TWO forward faults (the mkdir of a/b and the
     rmdir that cleans up a), both before the undo, the directory a remains after the
     rollback: statement (2) does not extend to arbitrary fault lists before the undo;
   - FINDING [single_fault_leaks_directory_long_name]: it fails even for ONE fault when a
     mkdir fails by itself: target q/<256 chars>/x, the mkdir of the over-long name is refused,
     the injected fault hits the rmdir that should remove q again; build() raises OSError,
     q stays (it is registered nowhere, so neither rollback nor clean removes it). *)
From Coq Require Import List String Ascii NArith ZArith Bool Arith.
From FB.Base Require Import PyVal Fs.
From FB.Gen Require Import JsonUtilGen.
From FB.Spec Require Import Prog.
From FB.Model Require Import Types Monad SimpleOps Builder Persist Build Run Dsl Frame.
From FB.Proofs Require Import RollbackFaultsMain RollbackFaultsEx.
Import ListNotations.
Open Scope string_scope.

Definition chk2 (old : cache) (fs0 fs' : fsT) : bool :=
  forallb (fun d => if isdir fs' d then isdir fs0 d || mem_path d (c_dirs old) ||
                       existsb (fun r => below d r && isdir fs' r) (c_dirs old) else true) (all_paths fs').
Definition chk3 (fs0 fs' : fsT) : bool :=
  forallb (fun d => if isdir fs0 d then isdir fs' d else true) (all_paths fs0).
Definition oldc : cache := old_cache_of (w_fs pre) cfp "n" (PDict []).
Definition cache_same (fs0 fs' : fsT) : bool :=
  isfile fs0 cfp && node_eqb (lookup fs' cfp) (lookup fs0 cfp).

(* the build of RollbackFaultsEx makes 12 mutating calls before it commits *)
Example forward_phase_has_12_calls :
  map (fun k => verdict [k]) (seq 0 14) = [1;1;1;1;1;1;1;1;1;1;1;1;0;0].
Proof. vm_compute. reflexivity. Qed.

Example single_fault_cache_file_is_the_old_one :
  forallb (fun k => negb (Nat.eqb (verdict [k]) 1) || cache_same (w_fs pre) (w_fs (fst (run_with [k])))) (seq 0 40) = true.
Proof. vm_compute. reflexivity. Qed.

Example single_fault_directories :
  forallb (fun k => negb (Nat.eqb (verdict [k]) 1) ||
                    (chk2 oldc (w_fs pre) (w_fs (fst (run_with [k]))) && chk3 (w_fs pre) (w_fs (fst (run_with [k])))))
          (seq 0 40) = true.
Proof. vm_compute. reflexivity. Qed.

Example double_fault_leaks_directory :
  verdict [7; 8] = 1 /\
  chk2 oldc (w_fs pre) (w_fs (fst (run_with [7; 8]))) = false /\
  isdir (w_fs pre) ["a"] = false /\ isdir (w_fs (fst (run_with [7; 8]))) ["a"] = true /\
  chk3 (w_fs pre) (w_fs (fst (run_with [7; 8]))) = true.
Proof. vm_compute. repeat split; reflexivity. Qed.

Definition longname : string := string_of_list_ascii (repeat "a"%char 256).
Definition run_long (l : list nat) : world * build_result :=
  run_build cfp "n" (PDict []) (bfp ["x"; longname; "q"] "v" (Ret PNone)) (with_faults l init_world).

Example single_fault_leaks_directory_long_name :
  snd (run_long []) = Done (inr (XOS XOSError)) /\ show_tree [] (w_fs (fst (run_long []))) cfp = [] /\
  snd (run_long [2]) = Done (inr (XOS XOSError)) /\ show_tree [] (w_fs (fst (run_long [2]))) cfp = ["/q|D"].
Proof. vm_compute. repeat split; reflexivity. Qed.
