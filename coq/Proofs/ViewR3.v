(* Proofs/ViewR3.v — C04, arbitrary previous caches, part 3: the run induction re-threaded
   with RInv2 (ViewR2), relative to the single statement NoRaise, and the final theorem:
   for every program whose targets are creatable and shallow, every well-formed previous
   cache, every query asked at any point of a fault-free build answers like POSIX on the
   view of the world it is asked in.                                                    *)
From Coq Require Import List String Ascii NArith ZArith Bool Arith Lia.
From FB.Base Require Import PyVal Fs.
From FB.Gen Require Import JsonUtilGen.
From FB.Spec Require Import Prog Ref.
From FB.Model Require Import Types Monad CreatedFiles BuildDirs SimpleOps Builder Build Run Frame.
From FB.Proofs Require Import FsLemmas CleanLaws JsonLaws CoreLawsChildren ReplayLaws BuildFileLaws
     ViewDefs ViewLemmas ViewScan ViewQueries ViewAnswers ViewInit ViewPres ViewFrame ViewPrepare
     ViewXDefs ViewXFrame ViewXQuery ViewXInit ViewXError ViewXSteps ViewXMake1 ViewXMake2 ViewXFail ViewXSetup ViewXOld
     ViewXRun ViewXMkfail ViewXReach ViewXC04 ViewH4 ViewH5 ViewH6 ViewH7 ViewR1 ViewR2.
Import ListNotations.
Open Scope list_scope.
Open Scope m_scope.

Local Notation glw := (gl walk_fuel).

Definition tgtP (p : path) : Prop := tgt_ok p = true.

Lemma tgtP_len : forall p, tgtP p -> List.length p < walk_fuel.
Proof. intros p H. unfold tgtP, tgt_ok in H. apply andb_true_iff in H. destruct H as [_ H]. apply Nat.ltb_lt in H. exact H. Qed.

Section XC.
Variable Xc : cache -> Prop.
Local Notation RInv2 := (ViewR2.RInv2 Xc).
Local Notation NoRaise := (ViewR2.NoRaise Xc).
Local Notation hit_post2 := (ViewR2.hit_post2 Xc).

Lemma hit_weaken : forall T p w w1 r, hit_post2 T p w w1 r -> hit_post T p w w1 r.
Proof.
  intros T p w w1 r H. unfold hit_post2 in H. unfold hit_post. destruct r as [[[o|eo]|]|e].
  - destruct H as (T' & A & M). exists T'. split; [apply A|exact M].
  - exact H.
  - destruct H as (A & C & D). split; [apply A|]. split; assumption.
  - destruct H as (A & C & D). split; [apply A|]. split; assumption.
Qed.

(* ------------------------------------------------------------------ bf_setup: the RInv part
   (the proof of ViewXSetup.bf_setup_RInv, with the hit statement replaced by bf_try2 at the
   world reached after the directories were made) *)
Theorem bf_setup_R2 : NoRaise -> forall T p c f sa skw w w1 r,
  List.length p < walk_fuel -> RInv2 T w -> bf_setup p c f sa skw w = (w1, r) -> setup_post T p w w1 r.
Proof.
  intros HNR T p c f sa skw w w1 r Hlen HR2 H. pose proof (RInv2_R _ _ HR2) as HR. pose proof HR as (HX & HP & HF).
  pose proof mkfail_holds as HM.
  rewrite bf_setup_eq in H.
  apply bind_inv in H. destruct H as [[wa [u [E H]]]|[e [E Er]]].
  2:{ subst r. unfold new_assert_no_file in E. apply bind_inv in E. unfold get in E.
      destruct E as [[wb [w0 [E0 E]]]|[e' [E0 _]]]; [|discriminate]. inversion E0; subst wb w0.
      destruct (cache_has_file (w_new w) p); inversion E; subst. exact HR. }
  assert (Hunclaimed: wa = w /\ cache_has_file (w_new w) p = false).
  { unfold new_assert_no_file in E. apply bind_inv in E. unfold get in E.
    destruct E as [[wb [w0 [E0 E]]]|[e' [E0 _]]]; [|discriminate]. inversion E0; subst wb w0.
    destruct (cache_has_file (w_new w) p); inversion E; subst. auto. }
  destruct Hunclaimed as [-> Hunc].
  apply bind_inv in H. destruct H as [[wa [icf [E1 H]]]|[e [E1 _]]]; [|discriminate].
  unfold is_cache_file in E1. assert (wa = w) by congruence. subst wa.
  apply bind_inv in H. destruct H as [[wa [u1 [E2 H]]]|[e [E2 Er]]].
  2:{ subst r. destruct icf; inversion E2; subst. exact HR. }
  destruct icf; [discriminate|]. inversion E2; subst wa u1.
  destruct p as [|n d].
  { (* the root: always a visible directory *)
    apply bind_inv in H. destruct H as [[wa [created [E3 H]]]|[e [E3 Er]]].
    - exfalso. unfold prepare_file_creation in E3. apply bind_inv in E3. unfold get in E3.
      destruct E3 as [[wb [w0 [E0 E3]]]|[e' [E0 _]]]; [|discriminate]. inversion E0; subst wb w0.
      cbn [isdir lookup] in E3. apply bind_inv in E3. destruct E3 as [[wb [u2 [E4 _]]]|[e' [_ E4]]]; [|discriminate].
      apply bind_inv in E4. destruct E4 as [[wc [vd [Ed E4]]]|[e' [_ E4]]]; [|discriminate].
      destruct (m_is_dir_inl _ _ _ _ _ HX Ed) as [Evd _]. rewrite (vdir_root _ (x_binv _ _ HX)) in Evd. subst vd. discriminate.
    - subst r. unfold prepare_file_creation in E3. apply bind_inv in E3. unfold get in E3.
      destruct E3 as [[wb [w0 [E0 E3]]]|[e' [E0 _]]]; [|discriminate]. inversion E0; subst wb w0.
      cbn [isdir lookup] in E3. apply bind_inv in E3. destruct E3 as [[wb [u2 [E4 E5]]]|[e' [E4 _]]].
      + exfalso. apply bind_inv in E4. destruct E4 as [[wc [vd [Ed E4]]]|[e' [_ E4]]]; [|discriminate].
        destruct (m_is_dir_inl _ _ _ _ _ HX Ed) as [Evd _]. rewrite (vdir_root _ (x_binv _ _ HX)) in Evd. subst vd. discriminate.
      + apply bind_inv in E4. destruct E4 as [[wc [vd [Ed E4]]]|[e'' [Ed _]]].
        * pose proof (qrel_RInv T _ _ (m_is_dir_q _ _ _ _ _ Ed) HR) as HRc.
          destruct (m_is_dir_inl _ _ _ _ _ HX Ed) as [Evd _]. rewrite (vdir_root _ (x_binv _ _ HX)) in Evd. subst vd.
          inversion E4; subst. exact HRc.
        * apply (qrel_RInv T _ _ (m_is_dir_q _ _ _ _ _ Ed) HR). }
  apply bind_inv in H. destruct H as [[wa [created [E3 H]]]|[e [E3 Er]]].
  2:{ subst r. apply (prepare_RInv T n d w w1 (inr e) HM HR E3). }
  destruct (prepare_RInv T n d w wa (inl created) HM HR E3) as (wpre & HRp & Hnd & Hmk & Hnew).
  apply bind_inv in H. destruct H as [[wb [locked [E4 H]]]|[e [E4 _]]].
  2:{ unfold m_bd_started in E4. destruct (bd_started (w_bd wa) (n :: d) created); discriminate. }
  destruct HRp as (HXp & HPp & HFp).
  destruct (make_dirs_started_XInv T wpre n d wa created wb locked HXp HPp Hnd Hmk E4) as (HXb & HPb & Nb & Ob & Cb & Fsb).
  assert (HFb: w_faults wb = []).
  { pose proof (make_dirs_quiet d _ _ _ Hmk) as [_ Q1]. unfold m_bd_started in E4.
    destruct (bd_started (w_bd wa) (n :: d) created). inversion E4; subst. cbn. congruence. }
  assert (HRb: RInv ((n :: d) :: T) wb) by (split; [exact HXb|split; [exact HPb|exact HFb]]).
  assert (Hunc_b: cache_has_file (w_new wb) (n :: d) = false) by (rewrite Nb, Hnew; exact Hunc).
  assert (Hnd_b: isdir (w_fs wb) (n :: d) = false).
  { unfold isdir. rewrite Fsb; [exact Hnd|]. intro Hs. apply suffix_length in Hs. simpl in Hs. lia. }
  assert (Hold_b: w_old wb = w_old w).
  { destruct (prepare_old _ _ _ _ E3) as [O1 _]. unfold m_bd_started in E4.
    destruct (bd_started (w_bd wa) (n :: d) created). inversion E4; subst. cbn. exact O1. }
  assert (Gb: gl walk_fuel w wb).
  { eapply gl_trans; [apply (prepare_file_creation_gl walk_fuel _ _ _ _ E3); cbn [dirname tl List.length] in *; lia|].
    apply svb_gl. apply (m_bd_started_svb _ _ _ _ _ E4). }
  pose proof (RInv2_step _ _ _ _ HR2 Gb HRb) as HRb2.
  unfold catch in H. destruct (bf_try (n :: d) c f sa skw wb) as [wc [x|e]] eqn:Et.
  - inversion H; subst w1 r. pose proof (hit_weaken _ _ _ _ _ (bf_try2 HNR T n d c f sa skw wb wc (inl x) HRb2 Hunc_b Hnd_b Et)) as P.
    unfold hit_post in P. unfold setup_post. destruct x as [[o|eo]|].
    + destruct P as (T' & A & B). exists T'. split; [exact A|]. eapply msub_trans; [apply msub_cons|exact B].
    + exact P.
    + destruct P as (A & B & C). split; [exact A|]. split; [exact B|]. split; [discriminate|congruence].
  - (* the attempt raised: the reservation is released *)
    pose proof (hit_weaken _ _ _ _ _ (bf_try2 HNR T n d c f sa skw wb wc (inr e) HRb2 Hunc_b Hnd_b Et)) as (HRc & Hnf & Hnp).
    destruct HRc as (HXc & HPc & HFc).
    destruct (m_bd_error_XInv ((n :: d) :: T) wc n d HXc (or_introl eq_refl) Hnf) as (b' & Eb & HXe).
    apply bind_inv in H. rewrite Eb in H. destruct H as [[wd [u2 [E5 H]]]|[e' [E5 _]]]; [|discriminate].
    inversion E5; subst wd u2. inversion H; subst w1 r. unfold setup_post.
    cbn [rm1] in HXe. rewrite path_eqb_refl in HXe.
    split; [exact HXe|]. split; [|exact HFc].
    intros x Hx. cbn [w_new set_bd] in Hx. destruct (HPc x Hx) as [<-|Hin]; [contradiction|exact Hin].
Qed.


(* growth along the whole setup *)
Lemma bf_setup_gl : forall p c f sa skw w w1 r, WfCache (w_old w) -> List.length p < walk_fuel ->
  bf_setup p c f sa skw w = (w1, r) -> glw w w1.
Proof.
  intros p c f sa skw w w1 r HW Hlen H. rewrite bf_setup_eq in H.
  apply bind_inv in H. destruct H as [[wa [u [E H]]]|[e [E _]]].
  2:{ apply svb_gl. apply (new_assert_no_file_svb _ _ _ _ E). }
  pose proof (svb_gl walk_fuel _ _ (new_assert_no_file_svb _ _ _ _ E)) as G0. eapply gl_trans; [exact G0|].
  assert (HWa: WfCache (w_old wa)) by (destruct G0 as (_ & O & _); cbn in O; rewrite O; exact HW).
  apply bind_inv in H. destruct H as [[wb [icf [E1 H]]]|[e [E1 _]]]; [|discriminate].
  unfold is_cache_file in E1. assert (wb = wa) by congruence. subst wb.
  apply bind_inv in H. destruct H as [[wb [u1 [E2 H]]]|[e [E2 _]]].
  2:{ destruct icf; inversion E2; subst; apply gl_refl. }
  assert (wb = wa) by (destruct icf; inversion E2; reflexivity). subst wb.
  apply bind_inv in H.
  assert (Hprep: forall wc rc, prepare_file_creation p wa = (wc, rc) -> glw wa wc).
  { intros wc rc Hc. apply (prepare_file_creation_gl walk_fuel _ _ _ _ Hc).
    destruct p as [|n d]; cbn [dirname tl List.length] in *; lia. }
  destruct H as [[wc [created [E3 H]]]|[e [E3 _]]]; [|apply (Hprep _ _ E3)].
  pose proof (Hprep _ _ E3) as G3. eapply gl_trans; [exact G3|].
  apply bind_inv in H. destruct H as [[wd [locked [E4 H]]]|[e [E4 _]]].
  2:{ apply svb_gl. apply (m_bd_started_svb _ _ _ _ _ E4). }
  pose proof (svb_gl walk_fuel _ _ (m_bd_started_svb _ _ _ _ _ E4)) as G4. eapply gl_trans; [exact G4|].
  assert (HWd: WfCache (w_old wd)).
  { destruct G3 as (_ & O3 & _). destruct G4 as (_ & O4 & _). cbn in O4. rewrite O4, O3. exact HWa. }
  unfold catch in H. fold (bf_try p c f sa skw) in H.
  destruct (bf_try p c f sa skw wd) as [we [x|e]] eqn:Et.
  - inversion H; subst. apply (bf_try_gl _ _ _ _ _ _ _ _ HWd Et).
  - eapply gl_trans; [apply (bf_try_gl _ _ _ _ _ _ _ _ HWd Et)|].
    apply bind_inv in H. destruct H as [[wf [u2 [E5 H]]]|[e' [E5 _]]].
    + inversion H; subst. apply svb_gl. apply (m_bd_error_svb _ _ _ _ E5).
    + apply svb_gl. apply (m_bd_error_svb _ _ _ _ E5).
Qed.

Definition setup_post2 (T : list path) (p : path) (w w1 : world) (r : option (op + exn * op) + exn) : Prop :=
  match r with
  | inr e => RInv2 T w1
  | inl None => RInv2 (p :: T) w1 /\ files_get (c_files (w_new w1)) p = Some None /\ p <> [] /\ w_old w1 = w_old w
  | inl (Some (inl o)) => exists T', RInv2 T' w1 /\ msub T T'
  | inl (Some (inr _)) => False
  end.

Theorem bf_setup2 : NoRaise -> forall T p c f sa skw w w1 r,
  List.length p < walk_fuel -> RInv2 T w -> bf_setup p c f sa skw w = (w1, r) -> setup_post2 T p w w1 r.
Proof.
  intros HNR T p c f sa skw w w1 r Hlen HR2 H.
  pose proof (bf_setup_R2 HNR T p c f sa skw w w1 r Hlen HR2 H) as P.
  pose proof (bf_setup_gl _ _ _ _ _ _ _ _ (proj1 (proj2 (proj2 HR2))) Hlen H) as G.
  unfold setup_post in P. unfold setup_post2. destruct r as [[[o|eo]|]|e].
  - destruct P as (T' & A & M). exists T'. split; [apply (RInv2_step _ _ _ _ HR2 G A)|exact M].
  - exact P.
  - destruct P as (A & C & D & E). split; [apply (RInv2_step _ _ _ _ HR2 G A)|]. repeat split; assumption.
  - apply (RInv2_step _ _ _ _ HR2 G P).
Qed.

Lemma RInv2_fields : forall T w w', RInv2 T w ->
  w_fs w' = w_fs w -> w_bd w' = w_bd w -> w_old w' = w_old w -> w_new w' = w_new w ->
  w_cachefile w' = w_cachefile w -> w_faults w' = w_faults w -> RInv2 T w'.
Proof.
  intros T w w' (HR & (E1 & E2) & HW) F1 F2 F3 F4 F5 F6. split; [eapply RInv_fields; eassumption|]. split.
  - split; [rewrite F1, F5; exact E1|rewrite F1; exact E2].
  - rewrite F3. exact HW.
Qed.

(* ------------------------------------------------------------------ build_file *)
Theorem m_build_file2 : NoRaise ->
  forall T p c f a kw (fn : path -> pyval -> pyval -> body) w w' res,
    List.length p < walk_fuel ->
    (forall sa skw T0 w0 w1 r, RInv2 T0 w0 -> In p T0 -> fn p sa skw w0 = (w1, r) ->
                               exists T1, RInv2 T1 w1 /\ msub T0 T1) ->
    RInv2 T w -> m_build_file p c f a kw fn w = (w', res) ->
    exists T', RInv2 T' w' /\ msub T T'.
Proof.
  intros HNR T p c f a kw fn w w' res Hlen Hfn HR H. rewrite m_build_file_unfold in H.
  destruct (sanitize a) as [sa|]; [|inversion H; subst; exists T; split; [exact HR|apply msub_refl]].
  destruct (sanitize kw) as [skw|]; [|inversion H; subst; exists T; split; [exact HR|apply msub_refl]].
  destruct (bf_setup p c f sa skw w) as [w1 r1] eqn:Es.
  pose proof (bf_setup2 HNR T p c f sa skw w w1 r1 Hlen HR Es) as P. unfold setup_post2 in P.
  destruct r1 as [[[o|[e o]]|]|e].
  - inversion H; subst. exact P.
  - destruct P.
  - destruct P as (HR1 & Hprog & Hne & Hold).
    unfold bf_rebuild in H.
    destruct (fn p sa skw (bf_invoke_world p f sa skw w1)) as [w3 [res3 subs3]] eqn:Ef.
    assert (HRi: RInv2 (p :: T) (bf_invoke_world p f sa skw w1)) by (eapply RInv2_fields; [exact HR1|..]; reflexivity).
    destruct (Hfn sa skw (p :: T) _ _ _ HRi (or_introl eq_refl) Ef) as (T1 & HR3 & M1).
    destruct p as [|n d]; [contradiction|].
    assert (Hin: In (n :: d) T1) by (apply (msub_in _ _ _ M1); left; reflexivity).
    destruct res as [ro oo].
    pose proof (bf_finish_gl walk_fuel _ _ _ _ _ _ _ _ _ _ H) as G.
    destruct (bf_finish_RInv T1 n d c f sa skw res3 subs3 w3 w' ro oo (RInv2_R _ _ HR3) Hin H) as [K|K].
    + exists T1. split; [apply (RInv2_step _ _ _ _ HR3 G K)|]. eapply msub_trans; [apply msub_cons|exact M1].
    + exists (rm1 (n :: d) T1). split; [apply (RInv2_step _ _ _ _ HR3 G K)|]. apply msub_rm1. exact M1.
  - inversion H; subst. exists T. split; [exact P|apply msub_refl].
Qed.

(* ------------------------------------------------------------------ subbuild *)
Theorem m_subbuild2 : NoRaise ->
  forall T f a kw (fn : pyval -> pyval -> body) w w' res,
    (forall sa skw T0 w0 w1 r, RInv2 T0 w0 -> fn sa skw w0 = (w1, r) -> exists T1, RInv2 T1 w1 /\ msub T0 T1) ->
    RInv2 T w -> m_subbuild f a kw fn w = (w', res) ->
    exists T', RInv2 T' w' /\ msub T T'.
Proof.
  intros HNR T f a kw fn w w' res Hfn HR H. rewrite m_subbuild_unfold in H.
  destruct (sanitize a) as [sa|]; [|inversion H; subst; exists T; split; [exact HR|apply msub_refl]].
  destruct (sanitize kw) as [skw|]; [|inversion H; subst; exists T; split; [exact HR|apply msub_refl]].
  destruct (sb_setup f sa skw w) as [w1 r1] eqn:Es.
  destruct (sb_setup2 HNR T f sa skw w w1 r1 HR Es) as (T1 & HR1 & M1 & Hold).
  destruct r1 as [[[o|[e o]]|]|e]; try (inversion H; subst; exists T1; split; assumption).
  unfold sb_rebuild in H.
  destruct (fn sa skw (sb_invoke_world f sa skw w1)) as [w3 [res3 subs3]] eqn:Ef.
  assert (HRi: RInv2 T1 (sb_invoke_world f sa skw w1)) by (eapply RInv2_fields; [exact HR1|..]; reflexivity).
  destruct (Hfn sa skw T1 _ _ _ HRi Ef) as (T2 & HR3 & M2).
  exists T2. split; [|eapply msub_trans; eassumption].
  pose proof (sb_finish_gl walk_fuel _ _ _ _ _ _ _ _ H) as G.
  apply (RInv2_step _ _ _ _ HR3 G).
  unfold sb_finish in H. cbv zeta in H.
  assert (Hfin: forall o w4 u, new_finish_subbuild (subbuild_key f sa skw) o w3 = (w4, u) -> RInv T2 w4).
  { intros o w4 u E. unfold new_finish_subbuild, modify in E. inversion E; subst. apply subs_change_RInv; [apply HR3|reflexivity]. }
  destruct res3 as [v|e].
  - destruct (sanitize v);
      match type of H with (match ?X with _ => _ end) = _ => destruct X as [w4 u] eqn:E4 end;
      inversion H; subst; eapply Hfin; exact E4.
  - match type of H with (match ?X with _ => _ end) = _ => destruct X as [w4 u] eqn:E4 end.
    inversion H; subst. eapply Hfin; exact E4.
Qed.

(* ------------------------------------------------------------------ every program *)
Section Run2.
  Hypothesis HNR : NoRaise.

  Lemma m_query_RInv2 : forall T q w w1 r o, RInv2 T w -> m_query q w = (w1, (r, o)) -> RInv2 T w1.
  Proof.
    intros T q w w1 r o HR H. apply (RInv2_step _ _ _ _ HR).
    - apply svb_gl. apply (m_query_svb _ _ _ _ H).
    - apply (m_query_RInv T q w w1 r o (RInv2_R _ _ HR) H).
  Qed.

  Lemma log_answer_RInv2 : forall T q r w, RInv2 T w -> RInv2 T (log_answer q r w).
  Proof.
    intros T q r w HR. unfold log_answer. destruct r as [v|[]]; try exact HR; (eapply RInv2_fields; [exact HR|..]; reflexivity).
  Qed.

  Lemma write_RInv2 : forall T w p c fs', RInv2 T w -> In p T -> List.length p < walk_fuel ->
    write_file (w_fs w) p c None (N.succ (w_clock w)) (w_nextid w) = inl fs' ->
    RInv2 T (set_clock (N.succ (w_clock w)) (N.succ (w_nextid w)) (set_fs fs' w)).
  Proof.
    intros T w p c fs' HR2 Hin Hl Ew. apply (RInv2_step _ _ _ _ HR2).
    - split; [reflexivity|]. split; [reflexivity|]. cbn. apply (write_file_grow _ _ _ _ _ _ _ _ _ Ew Hl).
    - destruct HR2 as ((HX & HP & HF) & _).
      pose proof (write_target_XInv T w p _ _ _ _ _ HX Hin Ew) as HX'.
      split; [eapply XInv_fields; [exact HX'|..]; reflexivity|]. split; [exact HP|exact HF].
  Qed.

  Theorem run2 : forall pr, AllTargets tgtP pr -> forall target subs T w w' res,
    RInv2 T w -> (forall p, target = Some p -> In p T /\ List.length p < walk_fuel) ->
    run pr target subs w = (w', res) ->
    exists T', RInv2 T' w' /\ msub T T'.
  Proof.
    intros pr Hat.
    induction Hat as [v | e | s q k Hk IH | c k Hk IH | s p c f a kw fn k Hp Hfn IHfn Hk IHk
                      | s f a kw fn k Hfn IHfn Hk IHk];
      intros target subs T w w' res HR Htg H; cbn [run] in H.
    - inversion H; subst. exists T. split; [exact HR|apply msub_refl].
    - inversion H; subst. exists T. split; [exact HR|apply msub_refl].
    - destruct s; [eapply IH; eauto|].
      destruct (m_query q w) as [w1 [r1 o]] eqn:E.
      pose proof (m_query_RInv2 _ _ _ _ _ _ HR E) as HR1.
      eapply IH; [apply log_answer_RInv2; exact HR1|exact Htg|exact H].
    - destruct target as [p|]; [|eapply IH; eauto].
      destruct (write_file (w_fs w) p c None (N.succ (w_clock w)) (w_nextid w)) as [fs'|e] eqn:Ew.
      + destruct (Htg p eq_refl) as [Hin Hl].
        eapply IH; [|exact Htg|exact H]. apply (write_RInv2 _ _ _ _ _ HR Hin Hl Ew).
      + inversion H; subst. exists T. split; [exact HR|apply msub_refl].
    - destruct s; [eapply IHk; eauto|].
      match type of H with (let '(_, _) := ?X in _) = _ => destruct X as [w1 [r1 o]] eqn:E end.
      destruct (m_build_file2 HNR T p c f a kw (fun p' sa skw w' => run (fn p' sa skw) (Some p') [] w') w w1 (r1, o)) as (T1 & HR1 & M1);
        [apply tgtP_len; exact Hp| |exact HR|exact E|].
      { intros sa skw T0 w0 w2 r HR0 Hin Hf. eapply IHfn; [exact HR0| |exact Hf].
        intros p0 Hp0. inversion Hp0; subst. split; [exact Hin|apply tgtP_len; exact Hp]. }
      destruct (IHk r1 target (app_op subs o) T1 w1 w' res) as (T2 & HR2 & M2); [exact HR1| |exact H|].
      { intros p0 Hp0. destruct (Htg p0 Hp0) as [A Bl]. split; [apply (msub_in _ _ _ M1); exact A|exact Bl]. }
      exists T2. split; [exact HR2|eapply msub_trans; eassumption].
    - destruct s; [eapply IHk; eauto|].
      match type of H with (let '(_, _) := ?X in _) = _ => destruct X as [w1 [r1 o]] eqn:E end.
      destruct (m_subbuild2 HNR T f a kw (fun sa skw w' => run (fn sa skw) None [] w') w w1 (r1, o)) as (T1 & HR1 & M1);
        [|exact HR|exact E|].
      { intros sa skw T0 w0 w2 r HR0 Hf. eapply IHfn; [exact HR0| |exact Hf]. intros p0 Hp0. discriminate. }
      destruct (IHk r1 target (app_op subs o) T1 w1 w' res) as (T2 & HR2 & M2); [exact HR1| |exact H|].
      { intros p0 Hp0. destruct (Htg p0 Hp0) as [A Bl]. split; [apply (msub_in _ _ _ M1); exact A|exact Bl]. }
      exists T2. split; [exact HR2|eapply msub_trans; eassumption].
  Qed.

  (* the invariant holds wherever a query is asked *)
  Theorem reachable_RInv2 : forall pr tg subs w q wq, AskAt pr tg subs w q wq -> AllTargets tgtP pr ->
    forall T, RInv2 T w -> (forall p, tg = Some p -> In p T /\ List.length p < walk_fuel) ->
    exists T', RInv2 T' wq.
  Proof.
    intros pr tg subs w q wq H. induction H; intros Hat T HR Htg; inversion Hat; subst.
    - exists T. exact HR.
    - eapply IHAskAt; eauto.
    - assert (Hk': AllTargets tgtP (k (user_answer q r w1))) by auto.
      eapply (IHAskAt Hk' T); [|exact Htg]. apply log_answer_RInv2. eapply m_query_RInv2; eassumption.
    - eapply IHAskAt; eauto.
    - destruct (Htg p eq_refl) as [Hin Hl].
      assert (Hk': AllTargets tgtP k) by assumption.
      eapply (IHAskAt Hk' T); [|exact Htg]. apply (write_RInv2 _ _ _ _ _ HR Hin Hl H).
    - eapply IHAskAt; eauto.
    - assert (Hp: tgtP p) by assumption.
      assert (Hfn: AllTargets tgtP (fn p sa skw)) by auto.
      pose proof (bf_setup2 HNR T p c f sa skw w w1 (inl None) (tgtP_len _ Hp) HR H1) as (A & B & C & D).
      eapply (IHAskAt Hfn (p :: T)).
      + eapply RInv2_fields; [exact A|..]; reflexivity.
      + intros p0 Hp0. inversion Hp0; subst. split; [left; reflexivity|apply tgtP_len; exact Hp].
    - assert (Hp: tgtP p) by assumption.
      assert (Hfn: forall p' a' k', AllTargets tgtP (fn p' a' k')) by assumption.
      assert (Hk': AllTargets tgtP (k r)) by auto.
      destruct (m_build_file2 HNR T p c f a kw (fun p' sa skw w' => run (fn p' sa skw) (Some p') [] w') w w1 (r, o))
        as (T1 & HR1 & M1); [apply tgtP_len; exact Hp| |exact HR|exact H|].
      { intros sa skw T0 w0 w2 r0 HR0 Hin Hf. eapply (run2 _ (Hfn _ _ _)); [exact HR0| |exact Hf].
        intros p0 Hp0. inversion Hp0; subst. split; [exact Hin|apply tgtP_len; exact Hp]. }
      eapply (IHAskAt Hk' T1); [exact HR1|].
      intros p0 Hp0. destruct (Htg p0 Hp0) as [A Bl]. split; [apply (msub_in _ _ _ M1); exact A|exact Bl].
    - eapply IHAskAt; eauto.
    - assert (Hfn: AllTargets tgtP (fn sa skw)) by auto.
      destruct (sb_setup2 HNR T f sa skw w w1 (inl None) HR H1) as (T1 & HR1 & M1 & D).
      eapply (IHAskAt Hfn T1).
      + eapply RInv2_fields; [exact HR1|..]; reflexivity.
      + intros p0 Hp0. discriminate.
    - assert (Hfn: forall a' k', AllTargets tgtP (fn a' k')) by assumption.
      assert (Hk': AllTargets tgtP (k r)) by auto.
      destruct (m_subbuild2 HNR T f a kw (fun sa skw w' => run (fn sa skw) None [] w') w w1 (r, o))
        as (T1 & HR1 & M1); [|exact HR|exact H|].
      { intros sa skw T0 w0 w2 r0 HR0 Hf. eapply (run2 _ (Hfn _ _)); [exact HR0| |exact Hf].
        intros p0 Hp0. discriminate. }
      eapply (IHAskAt Hk' T1); [exact HR1|].
      intros p0 Hp0. destruct (Htg p0 Hp0) as [A Bl]. split; [apply (msub_in _ _ _ M1); exact A|exact Bl].
  Qed.
End Run2.


(* ------------------------------------------------------------------ the start of a build *)
Theorem RInv2_start_world : forall w cachefile old nm vers,
  fs_wf (w_fs w) -> old_ok old cachefile -> w_faults w = [] ->
  isdir (w_fs w) cachefile = false -> maxlen (w_fs w) < walk_fuel -> WfCache old -> Xc old ->
  RInv2 [] (start_world w cachefile old nm vers).
Proof.
  intros w cachefile old nm vers Hwf Hok HF Hnc Hml HW HXo.
  split; [apply RInv_start_world; assumption|]. split; [split; cbn; assumption|split; [exact HW|exact HXo]].
Qed.

(* m_build first makes the directories of the cache file; when its directory is visible nothing
   is made and RInv2 holds when the root function starts *)
Theorem RInv2_root_entry : forall w cachefile old nm vers,
  fs_wf (w_fs w) -> old_ok old cachefile -> w_faults w = [] -> path_ok (dirname cachefile) = true ->
  isdir (w_fs w) cachefile = false -> maxlen (w_fs w) < walk_fuel -> WfCache old -> Xc old ->
  vdir (start_world w cachefile old nm vers) (dirname cachefile) = true ->
  exists w1, make_dirs (dirname cachefile) (start_world w cachefile old nm vers) = (w1, inl []) /\
             RInv2 [] (set_log (LInvoke "<root>" None PNone PNone :: w_log w1) w1).
Proof.
  intros w cachefile old nm vers Hwf Hok HF Hp Hnc Hml HW HXo Hd.
  destruct (ViewXC04.RInv_root_entry w cachefile old nm vers Hwf Hok HF Hp Hd) as (w1 & E & HR).
  exists w1. split; [exact E|].
  pose proof (RInv2_start_world w cachefile old nm vers Hwf Hok HF Hnc Hml HW HXo) as HR0.
  assert (G: glw (start_world w cachefile old nm vers) w1).
  { unfold make_dirs in E. apply bind_inv in E. destruct E as [[wa [ds [Eds E]]]|[e [_ E]]]; [|discriminate].
    apply bind_inv in E. destruct E as [[wb [u [El E]]]|[e [_ E]]]; [|discriminate].
    inversion E; subst wb ds. cbn in El. inversion El; subst. apply svb_gl. apply (dirs_to_make_svb _ _ _ _ _ Eds). }
  assert (G': glw (start_world w cachefile old nm vers) (set_log (LInvoke "<root>" None PNone PNone :: w_log w1) w1)).
  { destruct G as (A & C & D). split; [exact A|]. split; [exact C|exact D]. }
  apply (RInv2_step _ _ _ _ HR0 G' HR).
Qed.

(* ------------------------------------------------------------------ the final theorem (relative to NoRaise) *)
(* For every program whose targets are creatable and shallow, every well-formed previous cache,
   every initial tree that is shallow and in which the cache file path is not a directory:
   every query (other than read) asked at any point of a fault-free build answers like POSIX
   on the view of the world it is asked in.  No condition on walk is left. *)
Theorem reachable_answers_view2_from : NoRaise -> forall pr tg subs w q wq T,
  AskAt pr tg subs w q wq -> AllTargets tgtP pr -> RInv2 T w ->
  (forall p, tg = Some p -> In p T /\ List.length p < walk_fuel) ->
  path_ok (spec_query_path q) = true ->
  (forall p c, q <> QRead p c) ->
  BInv wq /\ yields (exec_query q None) wq (to_res (spec_answer (view_fs wq) q)).
Proof.
  intros HNR pr tg subs w q wq T HA Hat HR Htg Hp Hnr.
  destruct (reachable_RInv2 HNR _ _ _ _ _ _ HA Hat T HR Htg) as (T' & ((HX & _ & _) & (_ & Hml) & _ & _)).
  pose proof (x_binv _ _ HX) as HB. split; [exact HB|]. apply exec_query_spec_answer; try assumption.
  intros p td _ _. lia.
Qed.

Theorem reachable_answers_view2 : NoRaise -> forall w0 cachefile old nm vers pr subs q wq,
  fs_wf (w_fs w0) -> old_ok old cachefile -> WfCache old -> Xc old -> w_faults w0 = [] ->
  isdir (w_fs w0) cachefile = false -> maxlen (w_fs w0) < walk_fuel ->
  AllTargets tgtP pr ->
  AskAt pr None subs (start_world w0 cachefile old nm vers) q wq ->
  path_ok (spec_query_path q) = true ->
  (forall p c, q <> QRead p c) ->
  BInv wq /\ yields (exec_query q None) wq (to_res (spec_answer (view_fs wq) q)).
Proof.
  intros HNR w0 cachefile old nm vers pr subs q wq Hwf Hok HW HXo HF Hnc Hml Hat HA Hp Hnread.
  apply (reachable_answers_view2_from HNR pr None subs _ q wq [] HA Hat); auto.
  - apply RInv2_start_world; assumption.
  - intros p Hp0. discriminate.
Qed.

End XC.

Print Assumptions bf_setup2.
Print Assumptions run2.
Print Assumptions reachable_RInv2.
Print Assumptions RInv2_root_entry.
Print Assumptions reachable_answers_view2.
