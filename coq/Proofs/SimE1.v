(* Proofs/SimE1.v — the invariant behind SimD4.ErrDead: a directory of error_created_dirs that is
   on disk is DEAD in the virtual view ([EDI]), along the primitive steps of a build:
   queries, steps at live targets, _make_room, _make_dirs (failing), _make_dirs followed by
   started_building_file, error_building_file.  Same plan as CommitDirs2Y / CommitDirs2Step
   (YInv), for ALL members of error_created_dirs (also directories of the pre-state that the
   previous build recorded and a failing build_file "re-created").
   New file; edits nothing. *)
From Coq Require Import List String Ascii NArith ZArith Bool Arith Lia.
From FB.Base Require Import PyVal Fs.
From FB.Gen Require Import JsonUtilGen.
From FB.Spec Require Import Prog.
From FB.Model Require Import Types Monad CreatedFiles BuildDirs SimpleOps Builder Persist Build Run Frame.
From FB.Proofs Require Import CoreLawsChildren ViewDefs ViewLemmas ViewXDefs ViewXQuery ViewXErr1 ViewXError ViewXSteps
     ViewXMake1 ViewXMake2 ViewXFail ViewXRoom2 ViewXSetup ViewPrepare ViewXMkfail ViewXRun BuildFileLaws
     ViewH4 ViewH5 ViewH6 ViewH7 ViewR1 ViewR2 ViewR3 ViewR9 ViewScan.
From FB.Proofs Require Import FsLemmas ReplayLaws FrameLaws CleanLaws RollbackDirsLaws
     RollbackDirsView RollbackDirsBase RollbackDirsInv RollbackDirsMake RollbackDirsRun
     CommitDirsInv CommitDirsRun CommitDirs2Y CommitDirs2Bd CommitDirs2Step CommitDirs2Run CommitDirs3Adopt CommitDirs3Run.
Import ListNotations.
Local Open Scope list_scope.

(* ------------------------------------------------------------------ the invariant *)
Definition EDI (w : world) : Prop :=
  forall d, In d (bd_err_created (w_bd w)) -> lookup (w_fs w) d = Some NDir -> dead w d = true.

Lemma hid_fields : forall w w', w_new w' = w_new w -> w_old w' = w_old w -> w_cachefile w' = w_cachefile w ->
  forall a, hid w' a = hid w a.
Proof. intros w w' E1 E2 E3 a. unfold hid. rewrite E1, E2, E3. reflexivity. Qed.

Lemma dead_fields : forall w w', w_fs w' = w_fs w -> w_bd w' = w_bd w ->
  w_new w' = w_new w -> w_old w' = w_old w -> w_cachefile w' = w_cachefile w ->
  forall x, dead w' x = dead w x.
Proof. intros w w' E1 E2 E3 E4 E5 x. unfold dead, hid. rewrite E1, E2, E3, E4, E5. reflexivity. Qed.

Lemma EDI_ext : forall w w', w_fs w' = w_fs w -> w_bd w' = w_bd w ->
  w_new w' = w_new w -> w_old w' = w_old w -> w_cachefile w' = w_cachefile w -> EDI w -> EDI w'.
Proof.
  intros w w' E1 E2 E3 E4 E5 H d Hd Hl. rewrite (dead_fields w w' E1 E2 E3 E4 E5). rewrite E2 in Hd. rewrite E1 in Hl. exact (H d Hd Hl).
Qed.

Lemma dead_kid : forall w x m y, dead w x = true -> lookup (w_fs w) (m :: x) = Some y -> invis w (m :: x) = true.
Proof.
  intros w x m y Hd Hy. apply dead_child_invis; [exact Hd|]. unfold lexists. rewrite Hy. reflexivity.
Qed.

(* what is dead stays dead when, below it, candidates stay candidates, no directory appears and
   the regular files are hidden *)
Lemma dead_mono : forall w w' x0,
  (forall y, suffix x0 y -> dead w y = true -> trk (w_bd w') y = true) ->
  (forall m y, suffix x0 y -> dead w y = true -> lookup (w_fs w') (m :: y) = Some NDir ->
               lookup (w_fs w) (m :: y) = Some NDir) ->
  (forall m y g, suffix x0 y -> dead w y = true -> lookup (w_fs w') (m :: y) = Some (NFile g) ->
                 hid w' (m :: y) = true) ->
  dead w x0 = true -> lookup (w_fs w') x0 = Some NDir -> dead w' x0 = true.
Proof.
  intros w w' x0 H1 H2 H3.
  assert (G : forall y, suffix x0 y -> dead w y = true -> lookup (w_fs w') y = Some NDir -> dead w' y = true).
  { apply (depth_ind (w_fs w') (fun y => suffix x0 y -> dead w y = true -> lookup (w_fs w') y = Some NDir -> dead w' y = true)).
    intros y IH Hs Hd Hl. rewrite dead_unfold, Hl. apply andb_true_iff. split; [exact (H1 y Hs Hd)|].
    apply forallb_forall. intros m Hm. rewrite invis_unfold.
    destruct (lookup (w_fs w') (m :: y)) as [[g|]|] eqn:El; [exact (H3 m y g Hs Hd El)| |reflexivity].
    pose proof (H2 m y Hs Hd El) as El0.
    apply (IH m Hm); [apply suffix_cons; exact Hs| |exact El].
    pose proof (dead_kid w y m NDir Hd El0) as K. rewrite invis_unfold, El0 in K. exact K. }
  apply G. apply suffix_refl.
Qed.

(* ------------------------------------------------------------------ queries *)
Lemma EDI_sv : forall w w', same_view w w' -> EDI w -> EDI w'.
Proof.
  intros w w' SV H d Hd Hl. rewrite (sv_dead _ _ SV). rewrite (sv_err _ _ SV) in Hd. rewrite (sv_fs _ _ SV) in Hl.
  exact (H d Hd Hl).
Qed.

Lemma EDI_query : forall T w w', XInv T w -> qrel w w' -> EDI w -> EDI w'.
Proof. intros T w w' HX Q H. destruct (qrel_facts _ _ _ HX Q) as (_ & SV & _ & _). exact (EDI_sv _ _ SV H). Qed.

(* ------------------------------------------------------------------ steps at live targets *)
Lemma EDI_tstep : forall T w w', XInv T w -> EDI w ->
  w_bd w' = w_bd w ->
  (forall y, lookup (w_fs w') y = Some NDir -> lookup (w_fs w) y = Some NDir) ->
  (forall y g, lookup (w_fs w') y = Some (NFile g) ->
     In y T \/ (isfile (w_fs w) y = true /\ hid w' y = hid w y)) ->
  EDI w'.
Proof.
  intros T w w' HX HE Eb Hdir Hfile d Hd Hl. rewrite Eb in Hd.
  pose proof (HE d Hd (Hdir d Hl)) as Dd.
  apply (dead_mono w w' d); [| | |exact Dd|exact Hl].
  - intros y _ Hy. rewrite Eb. exact (proj1 (dead_true_inv _ _ Hy)).
  - intros m y _ _ H. exact (Hdir _ H).
  - intros m y g _ Hy H. destruct (Hfile _ _ H) as [K|[K1 K2]].
    + exfalso. pose proof (X_target_parent _ _ _ HX K) as C. cbn [dirname tl] in C.
      rewrite (dead_counts _ _ C) in Hy. discriminate Hy.
    + rewrite K2. apply isfile_lookup in K1. destruct K1 as [g0 K1].
      pose proof (dead_kid w y m _ Hy K1) as Z. rewrite invis_unfold, K1 in Z. exact Z.
Qed.

(* the tree changes at one live target, which is no directory afterwards *)
Lemma EDI_target : forall T w w' p, XInv T w -> In p T -> EDI w ->
  w_bd w' = w_bd w -> w_new w' = w_new w -> w_old w' = w_old w -> w_cachefile w' = w_cachefile w ->
  dirs_same (w_fs w) (w_fs w') ->
  (forall q, q <> p -> lookup (w_fs w') q = lookup (w_fs w) q) -> EDI w'.
Proof.
  intros T w w' p HX Hin HE Eb En Eo Ec Hd Hq.
  apply (EDI_tstep T w w' HX HE Eb).
  - intros y Hy. apply Hd. exact Hy.
  - intros y g Hy. destruct (path_eq_dec y p) as [->|N]; [left; exact Hin|right].
    split; [unfold isfile; rewrite <- (Hq y N), Hy; reflexivity|apply hid_fields; assumption].
Qed.

(* only the claims change, and only at live targets or where no regular file is *)
Lemma EDI_claims : forall T w w', XInv T w -> EDI w -> w_fs w' = w_fs w -> w_bd w' = w_bd w ->
  (forall a, isfile (w_fs w) a = true -> hid w' a = hid w a \/ In a T) -> EDI w'.
Proof.
  intros T w w' HX HE Ef Eb Hh. apply (EDI_tstep T w w' HX HE Eb).
  - intros y Hy. rewrite Ef in Hy. exact Hy.
  - intros y g Hy. rewrite Ef in Hy.
    assert (Hf : isfile (w_fs w) y = true) by (unfold isfile; rewrite Hy; reflexivity).
    destruct (Hh y Hf) as [K|K]; [right; split; assumption|left; exact K].
Qed.

(* ------------------------------------------------------------------ error_building_file *)
Lemma bd_error_from_err : forall parent b b', bd_error_from b parent = Some b' ->
  (forall x, In x (bd_created b') -> In x (bd_created b)) /\
  (forall x, In x (bd_err_created b') ->
     In x (bd_err_created b) \/ (In x (bd_created b) /\ ~ In x (bd_created b'))).
Proof.
  induction parent as [|m parent IH]; intros b b' H; cbn [bd_error_from] in H;
    destruct (cnt_get (bd_counts b) _) as [k|]; try discriminate H;
    destruct (Nat.ltb 0 (k - 1)).
  - inversion H; subst. cbn. split; auto.
  - destruct (mem_path [] (bd_created b)) eqn:Em; cbn [bd_created bd_with] in H; rewrite ?Em in H; inversion H; subst;
      cbn [bd_created bd_err_created bd_with]; split; auto.
    + intros x Hx. eapply In_del_path; exact Hx.
    + intros x Hx. apply In_add_path' in Hx. destruct Hx as [->|Hx]; [right|left; exact Hx].
      split; [apply mem_path_In; exact Em|apply notin_del_path].
  - inversion H; subst. cbn. split; auto.
  - cbn [bd_created bd_with] in H. destruct (mem_path (m :: parent) (bd_created b)) eqn:Em.
    + destruct (IH _ _ H) as [A B]. cbn [bd_created bd_err_created bd_with] in A, B. split.
      * intros x Hx. eapply In_del_path. exact (A x Hx).
      * intros x Hx. destruct (B x Hx) as [K|[K1 K2]].
        -- apply In_add_path' in K. destruct K as [->|K]; [right|left; exact K].
           split; [apply mem_path_In; exact Em|]. intro Z. apply A in Z. revert Z. apply notin_del_path.
        -- right. split; [eapply In_del_path; exact K1|exact K2].
    + destruct (IH _ _ H) as [A B]. cbn [bd_created bd_err_created bd_with] in A, B. split; [exact A|exact B].
Qed.

Lemma EDI_bd_error : forall T w n d b',
  XInv T w -> In (n :: d) T -> isfile (w_fs w) (n :: d) = false -> EDI w ->
  bd_error (w_bd w) (n :: d) = Some b' -> EDI (set_bd b' w).
Proof.
  intros T w n d b' HX Hin Hnf HE Eb.
  destruct (ViewXErr1.bd_error_spec T (w_bd w) n d (XInv_claw _ _ HX) Hin) as (b'' & E2 & C' & F).
  rewrite Eb in E2. inversion E2; subst b''; clear E2.
  pose proof (bd_error_walk _ _ _ Eb (fun E => ltac:(discriminate E)) (x_pos _ _ HX)) as R. cbn [dirname tl] in R.
  cbn [bd_error] in Eb. destruct (bd_error_from_err _ _ _ Eb) as [_ B].
  intros x Hx Hl. cbn [w_bd w_fs set_bd] in Hx, Hl.
  destruct (B x Hx) as [K|[K1 K2]].
  - apply (e_dead_mono w d b' F). exact (HE x K Hl).
  - destruct (rl_left _ _ _ R x K1 K2) as [C1 C2].
    apply (e_released_dead T w n d b' HX Hin Hnf C' F x C1 C2).
    + apply mem_path_In. exact K1.
    + unfold isdir. rewrite Hl. reflexivity.
Qed.

(* ------------------------------------------------------------------ make_dirs, then started_building_file *)
Lemma bd_started_from_err : forall parent b cds acc b' acc', bd_started_from b cds parent acc = (b', acc') ->
  forall x, In x (bd_err_created b') -> In x (bd_err_created b).
Proof.
  induction parent as [|m parent IH]; intros b cds acc b' acc' H x Hx; cbn [bd_started_from] in H;
    destruct (Nat.ltb 0 _).
  - inversion H; subst. exact Hx.
  - destruct (mem_path [] cds); inversion H; subst; cbn [bd_err_created bd_with] in Hx; [eapply In_del_path|]; exact Hx.
  - inversion H; subst. exact Hx.
  - destruct (mem_path (m :: parent) cds).
    + pose proof (IH _ _ _ _ _ H x Hx) as K. cbn [bd_err_created bd_with] in K. eapply In_del_path. exact K.
    + exact (IH _ _ _ _ _ H x Hx).
Qed.

Lemma bd_started_err : forall b p cds b' l, bd_started b p cds = (b', l) ->
  forall x, In x (bd_err_created b') -> In x (bd_err_created b).
Proof.
  intros b p cds b' l H x Hx. unfold bd_started in H. destruct p as [|n d].
  - inversion H; subst. exact Hx.
  - exact (bd_started_from_err _ _ _ _ _ _ H x Hx).
Qed.

Lemma EDI_make_started : forall T w n d w1 ds w2 locked,
  XInv T w -> PInv T w -> isdir (w_fs w) (n :: d) = false ->
  (forall a, in_counts (w_bd w) a = true -> lookup (w_fs w) a = Some NDir) ->
  bdZ (w_bd w) -> EDI w ->
  make_dirs d w = (w1, inl ds) ->
  m_bd_started (n :: d) ds w1 = (w2, inl locked) ->
  EDI w2.
Proof.
  intros T w n d w1 ds w2 locked HX HP Hnd HC1 HZ HE Hmk Hst.
  destruct (make_dirs_started_XInv T w n d w1 ds w2 locked HX HP Hnd Hmk Hst) as (HX2 & _ & N2 & O2 & C2 & Fs2).
  unfold make_dirs in Hmk. apply bind_inv in Hmk. destruct Hmk as [[wa [ds0 [Eds H]]]|[e [_ H]]]; [|discriminate H].
  apply bind_inv in H. destruct H as [[wb [u [El H]]]|[e [_ H]]]; [|discriminate H].
  inversion H; subst wb ds0; clear H.
  pose proof (dirs_to_make_spec d T w wa ds HX Eds) as DP.
  pose proof (dp_q _ _ _ _ _ DP) as Q.
  destruct (qrel_facts _ _ _ HX Q) as (HXa & SV & _ & _).
  pose proof (sv_fs _ _ SV) as Ef. pose proof (sv_counts _ _ SV) as Ec. pose proof (sv_created _ _ SV) as Ek.
  pose proof (sv_err _ _ SV) as Ee.
  assert (Cnt : forall a, in_counts (w_bd wa) a = in_counts (w_bd w) a) by (intro a; unfold in_counts; rewrite Ec; reflexivity).
  destruct (make_dirs_loop_res _ _ _ _ _ El) as [((Bb & _ & _ & _) & _ & Same) Made].
  unfold m_bd_started in Hst. destruct (bd_started (w_bd w1) (n :: d) ds) as [b' l] eqn:Es.
  inversion Hst; subst w2 locked; clear Hst. rewrite Bb in Es.
  assert (HZa : bdZ (w_bd wa)).
  { destruct HZ as [Z2 Z4]. split; intros x Hx; rewrite Ek in Hx.
    - rewrite Cnt. exact (Z2 x Hx).
    - rewrite Ee. exact (Z4 x Hx). }
  pose proof (bd_started_Z _ _ _ _ _ Es HZa) as [Z2' Z4'].
  destruct (bd_started_spec _ _ _ _ _ Es) as (S1 & S2 & _ & _ & S5 & S6).
  pose proof (bi_counts_up _ (x_binv _ _ HXa)) as Upa.
  (* every directory to make becomes a created one *)
  assert (K : forall y, In y ds -> In y (bd_created b')).
  { intros y Hy. destruct (dp_in _ _ _ _ _ DP y Hy) as (Hs & Hne & Hvd & _).
    assert (Hnc : in_counts (w_bd wa) y = false).
    { rewrite Cnt. destruct (in_counts (w_bd w) y) eqn:Ecy; [|reflexivity]. exfalso.
      unfold vdir in Hvd. unfold isdir in Hvd. rewrite (HC1 y Ecy) in Hvd. rewrite (dead_counts _ _ Ecy) in Hvd.
      discriminate Hvd. }
    apply S6; [discriminate | cbn [dirname tl]; apply suffix_below; exact Hs | exact Hy|].
    intros a Ha. destruct (in_counts (w_bd wa) a) eqn:Eca; [|reflexivity]. exfalso.
    assert (Hsa : suffix y a) by (apply suffix_below; destruct Ha as [->|Ha]; [left; reflexivity | right; exact Ha]).
    rewrite (counts_up_suffix _ Upa a y Hsa Eca) in Hnc. discriminate Hnc. }
  intros x Hx Hl. cbn [w_bd w_fs set_bd] in Hx, Hl.
  pose proof (bd_started_err _ _ _ _ _ Es x Hx) as Hxa. rewrite Ee in Hxa.
  destruct (suffix_dec x d) as [Hs|Hs].
  - (* an ancestor of the target: made (then created, not in the error list) or a visible directory *)
    exfalso. destruct (in_dec path_eq_dec x ds) as [Hin|Hin].
    + exact (Z4' x (K x Hin) Hx).
    + destruct (dp_out _ _ _ _ _ DP x Hs Hin) as [_ Hvd].
      unfold vdir in Hvd. apply andb_true_iff in Hvd. destruct Hvd as [Hd Hdead].
      apply isdir_lookup in Hd. apply negb_true_iff in Hdead. rewrite (HE x Hxa Hd) in Hdead. discriminate Hdead.
  - (* elsewhere nothing changes below x *)
    assert (Fx : forall q, suffix x q -> lookup (w_fs w1) q = lookup (w_fs w) q).
    { intros q Hq. apply (Fs2 q). intro Z. apply Hs. exact (suffix_trans _ _ _ Hq Z). }
    assert (Hl0 : lookup (w_fs w) x = Some NDir) by (rewrite <- (Fx x (suffix_refl x)); exact Hl).
    pose proof (HE x Hxa Hl0) as Dx.
    apply (dead_mono w (set_bd b' w1) x); [| | |exact Dx|exact Hl].
    + intros y Hy Dy. cbn [w_bd set_bd]. rewrite <- (sv_dead _ _ SV) in Dy.
      destruct (dead_true_inv _ _ Dy) as [Ty _]. apply trk_true_cases in Ty. destruct Ty as [Tc Tt].
      unfold trk. rewrite S1, S2.
      assert (Hc' : in_counts b' y = false).
      { destruct (in_counts b' y) eqn:Ecy; [|reflexivity]. exfalso. destruct (S5 y Ecy) as [Z|(_ & Z)]; [congruence|].
        cbn [dirname tl] in Z. apply suffix_below in Z. apply Hs. exact (suffix_trans _ _ _ Hy Z). }
      rewrite Hc'. cbn [negb]. rewrite andb_true_r. apply orb_true_iff. exact Tt.
    + intros m y Hy _ H. cbn [w_fs set_bd] in H. rewrite <- (Fx (m :: y) (suffix_cons _ _ _ Hy)). exact H.
    + intros m y g Hy Dy H. cbn [w_fs set_bd] in H. rewrite (Fx (m :: y) (suffix_cons _ _ _ Hy)) in H.
      pose proof (dead_kid w y m _ Dy H) as Z. rewrite invis_unfold, H in Z.
      rewrite (hid_fields w (set_bd b' w1)); [exact Z|exact N2|exact O2|exact C2].
Qed.

(* ------------------------------------------------------------------ error_created_dirs is not touched by _make_room *)
Definition errk (w w' : world) : Prop := bd_err_created (w_bd w') = bd_err_created (w_bd w).
Lemma errk_refl : forall w, errk w w.
Proof. intro w. reflexivity. Qed.
Lemma errk_trans : forall a b c, errk a b -> errk b c -> errk a c.
Proof. intros a b c A B. unfold errk in *. congruence. Qed.
Definition errPO : PO := {| rel := errk; po_refl := errk_refl; po_trans := errk_trans |}.

Lemma view_errk : forall w w', viewPO w w' -> errPO w w'.
Proof. intros w w' (_ & (_ & _ & C3 & _)). exact C3. Qed.

Lemma errk_same : forall w w', w_bd w' = w_bd w -> errk w w'.
Proof. intros w w' E. unfold errk. rewrite E. reflexivity. Qed.

#[local] Hint Extern 8 (pres errPO _) => apply (pres_weaken viewPO errPO _ _ view_errk) : pres.
#[local] Hint Resolve m_is_file_view m_is_dir_view dirs_to_make_view : pres.

Ltac errk_solve :=
  lazymatch goal with |- rel errPO ?a ?b => change (errk a b) | _ => idtac end;
  first [ apply errk_refl | apply errk_same; reflexivity ].
Ltac raw_errk f :=
  intros w w' r H; unfold f in H; cbv zeta in H; repeat dm H; inversion H; subst; errk_solve.

Lemma effect_errk : forall what p f, pres errPO (effect what p f).
Proof. intros what p f. raw_errk effect. Qed.
Lemma effect_p_errk : forall what p f, pres errPO (effect_p what p f).
Proof. intros what p f. raw_errk effect_p. Qed.
#[local] Hint Resolve effect_errk effect_p_errk : pres.

Lemma back_up_and_remove_errk : forall p, pres errPO (back_up_and_remove p).
Proof.
  intro p. unfold back_up_and_remove. apply pres_bind; [auto with pres|]. intros _.
  intros w w' r H. cbv zeta in H. repeat dm H; inversion H; subst; errk_solve.
Qed.
#[local] Hint Resolve back_up_and_remove_errk : pres.

Lemma make_room_errk : forall fuel d, pres errPO (make_room fuel d).
Proof.
  induction fuel as [|fuel IH]; intros d; cbn [make_room]; [apply pres_raise|].
  apply pres_bind; [apply pres_get|]. intro w0.
  destruct (listdir (w_fs w0) d) as [names|e]; [|apply pres_raise].
  apply pres_bind; [|intros _; pres_auto].
  apply pres_mapM_. intro n. pose proof (IH (n :: d)) as Hrec. pres_auto.
Qed.

Lemma remove_empty_dirs_errk : forall ds, pres errPO (remove_empty_dirs ds).
Proof. intro ds. unfold remove_empty_dirs. pres_auto. Qed.
#[local] Hint Resolve remove_empty_dirs_errk : pres.
Lemma make_one_dir_errk : forall d, pres errPO (make_one_dir d).
Proof. intro d. unfold make_one_dir. pres_auto. Qed.
#[local] Hint Resolve make_one_dir_errk : pres.
Lemma make_dirs_loop_errk : forall ds made, pres errPO (make_dirs_loop ds made).
Proof. induction ds as [|d ds IH]; intro made; cbn [make_dirs_loop]; pres_auto. Qed.
#[local] Hint Resolve make_dirs_loop_errk : pres.
Lemma make_dirs_errk : forall d, pres errPO (make_dirs d).
Proof. intro d. unfold make_dirs. pres_auto. Qed.

(* ------------------------------------------------------------------ _make_room *)
Lemma EDI_make_room : forall T f p w w1 r, ViewXRoom2.RI T p w -> EDI w -> make_room f p w = (w1, r) -> EDI w1.
Proof.
  intros T f p w w1 r HR HE H. pose proof HR as (HX & Hd & Hdead & HF).
  pose proof (make_room_frame _ _ _ _ _ H HF) as (_ & _ & _ & Fs).
  pose proof (make_room_errk _ _ _ _ _ H) as Er. change (errk w w1) in Er. unfold errk in Er.
  intros d Hin Hl. rewrite Er in Hin.
  assert (Hl0 : lookup (w_fs w) d = Some NDir) by (destruct (Fs d) as [Z|Z]; congruence).
  pose proof (HE d Hin Hl0) as Dd.
  destruct f as [|f]; [cbn [make_room] in H; inversion H; subst; exact Dd|].
  rewrite make_room_eq in H. apply bind_inv in H. unfold get in H.
  destruct H as [(wa & w0 & E & H) | (e & E & _)]; [|discriminate E]. inversion E; subst wa w0; clear E.
  unfold listdir in H. pose proof Hd as Hd'. apply isdir_lookup in Hd'. rewrite Hd' in H.
  assert (After : forall wa x, mapM_ (room_step f p) (children (w_fs w) p) w = (wa, x) ->
            lookup (w_fs wa) d = Some NDir -> dead wa d = true).
  { intros wa x E1 Hda.
    destruct (room_loop_ok T f (make_room_ok T f) p _ _ _ _ HR E1) as [HXa Ra].
    destruct (suffix_dec p d) as [Hs|Hs].
    - assert (Hnp : ~ below_strict p p) by (intro Z; apply psuffix_neq in Z; congruence).
      destruct (rr_same _ _ _ Ra p Hnp) as [Ep Edp].
      assert (Dpa : dead wa p = true) by congruence.
      exact (dead_desc wa p (bi_wf _ (x_binv _ _ HXa)) Dpa d Hs Hda).
    - assert (Hnd : ~ below_strict p d) by (intro Z; apply Hs; apply psuffix_suffix; exact Z).
      destruct (rr_same _ _ _ Ra d Hnd) as [_ Edd]. congruence. }
  apply bind_inv in H. destruct H as [(wa & u & E1 & H) | (e & E1 & _)]; [|exact (After _ _ E1 Hl)].
  destruct (room_loop_ok T f (make_room_ok T f) p _ _ _ _ HR E1) as [HXa Ra].
  assert (Hfa : w_faults wa = []) by (rewrite (rr_faults _ _ _ Ra); exact HF).
  unfold catch in H. rewrite (effect_nofault' _ _ _ _ Hfa) in H.
  destruct (rmdir (w_fs wa) p) as [fs'|e] eqn:Er2.
  - inversion H; subst w1 r. cbn [w_fs w_bd set_log set_fs set_effects] in Hl.
    apply rmdir_frame in Er2. destruct Er2 as (_ & _ & _ & G4 & G5).
    assert (Ndp : d <> p) by (intro Z; subst d; congruence).
    assert (Hla : lookup (w_fs wa) d = Some NDir) by (rewrite <- (G5 d Ndp); exact Hl).
    pose proof (After _ _ E1 Hla) as Da.
    match goal with |- dead ?W d = true => apply (dead_mono wa W d) end; [| | |exact Da|exact Hl].
    + intros y _ Dy. exact (proj1 (dead_true_inv _ _ Dy)).
    + intros m y _ _ K. cbn [w_fs set_log set_fs set_effects] in K.
      destruct (path_eq_dec (m :: y) p) as [Z|Z]; [rewrite Z in K; congruence|rewrite <- (G5 _ Z); exact K].
    + intros m y g _ Dy K. cbn [w_fs set_log set_fs set_effects] in K.
      destruct (path_eq_dec (m :: y) p) as [Z|Z]; [rewrite Z in K; congruence|]. rewrite (G5 _ Z) in K.
      pose proof (dead_kid wa y m _ Dy K) as Z2. rewrite invis_unfold, K in Z2. exact Z2.
  - cbn [is_os] in H. inversion H; subst w1 r. cbn [w_fs set_log set_effects] in Hl.
    match goal with |- dead ?W d = true => rewrite (dead_fields wa W) by reflexivity end.
    exact (After _ _ E1 Hl).
Qed.

Lemma pfc_room_E : forall T n d w w' r, ViewXFail.RInv T w -> EDI w -> pfc_room (n :: d) w = (w', r) -> EDI w'.
Proof.
  intros T n d w w' r HR HE H. pose proof HR as (HX & HP & HF).
  unfold pfc_room in H. unfold bind at 1, get in H.
  destruct (isdir (w_fs w) (n :: d)) eqn:Ei.
  2:{ inversion H; subst. exact HE. }
  apply bind_inv in H. destruct H as [[wa [vd [Ed E1]]]|[e [Ed Er]]].
  2:{ exact (EDI_query T _ _ HX (m_is_dir_q _ _ _ _ _ Ed) HE). }
  pose proof (m_is_dir_q _ _ _ _ _ Ed) as Q. pose proof (qrel_RInv T _ _ Q HR) as HRa.
  pose proof (EDI_query T _ _ HX Q HE) as HEa.
  destruct (qrel_facts _ _ _ HX Q) as (HXa & Sa & _ & _).
  destruct (m_is_dir_inl _ _ _ _ _ HX Ed) as [Evd _].
  destruct vd.
  { inversion E1; subst. exact HEa. }
  assert (Hdead: dead w (n :: d) = true).
  { unfold vdir in Evd. rewrite Ei in Evd. cbn [andb] in Evd. symmetry in Evd. apply negb_false_iff in Evd. exact Evd. }
  assert (HRI: ViewXRoom2.RI T (n :: d) wa).
  { split; [exact HXa|]. split; [rewrite (sv_fs _ _ Sa); exact Ei|]. split; [rewrite (sv_dead _ _ Sa); exact Hdead|apply HRa]. }
  exact (EDI_make_room T _ _ _ _ _ HRI HEa E1).
Qed.

(* ------------------------------------------------------------------ make_dirs raises *)
Lemma EDI_mkfail : forall T w d w1 e, ViewXFail.RInv T w -> EDI w -> make_dirs d w = (w1, inr e) -> EDI w1.
Proof.
  intros T w d w1 e HR HE H. pose proof HR as (HX & HP & HF).
  unfold make_dirs in H. apply bind_inv in H. destruct H as [[wa [ds [Eds H]]]|[e0 [Eds _]]].
  2:{ exact (EDI_query T _ _ HX (dirs_to_make_q _ _ _ _ _ Eds) HE). }
  pose proof (dirs_to_make_q _ _ _ _ _ Eds) as Q.
  pose proof (EDI_query T _ _ HX Q HE) as HEa.
  pose proof (ViewXFail.qrel_RInv T _ _ Q HR) as (HXa & HPa & HFa).
  apply bind_inv in H. destruct H as [[wb [u [Eloop H]]]|[e0 [Eloop _]]]; [discriminate H|].
  assert (L0: LI (fun _ => True) (w_fs wa) wa wa [] []).
  { constructor; [apply same_core_refl|exact HFa|intro y; reflexivity|intros y []|intros m []]. }
  destruct (loop_fail_LI (fun _ => True) ds (w_fs wa) wa [] [] wa w1 e0 (bi_wf _ (x_binv _ _ HXa)) (fun _ _ => I) L0 Eloop)
    as (B' & [C F1 Hfs HB _]).
  destruct C as (C1 & C2 & C3 & C4).
  assert (Sub : forall q y, lookup (w_fs w1) q = Some y -> lookup (w_fs wa) q = Some y).
  { intros q y Hq. rewrite Hfs in Hq. cbn [mem_path] in Hq. destruct (mem_path q B'); [discriminate Hq | exact Hq]. }
  intros x Hx Hl. rewrite C1 in Hx.
  pose proof (HEa x Hx (Sub _ _ Hl)) as Dx.
  apply (dead_mono wa w1 x); [| | |exact Dx|exact Hl].
  - intros y _ Dy. rewrite C1. exact (proj1 (dead_true_inv _ _ Dy)).
  - intros m y _ _ K. exact (Sub _ _ K).
  - intros m y g _ Dy K. apply Sub in K.
    pose proof (dead_kid wa y m _ Dy K) as Z. rewrite invis_unfold, K in Z.
    rewrite (hid_fields wa w1); [exact Z|exact C3|exact C2|exact C4].
Qed.
