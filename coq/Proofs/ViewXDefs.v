(* Proofs/ViewXDefs.v — C04, reachability: the invariant XInv T w that is inductive along a
   whole build.  T is a ghost list (with multiplicity) of the LIVE targets: those for which
   BuildDirs.started_building_file ran and error_building_file did not.
   XInv contains BInv (ViewDefs.v) and adds what is needed when reservations are released:
   - SInv (a property of the BuildDirs record alone): created dirs are reserved; a reserved
     dir is created by this build or is no candidate; bd_exists is closed upwards and holds
     only settled paths; reserved dirs and bd_exists members are not in bd_removed_files;
   - the counting law of bd_counts: the count of x is the number of reserved directories
     directly in x plus the number of live targets directly in x (never a zero entry);
   - a created directory holds only reserved entries, live targets and invisible entries;
   - bd_removed_files is exactly the set of hidden regular files that are not live targets. *)
From Coq Require Import List String Ascii NArith ZArith Bool Arith Lia.
From FB.Base Require Import PyVal Fs.
From FB.Model Require Import Types Monad CreatedFiles BuildDirs SimpleOps Builder.
From FB.Proofs Require Import FsLemmas CleanLaws JsonLaws CoreLawsChildren
     ViewDefs ViewLemmas ViewScan ViewQueries.
Import ListNotations.
Open Scope list_scope.

(* y is a path directly in x *)
Definition is_child (x y : path) : bool := match y with [] => false | _ :: d => path_eqb d x end.

Definition ckeys (b : bdirs) : list path := map fst (bd_counts b).
Definition nk (b : bdirs) (x : path) : nat := List.length (filter (is_child x) (ckeys b)).
Definition nt (T : list path) (x : path) : nat := List.length (filter (is_child x) T).
Definition cval (b : bdirs) (x : path) : nat := match cnt_get (bd_counts b) x with Some k => k | None => 0 end.

Definition untracked (b : bdirs) (x : path) : Prop :=
  mem_path x (bd_maybe b) = false /\ mem_path x (bd_removed b) = false.

(* remove one occurrence *)
Fixpoint rm1 (p : path) (l : list path) : list path :=
  match l with [] => [] | q :: r => if path_eqb q p then r else q :: rm1 p r end.

Record SInv (b : bdirs) : Prop := {
  s_created : forall x, mem_path x (bd_created b) = true -> in_counts b x = true /\ x <> [];
  s_nc : forall x, in_counts b x = true -> mem_path x (bd_created b) = true \/ untracked b x;
  s_ex : forall q, mem_path q (bd_exists b) = true ->
         (in_counts b q = true \/ untracked b q) /\ mem_path q (bd_removed_files b) = false /\
         mem_path (dirname q) (bd_exists b) = true;
  s_c_rf : forall x, in_counts b x = true -> mem_path x (bd_removed_files b) = false
}.

Record XInv (T : list path) (w : world) : Prop := {
  x_binv : BInv w;
  x_sinv : SInv (w_bd w);
  x_keys : NoDup (ckeys (w_bd w));
  x_pos : forall x, cnt_get (bd_counts (w_bd w)) x <> Some 0;
  x_count : forall x, cval (w_bd w) x = nk (w_bd w) x + nt T x;
  (* a reserved path is a directory, or a live target, or absent *)
  x_cdir : forall x, in_counts (w_bd w) x = true ->
           isdir (w_fs w) x = true \/ In x T \/ lexists (w_fs w) x = false;
  (* a reserved path that this build did not create is a directory *)
  x_ncdir : forall x, in_counts (w_bd w) x = true -> mem_path x (bd_created (w_bd w)) = false ->
            isdir (w_fs w) x = true;
  (* a live target is not recorded as previous output; if it has become a directory (made for
     a target below it) it is reserved and created, or dead *)
  x_tgt : forall t, In t T -> t <> [] /\ mem_path t (bd_removed_files (w_bd w)) = false /\
          (isdir (w_fs w) t = true ->
           (in_counts (w_bd w) t = true /\ mem_path t (bd_created (w_bd w)) = true) \/
           (in_counts (w_bd w) t = false /\ dead w t = true));
  x_kids : forall x n, mem_path x (bd_created (w_bd w)) = true -> lexists (w_fs w) (n :: x) = true ->
           in_counts (w_bd w) (n :: x) = true \/ In (n :: x) T \/ invis w (n :: x) = true;
  x_cc : forall x n, mem_path x (bd_created (w_bd w)) = true -> in_counts (w_bd w) (n :: x) = true ->
         mem_path (n :: x) (bd_created (w_bd w)) = true;
  x_hid_rf : forall a, isfile (w_fs w) a = true -> hid w a = true -> ~ In a T ->
             mem_path a (bd_removed_files (w_bd w)) = true;
  x_rf_hid : forall a, mem_path a (bd_removed_files (w_bd w)) = true -> isfile (w_fs w) a = true -> hid w a = true
}.

Lemma XInv_BInv : forall T w, XInv T w -> BInv w.
Proof. intros T w H. apply (x_binv _ _ H). Qed.

(* ---- small facts ---- *)
Lemma is_child_cons : forall x n, is_child x (n :: x) = true.
Proof. intros x n. cbn. apply path_eqb_refl. Qed.

Lemma is_child_inv : forall x y, is_child x y = true -> exists n, y = n :: x.
Proof. intros x [|n d] H; [discriminate|]. cbn in H. apply path_eqb_eq in H. subst. eauto. Qed.

Lemma in_counts_cval : forall b x, (forall y, cnt_get (bd_counts b) y <> Some 0) ->
  (in_counts b x = true <-> 0 < cval b x).
Proof.
  intros b x Hp. unfold in_counts, cval. specialize (Hp x). destruct (cnt_get (bd_counts b) x) as [[|k]|]; split; intro H;
    try reflexivity; try discriminate; try lia. congruence.
Qed.

Lemma cnt_get_keys : forall l x, (exists k, cnt_get l x = Some k) <-> In x (map fst l).
Proof.
  induction l as [|[q m] l IH]; intro x; cbn [cnt_get map fst In].
  - split; [intros [k H]; discriminate|intros []].
  - destruct (path_eqb q x) eqn:E.
    + apply path_eqb_eq in E. subst. split; eauto.
    + rewrite IH. split; [auto|]. intros [H|H]; [|exact H]. subst. rewrite path_eqb_refl in E. discriminate.
Qed.

Lemma in_counts_keys : forall b x, in_counts b x = true <-> In x (ckeys b).
Proof.
  intros b x. unfold in_counts, ckeys. rewrite <- cnt_get_keys.
  destruct (cnt_get (bd_counts b) x); split; intro H; try reflexivity; eauto; try discriminate.
  destruct H as [k H]. discriminate.
Qed.

Lemma filter_length_pos : forall (f : path -> bool) l x, In x l -> f x = true -> 0 < List.length (filter f l).
Proof.
  intros f l x Hin Hf. assert (In x (filter f l)) by (apply filter_In; auto).
  destruct (filter f l); [destruct H|simpl; lia].
Qed.

Lemma filter_length_zero : forall (f : path -> bool) l, List.length (filter f l) = 0 -> forall x, In x l -> f x = false.
Proof.
  intros f l H x Hin. destruct (f x) eqn:E; [|reflexivity].
  pose proof (filter_length_pos f l x Hin E). lia.
Qed.

(* what the counting law gives *)
Lemma X_target_parent : forall T w t, XInv T w -> In t T -> in_counts (w_bd w) (dirname t) = true.
Proof.
  intros T w t HX Hin. apply (in_counts_cval _ _ (x_pos _ _ HX)). rewrite (x_count _ _ HX).
  destruct (x_tgt _ _ HX t Hin) as [Hne _]. destruct t as [|n d]; [contradiction|]. cbn [dirname tl].
  assert (0 < nt T d). { unfold nt. eapply filter_length_pos; [exact Hin|apply is_child_cons]. } lia.
Qed.

Lemma X_untracked_alive : forall w x, untracked (w_bd w) x -> dead w x = false.
Proof.
  intros w x [H1 H2]. apply dead_untracked. unfold trk. rewrite H1, H2. reflexivity.
Qed.

(* bd_exists members and all their ancestors are alive *)
Lemma S_exists_up : forall b q x, SInv b -> mem_path q (bd_exists b) = true -> suffix x q -> mem_path x (bd_exists b) = true.
Proof.
  intros b q. induction q as [|n d IH]; intros x HS Hq Hx.
  - apply suffix_nil in Hx. subst. exact Hq.
  - apply suffix_inv in Hx. destruct Hx as [->|Hx]; [exact Hq|].
    apply IH; [exact HS| |exact Hx]. destruct (s_ex _ HS _ Hq) as (_ & _ & H). exact H.
Qed.

Print Assumptions X_target_parent.
