(* Proofs/CoreRebuildInst.v — the rebuild theorem is not vacuous: its hypotheses hold for the scenario of
   Proofs/CoreRebuildEx.v (a first build from scratch, and a build that was itself partly served from the
   cache), so its conclusion holds there by the theorem (and agrees with what the computation gives). *)
From Coq Require Import List String NArith ZArith Bool Arith.
From FB.Base Require Import PyVal Fs.
From FB.Gen Require Import JsonUtilGen.
From FB.Spec Require Import JsonSpec Prog Ref Oracle Faithful.
From FB.Model Require Import Types SimpleOps Builder Persist Dsl Core CoreOracle CoreCache.
From FB.Proofs Require Import FsLemmas CoreLaws2 CoreLaws3 CoreLawsEx CoreRebuildDefs CoreRebuild1 CoreRebuildEx CoreRebuildMain.
Import ListNotations.
Open Scope list_scope.
Open Scope string_scope.

Lemma fs0_wf : fs_wf fs0.
Proof.
  intros p n H. destruct p as [|x p]; [reflexivity|]. unfold fs0, lookup in H. cbn [raw_lookup] in H.
  destruct (path_eqb ["src"] (x :: p)) eqn:E; [|discriminate]. apply path_eqb_eq in E. inversion E; subst. reflexivity.
Qed.

Lemma nft_of_bool : forall fs cf old s,
  forallb (fun p => negb (isfile (start_tree fs cf old) p)) (map fst (k_newF s)) = true -> no_foreign_targets fs cf old s.
Proof. intros fs cf old s H p Hp. rewrite forallb_forall in H. apply negb_true_iff. apply H. exact Hp. Qed.

Definition s_c1 : kstate := st_of c1.

Lemma i1 : cr_outcome (core_build fs0 cfc (empty_cache "b" versc) versc 10 10 root_c) = inl (PStr "ok").
Proof. vm_compute. reflexivity. Qed.
Lemma i2 : cr_state (core_build fs0 cfc (empty_cache "b" versc) versc 10 10 root_c) = Some s_c1.
Proof. vm_compute. reflexivity. Qed.
Lemma i3 : isdir fs0 cfc = false.
Proof. vm_compute. reflexivity. Qed.
Lemma i4 : sanitized versc = true.
Proof. vm_compute. reflexivity. Qed.
Lemma i5 : records_clean s_c1 = true.
Proof. vm_compute. reflexivity. Qed.
Lemma i6 : records_distinct s_c1 = true.
Proof. vm_compute. reflexivity. Qed.
Lemma i7 : no_foreign_targets fs0 cfc (empty_cache "b" versc) s_c1.
Proof. apply nft_of_bool. vm_compute. reflexivity. Qed.

Example rebuild_instance :
  let cr1 := core_build fs0 cfc (empty_cache "b" versc) versc 10 10 root_c in
  let cr2 := core_build (next_fs cfc s_c1) cfc (CoreCache.cache_of_state "b" s_c1) versc 50 50 root_c in
  cr_outcome cr2 = inl (PStr "ok") /\
  cr_log cr2 = LInvoke "<root>" None PNone PNone :: build_top fs0 cfc (empty_cache "b" versc) versc 10 10 root_c /\
  (forall p, lookup (cr_tree cr2) p = lookup (cr_tree cr1) p).
Proof.
  exact (rebuild_hits_all fs0 cfc (empty_cache "b" versc) versc 10 10 root_c "b" (PStr "ok") s_c1 50 50
           i1 i2 fs0_wf i3 i4 i5 i6 i7).
Qed.

(* a decidable check of well-formedness, for concrete trees *)
Definition wf_b (fs : fsT) : bool :=
  forallb (fun p => match lookup fs p with Some _ => isdir fs (dirname p) | None => true end) (support fs).

Lemma wf_b_sound : forall fs, wf_b fs = true -> fs_wf fs.
Proof.
  intros fs H p n Hp. destruct p as [|x p]; [reflexivity|].
  unfold wf_b in H. rewrite forallb_forall in H.
  assert (Hin : In (x :: p) (support fs)).
  { unfold lookup in Hp. destruct (CleanLaws.raw_lookup_in _ _ _ Hp) as [e [He1 He2]]. unfold support. rewrite <- He2. apply in_map. exact He1. }
  specialize (H _ Hin). rewrite Hp in H. apply FsLemmas.isdir_lookup. exact H.
Qed.

(* the build after a change of the input (some calls served from the cache, others run), then its rebuild *)
Definition s_d2 : kstate := st_of d2.
Lemma j0 : fs_wf fsn1'.
Proof. apply wf_b_sound. vm_compute. reflexivity. Qed.
Lemma j1 : cr_outcome (core_build fsn1' cfc new1 versc 50 50 root_c) = inl (PStr "ok").
Proof. vm_compute. reflexivity. Qed.
Lemma j2 : cr_state (core_build fsn1' cfc new1 versc 50 50 root_c) = Some s_d2.
Proof. vm_compute. reflexivity. Qed.
Lemma j3 : isdir fsn1' cfc = false.
Proof. vm_compute. reflexivity. Qed.
Lemma j5 : records_clean s_d2 = true.
Proof. vm_compute. reflexivity. Qed.
Lemma j6 : records_distinct s_d2 = true.
Proof. vm_compute. reflexivity. Qed.
Lemma j7 : no_foreign_targets fsn1' cfc new1 s_d2.
Proof. apply nft_of_bool. vm_compute. reflexivity. Qed.

Example rebuild_instance_after_hits :
  let cr1 := core_build fsn1' cfc new1 versc 50 50 root_c in
  let cr2 := core_build (next_fs cfc s_d2) cfc (CoreCache.cache_of_state "b" s_d2) versc 90 90 root_c in
  cr_outcome cr2 = inl (PStr "ok") /\
  cr_log cr2 = LInvoke "<root>" None PNone PNone :: build_top fsn1' cfc new1 versc 50 50 root_c /\
  (forall p, lookup (cr_tree cr2) p = lookup (cr_tree cr1) p).
Proof.
  exact (rebuild_hits_all fsn1' cfc new1 versc 50 50 root_c "b" (PStr "ok") s_d2 90 90 j1 j2 j0 j3 i4 j5 j6 j7).
Qed.

(* the first build of this pair really mixed hits and runs: 14 log entries, against 20 from scratch and 4 for a pure rebuild *)
Example d2_mixed : List.length (cr_log d2) = 14%nat.
Proof. vm_compute. reflexivity. Qed.
