(* Proofs/ConcLaws.v — laws of the concurrent core (Model/Conc.v):
   A. no deadlock from lock ordering (C09),
   B. the directory protocol under the creation lock is serializable (C09),
   C. the finished flag (C17). *)
From Coq Require Import List String Ascii Bool Arith Lia Permutation.
From FB.Base Require Import PyVal Fs.
From FB.Gen Require Import Locks.
From FB.Model Require Import Types BuildDirs Conc.
From FB.Proofs Require Import FsLemmas.
Import ListNotations.
Local Open Scope list_scope.

(* ================================================================== PART A *)
Definition rank (l : string) : nat := List.length (reach (List.length all_locks) (succs l) (succs l)).

Lemma edges_ranked : forallb (fun e => Nat.ltb (rank (snd e)) (rank (fst e))) lock_edges = true.
Proof. vm_compute. reflexivity. Qed.

Lemma table_checks : lock_graph_acyclic = true /\ segments_justified = true.
Proof. split; vm_compute; reflexivity. Qed.

Definition deadlocked (ws : list (list string * string)) : Prop :=
  ws <> [] /\ forall held w, In (held, w) ws -> exists held' w', In (held', w') ws /\ In w held'.
Definition disciplined (ws : list (list string * string)) : Prop :=
  forall held w h, In (held, w) ws -> In h held -> In (h, w) lock_edges.

(* a non-empty finite list has an element of minimal measure *)
Lemma min_elt : forall (A : Type) (f : A -> nat) (l : list A), l <> [] ->
  exists x, In x l /\ forall y, In y l -> f x <= f y.
Proof.
  intros A f l. induction l as [|a l IH]; intro H; [congruence|].
  destruct l as [|b l].
  - exists a. split; [left; reflexivity|]. intros y [Hy|[]]. subst. lia.
  - destruct IH as [x [Hx Hmin]]; [discriminate|].
    destruct (le_lt_dec (f a) (f x)) as [Hle|Hlt].
    + exists a. split; [left; reflexivity|]. intros y [Hy|Hy]; [subst; lia|].
      specialize (Hmin y Hy). lia.
    + exists x. split; [right; exact Hx|]. intros y [Hy|Hy]; [subst; lia|]. apply Hmin; exact Hy.
Qed.

Lemma no_deadlock_gen : forall (rk : string -> nat) (E : list (string * string)),
  (forall a b, In (a, b) E -> rk b < rk a) ->
  forall ws : list (list string * string),
    (forall held w h, In (held, w) ws -> In h held -> In (h, w) E) ->
    ~ (ws <> [] /\ forall held w, In (held, w) ws -> exists held' w', In (held', w') ws /\ In w held').
Proof.
  intros rk E HE ws Hd [Hne Hdl].
  destruct (min_elt _ (fun hw => rk (snd hw)) ws Hne) as [[held w] [Hin Hmin]].
  destruct (Hdl held w Hin) as [held' [w' [Hin' Hw]]].
  pose proof (Hd held' w' w Hin' Hw) as He.
  apply HE in He. specialize (Hmin (held', w') Hin'). simpl in Hmin. lia.
Qed.

Theorem no_deadlock : forall ws, disciplined ws -> ~ deadlocked ws.
Proof.
  intros ws Hd. apply (no_deadlock_gen rank lock_edges).
  - intros a b Hab. pose proof edges_ranked as H. rewrite forallb_forall in H.
    specialize (H (a, b) Hab). simpl in H. apply Nat.ltb_lt in H. exact H.
  - exact Hd.
Qed.

(* ================================================================== PART C *)
Definition only_r (r : nat) (l : list fstep) : Prop :=
  forall st, In st l -> st = FCheck r \/ st = FAppend r \/ st = FClose.

Definition frun_from (acc : bstate * option bool) (l : list fstep) : bstate * option bool :=
  fold_left (fun acc st => fstep_run (fst acc) (snd acc) st) l acc.

Lemma frun_from_app : forall l1 l2 acc, frun_from acc (l1 ++ l2) = frun_from (frun_from acc l1) l2.
Proof. intros. unfold frun_from. apply fold_left_app. Qed.

Lemma frun_is_from : forall l, frun l = frun_from ({| b_finished := false; b_subs := [] |}, None) l.
Proof. reflexivity. Qed.

(* the record of the call is present exactly when the call returned normally *)
Definition finv (r : nat) (acc : bstate * option bool) : Prop :=
  (snd acc = Some true /\ b_subs (fst acc) = [r]) \/ (snd acc <> Some true /\ b_subs (fst acc) = []).

Lemma finv_step : forall r acc st, (st = FCheck r \/ st = FAppend r \/ st = FClose) ->
  finv r acc -> finv r (fstep_run (fst acc) (snd acc) st).
Proof.
  intros r [s res] st Hst H. unfold finv in *. simpl in *.
  destruct Hst as [-> | [-> | ->]]; simpl.
  - destruct res as [b|]; [exact H|]. destruct (b_finished s); simpl.
    + right. split; [discriminate|]. destruct H as [[H _]|[_ H]]; [discriminate|exact H].
    + exact H.
  - destruct res as [b|]; [exact H|]. destruct (b_finished s); simpl.
    + right. split; [discriminate|]. destruct H as [[H _]|[_ H]]; [discriminate|exact H].
    + left. split; [reflexivity|]. destruct H as [[H _]|[_ H]]; [discriminate|]. rewrite H. reflexivity.
  - exact H.
Qed.

Lemma finv_run : forall r l acc, only_r r l -> finv r acc -> finv r (frun_from acc l).
Proof.
  intros r l. induction l as [|st l IH]; intros acc Ho H; [exact H|].
  simpl. apply IH.
  - intros st' Hin. apply Ho. right. exact Hin.
  - apply finv_step; [apply Ho; left; reflexivity|exact H].
Qed.

Lemma finv_frun : forall r l, only_r r l -> finv r (frun l).
Proof.
  intros r l Ho. rewrite frun_is_from. apply finv_run; [exact Ho|].
  right. simpl. split; [discriminate|reflexivity].
Qed.

Theorem finished_linearizable : forall r l, only_r r l ->
  (snd (frun l) = Some true <-> In r (b_subs (fst (frun l)))).
Proof.
  intros r l Ho. destruct (finv_frun r l Ho) as [[H1 H2]|[H1 H2]]; rewrite H2; split; intro H.
  - left; reflexivity.
  - exact H1.
  - contradiction.
  - destruct H.
Qed.

Theorem finished_no_duplicates : forall r l, only_r r l ->
  List.count_occ Nat.eq_dec (b_subs (fst (frun l))) r <= 1.
Proof.
  intros r l Ho. destruct (finv_frun r l Ho) as [[_ H2]|[_ H2]]; rewrite H2; simpl.
  - destruct (Nat.eq_dec r r); [lia|congruence].
  - lia.
Qed.

(* once the builder is closed and the call has not completed: close steps change
   nothing, the first check/append raises, afterwards nothing changes *)
Lemma closed_done_run : forall l s, b_finished s = true -> frun_from (s, Some false) l = (s, Some false).
Proof.
  induction l as [|st l IH]; intros s Hf; [reflexivity|]. simpl. destruct st; simpl; try (apply IH; exact Hf).
  destruct s as [f subs]. simpl in *. subst f. apply IH. reflexivity.
Qed.

Lemma closed_pending_run : forall r l s, only_r r l -> b_finished s = true ->
  frun_from (s, None) l = (s, if forallb (fun st => match st with FClose => true | _ => false end) l then None else Some false).
Proof.
  intros r l. induction l as [|st l IH]; intros s Ho Hf; [reflexivity|].
  assert (Ho' : only_r r l) by (intros st' Hin; apply Ho; right; exact Hin).
  destruct (Ho st (or_introl eq_refl)) as [-> | [-> | ->]]; simpl; rewrite ?Hf.
  - apply closed_done_run; exact Hf.
  - apply closed_done_run; exact Hf.
  - destruct s as [f subs]; simpl in *. subst f. apply (IH _ Ho'). reflexivity.
Qed.

(* The statement with only [l2 <> []] is false: a straggler that takes no further
   step after the close has not raised yet. *)
Example finished_fenced_needs_a_step :
  snd (frun ([] ++ FClose :: [FClose])) = None.
Proof. vm_compute. reflexivity. Qed.

(* DEVIATION from the requested form: [l2 <> []] is replaced by "l2 contains a step of
   the call itself" (a check or an append); FClose steps do not advance the call. *)
Theorem finished_fenced : forall r l1 l2, only_r r l1 -> only_r r l2 ->
  snd (frun l1) = None -> (exists st, In st l2 /\ st <> FClose) ->
  snd (frun (l1 ++ FClose :: l2)) = Some false /\ ~ In r (b_subs (fst (frun (l1 ++ FClose :: l2)))).
Proof.
  intros r l1 l2 H1 H2 Hn [st [Hin Hst]].
  assert (Hres : snd (frun (l1 ++ FClose :: l2)) = Some false).
  { rewrite frun_is_from, frun_from_app, <- frun_is_from.
    destruct (frun l1) as [s res]. simpl in Hn. subst res. simpl.
    rewrite (closed_pending_run r l2 {| b_finished := true; b_subs := b_subs s |} H2 eq_refl). simpl.
    destruct (forallb (fun st => match st with FClose => true | _ => false end) l2) eqn:E; [|reflexivity].
    rewrite forallb_forall in E. specialize (E st Hin). destruct st; try discriminate. congruence. }
  split; [exact Hres|].
  intro Hr. apply finished_linearizable in Hr.
  - congruence.
  - intros st' Hin'. apply in_app_or in Hin'. destruct Hin' as [Hin'|[<-|Hin']]; auto.
Qed.

(* the other half: if the straggler takes no step after the close, it is still pending *)
Theorem finished_fenced_pending : forall r l1 l2, only_r r l1 ->
  snd (frun l1) = None -> (forall st, In st l2 -> st = FClose) ->
  snd (frun (l1 ++ FClose :: l2)) = None.
Proof.
  intros r l1 l2 H1 Hn Hc.
  rewrite frun_is_from, frun_from_app, <- frun_is_from.
  destruct (frun l1) as [s res]. simpl in Hn. subst res. simpl.
  rewrite (closed_pending_run r l2 {| b_finished := true; b_subs := b_subs s |}).
  - simpl. replace (forallb _ l2) with true; [reflexivity|]. symmetry. apply forallb_forall.
    intros st Hin. rewrite (Hc st Hin). reflexivity.
  - intros st Hin. right. right. apply Hc. exact Hin.
  - reflexivity.
Qed.

(* ================================================================== PART B2 *)
Theorem unlocked_loses_directory :
  exists ts sched c, urun_sched [] sched (uinit ts) = Some c /\
    forallb (fun tp => match snd tp with UDone => true | _ => false end) (snd c) = true /\
    mem_path ["N"%string] (bd_created (d_bd (fst c))) = false /\
    mem_path ["N"%string] (d_disk (fst c)) = true.
Proof.
  exists [ {| t_path := ["a"; "N"]%string; t_ok := true |}; {| t_path := ["b"; "N"]%string; t_ok := true |} ].
  exists [0; 1; 1; 0; 0; 1].
  eexists. split; [vm_compute; reflexivity|]. vm_compute. repeat split.
Qed.

(* ================================================================== PART B1 *)
(* ---- path sets and counter tables *)
Lemma mem_path_In : forall p l, mem_path p l = true <-> In p l.
Proof.
  intros p l. induction l as [|q l IH]; simpl; [split; [discriminate|tauto]|].
  rewrite orb_true_iff, IH, path_eqb_eq. tauto.
Qed.

Lemma mem_path_app : forall p l1 l2, mem_path p (l1 ++ l2) = mem_path p l1 || mem_path p l2.
Proof. intros p l1 l2. induction l1 as [|q l1 IH]; simpl; [reflexivity|]. rewrite IH, orb_assoc. reflexivity. Qed.

Lemma mem_add_path : forall p q l, mem_path q (add_path p l) = path_eqb p q || mem_path q l.
Proof.
  intros p q l. unfold add_path. destruct (mem_path p l) eqn:E.
  - destruct (path_eqb p q) eqn:E2; [|reflexivity]. apply path_eqb_eq in E2. subst. rewrite E. reflexivity.
  - rewrite mem_path_app. simpl. rewrite orb_false_r, orb_comm. reflexivity.
Qed.

Lemma mem_del_path : forall p q l, mem_path q (del_path p l) = negb (path_eqb p q) && mem_path q l.
Proof.
  intros p q l. induction l as [|r l IH]; simpl; [rewrite andb_false_r; reflexivity|].
  destruct (path_eqb r p) eqn:E.
  - apply path_eqb_eq in E. subst r. rewrite IH. destruct (path_eqb p q); reflexivity.
  - simpl. rewrite IH. destruct (path_eqb r q) eqn:E2; [|reflexivity].
    apply path_eqb_eq in E2. subst r. rewrite path_eqb_sym, E. reflexivity.
Qed.

Lemma mem_fold_add : forall ds q l,
  mem_path q (fold_left (fun acc d => add_path d acc) ds l) = mem_path q l || mem_path q ds.
Proof.
  induction ds as [|d ds IH]; intros q l; simpl; [rewrite orb_false_r; reflexivity|].
  rewrite IH, mem_add_path. destruct (path_eqb d q), (mem_path q l), (mem_path q ds); reflexivity.
Qed.

Lemma cnt_get_set : forall K p n q, cnt_get (cnt_set K p n) q = if path_eqb p q then Some n else cnt_get K q.
Proof.
  induction K as [|[r m] K IH]; intros p n q; simpl.
  - destruct (path_eqb p q); reflexivity.
  - destruct (path_eqb r p) eqn:E; simpl.
    + apply path_eqb_eq in E. subst r. destruct (path_eqb p q); reflexivity.
    + rewrite IH. destruct (path_eqb r q) eqn:E2; [|reflexivity].
      apply path_eqb_eq in E2. subst r. rewrite path_eqb_sym, E. reflexivity.
Qed.

Lemma cnt_get_del : forall K p q, cnt_get (cnt_del K p) q = if path_eqb p q then None else cnt_get K q.
Proof.
  induction K as [|[r m] K IH]; intros p q; simpl.
  - destruct (path_eqb p q); reflexivity.
  - destruct (path_eqb r p) eqn:E; simpl.
    + apply path_eqb_eq in E. subst r. rewrite IH. destruct (path_eqb p q); reflexivity.
    + rewrite IH. destruct (path_eqb r q) eqn:E2; [|reflexivity].
      apply path_eqb_eq in E2. subst r. rewrite path_eqb_sym, E. reflexivity.
Qed.

Definition keys (K : list (path * nat)) : list path := map fst K.

Lemma cnt_get_keys : forall K q, (exists n, cnt_get K q = Some n) <-> In q (keys K).
Proof.
  induction K as [|[r m] K IH]; intro q; simpl.
  - split; [intros [n H]; discriminate|tauto].
  - destruct (path_eqb r q) eqn:E.
    + apply path_eqb_eq in E. subst. split; [auto|eauto].
    + rewrite IH. split; [auto|]. intros [H|H]; [|exact H]. subst. rewrite path_eqb_refl in E. discriminate.
Qed.

Lemma cnt_get_none_keys : forall K q, cnt_get K q = None <-> ~ In q (keys K).
Proof.
  intros K q. rewrite <- cnt_get_keys. destruct (cnt_get K q) as [n|]; split; intro H; try congruence.
  - exfalso. apply H. eauto.
  - intros [n Hn]. discriminate.
Qed.

Lemma cnt_get_In : forall K q n, NoDup (keys K) -> In (q, n) K -> cnt_get K q = Some n.
Proof.
  induction K as [|[r m] K IH]; intros q n Hnd Hin; simpl in *; [contradiction|].
  inversion Hnd as [|? ? Hni Hnd']; subst. destruct Hin as [Heq|Hin].
  - inversion Heq; subst. rewrite path_eqb_refl. reflexivity.
  - destruct (path_eqb r q) eqn:E; [|apply IH; assumption].
    apply path_eqb_eq in E. subst. exfalso. apply Hni. apply (in_map fst) in Hin. exact Hin.
Qed.

Lemma keys_set_old : forall K p n m, cnt_get K p = Some m -> keys (cnt_set K p n) = keys K.
Proof.
  induction K as [|[r k] K IH]; intros p n m H; simpl in *; [discriminate|].
  destruct (path_eqb r p) eqn:E; simpl; [reflexivity|]. f_equal. apply (IH _ _ m). exact H.
Qed.

Lemma keys_set_new : forall K p n, cnt_get K p = None -> keys (cnt_set K p n) = keys K ++ [p].
Proof.
  induction K as [|[r k] K IH]; intros p n H; simpl in *; [reflexivity|].
  destruct (path_eqb r p) eqn:E; [discriminate|]. simpl. f_equal. apply IH. exact H.
Qed.

Lemma keys_del : forall K p, keys (cnt_del K p) = filter (fun c => negb (path_eqb c p)) (keys K).
Proof.
  induction K as [|[r k] K IH]; intro p; simpl; [reflexivity|].
  destruct (path_eqb r p); simpl; rewrite IH; reflexivity.
Qed.

(* ---- children of a directory among the keys of the counter table *)
Definition is_child (c d : path) : bool := match c with [] => false | _ :: c' => path_eqb c' d end.
Definition nkids (K : list (path * nat)) (d : path) : nat := List.length (filter (fun c => is_child c d) (keys K)).
Definition inK (K : list (path * nat)) (q : path) : bool := match cnt_get K q with Some _ => true | None => false end.
Definition mk (n : nat) : option nat := match n with O => None | S _ => Some n end.
Definition nonroot (q : path) : bool := match q with [] => false | _ => true end.
(* a = d or a is a proper ancestor of d *)
Definition sfx (a d : path) : bool := path_eqb d a || below a d.

Lemma is_child_tl : forall x d, is_child (x :: d) d = true.
Proof. intros. simpl. apply path_eqb_refl. Qed.

Lemma is_child_self : forall p, is_child p p = false.
Proof.
  intros p. destruct p as [|x p]; [reflexivity|]. simpl. apply path_eqb_neq. intro H.
  apply (f_equal (@List.length _)) in H. simpl in H. lia.
Qed.

Lemma is_child_eq : forall c d, is_child c d = true -> exists x, c = x :: d.
Proof. intros [|x c] d H; simpl in H; [discriminate|]. apply path_eqb_eq in H. subst. eauto. Qed.

Lemma inK_In : forall K q, inK K q = true <-> In q (keys K).
Proof.
  intros K q. rewrite <- cnt_get_keys. unfold inK. destruct (cnt_get K q); split; intro H; eauto; try discriminate.
  destruct H; discriminate.
Qed.

Lemma nkids_set_old : forall K p n m d, cnt_get K p = Some m -> nkids (cnt_set K p n) d = nkids K d.
Proof. intros. unfold nkids. rewrite (keys_set_old _ _ _ m); auto. Qed.

Lemma nkids_set_new : forall K p n d, cnt_get K p = None ->
  nkids (cnt_set K p n) d = nkids K d + (if is_child p d then 1 else 0).
Proof.
  intros. unfold nkids. rewrite keys_set_new by assumption. rewrite filter_app, app_length. simpl.
  destruct (is_child p d); reflexivity.
Qed.

Lemma filter_remove_len : forall (f : path -> bool) p l, NoDup l -> In p l ->
  List.length (filter f (filter (fun c => negb (path_eqb c p)) l)) + (if f p then 1 else 0) = List.length (filter f l).
Proof.
  intros f p l. induction l as [|c l IH]; intros Hnd Hin; [contradiction|].
  inversion Hnd as [|? ? Hni Hnd']; subst. simpl. destruct Hin as [->|Hin].
  - rewrite path_eqb_refl. simpl.
    assert (E : filter (fun c => negb (path_eqb c p)) l = l).
    { clear IH Hnd Hnd'. induction l as [|c l IH]; [reflexivity|]. simpl.
      destruct (path_eqb c p) eqn:E; simpl.
      - apply path_eqb_eq in E. subst. exfalso. apply Hni. left. reflexivity.
      - f_equal. apply IH. intro H. apply Hni. right. exact H. }
    rewrite E. destruct (f p); simpl; lia.
  - destruct (path_eqb c p) eqn:E.
    + apply path_eqb_eq in E. subst. contradiction.
    + simpl. specialize (IH Hnd' Hin). destruct (f c); simpl; lia.
Qed.

Lemma nkids_del : forall K p m d, NoDup (keys K) -> cnt_get K p = Some m ->
  nkids (cnt_del K p) d + (if is_child p d then 1 else 0) = nkids K d.
Proof.
  intros K p m d Hnd Hg. unfold nkids. rewrite keys_del. apply (filter_remove_len (fun c => is_child c d)).
  - exact Hnd.
  - apply cnt_get_keys. eauto.
Qed.

Lemma nodup_set : forall K p n, NoDup (keys K) -> NoDup (keys (cnt_set K p n)).
Proof.
  intros K p n Hnd. destruct (cnt_get K p) as [m|] eqn:E.
  - rewrite (keys_set_old _ _ _ m); assumption.
  - rewrite keys_set_new by assumption. apply (Permutation_NoDup (Permutation_cons_append (keys K) p)).
    constructor; [|exact Hnd]. apply cnt_get_none_keys. exact E.
Qed.

Lemma nodup_del : forall K p, NoDup (keys K) -> NoDup (keys (cnt_del K p)).
Proof. intros. rewrite keys_del. apply NoDup_filter. assumption. Qed.

Lemma nkids_pos : forall K c d, In c (keys K) -> is_child c d = true -> 1 <= nkids K d.
Proof.
  intros K c d Hin Hc. unfold nkids.
  assert (H : In c (filter (fun c => is_child c d) (keys K))) by (apply filter_In; auto).
  destruct (filter (fun c => is_child c d) (keys K)); [contradiction|]. simpl. lia.
Qed.

Lemma nkids_pos_inv : forall K d, 1 <= nkids K d -> exists c, In c (keys K) /\ is_child c d = true.
Proof.
  intros K d H. unfold nkids in H.
  destruct (filter (fun c => is_child c d) (keys K)) as [|c l] eqn:E; [simpl in H; lia|].
  assert (Hin : In c (filter (fun c => is_child c d) (keys K))) by (rewrite E; left; reflexivity).
  apply filter_In in Hin. exists c. exact Hin.
Qed.

Lemma inK_set : forall K p n q, inK (cnt_set K p n) q = path_eqb p q || inK K q.
Proof. intros. unfold inK. rewrite cnt_get_set. destruct (path_eqb p q); reflexivity. Qed.

Lemma inK_del : forall K p q, inK (cnt_del K p) q = negb (path_eqb p q) && inK K q.
Proof. intros. unfold inK. rewrite cnt_get_del. destruct (path_eqb p q); reflexivity. Qed.

Lemma sfx_refl : forall d, sfx d d = true.
Proof. intros. unfold sfx. rewrite path_eqb_refl. reflexivity. Qed.

Lemma sfx_cons : forall a x d, sfx a d = true -> sfx a (x :: d) = true.
Proof. intros a x d H. unfold sfx in *. simpl. rewrite H. apply orb_true_r. Qed.

Lemma below_cons : forall a x d, below a (x :: d) = sfx a d.
Proof. reflexivity. Qed.

Section Dirs.
Variable base : list path.

Definition cnt_good (g : path -> nat) (K : list (path * nat)) (d : path) : Prop :=
  cnt_get K d = mk (g d + nkids K d).
Definition cr_ok (K : list (path * nat)) (created : list path) : Prop :=
  forall q, mem_path q created = inK K q && negb (mem_path q base) && nonroot q.
Definition er_ok (an : path -> bool) (K : list (path * nat)) (err : list path) : Prop :=
  forall q, mem_path q err = an q && negb (inK K q) && negb (mem_path q base) && nonroot q.
Definition dk_ok (an : path -> bool) (disk : list path) : Prop :=
  forall q, mem_path q disk = an q && negb (mem_path q base) && nonroot q.

(* the walk of started_building_file stops: the counter of [parent] was positive *)
Lemma start_stop : forall g an0 (an1 : path -> bool) K cr er parent n0 n,
  NoDup (keys K) ->
  (forall d, path_eqb parent d = false -> cnt_good g K d) ->
  cnt_get K parent = Some n0 -> S n = g parent + nkids K parent ->
  (forall q, inK K q = true -> an1 q = true) ->
  cr_ok K cr -> er_ok an0 K er ->
  let K1 := cnt_set K parent (S n) in
  NoDup (keys K1) /\ (forall d, cnt_good g K1 d) /\ (forall q, inK K1 q = true -> an1 q = true) /\
  cr_ok K1 cr /\ er_ok an0 K1 er.
Proof.
  intros g an0 an1 K cr er parent n0 n Hnd Hgood Hget Hn Han Hcr Her K1.
  assert (HinK : forall q, inK K1 q = inK K q).
  { intro q. unfold K1. rewrite inK_set. destruct (path_eqb parent q) eqn:E; [|reflexivity].
    apply path_eqb_eq in E. subst q. unfold inK. rewrite Hget. reflexivity. }
  assert (Hkids : forall d, nkids K1 d = nkids K d) by (intro d; apply (nkids_set_old _ _ _ n0); exact Hget).
  split; [apply nodup_set; exact Hnd|]. split; [|split; [|split]].
  - intro d. unfold cnt_good, K1. rewrite cnt_get_set. fold K1. rewrite Hkids.
    destruct (path_eqb parent d) eqn:E.
    + apply path_eqb_eq in E. subst d. rewrite <- Hn. reflexivity.
    + apply Hgood. exact E.
  - intros q Hq. apply Han. rewrite <- HinK. exact Hq.
  - intro q. rewrite HinK. apply Hcr.
  - intro q. rewrite HinK. apply Her.
Qed.

(* the walk goes on: [parent] had no counter *)
Lemma start_step : forall cds g an0 (an1 : path -> bool) K cr er parent,
  NoDup (keys K) ->
  (forall d, path_eqb parent d = false -> cnt_good g K d) ->
  cnt_get K parent = None -> g parent + nkids K parent = 1 ->
  (forall q, inK K q = true -> an1 q = true) -> an1 parent = true ->
  cr_ok K cr -> er_ok an0 K er ->
  mem_path parent cds = negb (mem_path parent base) && nonroot parent ->
  let K1 := cnt_set K parent 1 in
  let cr2 := if mem_path parent cds then add_path parent cr else cr in
  let er2 := if mem_path parent cds then del_path parent er else er in
  NoDup (keys K1) /\ cnt_good g K1 parent /\
  (forall d, path_eqb parent d = false -> is_child parent d = false -> cnt_good g K1 d) /\
  (forall d, is_child parent d = true ->
     1 <= g d + nkids K1 d /\ cnt_get K1 d = mk (g d + nkids K1 d - 1)) /\
  (forall q, inK K1 q = true -> an1 q = true) /\
  cr_ok K1 cr2 /\ er_ok an0 K1 er2 /\
  (forall a, inK K1 a = false -> inK K a = false).
Proof.
  intros cds g an0 an1 K cr er parent Hnd Hgood Hget Hone Han Hanp Hcr Her Hcds K1 cr2 er2.
  assert (Hkids : forall d, nkids K1 d = nkids K d + (if is_child parent d then 1 else 0))
    by (intro d; apply nkids_set_new; exact Hget).
  assert (HinKp : inK K parent = false) by (unfold inK; rewrite Hget; reflexivity).
  split; [apply nodup_set; exact Hnd|]. split; [|split; [|split; [|split; [|split; [|split]]]]].
  - unfold cnt_good, K1. rewrite cnt_get_set, path_eqb_refl. fold K1. rewrite Hkids, is_child_self.
    rewrite Nat.add_0_r, Hone. reflexivity.
  - intros d E Hc. unfold cnt_good, K1. rewrite cnt_get_set, E. fold K1. rewrite Hkids, Hc, Nat.add_0_r.
    apply Hgood. exact E.
  - intros d Hc. rewrite Hkids, Hc.
    assert (E : path_eqb parent d = false).
    { apply path_eqb_neq. intro Heq. subst d. rewrite is_child_self in Hc. discriminate. }
    split; [lia|]. unfold K1. rewrite cnt_get_set, E.
    replace (g d + (nkids K d + 1) - 1) with (g d + nkids K d) by lia. apply Hgood. exact E.
  - intros q Hq. unfold K1 in Hq. rewrite inK_set in Hq. destruct (path_eqb parent q) eqn:E.
    + apply path_eqb_eq in E. subst q. exact Hanp.
    + apply Han. exact Hq.
  - intro q. unfold K1. rewrite inK_set. unfold cr2. destruct (path_eqb parent q) eqn:E.
    + apply path_eqb_eq in E. subst q. simpl. rewrite <- Hcds.
      destruct (mem_path parent cds) eqn:E2.
      * rewrite mem_add_path, path_eqb_refl. reflexivity.
      * rewrite Hcr, HinKp. reflexivity.
    + simpl. destruct (mem_path parent cds).
      * rewrite mem_add_path, E. simpl. apply Hcr.
      * apply Hcr.
  - intro q. unfold K1. rewrite inK_set. unfold er2. destruct (path_eqb parent q) eqn:E.
    + apply path_eqb_eq in E. subst q. simpl. rewrite andb_false_r. simpl.
      destruct (mem_path parent cds) eqn:E2.
      * rewrite mem_del_path, path_eqb_refl. reflexivity.
      * rewrite Her, <- andb_assoc, <- Hcds. rewrite andb_false_r. reflexivity.
    + simpl. destruct (mem_path parent cds).
      * rewrite mem_del_path, E. simpl. apply Her.
      * apply Her.
  - intros a Ha. unfold K1 in Ha. rewrite inK_set in Ha. apply orb_false_iff in Ha. apply Ha.
Qed.

Lemma started_from_eq : forall b cds parent acc,
  bd_started_from b cds parent acc =
  let count := match cnt_get (bd_counts b) parent with Some n => n | None => 0 end in
  let b1 := bd_with b (cnt_set (bd_counts b) parent (S count)) (bd_created b) (bd_err_created b)
                    (bd_removed b) (bd_exists b) (bd_maybe b) (bd_removed_files b) in
  if Nat.ltb 0 count then (b1, acc) else
  let '(b2, acc2) :=
    if mem_path parent cds then
      (bd_with b1 (bd_counts b1) (add_path parent (bd_created b1)) (del_path parent (bd_err_created b1))
               (bd_removed b1) (bd_exists b1) (bd_maybe b1) (del_path parent (bd_removed_files b1)),
       acc ++ [parent])
    else (b1, acc) in
  match parent with
  | [] => (b2, acc2)
  | _ :: d => bd_started_from b2 cds d acc2
  end.
Proof. intros. destruct parent; reflexivity. Qed.

Definition walk_post (g : path -> nat) (an0 an1 : path -> bool) (b' : bdirs) : Prop :=
  NoDup (keys (bd_counts b')) /\ (forall d, cnt_good g (bd_counts b') d) /\
  (forall q, inK (bd_counts b') q = true -> an1 q = true) /\
  cr_ok (bd_counts b') (bd_created b') /\ er_ok an0 (bd_counts b') (bd_err_created b').

Lemma start_walk : forall cds g an0 an1 parent b acc,
  NoDup (keys (bd_counts b)) ->
  (forall d, path_eqb parent d = false -> cnt_good g (bd_counts b) d) ->
  1 <= g parent + nkids (bd_counts b) parent ->
  cnt_get (bd_counts b) parent = mk (g parent + nkids (bd_counts b) parent - 1) ->
  (forall q, inK (bd_counts b) q = true -> an1 q = true) ->
  (forall a, sfx a parent = true -> an1 a = true) ->
  cr_ok (bd_counts b) (bd_created b) -> er_ok an0 (bd_counts b) (bd_err_created b) ->
  (forall a, sfx a parent = true -> inK (bd_counts b) a = false ->
             mem_path a cds = negb (mem_path a base) && nonroot a) ->
  walk_post g an0 an1 (fst (bd_started_from b cds parent acc)).
Proof.
  intros cds g an0 an1. induction parent as [|x d IH];
  intros b acc Hnd Hgood Hpos Hget Han Hsfx Hcr Her Hcds; rewrite started_from_eq; cbv zeta.
  - (* root *)
    remember (g [] + nkids (bd_counts b) [] - 1) as m eqn:Em. destruct m as [|m]; simpl in Hget; rewrite Hget.
    + assert (Hone : g [] + nkids (bd_counts b) [] = 1) by lia.
      assert (Hc : mem_path [] cds = negb (mem_path [] base) && nonroot [])
        by (apply Hcds; [apply sfx_refl|unfold inK; rewrite Hget; reflexivity]).
      destruct (start_step cds g an0 an1 _ _ _ [] Hnd Hgood Hget Hone Han (Hsfx _ (sfx_refl _)) Hcr Her Hc)
        as (H1 & H2 & H3 & _ & H5 & H6 & H7 & _).
      assert (Hall : forall d, cnt_good g (cnt_set (bd_counts b) [] 1) d).
      { intro d. destruct (path_eqb [] d) eqn:E.
        - apply path_eqb_eq in E. subst d. exact H2.
        - apply H3; [exact E|reflexivity]. }
      simpl Nat.ltb. cbv iota.
      destruct (mem_path [] cds); cbn [fst bd_with bd_counts bd_created bd_err_created] in *;
        (split; [exact H1|]; split; [exact Hall|]; split; [exact H5|]; split; [exact H6|exact H7]).
    + assert (Hn : S (S m) = g [] + nkids (bd_counts b) []) by lia.
      destruct (start_stop g an0 an1 _ _ _ [] (S m) (S m) Hnd Hgood Hget Hn Han Hcr Her) as (H1 & H2 & H3 & H4 & H5).
      simpl Nat.ltb. cbv iota. cbn [fst bd_with bd_counts bd_created bd_err_created].
      split; [exact H1|]; split; [exact H2|]; split; [exact H3|]; split; [exact H4|exact H5].
  - remember (g (x :: d) + nkids (bd_counts b) (x :: d) - 1) as m eqn:Em.
    destruct m as [|m]; simpl in Hget; rewrite Hget.
    + assert (Hone : g (x :: d) + nkids (bd_counts b) (x :: d) = 1) by lia.
      assert (Hc : mem_path (x :: d) cds = negb (mem_path (x :: d) base) && nonroot (x :: d))
        by (apply Hcds; [apply sfx_refl|unfold inK; rewrite Hget; reflexivity]).
      destruct (start_step cds g an0 an1 _ _ _ (x :: d) Hnd Hgood Hget Hone Han (Hsfx _ (sfx_refl _)) Hcr Her Hc)
        as (H1 & H2 & H3 & H4 & H5 & H6 & H7 & H8).
      destruct (H4 d (is_child_tl x d)) as [H4a H4b].
      assert (Hgood' : forall d', path_eqb d d' = false -> cnt_good g (cnt_set (bd_counts b) (x :: d) 1) d').
      { intros d' E. destruct (path_eqb (x :: d) d') eqn:E2.
        - apply path_eqb_eq in E2. subst d'. exact H2.
        - apply H3; [exact E2|]. simpl. exact E. }
      assert (Hsfx' : forall a, sfx a d = true -> an1 a = true)
        by (intros a Ha; apply Hsfx; apply sfx_cons; exact Ha).
      assert (Hcds' : forall a, sfx a d = true -> inK (cnt_set (bd_counts b) (x :: d) 1) a = false ->
                                mem_path a cds = negb (mem_path a base) && nonroot a).
      { intros a Ha Hk. apply Hcds; [apply sfx_cons; exact Ha|apply H8; exact Hk]. }
      simpl Nat.ltb. cbv iota.
      destruct (mem_path (x :: d) cds); apply IH; cbn [fst bd_with bd_counts bd_created bd_err_created] in *;
        assumption.
    + assert (Hn : S (S m) = g (x :: d) + nkids (bd_counts b) (x :: d)) by lia.
      destruct (start_stop g an0 an1 _ _ _ (x :: d) (S m) (S m) Hnd Hgood Hget Hn Han Hcr Her) as (H1 & H2 & H3 & H4 & H5).
      simpl Nat.ltb. cbv iota. cbn [fst bd_with bd_counts bd_created bd_err_created].
      split; [exact H1|]; split; [exact H2|]; split; [exact H3|]; split; [exact H4|exact H5].
Qed.

Lemma mk_S : forall n, mk (n + 1) = Some (n + 1).
Proof. intro n. replace (n + 1) with (S n) by lia. reflexivity. Qed.

Lemma fail_step : forall g (an : path -> bool) K cr er parent n,
  NoDup (keys K) ->
  (forall d, path_eqb parent d = false -> cnt_good g K d) ->
  cnt_get K parent = Some n -> g parent + nkids K parent = 0 ->
  (forall q, inK K q = true -> an q = true) ->
  cr_ok K cr -> er_ok an K er ->
  let K1 := cnt_del K parent in
  let cr2 := if mem_path parent cr then del_path parent cr else cr in
  let er2 := if mem_path parent cr then add_path parent er else er in
  NoDup (keys K1) /\ cnt_good g K1 parent /\
  (forall d, path_eqb parent d = false -> is_child parent d = false -> cnt_good g K1 d) /\
  (forall d, is_child parent d = true -> cnt_get K1 d = Some (g d + nkids K1 d + 1)) /\
  (forall q, inK K1 q = true -> an q = true) /\
  cr_ok K1 cr2 /\ er_ok an K1 er2.
Proof.
  intros g an K cr er parent n Hnd Hgood Hget Hzero Han Hcr Her K1 cr2 er2.
  assert (Hkids : forall d, nkids K1 d + (if is_child parent d then 1 else 0) = nkids K d)
    by (intro d; apply (nkids_del _ _ n); assumption).
  assert (HinKp : inK K parent = true) by (unfold inK; rewrite Hget; reflexivity).
  split; [apply nodup_del; exact Hnd|]. split; [|split; [|split; [|split; [|split]]]].
  - unfold cnt_good, K1. rewrite cnt_get_del, path_eqb_refl. fold K1.
    specialize (Hkids parent). rewrite is_child_self in Hkids.
    replace (g parent + nkids K1 parent) with 0 by lia. reflexivity.
  - intros d E Hc. unfold cnt_good, K1. rewrite cnt_get_del, E. fold K1.
    specialize (Hkids d). rewrite Hc in Hkids. replace (nkids K1 d) with (nkids K d) by lia.
    apply Hgood. exact E.
  - intros d Hc.
    assert (E : path_eqb parent d = false).
    { apply path_eqb_neq. intro Heq. subst d. rewrite is_child_self in Hc. discriminate. }
    unfold K1. rewrite cnt_get_del, E. fold K1. specialize (Hkids d). rewrite Hc in Hkids.
    rewrite (Hgood d E). replace (g d + nkids K d) with (g d + nkids K1 d + 1) by lia. apply mk_S.
  - intros q Hq. unfold K1 in Hq. rewrite inK_del in Hq. apply andb_true_iff in Hq. apply Han. apply Hq.
  - intro q. unfold K1. rewrite inK_del. unfold cr2. destruct (path_eqb parent q) eqn:E.
    + apply path_eqb_eq in E. subst q. simpl. destruct (mem_path parent cr) eqn:E2.
      * rewrite mem_del_path, path_eqb_refl. reflexivity.
      * exact E2.
    + simpl. destruct (mem_path parent cr).
      * rewrite mem_del_path, E. simpl. apply Hcr.
      * apply Hcr.
  - intro q. unfold K1. rewrite inK_del. unfold er2. destruct (path_eqb parent q) eqn:E.
    + apply path_eqb_eq in E. subst q. simpl. pose proof (Hcr parent) as Hc. rewrite HinKp in Hc. simpl in Hc.
      destruct (mem_path parent cr) eqn:E2.
      * rewrite mem_add_path, path_eqb_refl. simpl. rewrite (Han _ HinKp). simpl.
        destruct (mem_path parent base), (nonroot parent); simpl in *; congruence.
      * rewrite Her, HinKp. simpl.
        destruct (an parent), (mem_path parent base), (nonroot parent); simpl in *; congruence.
    + simpl. destruct (mem_path parent cr).
      * rewrite mem_add_path, E. simpl. apply Her.
      * apply Her.
Qed.

Lemma error_from_eq : forall b parent,
  bd_error_from b parent =
  match cnt_get (bd_counts b) parent with
  | None => None
  | Some n =>
      let count := n - 1 in
      if Nat.ltb 0 count then
        Some (bd_with b (cnt_set (bd_counts b) parent count) (bd_created b) (bd_err_created b)
                      (bd_removed b) (bd_exists b) (bd_maybe b) (bd_removed_files b))
      else
        let b1 := bd_with b (cnt_del (bd_counts b) parent) (bd_created b) (bd_err_created b)
                          (bd_removed b) (bd_exists b) (bd_maybe b) (bd_removed_files b) in
        let b2 :=
          if mem_path parent (bd_created b1) then
            bd_with b1 (bd_counts b1) (del_path parent (bd_created b1)) (add_path parent (bd_err_created b1))
                    (bd_removed b1) [] (add_path parent (bd_maybe b1)) (bd_removed_files b1)
          else b1 in
        match parent with [] => Some b2 | _ :: d => bd_error_from b2 d end
  end.
Proof. intros. destruct parent; reflexivity. Qed.

(* B1a at the level of the walk: with one reservation too many at [parent] the walk
   of error_building_file never raises KeyError and restores the invariant *)
Lemma fail_walk : forall g an parent b,
  NoDup (keys (bd_counts b)) ->
  (forall d, path_eqb parent d = false -> cnt_good g (bd_counts b) d) ->
  cnt_get (bd_counts b) parent = Some (g parent + nkids (bd_counts b) parent + 1) ->
  (forall q, inK (bd_counts b) q = true -> an q = true) ->
  cr_ok (bd_counts b) (bd_created b) -> er_ok an (bd_counts b) (bd_err_created b) ->
  exists b', bd_error_from b parent = Some b' /\ walk_post g an an b'.
Proof.
  intros g an. induction parent as [|x d IH]; intros b Hnd Hgood Hget Han Hcr Her;
    rewrite error_from_eq, Hget; cbv zeta.
  - remember (g [] + nkids (bd_counts b) []) as m eqn:Em. destruct m as [|m].
    + destruct (fail_step g an _ _ _ [] _ Hnd Hgood Hget (eq_sym Em) Han Hcr Her)
        as (H1 & H2 & H3 & _ & H5 & H6 & H7).
      assert (Hall : forall d, cnt_good g (cnt_del (bd_counts b) []) d).
      { intro d. destruct (path_eqb [] d) eqn:E.
        - apply path_eqb_eq in E. subst d. exact H2.
        - apply H3; [exact E|reflexivity]. }
      simpl Nat.ltb. cbv iota. cbn [bd_with bd_counts bd_created bd_err_created].
      eexists. split; [reflexivity|].
      destruct (mem_path [] (bd_created b)); cbn [fst bd_with bd_counts bd_created bd_err_created] in *;
        (split; [exact H1|]; split; [exact Hall|]; split; [exact H5|]; split; [exact H6|exact H7]).
    + replace (S m + 1 - 1) with (S m) by lia. simpl Nat.ltb. cbv iota.
      destruct (start_stop g an an _ _ _ [] _ m Hnd Hgood Hget Em Han Hcr Her) as (H1 & H2 & H3 & H4 & H5).
      eexists. split; [reflexivity|]. cbn [fst bd_with bd_counts bd_created bd_err_created].
      split; [exact H1|]; split; [exact H2|]; split; [exact H3|]; split; [exact H4|exact H5].
  - remember (g (x :: d) + nkids (bd_counts b) (x :: d)) as m eqn:Em. destruct m as [|m].
    + destruct (fail_step g an _ _ _ (x :: d) _ Hnd Hgood Hget (eq_sym Em) Han Hcr Her)
        as (H1 & H2 & H3 & H4 & H5 & H6 & H7).
      pose proof (H4 d (is_child_tl x d)) as H4a.
      assert (Hgood' : forall d', path_eqb d d' = false -> cnt_good g (cnt_del (bd_counts b) (x :: d)) d').
      { intros d' E. destruct (path_eqb (x :: d) d') eqn:E2.
        - apply path_eqb_eq in E2. subst d'. exact H2.
        - apply H3; [exact E2|]. simpl. exact E. }
      simpl Nat.ltb. cbv iota. cbn [bd_with bd_counts bd_created bd_err_created].
      destruct (mem_path (x :: d) (bd_created b)); apply IH;
        cbn [fst bd_with bd_counts bd_created bd_err_created] in *; assumption.
    + replace (S m + 1 - 1) with (S m) by lia. simpl Nat.ltb. cbv iota.
      destruct (start_stop g an an _ _ _ (x :: d) _ m Hnd Hgood Hget Em Han Hcr Her) as (H1 & H2 & H3 & H4 & H5).
      eexists. split; [reflexivity|]. cbn [fst bd_with bd_counts bd_created bd_err_created].
      split; [exact H1|]; split; [exact H2|]; split; [exact H3|]; split; [exact H4|exact H5].
Qed.

(* ---- the invariant of the shared state *)
Hypothesis base_up : forall x d, mem_path (x :: d) base = true -> mem_path d base = true.

Definition Inv (nf : path -> nat) (an : path -> bool) (s : dstate) : Prop :=
  walk_post nf an an (d_bd s) /\ dk_ok an (d_disk s).

Lemma Inv_ext : forall nf nf' an an' s,
  (forall d, nf d = nf' d) -> (forall q, an q = an' q) -> Inv nf an s -> Inv nf' an' s.
Proof.
  intros nf nf' an an' s Hnf Han [(H1 & H2 & H3 & H4 & H5) H6].
  split; [split; [exact H1|]; split; [|split; [|split]]|].
  - intro d. unfold cnt_good. rewrite <- Hnf. apply H2.
  - intros q Hq. rewrite <- Han. apply H3. exact Hq.
  - exact H4.
  - intro q. rewrite <- Han. apply H5.
  - intro q. rewrite <- Han. apply H6.
Qed.

Lemma mk_pos : forall n, 1 <= n -> mk n = Some n.
Proof. intros [|n] H; [lia|reflexivity]. Qed.

Lemma keys_up : forall g K x d, (forall d, cnt_good g K d) -> inK K (x :: d) = true -> inK K d = true.
Proof.
  intros g K x d Hgood Hin. apply inK_In in Hin.
  pose proof (nkids_pos K (x :: d) d Hin (is_child_tl x d)) as Hk.
  unfold inK. rewrite (Hgood d), mk_pos by lia. reflexivity.
Qed.

Lemma keys_up_sfx : forall g K, (forall d, cnt_good g K d) ->
  forall d a, inK K d = true -> sfx a d = true -> inK K a = true.
Proof.
  intros g K Hgood. induction d as [|x d IH]; intros a Hin Ha; unfold sfx in Ha; simpl in Ha.
  - rewrite orb_false_r in Ha. destruct a; [exact Hin|discriminate].
  - apply orb_true_iff in Ha. destruct Ha as [Ha|Ha].
    + change (path_eqb (x :: d) a = true) in Ha. apply path_eqb_eq in Ha. subst a. exact Hin.
    + apply IH; [apply (keys_up g K x); assumption|exact Ha].
Qed.

Lemma vexists_inK : forall s q, vexists base s q = mem_path q base || inK (bd_counts (d_bd s)) q.
Proof. reflexivity. Qed.

Lemma vex_up_sfx : forall g s, (forall d, cnt_good g (bd_counts (d_bd s)) d) ->
  forall d a, vexists base s d = true -> sfx a d = true -> vexists base s a = true.
Proof.
  intros g s Hgood. induction d as [|x d IH]; intros a Hv Ha; unfold sfx in Ha; simpl in Ha.
  - rewrite orb_false_r in Ha. destruct a; [exact Hv|discriminate].
  - apply orb_true_iff in Ha. destruct Ha as [Ha|Ha].
    + change (path_eqb (x :: d) a = true) in Ha. apply path_eqb_eq in Ha. subst a. exact Hv.
    + apply IH; [|exact Ha]. rewrite vexists_inK in *. apply orb_true_iff in Hv. apply orb_true_iff.
      destruct Hv as [Hv|Hv]; [left; apply (base_up x); exact Hv|right; apply (keys_up g _ x); assumption].
Qed.

(* _dirs_to_make: exactly the ancestors that do not exist virtually *)
Lemma dtm_mem : forall g s, (forall d, cnt_good g (bd_counts (d_bd s)) d) ->
  forall d q, mem_path q (dirs_to_make_c base s d) = sfx q d && negb (vexists base s q) && nonroot q.
Proof.
  intros g s Hgood. induction d as [|x d IH]; intro q.
  - simpl. replace (if vexists base s [] then [] else []) with (@nil path) by (destruct (vexists base s []); reflexivity).
    simpl. unfold sfx. simpl. destruct q; simpl; [rewrite andb_false_r|]; reflexivity.
  - simpl. destruct (vexists base s (x :: d)) eqn:Ev.
    + simpl. destruct (sfx q (x :: d)) eqn:Es; [|reflexivity].
      rewrite (vex_up_sfx g s Hgood _ _ Ev Es). reflexivity.
    + rewrite mem_path_app, IH. simpl. rewrite orb_false_r.
      unfold sfx at 2. simpl.
      change (match q with [] => false | y :: b' => (x =? y)%string && path_eqb d b' end) with (path_eqb (x :: d) q).
      fold (sfx q d).
      destruct (path_eqb (x :: d) q) eqn:E.
      * apply path_eqb_eq in E. subst q. rewrite Ev. simpl. rewrite orb_true_r. reflexivity.
      * simpl. rewrite orb_false_r. reflexivity.
Qed.

Definition nf_add (nf : path -> nat) (p : path) : path -> nat :=
  fun d => nf d + (if is_child p d then 1 else 0).
Definition nf_sub (nf : path -> nat) (p : path) : path -> nat :=
  fun d => nf d - (if is_child p d then 1 else 0).
Definition an_add (an : path -> bool) (p : path) : path -> bool := fun q => an q || below q p.

(* B1b, first half: the critical section decide + mkdir + register *)
Lemma seg_start_inv : forall nf an s p,
  Inv nf an s -> Inv (nf_add nf p) (an_add an p) (seg_start base s p).
Proof.
  intros nf an s p HI. destruct p as [|x d].
  - unfold seg_start. simpl.
    replace (if vexists base s [] then [] else []) with (@nil path) by (destruct (vexists base s []); reflexivity).
    simpl. apply (Inv_ext nf _ an _); [intro d; unfold nf_add; simpl; lia|intro q; unfold an_add; simpl; rewrite orb_false_r; reflexivity|].
    destruct HI as [H1 H2]. split; [exact H1|exact H2].
  - destruct HI as [(H1 & H2 & H3 & H4 & H5) H6].
    unfold seg_start. cbn [dirname tl].
    set (ds := dirs_to_make_c base s d).
    unfold bd_started.
    set (b0 := bd_with (d_bd s) (bd_counts (d_bd s)) (bd_created (d_bd s)) (bd_err_created (d_bd s))
                       (bd_removed (d_bd s)) (bd_exists (d_bd s)) (bd_maybe (d_bd s))
                       (del_path (x :: d) (bd_removed_files (d_bd s)))).
    assert (Hpost : walk_post (nf_add nf (x :: d)) an (an_add an (x :: d)) (fst (bd_started_from b0 ds d []))).
    { apply start_walk; cbn [b0 bd_with bd_counts bd_created bd_err_created].
      - exact H1.
      - intros d' E. unfold cnt_good, nf_add. simpl. rewrite E, Nat.add_0_r. apply H2.
      - unfold nf_add. simpl. rewrite path_eqb_refl. lia.
      - unfold nf_add. simpl. rewrite path_eqb_refl.
        replace (nf d + 1 + nkids (bd_counts (d_bd s)) d - 1) with (nf d + nkids (bd_counts (d_bd s)) d) by lia.
        apply H2.
      - intros q Hq. unfold an_add. rewrite (H3 q Hq). reflexivity.
      - intros a Ha. unfold an_add. rewrite below_cons, Ha. apply orb_true_r.
      - exact H4.
      - exact H5.
      - intros a Ha Hk. unfold ds. rewrite (dtm_mem nf s H2), Ha, vexists_inK, Hk, orb_false_r. reflexivity. }
    destruct (bd_started_from b0 ds d []) as [b' acc'] eqn:Eb. cbn [fst] in Hpost.
    destruct Hpost as (P1 & P2 & P3 & P4 & P5).
    assert (Hbelow : forall q, below q (x :: d) = true -> inK (bd_counts b') q = true).
    { intros q Hq. rewrite below_cons in Hq. apply (keys_up_sfx _ _ P2 d); [|exact Hq].
      unfold inK. rewrite (P2 d), mk_pos; [reflexivity|]. unfold nf_add. simpl. rewrite path_eqb_refl. lia. }
    split; [split; [exact P1|]; split; [exact P2|]; split; [exact P3|]; split; [exact P4|]|]; cbn [d_bd d_disk].
    + intro q. rewrite P5. unfold an_add. destruct (below q (x :: d)) eqn:Eq.
      * rewrite (Hbelow q Eq). rewrite orb_true_r. simpl. rewrite andb_false_r. reflexivity.
      * rewrite orb_false_r. reflexivity.
    + intro q. rewrite mem_fold_add, H6. unfold ds. rewrite (dtm_mem nf s H2), vexists_inK.
      unfold an_add. rewrite below_cons.
      destruct (sfx q d); [|rewrite orb_false_r; simpl; rewrite orb_false_r; reflexivity].
      destruct (inK (bd_counts (d_bd s)) q) eqn:Ek.
      * rewrite (H3 q Ek). simpl. rewrite orb_true_r. simpl. rewrite orb_false_r. reflexivity.
      * destruct (an q), (mem_path q base), (nonroot q); reflexivity.
Qed.

(* B1a + B1b, second half: releasing the reservations of a reserved file never raises
   KeyError and keeps the invariant *)
Lemma seg_fail_inv : forall nf an s p,
  Inv nf an s -> (forall x d, p = x :: d -> 1 <= nf d) ->
  exists s', seg_fail s p = Some s' /\ Inv (nf_sub nf p) an s'.
Proof.
  intros nf an s p HI Hres. destruct p as [|x d].
  - unfold seg_fail. simpl. eexists. split; [reflexivity|].
    apply (Inv_ext nf _ an _); [intro d; unfold nf_sub; simpl; lia|reflexivity|].
    destruct HI as [H1 H2]. split; [exact H1|exact H2].
  - destruct HI as [(H1 & H2 & H3 & H4 & H5) H6]. specialize (Hres x d eq_refl).
    destruct (fail_walk (nf_sub nf (x :: d)) an d (d_bd s)) as [b' [Hb' Hpost]].
    + exact H1.
    + intros d' E. unfold cnt_good, nf_sub. simpl. rewrite E, Nat.sub_0_r. apply H2.
    + rewrite (H2 d). unfold nf_sub. simpl. rewrite path_eqb_refl.
      replace (nf d + nkids (bd_counts (d_bd s)) d) with (nf d - 1 + nkids (bd_counts (d_bd s)) d + 1) by lia.
      apply mk_S.
    + exact H3.
    + exact H4.
    + exact H5.
    + unfold seg_fail. simpl. rewrite Hb'. eexists. split; [reflexivity|]. split; [exact Hpost|exact H6].
Qed.

(* ---- the invariant determines the state up to dstate_equiv *)
Lemma keys_sub : forall g K1 K2, (forall d, cnt_good g K1 d) -> (forall d, cnt_good g K2 d) ->
  forall m q, list_max (map (@List.length name) (keys K1)) < List.length q + m ->
              inK K1 q = true -> inK K2 q = true.
Proof.
  intros g K1 K2 G1 G2. induction m as [|m IH]; intros q Hlen Hin.
  - exfalso. apply inK_In in Hin.
    assert (Hle : List.length q <= list_max (map (@List.length name) (keys K1))).
    { pose proof (proj1 (list_max_le (map (@List.length name) (keys K1)) _) (le_n _)) as HF.
      rewrite Forall_forall in HF. apply HF. apply in_map. exact Hin. }
    lia.
  - pose proof (G1 q) as Hq. unfold cnt_good in Hq. unfold inK in Hin.
    destruct (g q + nkids K1 q) as [|n] eqn:En; simpl in Hq; rewrite Hq in Hin; [discriminate|].
    destruct (g q) as [|gq] eqn:Eg.
    + simpl in En. assert (Hk : 1 <= nkids K1 q) by lia.
      destruct (nkids_pos_inv _ _ Hk) as [c [Hc1 Hc2]]. destruct (is_child_eq _ _ Hc2) as [x ->].
      apply (keys_up g K2 x); [exact G2|]. apply IH; [simpl; lia|]. apply inK_In. exact Hc1.
    + unfold inK. rewrite (G2 q), Eg. reflexivity.
Qed.

Lemma keys_eq : forall g K1 K2, (forall d, cnt_good g K1 d) -> (forall d, cnt_good g K2 d) ->
  forall q, inK K1 q = inK K2 q.
Proof.
  intros g K1 K2 G1 G2 q.
  destruct (inK K1 q) eqn:E1.
  - symmetry. apply (keys_sub g K1 K2 G1 G2 (S (list_max (map (@List.length name) (keys K1))))); [lia|exact E1].
  - destruct (inK K2 q) eqn:E2; [|reflexivity].
    rewrite <- E1. apply (keys_sub g K2 K1 G2 G1 (S (list_max (map (@List.length name) (keys K2))))); [lia|exact E2].
Qed.

Lemma nkids_eq : forall K1 K2, NoDup (keys K1) -> NoDup (keys K2) ->
  (forall q, inK K1 q = inK K2 q) -> forall d, nkids K1 d = nkids K2 d.
Proof.
  intros K1 K2 N1 N2 Hk d. unfold nkids. apply Permutation_length. apply NoDup_Permutation.
  - apply NoDup_filter. exact N1.
  - apply NoDup_filter. exact N2.
  - intro c. rewrite !filter_In, <- !inK_In, Hk. tauto.
Qed.

Lemma cnt_same_half : forall K1 K2, NoDup (keys K1) -> (forall q, cnt_get K1 q = cnt_get K2 q) ->
  forallb (fun e => match cnt_get K2 (fst e) with Some n => Nat.eqb n (snd e) | None => false end) K1 = true.
Proof.
  intros K1 K2 N1 H. apply forallb_forall. intros [q n] Hin. simpl.
  rewrite <- H, (cnt_get_In K1 q n N1 Hin). apply Nat.eqb_refl.
Qed.

Lemma same_set_ext : forall a b, (forall q, mem_path q a = mem_path q b) -> same_set a b = true.
Proof.
  intros a b H. unfold same_set. apply andb_true_iff. split; apply forallb_forall; intros q Hq.
  - rewrite <- H. apply mem_path_In. exact Hq.
  - rewrite H. apply mem_path_In. exact Hq.
Qed.

Lemma Inv_unique : forall nf an s1 s2, Inv nf an s1 -> Inv nf an s2 -> dstate_equiv s1 s2 = true.
Proof.
  intros nf an s1 s2 [(A1 & A2 & A3 & A4 & A5) A6] [(B1 & B2 & B3 & B4 & B5) B6].
  pose proof (keys_eq nf _ _ A2 B2) as Hk.
  pose proof (nkids_eq _ _ A1 B1 Hk) as Hn.
  assert (Hg : forall q, cnt_get (bd_counts (d_bd s1)) q = cnt_get (bd_counts (d_bd s2)) q).
  { intro q. rewrite (A2 q), (B2 q), Hn. reflexivity. }
  unfold dstate_equiv. rewrite !andb_true_iff. repeat split.
  - apply same_set_ext. intro q. rewrite A4, B4, Hk. reflexivity.
  - apply same_set_ext. intro q. rewrite A5, B5, Hk. reflexivity.
  - unfold cnt_same. apply andb_true_iff. split; apply cnt_same_half; auto.
  - apply same_set_ext. intro q. rewrite A6, B6. reflexivity.
Qed.

(* ---- configurations: what is reserved / started is read off the program counters *)
Definition reserved (tp : thread * tstep) : bool :=
  match snd tp with TStart => false | TEnd => true | TDone => t_ok (fst tp) end.
Definition started (tp : thread * tstep) : bool :=
  match snd tp with TStart => false | _ => true end.
Definition nfc (ts : list (thread * tstep)) (d : path) : nat :=
  List.length (filter (fun tp => reserved tp && is_child (t_path (fst tp)) d) ts).
Definition anc (ts : list (thread * tstep)) (q : path) : bool :=
  existsb (fun tp => started tp && below q (t_path (fst tp))) ts.
Definition CInv (c : config) : Prop := Inv (nfc (snd c)) (anc (snd c)) (fst c).
Definition pc_next (pc : tstep) : tstep := match pc with TStart => TEnd | _ => TDone end.

Lemma filter_len_update : forall (A : Type) (f : A -> bool) y l i x, nth_error l i = Some x ->
  List.length (filter f (update_nth i y l)) + (if f x then 1 else 0) =
  List.length (filter f l) + (if f y then 1 else 0).
Proof.
  intros A f y. induction l as [|a l IH]; intros i x H; destruct i as [|i]; simpl in H; try discriminate.
  - inversion H; subst. simpl. destruct (f x), (f y); simpl; lia.
  - simpl. specialize (IH i x H). destruct (f a); simpl; lia.
Qed.

Lemma existsb_update_false : forall (A : Type) (f : A -> bool) y l i x, nth_error l i = Some x ->
  f x = false -> existsb f (update_nth i y l) = f y || existsb f l.
Proof.
  intros A f y. induction l as [|a l IH]; intros i x H Hx; destruct i as [|i]; simpl in H; try discriminate.
  - inversion H; subst. simpl. rewrite Hx. reflexivity.
  - simpl. rewrite (IH i x H Hx). destruct (f a), (f y); reflexivity.
Qed.

Lemma existsb_update_same : forall (A : Type) (f : A -> bool) y l i x, nth_error l i = Some x ->
  f x = f y -> existsb f (update_nth i y l) = existsb f l.
Proof.
  intros A f y. induction l as [|a l IH]; intros i x H Hx; destruct i as [|i]; simpl in H; try discriminate.
  - inversion H; subst. simpl. rewrite Hx. reflexivity.
  - simpl. rewrite (IH i x H Hx). reflexivity.
Qed.

Lemma nth_error_filter_pos : forall (A : Type) (f : A -> bool) l i x, nth_error l i = Some x ->
  f x = true -> 1 <= List.length (filter f l).
Proof.
  intros A f l i x H Hx. apply nth_error_In in H.
  assert (Hin : In x (filter f l)) by (apply filter_In; auto).
  destruct (filter f l); [contradiction|simpl; lia].
Qed.

(* one step of one thread: never a KeyError, the invariant is kept *)
Lemma step_inv : forall s ts i t pc, CInv (s, ts) -> nth_error ts i = Some (t, pc) ->
  exists s', step_thread base s t pc = Some (s', pc_next pc) /\ CInv (s', update_nth i (t, pc_next pc) ts).
Proof.
  intros s ts i t pc HI Hn. unfold CInv in *. cbn [fst snd] in *. destruct pc; cbn [step_thread pc_next].
  - (* TStart *)
    eexists. split; [reflexivity|]. cbn [fst snd].
    apply (Inv_ext (nf_add (nfc ts) (t_path t)) _ (an_add (anc ts) (t_path t)) _); [| |apply seg_start_inv; exact HI].
    + intro d. unfold nf_add, nfc.
      pose proof (filter_len_update _ (fun tp => reserved tp && is_child (t_path (fst tp)) d) (t, TEnd) ts i _ Hn) as H.
      cbn [reserved fst snd andb] in H. lia.
    + intro q. unfold an_add, anc.
      rewrite (existsb_update_false _ (fun tp => started tp && below q (t_path (fst tp))) (t, TEnd) ts i _ Hn) by reflexivity.
      cbn [started fst snd andb]. apply orb_comm.
  - (* TEnd *)
    destruct (t_ok t) eqn:Eok.
    + eexists. split; [reflexivity|]. cbn [fst snd]. apply (Inv_ext (nfc ts) _ (anc ts) _); [| |exact HI].
      * intro d. unfold nfc.
        pose proof (filter_len_update _ (fun tp => reserved tp && is_child (t_path (fst tp)) d) (t, TDone) ts i _ Hn) as H.
        cbn [reserved fst snd] in H. rewrite Eok in H. destruct (true && is_child (t_path t) d); lia.
      * intro q. unfold anc. symmetry. apply (existsb_update_same _ _ _ _ _ _ Hn). reflexivity.
    + destruct (seg_fail_inv (nfc ts) (anc ts) s (t_path t) HI) as [s' [Hs' HI']].
      { intros x d Hp. unfold nfc.
        apply (nth_error_filter_pos _ _ _ _ _ Hn). cbn [reserved fst snd]. rewrite Hp. simpl. apply path_eqb_refl. }
      rewrite Hs'. eexists. split; [reflexivity|]. cbn [fst snd].
      apply (Inv_ext (nf_sub (nfc ts) (t_path t)) _ (anc ts) _); [| |exact HI'].
      * intro d. unfold nf_sub, nfc.
        pose proof (filter_len_update _ (fun tp => reserved tp && is_child (t_path (fst tp)) d) (t, TDone) ts i _ Hn) as H.
        cbn [reserved fst snd] in H. rewrite Eok in H. cbn [andb] in H. lia.
      * intro q. unfold anc. symmetry. apply (existsb_update_same _ _ _ _ _ _ Hn). reflexivity.
  - (* TDone *)
    eexists. split; [reflexivity|]. cbn [fst snd]. apply (Inv_ext (nfc ts) _ (anc ts) _); [| |exact HI].
    + intro d. unfold nfc.
      pose proof (filter_len_update _ (fun tp => reserved tp && is_child (t_path (fst tp)) d) (t, TDone) ts i _ Hn) as H.
      destruct ((fun tp => reserved tp && is_child (t_path (fst tp)) d) (t, TDone)); lia.
    + intro q. unfold anc. symmetry. apply (existsb_update_same _ _ _ _ _ _ Hn). reflexivity.
Qed.

Fixpoint run_pcs (sched : list nat) (ts : list (thread * tstep)) : list (thread * tstep) :=
  match sched with
  | [] => ts
  | i :: rest =>
      match nth_error ts i with
      | None => run_pcs rest ts
      | Some (t, pc) => run_pcs rest (update_nth i (t, pc_next pc) ts)
      end
  end.

Lemma run_inv : forall sched s ts, CInv (s, ts) ->
  exists s', run_sched base sched (s, ts) = Some (s', run_pcs sched ts) /\ CInv (s', run_pcs sched ts).
Proof.
  induction sched as [|i rest IH]; intros s ts HI.
  - exists s. split; [reflexivity|exact HI].
  - cbn [run_sched run_pcs]. destruct (nth_error ts i) as [[t pc]|] eqn:En.
    + destruct (step_inv s ts i t pc HI En) as [s' [Hs' HI']]. rewrite Hs'. apply IH. exact HI'.
    + apply IH. exact HI.
Qed.
End Dirs.

(* ---- program counters *)
Lemma map_fst_update : forall (ts : list (thread * tstep)) i t pc pc',
  nth_error ts i = Some (t, pc) -> map fst (update_nth i (t, pc') ts) = map fst ts.
Proof.
  induction ts as [|a ts IH]; intros i t pc pc' H; destruct i as [|i]; simpl in H; try discriminate.
  - inversion H; subst. reflexivity.
  - simpl. f_equal. apply (IH i t pc). exact H.
Qed.

Lemma map_fst_run_pcs : forall sched ts, map fst (run_pcs sched ts) = map fst ts.
Proof.
  induction sched as [|i rest IH]; intro ts; [reflexivity|]. simpl.
  destruct (nth_error ts i) as [[t pc]|] eqn:En; [|apply IH].
  rewrite IH. apply (map_fst_update _ _ _ pc). exact En.
Qed.

Definition is_done (tp : thread * tstep) : bool := match snd tp with TDone => true | _ => false end.

Lemma all_done_eq : forall l1 l2 : list (thread * tstep),
  forallb is_done l1 = true -> forallb is_done l2 = true -> map fst l1 = map fst l2 -> l1 = l2.
Proof.
  induction l1 as [|[t1 pc1] l1 IH]; intros [|[t2 pc2] l2] H1 H2 Hm; simpl in *; try discriminate; [reflexivity|].
  apply andb_true_iff in H1. apply andb_true_iff in H2. destruct H1 as [D1 H1], H2 as [D2 H2].
  inversion Hm; subst. unfold is_done in D1, D2. simpl in D1, D2.
  destruct pc1; try discriminate. destruct pc2; try discriminate. f_equal. apply IH; assumption.
Qed.

Lemma update_nth_app : forall (A : Type) (l1 : list A) x y l2,
  update_nth (List.length l1) y (l1 ++ x :: l2) = l1 ++ y :: l2.
Proof. intros A l1 x y l2. induction l1 as [|a l1 IH]; simpl; [reflexivity|]. rewrite IH. reflexivity. Qed.

Lemma nth_error_app_mid : forall (A : Type) (l1 : list A) x l2, nth_error (l1 ++ x :: l2) (List.length l1) = Some x.
Proof. intros A l1 x l2. induction l1 as [|a l1 IH]; simpl; [reflexivity|exact IH]. Qed.

Lemma run_pcs_seq : forall (rest : list thread) (done : list (thread * tstep)),
  run_pcs (flat_map (fun i => [i; i]) (seq (List.length done) (List.length rest)))
          (done ++ map (fun t => (t, TStart)) rest) = done ++ map (fun t => (t, TDone)) rest.
Proof.
  induction rest as [|t rest IH]; intro done; [reflexivity|].
  cbn [List.length seq flat_map app map run_pcs].
  rewrite nth_error_app_mid, update_nth_app. cbn [pc_next].
  rewrite nth_error_app_mid, update_nth_app. cbn [pc_next].
  specialize (IH (done ++ [(t, TDone)])). rewrite app_length in IH. simpl in IH.
  rewrite Nat.add_1_r, <- !app_assoc in IH. exact IH.
Qed.

Lemma all_done_seq : forall ts, all_done (@pair dstate _ {| d_bd := bd_init [] []; d_disk := [] |}
     (run_pcs (seq_sched (List.length ts)) (map (fun t => (t, TStart)) ts))) = true.
Proof.
  intro ts. unfold all_done, seq_sched. cbn [snd].
  pose proof (run_pcs_seq ts []) as H. cbn [List.length app] in H. rewrite H.
  clear H. induction ts as [|t ts IH]; [reflexivity|exact IH].
Qed.

Lemma CInv_init : forall base ts, CInv base (init_config ts).
Proof.
  intros base ts. unfold CInv, init_config. cbn [fst snd].
  assert (Hn : forall d, nfc (map (fun t => (t, TStart)) ts) d = 0).
  { intro d. unfold nfc. induction ts as [|t ts IH]; [reflexivity|exact IH]. }
  assert (Ha : forall q, anc (map (fun t => (t, TStart)) ts) q = false).
  { intro q. unfold anc. clear Hn. induction ts as [|t ts IH]; [reflexivity|exact IH]. }
  split; [split; [constructor|]; split; [|split; [|split]]|]; simpl.
  - intro d. unfold cnt_good. rewrite Hn. reflexivity.
  - intros q H. discriminate.
  - intro q. reflexivity.
  - intro q. rewrite Ha. reflexivity.
  - intro q. rewrite Ha. reflexivity.
Qed.

(* the directories that exist independently of the build have existing parents *)
Definition base_closed (base : list path) : Prop :=
  forall x d, mem_path (x :: d) base = true -> mem_path d base = true.

(* the counters do not depend on [base] nor on which directories were made *)
Lemma started_counts_indep : forall parent b b' cds cds' acc acc', bd_counts b = bd_counts b' ->
  bd_counts (fst (bd_started_from b cds parent acc)) = bd_counts (fst (bd_started_from b' cds' parent acc')).
Proof.
  induction parent as [|x d IH]; intros b b' cds cds' acc acc' H; rewrite (started_from_eq b), (started_from_eq b'); cbv zeta; rewrite H;
    destruct (Nat.ltb 0 _); try reflexivity.
  - destruct (mem_path [] cds), (mem_path [] cds'); reflexivity.
  - destruct (mem_path (x :: d) cds), (mem_path (x :: d) cds'); apply IH; reflexivity.
Qed.

Definition same_counts_opt (r r' : option bdirs) : Prop :=
  match r, r' with
  | Some b, Some b' => bd_counts b = bd_counts b'
  | None, None => True
  | _, _ => False
  end.

Lemma error_counts_indep : forall parent b b', bd_counts b = bd_counts b' ->
  same_counts_opt (bd_error_from b parent) (bd_error_from b' parent).
Proof.
  induction parent as [|x d IH]; intros b b' H; rewrite (error_from_eq b), (error_from_eq b'); rewrite H;
    (destruct (cnt_get (bd_counts b') _) as [n|]; [|exact I]); cbv zeta;
    (destruct (Nat.ltb 0 (n - 1)); [simpl; reflexivity|]).
  - cbn [bd_with bd_created]. destruct (mem_path [] (bd_created b)), (mem_path [] (bd_created b')); simpl; reflexivity.
  - cbn [bd_with bd_created].
    destruct (mem_path (x :: d) (bd_created b)), (mem_path (x :: d) (bd_created b')); apply IH; simpl; reflexivity.
Qed.

Definition cnt_sim (c c' : config) : Prop :=
  bd_counts (d_bd (fst c)) = bd_counts (d_bd (fst c')) /\ snd c = snd c'.

Lemma run_counts_indep : forall base base' sched c c', cnt_sim c c' ->
  match run_sched base sched c, run_sched base' sched c' with
  | Some r, Some r' => cnt_sim r r'
  | None, None => True
  | _, _ => False
  end.
Proof.
  intros base base'. induction sched as [|i rest IH]; intros [s ts] [s' ts'] [H1 H2]; cbn [fst snd] in *; subst ts'.
  - simpl. split; [exact H1|reflexivity].
  - cbn [run_sched]. destruct (nth_error ts i) as [[t pc]|] eqn:En; [|apply IH; split; [exact H1|reflexivity]].
    destruct pc; cbn [step_thread].
    + apply IH. split; [|reflexivity]. cbn [fst]. unfold seg_start.
      destruct (t_path t) as [|x d].
      * simpl. exact H1.
      * unfold bd_started.
        match goal with |- bd_counts (d_bd (let '(b1, _) := ?X in _)) = bd_counts (d_bd (let '(b2, _) := ?Y in _)) =>
          assert (E : bd_counts (fst X) = bd_counts (fst Y)) by (apply started_counts_indep; exact H1);
          destruct X, Y; exact E end.
    + destruct (t_ok t); [apply IH; split; [exact H1|reflexivity]|].
      unfold seg_fail, bd_error. destruct (t_path t) as [|x d].
      * apply IH. split; [exact H1|reflexivity].
      * pose proof (error_counts_indep d (d_bd s) (d_bd s') H1) as E. unfold same_counts_opt in E.
        destruct (bd_error_from (d_bd s) d), (bd_error_from (d_bd s') d); try contradiction; [|exact I].
        apply IH. split; [exact E|reflexivity].
    + apply IH. split; [exact H1|reflexivity].
Qed.

(* B1a for whole runs: under the creation lock no schedule ever hits the KeyError
   (for any [base]: the counters do not depend on it) *)
Theorem dirs_no_key_error : forall base ts sched, run_sched base sched (init_config ts) <> None.
Proof.
  intros base ts sched Hnone.
  assert (Hb : base_closed []) by (intros x d H; discriminate).
  destruct (run_inv [] Hb sched _ _ (CInv_init [] ts)) as [s' [H _]].
  pose proof (run_counts_indep base [] sched (init_config ts) (init_config ts) (conj eq_refl eq_refl)) as Hs.
  rewrite Hnone in Hs. unfold init_config in Hs. rewrite H in Hs. exact Hs.
Qed.

(* Without [base_closed] the statement is false: if d/c exists before the build but d
   is (inconsistently) not in [base], who is recorded as the creator of d depends on
   the order. *)
Example dirs_serializable_needs_closed_base :
  exists base ts sched c,
    NoDup (map t_path ts) /\ run_sched base sched (init_config ts) = Some c /\ all_done c = true /\
    exists c', run_sched base (seq_sched (List.length ts)) (init_config ts) = Some c' /\
               dstate_equiv (fst c) (fst c') = false.
Proof.
  exists [["c"; "d"]%string].
  exists [ {| t_path := ["f"; "c"; "d"]%string; t_ok := true |}; {| t_path := ["g"; "d"]%string; t_ok := true |} ].
  exists [1; 1; 0; 0]. eexists. split; [|split; [vm_compute; reflexivity|split; [vm_compute; reflexivity|]]].
  - simpl. constructor; [|constructor; [|constructor]]; simpl; [|tauto].
    intros [H|[]]. discriminate.
  - eexists. split; vm_compute; reflexivity.
Qed.

(* DEVIATION from the requested form: the additional hypothesis [base_closed base]
   (see the counterexample above).  [NoDup (map t_path ts)] is kept but not needed. *)
Theorem dirs_serializable : forall base ts sched c,
  base_closed base ->
  NoDup (map t_path ts) ->
  run_sched base sched (init_config ts) = Some c -> all_done c = true ->
  exists c', run_sched base (seq_sched (List.length ts)) (init_config ts) = Some c' /\
             all_done c' = true /\ dstate_equiv (fst c) (fst c') = true.
Proof.
  intros base ts sched c Hb _ Hrun Hdone.
  destruct (run_inv base Hb sched _ _ (CInv_init base ts)) as [s1 [H1 I1]].
  destruct (run_inv base Hb (seq_sched (List.length ts)) _ _ (CInv_init base ts)) as [s2 [H2 I2]].
  unfold init_config in Hrun. rewrite H1 in Hrun. inversion Hrun; subst c. clear Hrun.
  exists (s2, run_pcs (seq_sched (List.length ts)) (map (fun t => (t, TStart)) ts)).
  assert (Hd2 : all_done (s2, run_pcs (seq_sched (List.length ts)) (map (fun t => (t, TStart)) ts)) = true)
    by (apply (all_done_seq ts)).
  split; [exact H2|]. split; [exact Hd2|]. cbn [fst].
  assert (E : run_pcs sched (map (fun t => (t, TStart)) ts) =
              run_pcs (seq_sched (List.length ts)) (map (fun t => (t, TStart)) ts)).
  { apply all_done_eq; [exact Hdone|exact Hd2|]. rewrite !map_fst_run_pcs. reflexivity. }
  unfold CInv in I1, I2. cbn [fst snd] in I1, I2. rewrite E in I1.
  apply (Inv_unique base _ _ _ _ I1 I2).
Qed.

(* the requested form verbatim holds when nothing exists beforehand *)
Corollary dirs_serializable_empty_base : forall ts sched c,
  NoDup (map t_path ts) ->
  run_sched [] sched (init_config ts) = Some c -> all_done c = true ->
  exists c', run_sched [] (seq_sched (List.length ts)) (init_config ts) = Some c' /\
             all_done c' = true /\ dstate_equiv (fst c) (fst c') = true.
Proof.
  intros ts sched c. apply dirs_serializable. intros x d H. discriminate.
Qed.
