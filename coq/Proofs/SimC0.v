(* Proofs/SimC0.v — glue between the run-level simulation (SimA*.v) and the hit/miss development
   (SimB*.v): definitions.

   (1) The class [okc c0] of previous caches: static conditions on every record that can be looked
       up (the conditions of SimB8.file_rec_ok / sub_rec_ok made static, plus what the relation of
       SimA needs after a hit), relative to a clock value [c0] (the clock when the build starts):
       every modification time recorded by a METADATA read is at most [c0].
   (2) The extra run invariant [Extra] that the hit lemmas need and that SimA0.Sim4 does not carry
       (the targets whose function ran are claimed; the clocks did not run backwards; the files
       written in this build are newer than [c0]), and the strengthened relation [Sim5].
   (3) Boolean checkers and their evaluation on concrete histories.                          *)
From Coq Require Import List String Ascii NArith ZArith Bool Arith Lia.
From FB.Base Require Import PyVal Fs.
From FB.Gen Require Import JsonUtilGen.
From FB.Spec Require Import JsonSpec Prog Ref Oracle Faithful.
From FB.Model Require Import Types Monad CreatedFiles BuildDirs SimpleOps Builder Persist Build Run Frame Dsl Core CoreOracle.
From FB.Proofs Require Import FsLemmas JsonLaws CacheRTDefs CacheRTEx BuildFileLaws HashMemoInv CoreLaws4
     ViewDefs ViewLemmas ViewInit ViewXDefs ViewH4 ViewH5 ViewH6 ViewR2 ViewR3 ViewK1 ViewK2 ViewK3 ViewK4 ViewK8
     SimA0 SimB1 SimB2 SimB7 SimB9.
Import ListNotations.
Open Scope list_scope.

(* ------------------------------------------------------------------ static conditions on a recorded tree *)
(* no nested build_file record raised (then Core's replay never asks whether "anything is
   physically at p": the stale-directory conditions HSD1/HSD2 of SimB are not needed) *)
Fixpoint calm (o : op) : bool :=
  match o with
  | OSimple _ _ _ => true
  | OBuildFile _ _ _ _ _ subs _ _ ra _ => negb ra && forallb calm subs
  | OSubbuild _ _ _ subs _ _ _ => forallb calm subs
  end.

(* the recorded result of a METADATA read: the marker of a failed read, or a comparison result
   whose modification time is at most c0 *)
Definition older (c0 : N) (rt : pyval) : bool :=
  match rt with
  | PNone => true
  | PDict [(PStr k1, _); (PStr k2, PInt t)] =>
      (String.eqb k1 "size" && String.eqb k2 "timeNs" && Z.leb t (Z.of_N c0))%bool
  | _ => false
  end.

Definition node_static (old : cache) (c0 : N) (x : op) : bool :=
  match x with
  | OSimple (QRead _ METADATA) rt _ => older c0 rt
  | OSimple _ _ _ => true
  | OBuildFile p _ _ _ _ _ _ _ ra _ => ra || cache_created_file old p
  | OSubbuild _ a k _ _ _ _ => (sanitized a && sanitized k && pv_wf a && pv_wf k)%bool
  end.

(* pairwise different keys (Python ==) *)
Fixpoint kfreshb (l : list pyval) : bool :=
  match l with [] => true | x :: r => forallb (fun y => negb (py_eq x y)) r && kfreshb r end.

(* the suboperations of a record that is looked up; [p0]: the target of the lookup *)
Definition ostack (p0 : option path) : list path := match p0 with Some p => [p] | None => [] end.

Definition subs_static (old : cache) (c0 : N) (p0 : option path) (subs : list op) : bool :=
  (forallb (rec_ok false (ostack p0)) subs && forallb calm subs &&
   forallb (node_static old c0) (flat_map nodes subs) &&
   nodupb (flat_map regp subs) && forallb (fun t => negb (opath_eqb t p0)) (flat_map regp subs) &&
   kfreshb (snd (cll subs)) && forallb wfrec subs)%bool.

Definition frec_static (old : cache) (c0 : N) (p : path) (rec : op) : bool :=
  match rec with
  | OBuildFile p' c' _ _ _ subs _ cr ra _ =>
      (path_eqb p' p && (ra || (negb (pnone cr) && cmp_okb false c' && tgt_ok p' && subs_static old c0 (Some p) subs)))%bool
  | _ => true
  end.

(* a record of the table of subbuilds, [q]: the key of its entry.  The key made from the recorded
   arguments is equal (Python ==) to the key of the entry and different from the keys of the nested
   subbuild records *)
Definition srec_static (old : cache) (c0 : N) (q : pyval) (rec : op) : bool :=
  match rec with
  | OSubbuild f a k subs _ ra _ =>
      (ra || (subs_static old c0 None subs && sanitized a && sanitized k && pv_wf a && pv_wf k &&
              py_eq (subbuild_key f a k) q &&
              forallb (fun y => negb (py_eq (subbuild_key f a k) y)) (snd (cll subs))))%bool
  | _ => true
  end.

(* ------------------------------------------------------------------ the class *)
Definition okc (c0 : N) (old : cache) : Prop :=
  (forall p rec, cache_get_file old p = Some rec -> frec_static old c0 p rec = true) /\
  (forall k rec, subs_get (c_subs old) k = Some (Some rec) ->
     exists q, py_eq q k = true /\ srec_static old c0 q rec = true).

Definition okcb (c0 : N) (old : cache) : bool :=
  forallb (fun e => match snd e with Some rec => frec_static old c0 (fst e) rec | None => true end) (c_files old) &&
  forallb (fun e => match snd e with Some rec => srec_static old c0 (fst e) rec | None => true end) (c_subs old).

Lemma files_get_in : forall l p v, files_get l p = Some v -> In (p, v) l.
Proof.
  induction l as [|[q x] l IH]; intros p v H; cbn [files_get] in H; [discriminate|].
  destruct (path_eqb q p) eqn:E; [apply path_eqb_eq in E; subst q; inversion H; subst; left; reflexivity|right; apply IH; exact H].
Qed.

Lemma subs_get_in : forall l k v, subs_get l k = Some v -> exists q, In (q, v) l /\ py_eq q k = true.
Proof.
  induction l as [|[q x] l IH]; intros k v H; cbn [subs_get] in H; [discriminate|].
  destruct (py_eq q k) eqn:E; [inversion H; subst; exists q; split; [left; reflexivity|exact E]|].
  destruct (IH k v H) as [q' [K1 K2]]. exists q'. split; [right; exact K1|exact K2].
Qed.

Lemma okcb_sound : forall c0 old, okcb c0 old = true -> okc c0 old.
Proof.
  intros c0 old H. unfold okcb in H. apply andb_true_iff in H. destruct H as [H1 H2]. rewrite forallb_forall in H1, H2. split.
  - intros p rec Hg. unfold cache_get_file in Hg.
    destruct (files_get (c_files old) p) as [[o|]|] eqn:E; try discriminate. inversion Hg; subst o.
    apply (H1 (p, Some rec)). apply files_get_in. exact E.
  - intros k rec Hg. destruct (subs_get_in _ _ _ Hg) as [q [Hin Hq]]. exists q. split; [exact Hq|]. apply (H2 (q, Some rec) Hin).
Qed.

(* the empty cache is in the class, for every clock *)
Lemma okc_empty : forall c0 nm v, okc c0 (empty_cache nm v).
Proof. intros c0 nm v. split; [intros p rec H|intros k rec H]; discriminate. Qed.

(* a cache without records is in the class *)
Lemma okc_norec : forall c0 old, ViewXRun.norec old -> okc c0 old.
Proof.
  intros c0 old [H1 H2]. split.
  - intros p rec H. rewrite (H1 p) in H. discriminate.
  - intros k rec H. specialize (H2 k). rewrite H in H2. destruct H2.
Qed.

(* ------------------------------------------------------------------ the extra invariant *)
(* [c0]: the clock when the build started; [W]: the targets whose function ran in this build *)
Record Extra (c0 : N) (W : list path) (w : world) (s : kstate) : Prop := {
  ex_cl : forall p, mem_path p W = true -> cache_has_file (w_new w) p = true;
  ex_wclock : (c0 <= w_clock w)%N;
  ex_kclock : (c0 <= k_clock s)%N;
  ex_wnew : forall p f, mem_path p W = true -> lookup (w_fs w) p = Some (NFile f) -> (c0 < f_mtime f)%N;
  ex_knew : forall p f, mem_path p W = true -> lookup (k_fs s) p = Some (NFile f) -> (c0 < f_mtime f)%N
}.

(* Core writes the pending bytes with its current clock when the function returns: after a write
   the clock is past c0 *)
Definition PendClock (c0 : N) (pend : option string) (s : kstate) : Prop :=
  pend <> None -> (c0 < k_clock s)%N.

Definition Sim5 (c0 : N) (T W : list path) (w : world) (s : kstate) : Prop :=
  Sim4 T W w s /\ Extra c0 W w s.

(* ------------------------------------------------------------------ checkers and validation *)
Definition file_at (fs : fsT) (p : path) : list fnode := match lookup fs p with Some (NFile f) => [f] | _ => [] end.

Definition extrab (c0 : N) (W : list path) (w : world) (s : kstate) : bool :=
  (forallb (fun p => cache_has_file (w_new w) p) W && N.leb c0 (w_clock w) && N.leb c0 (k_clock s) &&
   forallb (fun p => forallb (fun f => N.ltb c0 (f_mtime f)) (file_at (w_fs w) p ++ file_at (k_fs s) p)) W)%bool.

(* the class of the previous cache found by a build, with the clock of the start world; and the
   extra invariant when the root function has returned *)
Definition okc_at (cf : path) (nm : string) (vers : pyval) (w : world) : bool :=
  match sanitize vers with
  | Some svers => okcb (w_clock w) (old_cache_of (w_fs w) cf nm svers)
  | None => false
  end.

Definition extra_at_end (cf : path) (nm : string) (vers : pyval) (root : prog) (w : world) : bool :=
  match mech_root cf nm vers root w, core_root cf nm vers root w with
  | Some (w1, (w2, _)), Some (_, s) => extrab (w_clock w) (c_built (w_new w2)) w2 s
  | _, _ => false
  end.

