(* Proofs/SimJ5.v — HASH records in the PREVIOUS cache, part 5: the lookup of build_file for a
   previous cache of the class SimJ4.okcH (SimC6 with hk = true); the extra hypothesis is the memo
   invariant HInv of the world after the setup (SimA0.Sim4 carries it).                     *)
From Coq Require Import List String Ascii NArith ZArith Bool Arith Lia.
From FB.Base Require Import PyVal Fs.
From FB.Gen Require Import JsonUtilGen.
From FB.Spec Require Import JsonSpec Prog Ref Oracle Faithful.
From FB.Model Require Import Types Monad CreatedFiles BuildDirs SimpleOps Builder Persist Build Run Frame Core CoreOracle.
From FB.Proofs Require Import FsLemmas JsonLaws ReplayLaws BuildFileLaws HashMemoInv CoreLaws1 CoreLaws2 CoreLaws3 CoreLaws4
     ViewDefs ViewLemmas ViewXDefs ViewXFail ViewXSetup ViewH4 ViewH5 ViewH6 ViewR2 ViewR3 ViewK3 ViewK4 ViewK8
     SimA0 SimARun SimA2Base SimB1 SimB2 SimB3 SimB4 SimB7 SimB8 SimB9 SimC0 SimC1 SimC5 SimC6 SimJ1 SimJ2 SimJ4.
Import ListNotations.
Open Scope list_scope.
Open Scope m_scope.

Local Notation RInv2' := (RInv2 (fun _ => True)).

Section FileLookupH.
  Variables (c0 : N) (T W : list path) (w : world) (s0 : kstate) (p : path).
  Hypothesis Hokc : okcH c0 (w_old w).
  Hypothesis HHI : HInv w.
  Hypothesis HSS : SimSetup T W p w s0.
  Hypothesis Htg : tgtP p.
  Hypothesis Hncf : path_eqb p (w_cachefile w) = false.
  Hypothesis HWcl : forall q, mem_path q W = true -> cache_has_file (w_new w) q = true.
  Hypothesis Hnew : forall q g, mem_path q W = true ->
    lookup (w_fs w) q = Some (NFile g) \/ lookup (k_fs s0) q = Some (NFile g) -> (c0 < f_mtime g)%N.

  Let s' := with_sd s0 (sdl w).

  (* the side condition of SimB8 on the record of the target *)
  Lemma fl_rec_okH : forall rec, cache_get_file (w_old w) p = Some rec ->
    (forall p' c' f' a' k' subs' r' cr' sf', rec <> OBuildFile p' c' f' a' k' subs' r' cr' false sf') \/
    (file_rec_ok true W w s' p rec /\ wfrec rec = true /\
     exists p' c' f' a' k' subs' r' cr' sf', rec = OBuildFile p' c' f' a' k' subs' r' cr' false sf' /\
       subs_staticH (w_old w) c0 (Some p) subs' = true).
  Proof.
    intros rec Eg. pose proof (proj1 Hokc p rec Eg) as Hst.
    destruct rec as [q0 r0 e0|p' c' f' a' k' subs' rt' cr' ra' sf'|f0 a0 k0 sb0 r0 ra0 sf0]; try (left; intros; discriminate).
    destruct ra'; [left; intros; discriminate|]. right.
    cbn [frec_staticH orb] in Hst. apply andb_true_iff in Hst. destruct Hst as [Hst H].
    apply andb_true_iff in H. destruct H as [H Hsubs]. apply andb_true_iff in H. destruct H as [H Htgt].
    apply andb_true_iff in H. destruct H as [Hpn Hcmp].
    apply path_eqb_eq in Hst. subst p'.
    apply negb_true_iff in Hpn.
    split; [|split].
    - cbn [file_rec_ok]. split; [reflexivity|]. split; [intros _; split; assumption|].
      apply (static_subs_okH c0 W w s'); [|exact Hsubs]. intros q g Hq Hg. apply (Hnew q g Hq). exact Hg.
    - cbn [wfrec]. rewrite Hpn, Htgt. cbn [orb negb andb].
      destruct (static_partsH _ _ _ _ Hsubs) as (_ & _ & _ & _ & _ & _ & K). exact K.
    - exists p, c', f', a', k', subs', rt', cr', sf'. split; [reflexivity|exact Hsubs].
  Qed.

  Lemma fl_hit_sdH : forall f sa skw, core_file_hit s' p f sa skw = core_file_hit s0 p f sa skw.
  Proof.
    intros f sa skw. apply core_file_hit_sd. intros p' c' f' a' k' subs' r' cr' sf' Eg.
    destruct HSS as (HP & _). rewrite (s3_old _ _ _ (s4_sim _ _ _ _ HP)) in Eg.
    destruct (fl_rec_okH _ Eg) as [K|(_ & _ & (p2 & c2 & f2 & a2 & k2 & sb2 & r2 & cr2 & sf2 & E & Hst))].
    - exfalso. eapply K. reflexivity.
    - inversion E; subst. destruct (static_partsH _ _ _ _ Hst) as (_ & K & _). exact K.
  Qed.

  (* the lookup on both sides, with the replay relation when both accept *)
  Theorem file_lookup_rrH : forall f sa skw wl res,
    build_file_cache_lookup p f sa skw w = (wl, res) ->
    good w wl /\
    match core_hit s0 s0 p f sa skw with
    | None => res = inl None
    | Some (g, subs', ret', r) =>
        exists rec cf Tl M, res = inl (Some rec) /\ cache_get_file (w_old w) p = Some rec /\
          op_subs rec = subs' /\ op_ret rec = ret' /\ lookup (w_fs w) p = Some (NFile g) /\
          RRel W w s' [] Tl cf r M /\ (forall t, In t Tl -> In t (flat_map regp subs')) /\
          (forall t, In t (flat_map adp subs') -> In t Tl)
    end.
  Proof.
    intros f sa skw wl res H.
    destruct (fl_facts T W w s0 p HSS Htg) as (HS & HB & HR & Hml & HK & Hne & Hpok & Hunc).
    rewrite core_hit_file_hit, <- fl_hit_sdH.
    destruct (cache_get_file (w_old w) p) as [rec|] eqn:Eg.
    2:{ destruct (lookup_unservable p f sa skw w) as [A B]; [intros; rewrite Eg; discriminate|].
        rewrite A in H. inversion H; subst. split; [apply good_refl; exact HB|].
        rewrite (B s' (s3_old _ _ _ HS)). reflexivity. }
    destruct (fl_rec_okH rec Eg) as [K|(Hok & Hwf & _)].
    { destruct (lookup_unservable p f sa skw w) as [A B]; [intros; rewrite Eg; intro E; inversion E; subst; eapply K; reflexivity|].
      rewrite A in H. inversion H; subst. split; [apply good_refl; exact HB|].
      rewrite (B s' (s3_old _ _ _ HS)). reflexivity. }
    assert (P: forall rec', cache_get_file (w_old w) p = Some rec' -> file_rec_ok true W w s' p rec').
    { intros rec' E'. rewrite Eg in E'. inversion E'; subst rec'. exact Hok. }
    pose proof (file_lookup_agree_H true W w s' HS HB HWcl Hml (fun _ => HHI) (fun q => sdl_HSD1 w q HB) (sdl_HSD2 w) p f sa skw wl res HK Hne Hpok Hunc Hncf P H) as Q.
    rewrite Eg in Q. exact Q.
  Qed.

  (* the decision: the conclusion of SimA0.lookup_agree_hyp_for *)
  Theorem file_lookup5H : forall f sa skw wl cached,
    build_file_cache_lookup p f sa skw w = (wl, inl cached) ->
    (cached = None <-> core_hit s0 s0 p f sa skw = None).
  Proof.
    intros f sa skw wl cached H. destruct (file_lookup_rrH f sa skw wl (inl cached) H) as [_ P].
    destruct (core_hit s0 s0 p f sa skw) as [[[[g subs'] ret'] r]|].
    - destruct P as (rec & cf & Tl & M & E & _). inversion E; subst. split; discriminate.
    - inversion P; subst. split; reflexivity.
  Qed.
End FileLookupH.

Print Assumptions file_lookup_rrH.
Print Assumptions file_lookup5H.
