(* Proofs/ViewR1.v — C04, arbitrary previous caches, part 1: the growth order.

   [gl B w w']: the cache file path and the old cache are the same, and every node of
   the tree of w' is either the same node of w, or a new node at a path shorter than B
   which is not "a directory at the cache file path".  Everything the mechanism does
   to the tree on its own shrinks it (removals, backups), except _make_dirs, which
   creates directories among the ancestors of its argument, never at the cache file
   path (the explicit test in _dirs_to_make).  This order carries the two facts about
   the tree that the hit theorems of ViewH7 need and that RInv does not contain:
   "the cache file path is not a directory" and "every path of the tree is shorter
   than B" (used for the fuel of walk).                                             *)
From Coq Require Import List String Ascii NArith ZArith Bool Arith Lia.
From FB.Base Require Import PyVal Fs.
From FB.Gen Require Import JsonUtilGen.
From FB.Model Require Import Types Monad CreatedFiles BuildDirs SimpleOps Builder.
From FB.Proofs Require Import FsLemmas CleanLaws JsonLaws CoreLawsChildren ReplayLaws BuildFileLaws
     ViewDefs ViewLemmas ViewPres.
Import ListNotations.
Open Scope list_scope.
Open Scope m_scope.

Section Grow.
Variable B : nat.

Definition newok (cfp x : path) (n : node) : Prop := n = NDir -> x <> cfp.

Definition grow (cfp : path) (fs fs' : fsT) : Prop :=
  (forall x n, lookup fs' x = Some n -> lookup fs x = Some n \/ newok cfp x n) /\
  (maxlen fs < B -> maxlen fs' < B).

Definition shrink (fs fs' : fsT) : Prop :=
  (forall x n, lookup fs' x = Some n -> lookup fs x = Some n) /\ maxlen fs' <= maxlen fs.

Definition gl (w w' : world) : Prop :=
  w_cachefile w' = w_cachefile w /\ w_old w' = w_old w /\ grow (w_cachefile w) (w_fs w) (w_fs w').

Lemma gl_refl : forall w, gl w w.
Proof. intro w. split; [reflexivity|]. split; [reflexivity|]. split; [intros x n H; left; exact H|auto]. Qed.

Lemma gl_trans : forall a b c, gl a b -> gl b c -> gl a c.
Proof.
  intros a b c (A1 & A2 & A3 & A4) (B1 & B2 & B3 & B4). split; [congruence|]. split; [congruence|]. split.
  - intros x n H. destruct (B3 x n H) as [K|K].
    + apply A3. exact K.
    + right. rewrite <- A1. exact K.
  - auto.
Qed.

Definition glPO : PO := {| rel := gl; po_refl := gl_refl; po_trans := gl_trans |}.

Lemma shrink_refl : forall fs, shrink fs fs.
Proof. intros fs. split; [intros x n H; exact H|apply le_n]. Qed.

Lemma gl_of_shrink : forall w w', w_cachefile w' = w_cachefile w -> w_old w' = w_old w ->
  shrink (w_fs w) (w_fs w') -> gl w w'.
Proof.
  intros w w' A1 A2 [A3 A4]. split; [exact A1|]. split; [exact A2|]. split.
  - intros x n H. left. apply A3. exact H.
  - intro K. lia.
Qed.

Lemma svb_gl : forall w w', svbPO w w' -> glPO w w'.
Proof.
  cbn. unfold same_but_view. intros w w' (A1 & A2 & A3 & A4 & A5 & A6 & A7 & A8 & _).
  apply gl_of_shrink; [exact A8|exact A4|]. rewrite A1. apply shrink_refl.
Qed.

(* the two facts carried *)
Definition Ext (w : world) : Prop :=
  isdir (w_fs w) (w_cachefile w) = false /\ maxlen (w_fs w) < B.

Lemma gl_Ext : forall w w', gl w w' -> Ext w -> Ext w'.
Proof.
  intros w w' (A1 & A2 & A3 & A4) (E1 & E2). split.
  - rewrite A1. unfold isdir in *. destruct (lookup (w_fs w') (w_cachefile w)) as [[g|]|] eqn:El; try reflexivity.
    destruct (A3 _ _ El) as [K|K].
    + rewrite K in E1. discriminate.
    + exfalso. apply K; reflexivity.
  - apply A4. exact E2.
Qed.

(* ------------------------------------------------------------------ leaves *)
#[local] Hint Extern 8 (pres glPO _) => apply (pres_weaken svbPO glPO _ _ svb_gl) : pres.
#[local] Hint Resolve m_handle_dir_exists_svb m_is_removed_svb is_file_no_read_svb is_cache_file_svb
  file_metadata_svb file_hash_svb list_dir_superset_svb file_comparison_result_svb
  m_is_file_svb m_is_dir_svb m_exists_svb noneable_cmp_svb version_equal_svb
  is_build_file_cached_svb dirs_to_make_svb build_file_cache_lookup_svb subbuild_cache_lookup_svb
  m_bd_started_svb m_bd_error_svb new_assert_no_file_svb new_assert_no_subbuild_svb : pres.

Lemma effect_gl : forall what p f,
  (forall fs fs', f fs = inl fs' -> shrink fs fs') -> pres glPO (effect what p f).
Proof.
  intros what p f Hf w w' r H. unfold effect in H. cbv zeta in H.
  destruct (existsb (Nat.eqb (w_effects w)) (w_faults w)).
  - inversion H; subst. apply gl_of_shrink; try reflexivity. apply shrink_refl.
  - cbn [w_fs set_effects] in H. destruct (f (w_fs w)) as [fs'|e] eqn:E; inversion H; subst.
    + apply gl_of_shrink; try reflexivity. cbn. apply (Hf _ _ E).
    + apply gl_of_shrink; try reflexivity. apply shrink_refl.
Qed.

Lemma maxlen_upd : forall p v fs, maxlen (upd p v fs) = Nat.max (List.length p) (maxlen fs).
Proof. reflexivity. Qed.

Lemma upd_none_shrink : forall p fs, List.length p <= maxlen fs -> shrink fs (upd p None fs).
Proof.
  intros p fs Hl. split.
  - intros x n Hx. destruct (list_eq_dec string_dec x p) as [->|Hne].
    + destruct p as [|a p]; [exact Hx|]. rewrite lookup_upd_eq in Hx; discriminate.
    + rewrite lookup_upd_neq in Hx; assumption.
  - rewrite maxlen_upd. lia.
Qed.

Lemma shrink_trans : forall a b c, shrink a b -> shrink b c -> shrink a c.
Proof. intros a b c [A1 A2] [B1 B2]. split; [intros x n H; apply A1, B1, H|lia]. Qed.

Lemma rmdir_shrink : forall d fs fs', rmdir fs d = inl fs' -> shrink fs fs'.
Proof.
  intros d fs fs' H. unfold rmdir in H. destruct d as [|a d]; [discriminate|].
  destruct (lookup fs (a :: d)) as [[g|]|] eqn:E1; try discriminate.
  destruct (children fs (a :: d)); [|discriminate]. inversion H; subst.
  apply upd_none_shrink. apply (lookup_maxlen _ _ _ E1).
Qed.

Lemma remove_shrink : forall d fs fs', remove fs d = inl fs' -> shrink fs fs'.
Proof.
  intros d fs fs' H. unfold remove in H.
  destruct (lookup fs d) as [[g|]|] eqn:E1; destruct d as [|a d]; try discriminate. inversion H; subst.
  apply upd_none_shrink. apply (lookup_maxlen _ _ _ E1).
Qed.

Lemma drop_below_shrink : forall p fs, shrink fs (drop_below fs p).
Proof.
  intros p fs. unfold drop_below.
  assert (G: forall l : fsT, (forall e, In e l -> In e fs) ->
             shrink fs (fold_right (fun e acc => if below p (fst e) then upd (fst e) None acc else acc) fs l)).
  { induction l as [|e l IH]; intro Hl; cbn [fold_right].
    - apply shrink_refl.
    - assert (IH': shrink fs (fold_right (fun e acc => if below p (fst e) then upd (fst e) None acc else acc) fs l))
        by (apply IH; intros e0 He0; apply Hl; right; exact He0).
      destruct (below p (fst e)); [|exact IH'].
      split.
      + intros x n Hx. apply (proj1 IH'). destruct (list_eq_dec string_dec x (fst e)) as [->|Hne].
        * destruct (fst e) as [|a q]; [exact Hx|]. rewrite lookup_upd_eq in Hx; discriminate.
        * rewrite lookup_upd_neq in Hx; assumption.
      + rewrite maxlen_upd. pose proof (maxlen_In fs e (Hl e (or_introl eq_refl))) as K. destruct IH' as [_ K2]. apply Nat.max_lub; assumption. }
  apply G. auto.
Qed.

Lemma rename_out_shrink : forall fs p fs' nd, rename_out fs p = inl (fs', nd) -> shrink fs fs'.
Proof.
  intros fs p fs' nd H. unfold rename_out in H.
  destruct (lookup fs p) as [[g|]|] eqn:E1; destruct p as [|a p]; try discriminate; inversion H; subst.
  - apply upd_none_shrink. apply (lookup_maxlen _ _ _ E1).
  - eapply shrink_trans; [apply (drop_below_shrink (a :: p) fs)|].
    apply upd_none_shrink. destruct (drop_below_shrink (a :: p) fs) as [_ K].
    pose proof (lookup_maxlen _ _ _ E1) as K1.
    (* the bound for the new entry must hold in the dropped tree: entries are only added *)
    assert (K2: maxlen fs <= maxlen (drop_below fs (a :: p))).
    { unfold drop_below.
      assert (G: forall l : fsT, maxlen fs <= maxlen (fold_right (fun e acc => if below (a :: p) (fst e) then upd (fst e) None acc else acc) fs l)).
      { induction l as [|e l IH]; cbn [fold_right]; [apply le_n|].
        destruct (below (a :: p) (fst e)); [rewrite maxlen_upd; lia|exact IH]. }
      apply G. }
    lia.
Qed.

Lemma effect_rmdir_gl : forall what d, pres glPO (effect what d (fun fs => rmdir fs d)).
Proof. intros. apply effect_gl. intros fs fs'. apply rmdir_shrink. Qed.
Lemma effect_remove_gl : forall what d, pres glPO (effect what d (fun fs => remove fs d)).
Proof. intros. apply effect_gl. intros fs fs'. apply remove_shrink. Qed.
Lemma effect_id_gl : forall what d, pres glPO (effect what d (fun fs => inl fs)).
Proof. intros. apply effect_gl. intros fs fs' H. inversion H; subst. apply shrink_refl. Qed.
#[local] Hint Resolve effect_rmdir_gl effect_remove_gl effect_id_gl : pres.

Lemma back_up_and_remove_gl : forall p, pres glPO (back_up_and_remove p).
Proof.
  intro p. unfold back_up_and_remove. apply pres_bind; [auto with pres|]. intros _.
  intros w w' r H. cbv zeta in H.
  destruct (existsb (Nat.eqb (w_effects w)) (w_faults w)).
  { inversion H; subst. apply gl_of_shrink; try reflexivity. apply shrink_refl. }
  cbn [w_fs set_effects] in H.
  destruct (rename_out (w_fs w) p) as [[fs' nd]|e] eqn:E.
  - apply rename_out_shrink in E.
    destruct nd; inversion H; subst; apply gl_of_shrink; try reflexivity; exact E.
  - destruct e; inversion H; subst; apply gl_of_shrink; try reflexivity; apply shrink_refl.
Qed.
#[local] Hint Resolve back_up_and_remove_gl : pres.

Lemma try_to_remove_file_gl : forall p, pres glPO (try_to_remove_file p).
Proof. intro p. unfold try_to_remove_file. pres_auto. Qed.

Lemma remove_empty_dirs_gl : forall ds, pres glPO (remove_empty_dirs ds).
Proof. intro ds. unfold remove_empty_dirs. pres_auto. Qed.
#[local] Hint Resolve try_to_remove_file_gl remove_empty_dirs_gl : pres.

Lemma make_room_gl : forall fuel d, pres glPO (make_room fuel d).
Proof. induction fuel as [|fuel IH]; intro d; cbn [make_room]; pres_auto. Qed.
#[local] Hint Resolve make_room_gl : pres.

(* updates of the records only *)
Ltac raw_gl f :=
  intros w w' r H; unfold f in H; cbv zeta in H; repeat dm H; inversion H; subst;
  first [apply gl_refl | apply gl_of_shrink; try reflexivity; apply shrink_refl].

Lemma modify_new_gl : forall f : world -> cache, pres glPO (modify (fun w => set_new (f w) w)).
Proof. intro f. apply pres_modify. intro w. apply gl_of_shrink; try reflexivity. apply shrink_refl. Qed.
#[local] Hint Resolve modify_new_gl : pres.

Lemma new_start_building_file_gl : forall p, pres glPO (new_start_building_file p).
Proof. intro p. unfold new_start_building_file. pres_auto. Qed.
Lemma new_abort_building_file_gl : forall p, pres glPO (new_abort_building_file p).
Proof. intro p. unfold new_abort_building_file. pres_auto. Qed.
Lemma new_finish_building_file_gl : forall p o, pres glPO (new_finish_building_file p o).
Proof. intros p o. unfold new_finish_building_file. pres_auto. Qed.
Lemma new_start_subbuild_gl : forall k, pres glPO (new_start_subbuild k).
Proof. intro k. unfold new_start_subbuild. pres_auto. Qed.
Lemma new_finish_subbuild_gl : forall k o, pres glPO (new_finish_subbuild k o).
Proof. intros k o. unfold new_finish_subbuild. pres_auto. Qed.
Lemma new_use_cached_operation_gl : forall o, pres glPO (new_use_cached_operation o).
Proof.
  intros o w w' r H. unfold new_use_cached_operation, bind, get, put in H.
  destruct (assert_no_repeats (w_new w) o); inversion H; subst.
  - apply gl_of_shrink; try reflexivity. apply shrink_refl.
  - apply gl_refl.
Qed.
#[local] Hint Resolve new_start_building_file_gl new_abort_building_file_gl new_finish_building_file_gl
  new_start_subbuild_gl new_finish_subbuild_gl new_use_cached_operation_gl : pres.

Lemma bf_claim_gl : forall p, pres glPO (bf_claim p).
Proof. intro p. unfold bf_claim. pres_auto. Qed.

(* ------------------------------------------------------------------ _make_dirs *)
Lemma svb_cf : forall w w', svbPO w w' -> w_cachefile w' = w_cachefile w.
Proof. cbn. unfold same_but_view. intros w w' (_ & _ & _ & _ & _ & _ & _ & A8 & _). exact A8. Qed.

(* the directories that _dirs_to_make returns are ancestors of its argument (or the
   argument), none of them the cache file path: the explicit test *)
Lemma dirs_to_make_in : forall d cf w w1 ds, dirs_to_make d cf w = (w1, inl ds) ->
  forall y, In y ds -> suffix y d /\ y <> w_cachefile w.
Proof.
  induction d as [|a d IH]; intros cf w w1 ds H y Hy; cbn [dirs_to_make] in H.
  - apply bind_inv in H. destruct H as [[wa [isd [Ed H]]]|[e [_ H]]]; [|discriminate].
    apply bind_inv in H. destruct H as [[wb [isf [Ef H]]]|[e [_ H]]]; [|discriminate].
    destruct isf; [discriminate|]. destruct isd; [inversion H; subst; destruct Hy|].
    apply bind_inv in H. destruct H as [[wc [icf [Ei H]]]|[e [_ H]]]; [|discriminate].
    destruct icf; discriminate.
  - apply bind_inv in H. destruct H as [[wa [isd [Ed H]]]|[e [_ H]]]; [|discriminate].
    apply bind_inv in H. destruct H as [[wb [isf [Ef H]]]|[e [_ H]]]; [|discriminate].
    destruct isf; [discriminate|]. destruct isd; [inversion H; subst; destruct Hy|].
    apply bind_inv in H. destruct H as [[wc [icf [Ei H]]]|[e [_ H]]]; [|discriminate].
    assert (Eicf: wc = wb /\ icf = path_eqb (a :: d) (w_cachefile wb)) by (unfold is_cache_file in Ei; inversion Ei; auto).
    destruct Eicf as [-> Ec]. destruct icf; [discriminate|]. symmetry in Ec.
    apply bind_inv in H. destruct H as [[wd [r [Er H]]]|[e [_ H]]]; [|discriminate].
    inversion H; subst wd ds. clear H.
    assert (Ecf: w_cachefile wb = w_cachefile w).
    { pose proof (svb_cf _ _ (m_is_dir_svb _ _ _ _ _ Ed)) as C1.
      pose proof (svb_cf _ _ (m_is_file_svb _ _ _ _ _ Ef)) as C2. congruence. }
    apply in_app_or in Hy. destruct Hy as [Hy|[<-|[]]].
    + destruct (IH cf wb w1 r Er y Hy) as [[l Hl] Hn]. split; [exists (a :: l); rewrite Hl; reflexivity|congruence].
    + split; [exists []; reflexivity|]. intro K. rewrite <- Ecf in K. rewrite K, path_eqb_refl in Ec. discriminate.
Qed.

Lemma mkdir_grow : forall cfp fs d fs', mkdir fs d = inl fs' -> List.length d < B -> d <> cfp -> grow cfp fs fs'.
Proof.
  intros cfp fs d fs' H Hl Hn. split.
  - intros x n Hx. apply mkdir_frame in H. destruct H as (H1 & _ & H2).
    destruct (list_eq_dec string_dec x d) as [->|Hne].
    + right. intros _. exact Hn.
    + left. rewrite <- (H2 _ Hne). exact Hx.
  - intro K. unfold mkdir in H. destruct d as [|a d]; [discriminate|].
    destruct (lookup fs (a :: d)); [discriminate|]. destruct (lookup fs d) as [[g|]|]; try discriminate.
    destruct (name_ok a); [|discriminate]. inversion H; subst. rewrite maxlen_upd. lia.
Qed.

Lemma effect_mkdir_gl : forall what d w w' r, effect what d (fun fs => mkdir fs d) w = (w', r) ->
  List.length d < B -> d <> w_cachefile w -> gl w w'.
Proof.
  intros what d w w' r H Hl Hn. unfold effect in H. cbv zeta in H.
  destruct (existsb (Nat.eqb (w_effects w)) (w_faults w)).
  - inversion H; subst. apply gl_of_shrink; try reflexivity. apply shrink_refl.
  - cbn [w_fs set_effects] in H. destruct (mkdir (w_fs w) d) as [fs'|e] eqn:E; inversion H; subst.
    + split; [reflexivity|]. split; [reflexivity|]. cbn. apply (mkdir_grow _ _ _ _ E Hl Hn).
    + apply gl_of_shrink; try reflexivity. apply shrink_refl.
Qed.

Lemma make_one_dir_gl : forall d w w' r, make_one_dir d w = (w', r) ->
  List.length d < B -> d <> w_cachefile w -> gl w w'.
Proof.
  intros d w w' r H Hl Hn. unfold make_one_dir in H. apply bind_inv in H. unfold get in H.
  destruct H as [[wa [w0 [E H]]]|[e [E _]]]; [|discriminate]. inversion E; subst wa w0.
  apply bind_inv in H.
  assert (Hpre: pres glPO (if isfile (w_fs w) d && cache_created_file (w_old w) d
                           then b <- back_up_and_remove d ;; ret tt else ret tt)) by pres_auto.
  destruct H as [[wa [u [E1 H]]]|[e [E1 _]]]; [|apply (Hpre _ _ _ E1)].
  pose proof (Hpre _ _ _ E1) as G1. eapply gl_trans; [exact G1|].
  assert (Hn': d <> w_cachefile wa) by (destruct G1 as (C & _); congruence).
  unfold catch in H.
  destruct ((effect "mkdir" d (fun fs => mkdir fs d) ;;; ret true) wa) as [wb rb] eqn:E2.
  assert (G2: gl wa wb).
  { apply bind_inv in E2. destruct E2 as [[wc [u' [E3 E4]]]|[e [E3 _]]].
    - inversion E4; subst. apply (effect_mkdir_gl _ _ _ _ _ E3 Hl Hn').
    - apply (effect_mkdir_gl _ _ _ _ _ E3 Hl Hn'). }
  destruct rb as [b|e]; [inversion H; subst; exact G2|].
  destruct (is_os_class XFileExists e); inversion H; subst; exact G2.
Qed.

Lemma make_dirs_loop_gl : forall ds made w w' r, make_dirs_loop ds made w = (w', r) ->
  (forall y, In y ds -> List.length y < B /\ y <> w_cachefile w) -> gl w w'.
Proof.
  induction ds as [|d ds IH]; intros made w w' r H Hds; cbn [make_dirs_loop] in H.
  - inversion H; subst. apply gl_refl.
  - apply bind_inv in H. unfold attempt in H. destruct (make_one_dir d w) as [wb rr] eqn:E1.
    destruct H as [[wa [res [E H]]]|[e [E _]]]; [|discriminate]. inversion E; subst wa res.
    destruct (Hds d (or_introl eq_refl)) as [Hl Hn].
    pose proof (make_one_dir_gl _ _ _ _ E1 Hl Hn) as G1. eapply gl_trans; [exact G1|].
    destruct rr as [b|e].
    + apply (IH _ _ _ _ H). intros y Hy. destruct (Hds y (or_intror Hy)) as [A C]. split; [exact A|].
      destruct G1 as (C1 & _). congruence.
    + refine ((_ : pres glPO _) _ _ _ H). destruct (is_os e); pres_auto.
Qed.

Lemma suffix_len : forall (y d : path), suffix y d -> List.length y <= List.length d.
Proof. intros y d [l ->]. rewrite app_length. lia. Qed.

Lemma make_dirs_gl : forall d w w' r, make_dirs d w = (w', r) -> List.length d < B -> gl w w'.
Proof.
  intros d w w' r H Hl. unfold make_dirs in H. apply bind_inv in H.
  destruct H as [[wa [ds [Eds H]]]|[e [Eds _]]].
  2:{ apply svb_gl. apply (dirs_to_make_svb _ _ _ _ _ Eds). }
  pose proof (svb_gl _ _ (dirs_to_make_svb _ _ _ _ _ Eds)) as G1. eapply gl_trans; [exact G1|].
  apply bind_inv in H.
  assert (Hloop: forall wb rb, make_dirs_loop ds [] wa = (wb, rb) -> gl wa wb).
  { intros wb rb Hb. apply (make_dirs_loop_gl _ _ _ _ _ Hb). intros y Hy.
    destruct (dirs_to_make_in _ _ _ _ _ Eds y Hy) as [Hs Hn]. split.
    - apply suffix_len in Hs. lia.
    - destruct G1 as (C1 & _). cbn in C1. congruence. }
  destruct H as [[wb [u [E1 H]]]|[e [E1 _]]]; [|apply (Hloop _ _ E1)].
  inversion H; subst. apply (Hloop _ _ E1).
Qed.

Lemma prepare_file_creation_gl : forall p w w' r, prepare_file_creation p w = (w', r) ->
  List.length (dirname p) < B -> gl w w'.
Proof.
  intros p w w' r H Hl. unfold prepare_file_creation in H. apply bind_inv in H. unfold get in H.
  destruct H as [[wa [w0 [E H]]]|[e [E _]]]; [|discriminate]. inversion E; subst wa w0.
  apply bind_inv in H.
  assert (Hpre: pres glPO (if isdir (w_fs w) p
                           then vd <- m_is_dir p None ;;
                                if vd then raise (XOS XIsADirectory) else make_room room_fuel p
                           else ret tt)) by pres_auto.
  destruct H as [[wa [u [E1 H]]]|[e [E1 _]]]; [|apply (Hpre _ _ _ E1)].
  eapply gl_trans; [apply (Hpre _ _ _ E1)|]. apply (make_dirs_gl _ _ _ _ H Hl).
Qed.

Lemma write_file_grow : forall cfp fs p b j m i fs', write_file fs p b j m i = inl fs' -> List.length p < B -> grow cfp fs fs'.
Proof.
  intros cfp fs p b j m i fs' H Hl. split.
  - intros x n Hx. destruct (write_file_frame _ _ _ _ _ _ _ H) as [(g & Hg & _) Ho].
    destruct (list_eq_dec string_dec x p) as [->|Hne].
    + right. intro K. rewrite Hg in Hx. congruence.
    + left. rewrite <- (Ho _ Hne). exact Hx.
  - intro K. unfold write_file in H. destruct p as [|a d]; [discriminate|].
    destruct (lookup fs (a :: d)) as [[g|]|]; try discriminate.
    + inversion H; subst. rewrite maxlen_upd. lia.
    + destruct (lookup fs d) as [[g|]|]; try discriminate. destruct (name_ok a); [|discriminate].
      inversion H; subst. rewrite maxlen_upd. lia.
Qed.

(* ------------------------------------------------------------------ the end of build_file / subbuild *)
Lemma bf_fail_gl : forall p c f sa skw subs e w w' ro, bf_fail p c f sa skw subs e w = (w', ro) -> gl w w'.
Proof.
  intros p c f sa skw subs e w w' ro H. unfold bf_fail in H. cbv zeta in H.
  destruct ((try_to_remove_file p ;;; m_bd_error p ;;; new_finish_building_file p
               (OBuildFile p c f sa skw subs PNone PNone true false)) w) as [w1 r1] eqn:E.
  assert (G: gl w w1) by (refine ((_ : pres glPO _) _ _ _ E); pres_auto).
  destruct r1; inversion H; subst; exact G.
Qed.

Lemma bf_finish_gl : forall p c f sa skw res subs w w' ro, bf_finish p c f sa skw res subs w = (w', ro) -> gl w w'.
Proof.
  intros p c f sa skw res subs w w' ro H. unfold bf_finish in H.
  destruct res as [v|e]; [|apply (bf_fail_gl _ _ _ _ _ _ _ _ _ _ H)].
  destruct (sanitize v) as [sv|]; [|apply (bf_fail_gl _ _ _ _ _ _ _ _ _ _ H)].
  destruct (noneable_cmp p c w) as [w4 r4] eqn:E4.
  pose proof (svb_gl _ _ (noneable_cmp_svb _ _ _ _ _ E4)) as G4. eapply gl_trans; [exact G4|].
  destruct r4 as [cmp|e]; [|apply (bf_fail_gl _ _ _ _ _ _ _ _ _ _ H)].
  destruct cmp; try (apply (bf_fail_gl _ _ _ _ _ _ _ _ _ _ H));
    (match type of H with (match ?X with _ => _ end) = _ => destruct X as [w5 r5] eqn:E5 end;
     inversion H; subst; apply (new_finish_building_file_gl _ _ _ _ _ E5)).
Qed.

Lemma sb_finish_gl : forall f sa skw res subs w w' ro, sb_finish f sa skw res subs w = (w', ro) -> gl w w'.
Proof.
  intros f sa skw res subs w w' ro H. unfold sb_finish in H. cbv zeta in H.
  destruct res as [v|e]; [destruct (sanitize v)|];
    (match type of H with (match ?X with _ => _ end) = _ => destruct X as [w5 r5] eqn:E5 end;
     inversion H; subst; apply (new_finish_subbuild_gl _ _ _ _ _ E5)).
Qed.

(* ------------------------------------------------------------------ adoption of a shallow record *)
Fixpoint shallow_op (o : op) : Prop :=
  match o with
  | OSimple _ _ _ => True
  | OBuildFile p _ _ _ _ subs _ _ _ _ =>
      List.length p < B /\ (fix all (l : list op) : Prop := match l with [] => True | s :: r => shallow_op s /\ all r end) subs
  | OSubbuild _ _ _ subs _ _ _ =>
      (fix all (l : list op) : Prop := match l with [] => True | s :: r => shallow_op s /\ all r end) subs
  end.

Definition shallow_all : list op -> Prop :=
  fix all (l : list op) : Prop := match l with [] => True | s :: r => shallow_op s /\ all r end.

Lemma shallow_op_subs : forall o, shallow_op o -> shallow_all (op_subs o).
Proof. intros [q r e|p c f a k subs r cr ra sf|f a k subs r ra sf] H; cbn [shallow_op op_subs] in *; [exact I|apply H|exact H]. Qed.

Lemma apply_cached_subs_of_gl : forall o w w' r, apply_cached_subs_of o w = (w', r) ->
  shallow_all (op_subs o) -> gl w w'.
Proof.
  induction o as [q r0 e | p c f a k subs r0 cr ra sf IH | f a k subs r0 ra sf IH] using op_ind';
    intros w w' r H Hs; cbn [apply_cached_subs_of] in H; cbn [op_subs] in Hs.
  - inversion H; subst. apply gl_refl.
  - revert w w' r H Hs. induction IH as [|s rest Hs1 HF IHl]; intros w w' r H Hs; cbn beta iota fix in H.
    + inversion H; subst. apply gl_refl.
    + destruct Hs as [Hs0 Hsr]. apply bind_inv in H.
      assert (Hone: forall wa ra0,
                (match s with
                 | OBuildFile p0 _ _ _ _ _ _ _ false _ =>
                     created <- make_dirs (dirname p0) ;;
                     locked <- m_bd_started p0 created ;;
                     catch (apply_cached_subs_of s) (fun e => m_bd_error p0 ;;; raise e)
                 | OSimple _ _ _ => ret tt
                 | _ => apply_cached_subs_of s
                 end) w = (wa, ra0) -> gl w wa).
      { intros wa ra0 Ha. pose proof (Hs1) as K.
        destruct s as [q1 r1 e1|p1 c1 f1 a1 k1 subs1 r1 cr1 ra1 sf1|f1 a1 k1 subs1 r1 ra1 sf1].
        - inversion Ha; subst. apply gl_refl.
        - destruct ra1.
          + apply (K _ _ _ Ha). apply (shallow_op_subs _ Hs0).
          + apply bind_inv in Ha. destruct Hs0 as [Hl1 Hsub1].
            assert (Hmk: forall wb rb, make_dirs (dirname p1) w = (wb, rb) -> gl w wb).
            { intros wb rb Hb. apply (make_dirs_gl _ _ _ _ Hb). destruct p1 as [|n1 d1]; cbn [dirname tl List.length] in *; lia. }
            destruct Ha as [[wb [created [Eb Ha]]]|[e' [Eb _]]]; [|apply (Hmk _ _ Eb)].
            eapply gl_trans; [apply (Hmk _ _ Eb)|].
            apply bind_inv in Ha. destruct Ha as [[wc [locked [Ec Ha]]]|[e' [Ec _]]].
            2:{ apply svb_gl. apply (m_bd_started_svb _ _ _ _ _ Ec). }
            eapply gl_trans; [apply svb_gl; apply (m_bd_started_svb _ _ _ _ _ Ec)|].
            unfold catch in Ha. destruct (apply_cached_subs_of (OBuildFile p1 c1 f1 a1 k1 subs1 r1 cr1 false sf1) wc) as [wd rd] eqn:Ed.
            assert (Gd: gl wc wd) by (apply (K _ _ _ Ed); exact Hsub1).
            destruct rd as [u|e']; [inversion Ha; subst; exact Gd|].
            eapply gl_trans; [exact Gd|]. refine ((_ : pres glPO _) _ _ _ Ha). pres_auto.
        - apply (K _ _ _ Ha). apply (shallow_op_subs _ Hs0). }
      destruct H as [[wa [u [Ea H]]]|[e' [Ea _]]]; [|apply (Hone _ _ Ea)].
      eapply gl_trans; [apply (Hone _ _ Ea)|]. apply (IHl _ _ _ H Hsr).
  - revert w w' r H Hs. induction IH as [|s rest Hs1 HF IHl]; intros w w' r H Hs; cbn beta iota fix in H.
    + inversion H; subst. apply gl_refl.
    + destruct Hs as [Hs0 Hsr]. apply bind_inv in H.
      assert (Hone: forall wa ra0,
                (match s with
                 | OBuildFile p0 _ _ _ _ _ _ _ false _ =>
                     created <- make_dirs (dirname p0) ;;
                     locked <- m_bd_started p0 created ;;
                     catch (apply_cached_subs_of s) (fun e => m_bd_error p0 ;;; raise e)
                 | OSimple _ _ _ => ret tt
                 | _ => apply_cached_subs_of s
                 end) w = (wa, ra0) -> gl w wa).
      { intros wa ra0 Ha. pose proof (Hs1) as K.
        destruct s as [q1 r1 e1|p1 c1 f1 a1 k1 subs1 r1 cr1 ra1 sf1|f1 a1 k1 subs1 r1 ra1 sf1].
        - inversion Ha; subst. apply gl_refl.
        - destruct ra1.
          + apply (K _ _ _ Ha). apply (shallow_op_subs _ Hs0).
          + apply bind_inv in Ha. destruct Hs0 as [Hl1 Hsub1].
            assert (Hmk: forall wb rb, make_dirs (dirname p1) w = (wb, rb) -> gl w wb).
            { intros wb rb Hb. apply (make_dirs_gl _ _ _ _ Hb). destruct p1 as [|n1 d1]; cbn [dirname tl List.length] in *; lia. }
            destruct Ha as [[wb [created [Eb Ha]]]|[e' [Eb _]]]; [|apply (Hmk _ _ Eb)].
            eapply gl_trans; [apply (Hmk _ _ Eb)|].
            apply bind_inv in Ha. destruct Ha as [[wc [locked [Ec Ha]]]|[e' [Ec _]]].
            2:{ apply svb_gl. apply (m_bd_started_svb _ _ _ _ _ Ec). }
            eapply gl_trans; [apply svb_gl; apply (m_bd_started_svb _ _ _ _ _ Ec)|].
            unfold catch in Ha. destruct (apply_cached_subs_of (OBuildFile p1 c1 f1 a1 k1 subs1 r1 cr1 false sf1) wc) as [wd rd] eqn:Ed.
            assert (Gd: gl wc wd) by (apply (K _ _ _ Ed); exact Hsub1).
            destruct rd as [u|e']; [inversion Ha; subst; exact Gd|].
            eapply gl_trans; [exact Gd|]. refine ((_ : pres glPO _) _ _ _ Ha). pres_auto.
        - apply (K _ _ _ Ha). apply (shallow_op_subs _ Hs0). }
      destruct H as [[wa [u [Ea H]]]|[e' [Ea _]]]; [|apply (Hone _ _ Ea)].
      eapply gl_trans; [apply (Hone _ _ Ea)|]. apply (IHl _ _ _ H Hsr).
Qed.

End Grow.
