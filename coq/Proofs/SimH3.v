(* Proofs/SimH3.v — (1) the build name, the versions dict and the created-directories list of the
   new cache are not touched while the root function runs [run_meta];
   (2) first partial result for CacheRTOpen.committed_cache_wf_statement: the new cache of a
   committed first build is [writable] (no entry in progress, forest records well formed, created
   directories legal, versions sanitized), its created directories are listed once, and the cache
   file holds its serialisation [committed_cache_writable_partial]. *)
From Coq Require Import List String Ascii NArith ZArith Bool Arith Lia Permutation.
From FB.Base Require Import PyVal Fs.
From FB.Gen Require Import JsonUtilGen.
From FB.Spec Require Import JsonSpec Prog.
From FB.Model Require Import Types Monad CreatedFiles BuildDirs SimpleOps Builder PathNorm Persist PersistSpec Build Run.
From FB.Proofs Require Import FsLemmas JsonLaws PersistLaws ReplayLaws BuildFileLaws RollbackDirsBase
  CacheRTDefs CacheRTCycle CacheRTForest CacheRTOpen SimH1 SimH2.
Import ListNotations.
Local Open Scope list_scope.
Local Open Scope m_scope.

(* ------------------------------------------------------------------ name, versions, directories *)
Definition meta (w w' : world) : Prop :=
  c_name (w_new w') = c_name (w_new w) /\ c_fvers (w_new w') = c_fvers (w_new w) /\
  c_dirs (w_new w') = c_dirs (w_new w).
Lemma meta_refl : forall w, meta w w.
Proof. intro w. repeat split. Qed.
Lemma meta_trans : forall a b c, meta a b -> meta b c -> meta a c.
Proof. unfold meta. intros a b c (A1 & A2 & A3) (B1 & B2 & B3). repeat split; congruence. Qed.
Definition metaPO : PO := {| rel := meta; po_refl := meta_refl; po_trans := meta_trans |}.

Lemma new_meta : forall w w', newPO w w' -> metaPO w w'.
Proof. cbn. unfold new_same, meta. intros w w' (H & _). rewrite H. repeat split. Qed.
Lemma svb_meta : forall w w', svbPO w w' -> metaPO w w'.
Proof. intros w w' H. apply new_meta, svb_new, H. Qed.

#[local] Hint Extern 8 (pres metaPO _) => apply (pres_weaken svbPO metaPO _ _ svb_meta) : pres.
#[local] Hint Resolve m_handle_dir_exists_svb m_is_removed_svb is_file_no_read_svb is_cache_file_svb
  file_metadata_svb file_hash_svb list_dir_superset_svb file_comparison_result_svb
  m_is_file_svb m_is_dir_svb m_exists_svb noneable_cmp_svb version_equal_svb
  is_build_file_cached_svb dirs_to_make_svb build_file_cache_lookup_svb subbuild_cache_lookup_svb
  m_bd_started_svb m_bd_error_svb new_assert_no_file_svb new_assert_no_subbuild_svb : pres.

Lemma newm : forall X (m : world -> world * X), pres newPO m -> pres metaPO m.
Proof. intros X m. apply pres_weaken. exact new_meta. Qed.

Lemma prepare_meta : forall p, pres metaPO (prepare_file_creation p).
Proof. intro p. apply newm, prepare_file_creation_new. Qed.
Lemma backup_meta : forall p, pres metaPO (back_up_and_remove p).
Proof. intro p. apply newm, back_up_and_remove_new. Qed.
Lemma try_remove_meta : forall p, pres metaPO (try_to_remove_file p).
Proof. intro p. apply newm, try_to_remove_file_new. Qed.
Lemma apply_cached_meta : forall o, pres metaPO (apply_cached_subs_of o).
Proof. intro o. apply newm, apply_cached_subs_of_new. Qed.
Lemma make_dirs_meta : forall d, pres metaPO (make_dirs d).
Proof. intro d. apply newm, make_dirs_new. Qed.
#[local] Hint Resolve prepare_meta backup_meta try_remove_meta apply_cached_meta make_dirs_meta : pres.

Lemma modify_new_meta : forall f : world -> cache,
  (forall w, c_name (f w) = c_name (w_new w) /\ c_fvers (f w) = c_fvers (w_new w) /\ c_dirs (f w) = c_dirs (w_new w)) ->
  pres metaPO (modify (fun w => set_new (f w) w)).
Proof. intros f Hf. apply pres_modify. intro w. exact (Hf w). Qed.

Lemma new_start_building_file_meta : forall p, pres metaPO (new_start_building_file p).
Proof. intro p. unfold new_start_building_file. pres_auto. apply modify_new_meta. intro w. repeat split. Qed.
Lemma new_abort_building_file_meta : forall p, pres metaPO (new_abort_building_file p).
Proof. intro p. unfold new_abort_building_file. apply modify_new_meta. intro w. repeat split. Qed.
Lemma new_finish_building_file_meta : forall p o, pres metaPO (new_finish_building_file p o).
Proof. intros p o. unfold new_finish_building_file. apply modify_new_meta. intro w. repeat split. Qed.
Lemma new_start_subbuild_meta : forall k, pres metaPO (new_start_subbuild k).
Proof. intro k. unfold new_start_subbuild. pres_auto. apply modify_new_meta. intro w. repeat split. Qed.
Lemma new_finish_subbuild_meta : forall k o, pres metaPO (new_finish_subbuild k o).
Proof. intros k o. unfold new_finish_subbuild. apply modify_new_meta. intro w. repeat split. Qed.

Lemma register_op_meta : forall o c,
  c_name (register_op c o) = c_name c /\ c_fvers (register_op c o) = c_fvers c /\ c_dirs (register_op c o) = c_dirs c.
Proof.
  induction o as [q r e | p c0 f a k subs r cr ra sf IH | f a k subs r ra sf IH] using op_ind'; intro c; cbn [register_op].
  - repeat split.
  - match goal with |- context [fold_left register_op subs ?C] => assert (K : c_name C = c_name c /\ c_fvers C = c_fvers c /\ c_dirs C = c_dirs c) by (destruct sf; repeat split); revert K; generalize C end.
    induction IH as [|s rest Hs HF IHl]; intros c1 K; cbn [fold_left]; [exact K|].
    apply IHl. destruct (Hs c1) as (A1 & A2 & A3). destruct K as (K1 & K2 & K3). repeat split; congruence.
  - match goal with |- context [fold_left register_op subs ?C] => assert (K : c_name C = c_name c /\ c_fvers C = c_fvers c /\ c_dirs C = c_dirs c) by (destruct sf; repeat split); revert K; generalize C end.
    induction IH as [|s rest Hs HF IHl]; intros c1 K; cbn [fold_left]; [exact K|].
    apply IHl. destruct (Hs c1) as (A1 & A2 & A3). destruct K as (K1 & K2 & K3). repeat split; congruence.
Qed.

Lemma new_use_cached_operation_meta : forall o, pres metaPO (new_use_cached_operation o).
Proof.
  intros o w w' r H. unfold new_use_cached_operation in H. unfold bind, get in H.
  destruct (assert_no_repeats (w_new w) o).
  - unfold put in H. inversion H; subst. exact (register_op_meta o (w_new w)).
  - inversion H; subst. apply meta_refl.
Qed.
#[local] Hint Resolve new_start_building_file_meta new_abort_building_file_meta
  new_finish_building_file_meta new_start_subbuild_meta new_finish_subbuild_meta
  new_use_cached_operation_meta : pres.

Lemma bf_reuse_meta : forall p c f sa skw cached, pres metaPO (bf_reuse p c f sa skw cached).
Proof. intros p c f sa skw cached. unfold bf_reuse. pres_auto. Qed.
Lemma bf_claim_meta : forall p, pres metaPO (bf_claim p).
Proof. intro p. unfold bf_claim. pres_auto. Qed.
#[local] Hint Resolve bf_reuse_meta bf_claim_meta : pres.
Lemma bf_setup_meta : forall p c f sa skw, pres metaPO (bf_setup p c f sa skw).
Proof. intros p c f sa skw. unfold bf_setup. pres_auto. Qed.
Lemma sb_setup_meta : forall f sa skw, pres metaPO (sb_setup f sa skw).
Proof. intros f sa skw. unfold sb_setup. cbv zeta. pres_auto. Qed.

Lemma bf_fail_meta : forall p c f sa skw subs e w w' r,
  bf_fail p c f sa skw subs e w = (w', r) -> meta w w'.
Proof.
  intros p c f sa skw subs e w w' r H. unfold bf_fail in H. cbv zeta in H.
  match type of H with (match ?X with _ => _ end) = _ => destruct X as [w1 [u|e1]] eqn:E end;
    inversion H; subst.
  all: refine ((_ : pres metaPO _) _ _ _ E); pres_auto.
Qed.

Lemma bf_finish_meta : forall p c f sa skw res subs, pres metaPO (bf_finish p c f sa skw res subs).
Proof.
  intros p c f sa skw res subs w w' r H. unfold bf_finish in H.
  assert (F : forall e w0, bf_fail p c f sa skw subs e w0 = (w', r) -> meta w0 w').
  { intros e w0 H0. eapply bf_fail_meta; eassumption. }
  destruct res as [v|e]; [|eapply F; eassumption].
  destruct (sanitize v) as [sv|]; [|eapply F; eassumption].
  destruct (noneable_cmp p c w) as [w4 [cmp|e]] eqn:E.
  - assert (Q : meta w w4) by (apply svb_meta; exact (noneable_cmp_svb p c w w4 _ E)).
    eapply meta_trans; [exact Q|].
    destruct cmp; try (eapply F; eassumption).
    all: cbv zeta in H; unfold new_finish_building_file, modify in H; inversion H; subst; repeat split.
  - assert (Q : meta w w4) by (apply svb_meta; exact (noneable_cmp_svb p c w w4 _ E)).
    eapply meta_trans; [exact Q|]. eapply F; eassumption.
Qed.

Lemma sb_finish_meta : forall f sa skw res subs, pres metaPO (sb_finish f sa skw res subs).
Proof.
  intros f sa skw res subs w w' r H. unfold sb_finish in H. cbv zeta in H.
  unfold new_finish_subbuild, modify in H.
  destruct res as [v|e]; [destruct (sanitize v)|]; inversion H; subst; repeat split.
Qed.

Lemma m_build_file_meta : forall p c f a kw (fn : path -> pyval -> pyval -> body),
  (forall sa skw, pres metaPO (fn p sa skw)) -> pres metaPO (m_build_file p c f a kw fn).
Proof.
  intros p c f a kw fn Hfn w w' r H. rewrite m_build_file_unfold in H.
  destruct (sanitize a) as [sa|]; [|inversion H; subst; apply meta_refl].
  destruct (sanitize kw) as [skw|]; [|inversion H; subst; apply meta_refl].
  destruct (bf_setup p c f sa skw w) as [w1 [[[o|[e o]]|]|e]] eqn:Es;
    pose proof (bf_setup_meta p c f sa skw w w1 _ Es) as Q1; try (inversion H; subst; exact Q1).
  unfold bf_rebuild in H. destruct (fn p sa skw (bf_invoke_world p f sa skw w1)) as [w3 [res subs]] eqn:Ef.
  pose proof (Hfn sa skw _ _ _ Ef) as Q2. pose proof (bf_finish_meta p c f sa skw res subs w3 w' r H) as Q3.
  eapply meta_trans; [exact Q1|]. eapply meta_trans; [|exact Q3]. exact Q2.
Qed.

Lemma m_subbuild_meta : forall f a kw (fn : pyval -> pyval -> body),
  (forall sa skw, pres metaPO (fn sa skw)) -> pres metaPO (m_subbuild f a kw fn).
Proof.
  intros f a kw fn Hfn w w' r H. rewrite m_subbuild_unfold in H.
  destruct (sanitize a) as [sa|]; [|inversion H; subst; apply meta_refl].
  destruct (sanitize kw) as [skw|]; [|inversion H; subst; apply meta_refl].
  destruct (sb_setup f sa skw w) as [w1 [[[o|[e o]]|]|e]] eqn:Es;
    pose proof (sb_setup_meta f sa skw w w1 _ Es) as Q1; try (inversion H; subst; exact Q1).
  unfold sb_rebuild in H. destruct (fn sa skw (sb_invoke_world f sa skw w1)) as [w3 [res subs]] eqn:Ef.
  pose proof (Hfn sa skw _ _ _ Ef) as Q2. pose proof (sb_finish_meta f sa skw res subs w3 w' r H) as Q3.
  eapply meta_trans; [exact Q1|]. eapply meta_trans; [|exact Q3]. exact Q2.
Qed.

Lemma meta_log_answer : forall q r w, meta w (log_answer q r w).
Proof.
  intros q r w. unfold log_answer.
  repeat match goal with |- context [match ?y with _ => _ end] => destruct y end; repeat split.
Qed.

Theorem run_meta : forall pr target subs, pres metaPO (run pr target subs).
Proof.
  induction pr as [v | e | stale q k IH | c k IH | stale p c f a kw fn IHfn k IHk | stale f a kw fn IHfn k IHk];
    intros target subs w w' r H; cbn [run] in H; change (meta w w').
  - inversion H; subst. apply meta_refl.
  - inversion H; subst. apply meta_refl.
  - destruct stale; [eapply IH; exact H|].
    destruct (m_query q w) as [w1 [r1 o]] eqn:E.
    pose proof (svb_meta _ _ (m_query_svb _ _ _ _ E)) as Q1. apply IH in H.
    eapply meta_trans; [exact Q1|]. eapply meta_trans; [apply meta_log_answer|exact H].
  - destruct target as [t|]; [|eapply IH; exact H].
    destruct (write_file (w_fs w) t c None (N.succ (w_clock w)) (w_nextid w)) as [fs'|e] eqn:E; [|inversion H; subst; apply meta_refl].
    apply IH in H. eapply meta_trans; [|exact H]. repeat split.
  - destruct stale; [eapply IHk; exact H|].
    match type of H with (let '(_, _) := ?X in _) = _ => destruct X as [w1 [r1 o]] eqn:E end.
    apply IHk in H. eapply meta_trans; [|exact H].
    refine (m_build_file_meta p c f a kw _ _ w w1 _ E). intros sa skw. apply IHfn.
  - destruct stale; [eapply IHk; exact H|].
    match type of H with (let '(_, _) := ?X in _) = _ => destruct X as [w1 [r1 o]] eqn:E end.
    apply IHk in H. eapply meta_trans; [|exact H].
    refine (m_subbuild_meta f a kw _ _ w w1 _ E). intros sa skw. apply IHfn.
Qed.

(* ------------------------------------------------------------------ the committed cache is writable *)
Lemma W_start : forall w cf nm svers, W (start_world w cf (empty_cache nm svers) nm svers).
Proof.
  intros w cf nm svers. unfold W, RW, TW, HS, Cold, tracked, start_world, empty_cache, bd_init.
  cbn [w_new w_bd w_hash w_old c_files c_subs bd_created bd_err_created].
  split; [split; intros ? ? []|]. split; [intros d [[]|[]]|]. split; [intros ? ? ? []|]. split; reflexivity.
Qed.

Lemma sequence_In : forall A (l : list (option A)) r x, sequence l = Some r -> In x r -> In (Some x) l.
Proof.
  intros A l. induction l as [|o l IH]; intros r x H Hx; cbn [sequence fold_right] in H.
  - inversion H; subst. destruct Hx.
  - fold (sequence l) in H. destruct o as [a|]; [|discriminate H].
    destruct (sequence l) as [r'|] eqn:E; [|discriminate H]. inversion H; subst.
    destruct Hx as [->|Hx]; [left; reflexivity | right; eapply IH; eauto].
Qed.

Lemma In_snd : forall A B (l : list (A * B)) y, In y (map snd l) -> exists x, In (x, y) l.
Proof.
  intros A B l y H. apply in_map_iff in H. destruct H as ([a b] & E & H). cbn in E. subst. eauto.
Qed.

(* the facts about the run of the root function that the conjuncts are read from *)
Lemma first_build_facts : forall cf nm vers svers root w w' v,
  sanitize vers = Some svers -> path_wf cf = true -> prog_paths_wf root ->
  lookup (w_fs w) cf = None ->
  run_build cf nm vers root w = (w', Done (inl v)) ->
  exists ccd w2 l ops j,
    w_new w' = new_cache_of ccd w2 /\ W w2 /\ forallb op_wf l = true /\ forallb path_wf ccd = true /\
    c_name (w_new w2) = nm /\ c_fvers (w_new w2) = svers /\ c_dirs (w_new w2) = [] /\
    cache_to_json (w_new w') = Some j /\ cache_operations (w_new w') = Some ops /\
    (exists f, lookup (w_fs w') cf = Some (NFile f) /\ f_json f = cache_to_json (w_new w')) /\
    (exists w1, make_dirs (dirname cf) (start_world w cf (empty_cache nm svers) nm svers) = (w1, inl ccd) /\
       run root None [] (set_log (LInvoke "<root>" None PNone PNone :: w_log w1) w1) = (w2, (inl v, l))).
Proof.
  intros cf nm vers svers root w w' v Hs Hcf Hroot Hl H.
  destruct (first_build_end _ _ _ _ _ _ _ _ Hs Hl H) as (w1 & ccd & w2 & l & E1 & E2 & Hn & Hf & j & Hj).
  pose proof (W_start w cf nm svers) as W0.
  pose proof (presW _ _ _ _ _ (make_dirs_wk _) E1 W0) as W1.
  assert (W1' : W (set_log (LInvoke "<root>" None PNone PNone :: w_log w1) w1)) by (refine ((_ : wk w1 _) W1); apply wk_same; reflexivity).
  destruct (run_W root Hroot _ [] _ _ _ _ W1' eq_refl E2) as [W2 Hl2].
  pose proof (make_dirs_wf _ (path_wf_tl cf Hcf) _ _ _ E1) as Hccd. cbv beta in Hccd.
  pose proof (make_dirs_meta _ _ _ _ E1) as (M1 & M2 & M3).
  pose proof (run_meta _ _ _ _ _ _ E2) as (N1 & N2 & N3). cbn [w_new set_log] in N1, N2, N3.
  assert (Ho : exists ops, cache_operations (w_new w') = Some ops).
  { unfold cache_to_json in Hj. destruct (cache_operations (w_new w')) as [ops|]; [eauto | discriminate Hj]. }
  destruct Ho as [ops Ho].
  exists ccd, w2, l, ops, j. split; [exact Hn|]. split; [exact W2|]. split; [exact Hl2|]. split; [exact Hccd|].
  split; [rewrite N1, M1; reflexivity|]. split; [rewrite N2, M2; reflexivity|]. split; [rewrite N3, M3; reflexivity|].
  split; [exact Hj|]. split; [exact Ho|]. split; [exact Hf|]. exists w1. split; assumption.
Qed.

Theorem committed_cache_writable_partial : forall cf nm vers svers root w w' v,
  sanitize vers = Some svers -> path_wf cf = true -> prog_paths_wf root ->
  lookup (w_fs w) cf = None ->
  run_build cf nm vers root w = (w', Done (inl v)) ->
  let c := w_new w' in
  exists roots,
    writable c roots /\ paths_nodup (c_dirs c) = true /\
    exists f, lookup (w_fs w') cf = Some (NFile f) /\ f_json f = cache_to_json c.
Proof.
  intros cf nm vers svers root w w' v Hs Hcf Hroot Hl H c.
  destruct (first_build_facts _ _ _ _ _ _ _ _ Hs Hcf Hroot Hl H)
    as (ccd & w2 & l & ops & j & Hn & W2 & Hl2 & Hccd & Mn & Mv & Md & Hj & Ho & Hf & _).
  destruct W2 as ((RWf & RWs) & TW2 & _ & _).
  exists (root_operations ops).
  assert (Ed : c_dirs c = union_paths [] (bd_created (w_bd w2) ++ filter (fun d => negb (mem_path d (bd_created (w_bd w2)))) ccd)).
  { unfold c. rewrite Hn. unfold new_cache_of. cbn [c_dirs cache_with]. rewrite Md. reflexivity. }
  split; [|split; [|exact Hf]].
  - split; [unfold cache_forest; fold c in Ho; rewrite Ho; reflexivity|]. split; [|split].
    + apply forallb_forall. intros o Hin. unfold root_operations in Hin. apply filter_In in Hin. destruct Hin as [Hin _].
      unfold cache_operations in Ho. pose proof (sequence_In _ _ _ _ Ho Hin) as K.
      rewrite Hn in K. unfold new_cache_of in K. cbn [c_files c_subs cache_with] in K.
      apply in_app_or in K. destruct K as [K|K]; apply In_snd in K; destruct K as [x K]; [eapply RWf | eapply RWs]; eauto.
    + rewrite Ed. apply forallb_forall. intros d Hd. apply In_union_paths in Hd. destruct Hd as [[]|Hd].
      apply in_app_or in Hd. destruct Hd as [Hd|Hd].
      * apply TW2. left. exact Hd.
      * apply filter_In in Hd. destruct Hd as [Hd _]. rewrite forallb_forall in Hccd. exact (Hccd d Hd).
    + unfold c. rewrite Hn. unfold new_cache_of. cbn [c_fvers cache_with]. rewrite Mv.
      apply sanitized_sanitized_t. eapply sanitize_sanitized; eauto.
  - rewrite Ed. unfold union_paths. apply dedup_fold_nodup'. reflexivity.
Qed.

Print Assumptions committed_cache_writable_partial.
