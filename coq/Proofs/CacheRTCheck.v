(* Proofs/CacheRTCheck.v — soundness of the boolean checkers of CacheRTDefs, so
   that the hypotheses of the cache-level round trip can be established by
   computation on concrete caches (CacheRTEx.v). *)
From Coq Require Import List String Ascii NArith ZArith Bool Arith Lia Permutation.
From FB.Base Require Import PyVal Fs.
From FB.Gen Require Import JsonUtilGen.
From FB.Spec Require Import JsonSpec.
From FB.Model Require Import Types Monad SimpleOps Builder PathNorm Persist PersistSpec.
From FB.Proofs Require Import FsLemmas JsonLaws CoreLawsJson PersistLaws CacheRTDefs.
Import ListNotations.
Local Open Scope list_scope.

Lemma cmp_eqb_eq : forall a b, cmp_eqb a b = true -> a = b.
Proof. destruct a, b; intro H; try discriminate; reflexivity. Qed.

Lemma errclass_eqb_eq : forall a b, errclass_eqb a b = true -> a = b.
Proof. destruct a, b; intro H; try discriminate; reflexivity. Qed.

Lemma oerr_eqb_eq : forall a b, oerr_eqb a b = true -> a = b.
Proof.
  destruct a as [a|], b as [b|]; cbn [oerr_eqb]; intro H; try discriminate; [|reflexivity].
  f_equal. apply errclass_eqb_eq. exact H.
Qed.

Lemma query_beq_eq : forall a b, CacheRTDefs.query_beq a b = true -> a = b.
Proof.
  destruct a, b; cbn [CacheRTDefs.query_beq]; intro H; try discriminate;
    try (apply path_eqb_eq in H; subst; reflexivity).
  - apply andb_true_iff in H. destruct H as [H1 H2]. apply path_eqb_eq in H1. apply eqb_prop in H2. subst. reflexivity.
  - apply andb_true_iff in H. destruct H as [H1 H2]. apply path_eqb_eq in H1. apply cmp_eqb_eq in H2. subst. reflexivity.
Qed.

Lemma op_beq_build_eq : forall p c f a1 k1 s r cr ra sf p' c' f' a1' k1' s' r' cr' ra' sf',
  op_beq (OBuildFile p c f a1 k1 s r cr ra sf) (OBuildFile p' c' f' a1' k1' s' r' cr' ra' sf') =
  (path_eqb p p' && cmp_eqb c c' && String.eqb f f' && pyval_same a1 a1' && pyval_same k1 k1' &&
   all2 op_beq s s' && pyval_same r r' && pyval_same cr cr' && Bool.eqb ra ra' && Bool.eqb sf sf')%bool.
Proof. reflexivity. Qed.

Lemma op_beq_sub_eq : forall f a1 k1 s r ra sf f' a1' k1' s' r' ra' sf',
  op_beq (OSubbuild f a1 k1 s r ra sf) (OSubbuild f' a1' k1' s' r' ra' sf') =
  (String.eqb f f' && pyval_same a1 a1' && pyval_same k1 k1' && all2 op_beq s s' && pyval_same r r' &&
   Bool.eqb ra ra' && Bool.eqb sf sf')%bool.
Proof. reflexivity. Qed.

Lemma all2_beq_eq : forall l,
  Forall (fun a => forall b, op_beq a b = true -> a = b) l ->
  forall l', all2 op_beq l l' = true -> l = l'.
Proof.
  induction 1 as [|x l Hx Hl IH]; destruct l' as [|y l']; cbn [all2]; try discriminate; auto.
  intro H. apply andb_true_iff in H. destruct H as [A B].
  rewrite (Hx _ A), (IH _ B). reflexivity.
Qed.

Theorem op_beq_eq : forall a b, op_beq a b = true -> a = b.
Proof.
  induction a as [q r e | p c f a k subs r cr ra sf IH | f a k subs r ra sf IH] using op_ind';
    intros b H; destruct b as [q' r' e' | p' c' f' a' k' subs' r' cr' ra' sf' | f' a' k' subs' r' ra' sf'];
    try discriminate H.
  - cbn [op_beq] in H. split_andb H.
    apply query_beq_eq in H. apply pyval_same_eq in H1. apply oerr_eqb_eq in H0. subst. reflexivity.
  - rewrite op_beq_build_eq in H. split_andb H.
    apply path_eqb_eq in H. apply cmp_eqb_eq in H8. apply String.eqb_eq in H7.
    apply pyval_same_eq in H6, H5, H3, H2. apply eqb_prop in H1, H0.
    apply (all2_beq_eq subs IH) in H4. subst. reflexivity.
  - rewrite op_beq_sub_eq in H. split_andb H.
    apply String.eqb_eq in H. apply pyval_same_eq in H5, H4, H2. apply eqb_prop in H1, H0.
    apply (all2_beq_eq subs IH) in H3. subst. reflexivity.
Qed.

Lemma oop_beq_eq : forall a b, oop_beq a b = true -> a = b.
Proof.
  destruct a as [a|], b as [b|]; cbn [oop_beq]; intro H; try discriminate; [|reflexivity].
  f_equal. apply op_beq_eq. exact H.
Qed.

Lemma ooop_beq_eq : forall a b, ooop_beq a b = true -> a = b.
Proof.
  destruct a as [a|], b as [b|]; cbn [ooop_beq]; intro H; try discriminate; [|reflexivity].
  f_equal. apply oop_beq_eq. exact H.
Qed.

Lemma fentry_beq_eq : forall a b, fentry_beq a b = true -> a = b.
Proof.
  intros [p o] [q o'] H. unfold fentry_beq in H. cbn [fst snd] in H. apply andb_true_iff in H.
  destruct H as [H1 H2]. apply path_eqb_eq in H1. apply oop_beq_eq in H2. subst. reflexivity.
Qed.

Lemma sentry_beq_eq : forall a b, sentry_beq a b = true -> a = b.
Proof.
  intros [p o] [q o'] H. unfold sentry_beq in H. cbn [fst snd] in H. apply andb_true_iff in H.
  destruct H as [H1 H2]. apply pyval_same_eq in H1. apply oop_beq_eq in H2. subst. reflexivity.
Qed.

(* ---- permutation checker ---- *)
Lemma remove1_perm : forall {A} (eqb : A -> A -> bool), (forall x y, eqb x y = true -> x = y) ->
  forall x l l', remove1 eqb x l = Some l' -> Permutation l (x :: l').
Proof.
  intros A eqb Heq x l. induction l as [|y r IH]; intros l' H; cbn [remove1] in H; [discriminate|].
  destruct (eqb x y) eqn:E.
  - apply Heq in E. subst y. injection H as <-. apply Permutation_refl.
  - destruct (remove1 eqb x r) as [r'|]; [|discriminate]. injection H as <-.
    eapply Permutation_trans; [apply perm_skip, IH; reflexivity | apply perm_swap].
Qed.

Theorem perm_check_sound : forall {A} (eqb : A -> A -> bool), (forall x y, eqb x y = true -> x = y) ->
  forall l1 l2, perm_check eqb l1 l2 = true -> Permutation l1 l2.
Proof.
  intros A eqb Heq. induction l1 as [|x r IH]; intros l2 H; cbn [perm_check] in H.
  - destruct l2; [apply perm_nil | discriminate].
  - destruct (remove1 eqb x l2) as [l2'|] eqn:E; [|discriminate].
    apply Permutation_sym. eapply Permutation_trans; [eapply remove1_perm; eauto|].
    apply perm_skip, Permutation_sym, IH, H.
Qed.

Theorem tables_perm_forest_b_sound : forall c roots,
  tables_perm_forest_b c roots = true -> tables_perm_forest c roots.
Proof.
  intros c roots H. unfold tables_perm_forest_b in H. apply andb_true_iff in H. destruct H as [H1 H2].
  split; [eapply perm_check_sound; [exact fentry_beq_eq | exact H1]
         | eapply perm_check_sound; [exact sentry_beq_eq | exact H2]].
Qed.

(* ---- the file table, by lookup ---- *)
Lemma files_get_None_notin : forall l p, files_get l p = None <-> ~ In p (map fst l).
Proof.
  induction l as [|[q o] l IH]; intro p; cbn [files_get map fst In]; [tauto|].
  destruct (path_eqb q p) eqn:E.
  - apply path_eqb_eq in E. subst. split; [discriminate | intro H; exfalso; apply H; left; reflexivity].
  - apply path_eqb_neq in E. rewrite IH. tauto.
Qed.

Theorem files_from_forest_b_sound : forall c roots, files_from_forest_b c roots = true ->
  forall p, files_get (c_files c) p =
            files_get (c_files (tables_of (c_name c) (c_fvers c) (c_dirs c) roots)) p.
Proof.
  intros c roots H p. unfold files_from_forest_b in H. cbv zeta in H.
  set (d := tables_of (c_name c) (c_fvers c) (c_dirs c) roots) in *.
  rewrite forallb_forall in H.
  destruct (in_dec (list_eq_dec string_dec) p (map fst (c_files c) ++ map fst (c_files d))) as [Hin|Hn].
  - apply ooop_beq_eq. apply H. exact Hin.
  - assert (A : ~ In p (map fst (c_files c))) by (intro X; apply Hn, in_or_app; left; exact X).
    assert (B : ~ In p (map fst (c_files d))) by (intro X; apply Hn, in_or_app; right; exact X).
    apply files_get_None_notin in A. apply files_get_None_notin in B. congruence.
Qed.
