(* Proofs/ViewH7.v — C04, cache hits: the attempt lookup / reuse / claim of build_file
   satisfies [hit_post] (ViewXSetup.v) for records as builds write them, when the lookup
   does not raise and the cache file path is not a directory; the same for subbuild.
   When the lookup CAN raise in the model: see the end of the file. *)
From Coq Require Import List String Ascii NArith ZArith Bool Arith Lia.
From FB.Base Require Import PyVal Fs.
From FB.Gen Require Import JsonUtilGen.
From FB.Model Require Import Types Monad CreatedFiles BuildDirs SimpleOps Builder.
From FB.Proofs Require Import FsLemmas CleanLaws JsonLaws CoreLawsChildren ReplayLaws BuildFileLaws
     ViewDefs ViewLemmas ViewScan ViewQueries ViewAnswers ViewPres ViewFrame
     ViewXDefs ViewXFrame ViewXQuery ViewXSteps ViewXMake1 ViewXMake2 ViewXFail ViewXSetup ViewXRun
     ViewH4 ViewH5 ViewH6.
Import ListNotations.
Open Scope list_scope.
Open Scope m_scope.

Lemma build_file_cache_lookup_q : forall p f a k w w' r, build_file_cache_lookup p f a k w = (w', r) -> qrel w w'.
Proof. intros p f a k. apply qrel_of; [apply build_file_cache_lookup_v|apply build_file_cache_lookup_f|apply build_file_cache_lookup_svb]. Qed.

Lemma qrel_at : forall w w', qrel w w' -> w_fs w' = w_fs w /\ w_new w' = w_new w /\ w_cachefile w' = w_cachefile w /\ w_old w' = w_old w.
Proof. intros w w' (_ & _ & (A1 & A2 & A3 & A4 & A5 & A6 & A7 & A8 & _)). auto. Qed.

(* what a lookup that found a record tells *)
Lemma lookup_found : forall p f a k w w' co, build_file_cache_lookup p f a k w = (w', inl (Some co)) ->
  (forall rec, cache_get_file (w_old w) p = Some rec -> goodrec rec = true) ->
  forallb (reusable (w_fs w) (w_new w) (w_cachefile w)) (op_subs co) = true.
Proof.
  intros p f a k w w' co H Hg. unfold build_file_cache_lookup in H. apply bind_inv in H. unfold get in H.
  destruct H as [[w1 [w0 [E H]]]|[e [E _]]]; [|discriminate]. inversion E; subst w1 w0.
  destruct (cache_get_file (w_old w) p) as [[q r e|p' c' f' a' k' subs' r' cr' ra' sf'|f' a' k' subs' r' ra' sf']|] eqn:Eg;
    try (inversion H; fail).
  specialize (Hg _ eq_refl). cbn [goodrec] in Hg. apply andb_true_iff in Hg. destruct Hg as [_ Hg].
  destruct ra'; [inversion H|]. destruct (negb (String.eqb f' f)); [inversion H|].
  apply bind_inv in H. destruct H as [[w1 [ve [Ev H]]]|[e [_ H]]]; [|discriminate].
  pose proof (version_equal_svb _ _ _ _ Ev) as S1. destruct (negb ve); [inversion H|].
  destruct (negb (is_equal a' a)); [inversion H|]. destruct (negb (is_equal k' k)); [inversion H|].
  apply bind_inv in H. destruct H as [[w2 [ok [Eo H]]]|[e [_ H]]]; [|discriminate].
  pose proof (is_build_file_cached_svb _ _ _ _ _ _ Eo) as S2. destruct (negb ok); [inversion H|].
  apply bind_inv in H. destruct H as [[w3 [rr [Es H]]]|[e [_ H]]]; [|discriminate].
  destruct rr as [b1 cf1]. cbn [fst] in H. destruct b1; [|inversion H].
  pose proof (are_subs_cached_facts subs' cf_empty w2 w3 cf1 Hg Es) as K.
  inversion H; subst. cbn [op_subs].
  destruct (svb_fields _ _ (svb_trans _ _ _ S1 S2)) as (F1 & F2 & F3). rewrite F1, F2, F3 in K. exact K.
Qed.

Lemma noneable_cmp_raise_nofile : forall p c w w' e, noneable_cmp p c w = (w', inr e) -> isfile (w_fs w) p = false.
Proof.
  intros p c w w' e H. destruct (isfile (w_fs w) p) eqn:Ef; [|reflexivity]. exfalso.
  unfold noneable_cmp, catch in H. apply isfile_lookup in Ef. destruct Ef as [g Hg].
  destruct c; cbn [file_comparison_result] in H.
  - unfold file_metadata in H. rewrite Hg in H. discriminate.
  - unfold file_hash in H. unfold isfile in H. rewrite Hg in H.
    destruct (hash_get (w_hash w) p) as [[h b]|]; [destruct (Bool.eqb b (cache_has_file (w_new w) p))|]; discriminate.
Qed.

(* the reuse step, from the world wl after the lookup *)
Lemma bf_reuse_ok : forall T n d c f sa skw cached wl wr rr,
  RInv ((n :: d) :: T) wl -> cache_has_file (w_new wl) (n :: d) = false ->
  isdir (w_fs wl) (w_cachefile wl) = false ->
  (forall co, cached = Some co -> forallb (reusable (w_fs wl) (w_new wl) (w_cachefile wl)) (op_subs co) = true) ->
  bf_reuse (n :: d) c f sa skw cached wl = (wr, rr) ->
  (rr = inl None /\ qrel wl wr) \/
  (exists o T', rr = inl (Some (inl o)) /\ RInv T' wr /\ msub ((n :: d) :: T) T') \/
  (exists e, rr = inr e /\ qrel wl wr /\ isfile (w_fs wl) (n :: d) = false).
Proof.
  intros T n d c f sa skw cached wl wr rr HRl Hunc Hcf Hreu H.
  destruct cached as [co|]; [|cbn [bf_reuse] in H; inversion H; subst; left; split; [reflexivity|apply qrel_refl]].
  specialize (Hreu co eq_refl). cbn [bf_reuse] in H. cbv zeta in H.
  apply bind_inv in H. destruct H as [[wc [cmp [Ec H]]]|[e [Ec Ee]]].
  2:{ right. right. exists e. split; [exact Ee|]. split; [eapply noneable_cmp_q; exact Ec|eapply noneable_cmp_raise_nofile; exact Ec]. }
  pose proof (noneable_cmp_q _ _ _ _ _ Ec) as Qc. pose proof (qrel_RInv _ _ _ Qc HRl) as HRc.
  destruct (qrel_at _ _ Qc) as (F2 & N2 & C2 & O2).
  assert (Hreuse: forall x,
            (apply_cached_subs_of co ;;;
             (r0 <- attempt (new_use_cached_operation (OBuildFile (n :: d) c f sa skw (op_subs co) (op_ret co) cmp false false)) ;;
              match r0 with
              | inl _ => ret (Some (inl (OBuildFile (n :: d) c f sa skw (op_subs co) (op_ret co) cmp false false)))
              | inr e => ret (Some (inr (e, OBuildFile (n :: d) c f sa skw (op_subs co) (op_ret co) cmp true true)))
              end)) wc = (wr, x) ->
            exists o T', x = inl (Some (inl o)) /\ RInv T' wr /\ msub ((n :: d) :: T) T').
  { intros x Hx. apply bind_inv in Hx.
    assert (Hadopt: forall wd ra, apply_cached_subs_of co wc = (wd, ra) ->
              adopt_post (flat_map adopted (op_subs co)) ((n :: d) :: T) wc wd ra).
    { intros wd ra Ha. apply (apply_cached_ok (w_fs wl) (w_new wl) (w_cachefile wl) Hcf co ((n :: d) :: T) wc wd ra Hreu HRc); [|exact Ha].
      repeat split; congruence. }
    destruct Hx as [[wd [u [Ea Hx]]]|[e [Ea _]]].
    2:{ destruct (Hadopt _ _ Ea) as (K & _). discriminate. }
    destruct (Hadopt _ _ Ea) as (_ & F3 & N3 & O3 & C3 & T' & HR' & M' & L').
    destruct (use_cached_ok T' wd (n :: d) c f sa skw (op_subs co) (op_ret co) cmp HR') as (we & Eu & HRe).
    - apply (msub_in _ _ _ M'). left. reflexivity.
    - congruence.
    - rewrite F3, N3, C3, F2, N2, C2. exact Hreu.
    - exact L'.
    - apply bind_inv in Hx. unfold attempt in Hx. rewrite Eu in Hx.
      destruct Hx as [[wf [r0 [E0 Hx]]]|[e [E0 _]]]; [|discriminate]. inversion E0; subst wf r0.
      inversion Hx; subst. eexists _, T'. auto. }
  destruct cmp; try (right; left; apply (Hreuse _ H)).
  inversion H; subst. left. split; [reflexivity|exact Qc].
Qed.

Theorem hit_core : forall T n d c f sa skw w w1 r,
  RInv ((n :: d) :: T) w -> cache_has_file (w_new w) (n :: d) = false -> isdir (w_fs w) (n :: d) = false ->
  isdir (w_fs w) (w_cachefile w) = false ->
  (forall rec, cache_get_file (w_old w) (n :: d) = Some rec -> goodrec rec = true) ->
  (forall wl e, build_file_cache_lookup (n :: d) f sa skw w <> (wl, inr e)) ->
  bf_try (n :: d) c f sa skw w = (w1, r) -> hit_post T (n :: d) w w1 r.
Proof.
  intros T n d c f sa skw w w1 r HR Hunc Hnd Hcf Hg Hnoraise H. unfold bf_try in H.
  apply bind_inv in H. destruct H as [[wl [cached [El H]]]|[e [El _]]]; [|exfalso; eapply Hnoraise; exact El].
  pose proof (build_file_cache_lookup_q _ _ _ _ _ _ _ El) as Ql. pose proof (qrel_RInv _ _ _ Ql HR) as HRl.
  destruct (qrel_at _ _ Ql) as (F1 & N1 & C1 & O1).
  assert (Hclaim: forall wc, qrel wl wc -> bf_claim (n :: d) wc = (w1, r) -> hit_post T (n :: d) w w1 r).
  { intros wc Qc Hc. pose proof (qrel_RInv _ _ _ Qc HRl) as HRc. destruct (qrel_at _ _ Qc) as (F2 & N2 & C2 & O2).
    pose proof (bf_claim_old _ _ _ _ Hc) as Hold.
    destruct (bf_claim_RInv ((n :: d) :: T) (n :: d) wc w1 r HRc (or_introl eq_refl) Hc) as [(A & B & C)|(A & B & C)].
    - subst r. cbn [hit_post]. split; [exact A|]. split; [exact C|congruence].
    - congruence. }
  assert (Hreu: forall co, cached = Some co -> forallb (reusable (w_fs wl) (w_new wl) (w_cachefile wl)) (op_subs co) = true).
  { intros co ->. rewrite F1, N1, C1. apply (lookup_found _ _ _ _ _ _ _ El Hg). }
  apply bind_inv in H. destruct H as [[wr [reused [Er H]]]|[e [Er Ee]]].
  - destruct (bf_reuse_ok T n d c f sa skw cached wl wr (inl reused) HRl) as [[K Q]|[(o & T' & K & HR' & M')|(e & K & _)]];
      try exact Er; try exact Hreu; try congruence.
    + inversion K; subst reused. apply (Hclaim wr Q H).
    + inversion K; subst reused. inversion H; subst. cbn [hit_post]. exists T'. auto.
  - subst r. destruct (bf_reuse_ok T n d c f sa skw cached wl w1 (inr e) HRl) as [[K Q]|[(o & T' & K & _)|(e' & K & Q & Hnf)]];
      try exact Er; try exact Hreu; try congruence.
    cbn [hit_post]. split; [apply (qrel_RInv _ _ _ Q HRl)|]. destruct (qrel_at _ _ Q) as (F2 & N2 & C2 & O2). split.
    + rewrite F2. exact Hnf.
    + rewrite N2, N1. unfold cache_has_file in Hunc. destruct (files_get (c_files (w_new w)) (n :: d)); discriminate.
Qed.

Print Assumptions hit_core.

(* ------------------------------------------------------------------ subbuild *)
Lemma use_cached_gen : forall T w o, RInv T w -> assert_no_repeats (w_new w) o = true ->
  (forall a, In a (regp o) -> In a T \/ isfile (w_fs w) a = false) ->
  exists w1, new_use_cached_operation o w = (w1, inl tt) /\ RInv T w1 /\ w_old w1 = w_old w.
Proof.
  intros T w o (HX & HP & HF) Hnr Hreg.
  exists (set_new (register_op (w_new w) o) w). split.
  { unfold new_use_cached_operation, bind, get, put. rewrite Hnr. reflexivity. }
  split; [|reflexivity]. split; [|split; [|exact HF]].
  - apply (hid_multi_XInv T w (set_new (register_op (w_new w) o) w) HX); try reflexivity.
    intros a Hf. destruct (in_dec (list_eq_dec string_dec) a (regp o)) as [Hi|Hni].
    + destruct (Hreg a Hi) as [K|K]; [right; exact K|congruence].
    + left. unfold hid, cache_has_file, cache_get_file. cbn [w_new w_old w_cachefile set_new].
      rewrite (proj1 (reg_all o (w_new w) a) Hni). reflexivity.
  - intros x Hx. cbn [w_new set_new] in Hx. apply HP. apply (proj2 (reg_all o (w_new w) x) Hx).
Qed.

Lemma subbuild_cache_lookup_q : forall k f w w' r, subbuild_cache_lookup k f w = (w', r) -> qrel w w'.
Proof. intros k f. apply qrel_of; [apply subbuild_cache_lookup_v|apply subbuild_cache_lookup_f|apply subbuild_cache_lookup_svb]. Qed.

Lemma sublookup_found : forall key f w w' co, subbuild_cache_lookup key f w = (w', inl (Some co)) ->
  (forall rec, subs_get (c_subs (w_old w)) key = Some (Some rec) -> goodrec rec = true) ->
  forallb (reusable (w_fs w) (w_new w) (w_cachefile w)) (op_subs co) = true /\
  exists f' a' k' subs' r', co = OSubbuild f' a' k' subs' r' false false \/ co = OSubbuild f' a' k' subs' r' false true.
Proof.
  intros key f w w' co H Hg. unfold subbuild_cache_lookup in H. apply bind_inv in H. unfold get in H.
  destruct H as [[w1 [w0 [E H]]]|[e [E _]]]; [|discriminate]. inversion E; subst w1 w0.
  destruct (subs_get (c_subs (w_old w)) key) as [[[q r e|p' c' f' a' k' subs' r' cr' ra' sf'|f' a' k' subs' r' ra' sf']|]|] eqn:Eg;
    try (inversion H; fail).
  specialize (Hg _ eq_refl). cbn [goodrec] in Hg.
  destruct ra'; [inversion H|].
  apply bind_inv in H. destruct H as [[w1 [ve [Ev H]]]|[e [_ H]]]; [|discriminate].
  pose proof (version_equal_svb _ _ _ _ Ev) as S1. destruct (negb ve); [inversion H|].
  apply bind_inv in H. destruct H as [[w3 [rr [Es H]]]|[e [_ H]]]; [|discriminate].
  destruct rr as [b1 cf1]. cbn [fst] in H. destruct b1; [|inversion H].
  pose proof (are_subs_cached_facts subs' cf_empty w1 w3 cf1 Hg Es) as K.
  inversion H; subst. cbn [op_subs]. destruct (svb_fields _ _ S1) as (F1 & F2 & F3). rewrite F1, F2, F3 in K.
  split; [exact K|]. exists f', a', k', subs', r'. destruct sf'; auto.
Qed.

Theorem sbhit_core : forall T f sa skw w w1 r,
  RInv T w -> isdir (w_fs w) (w_cachefile w) = false ->
  (forall rec, subs_get (c_subs (w_old w)) (subbuild_key f sa skw) = Some (Some rec) -> goodrec rec = true) ->
  (forall wl e, subbuild_cache_lookup (subbuild_key f sa skw) f w <> (wl, inr e)) ->
  sb_setup f sa skw w = (w1, r) ->
  exists T', RInv T' w1 /\ msub T T' /\ w_old w1 = w_old w.
Proof.
  intros T f sa skw w w1 r HR Hcf Hg Hnoraise H. unfold sb_setup in H. cbv zeta in H.
  apply bind_inv in H. destruct H as [[wa [u [E H]]]|[e [E _]]].
  2:{ unfold new_assert_no_subbuild, bind, get in E. destruct (cache_has_subbuild (w_new w) _); inversion E; subst.
      exists T. split; [exact HR|]. split; [apply msub_refl|reflexivity]. }
  assert (Hw: wa = w /\ cache_has_subbuild (w_new w) (subbuild_key f sa skw) = false).
  { unfold new_assert_no_subbuild, bind, get in E. destruct (cache_has_subbuild (w_new w) _); inversion E; auto. }
  destruct Hw as [-> Hunc].
  apply bind_inv in H. destruct H as [[wl [cached [El H]]]|[e [El _]]]; [|exfalso; eapply Hnoraise; exact El].
  pose proof (subbuild_cache_lookup_q _ _ _ _ _ El) as Ql. pose proof (qrel_RInv _ _ _ Ql HR) as HRl.
  destruct (qrel_at _ _ Ql) as (F1 & N1 & C1 & O1).
  destruct cached as [co|].
  - destruct (sublookup_found _ _ _ _ _ El Hg) as [Hreu Hshape].
    assert (Hadopt: forall wd ra, apply_cached_subs_of co wl = (wd, ra) ->
              adopt_post (flat_map adopted (op_subs co)) T wl wd ra).
    { intros wd ra Ha. apply (apply_cached_ok (w_fs w) (w_new w) (w_cachefile w) Hcf co T wl wd ra Hreu HRl); [|exact Ha].
      repeat split; congruence. }
    apply bind_inv in H. destruct H as [[wd [u' [Ea H]]]|[e [Ea _]]].
    2:{ destruct (Hadopt _ _ Ea) as (K & _). discriminate. }
    destruct (Hadopt _ _ Ea) as (_ & F3 & N3 & O3 & C3 & T' & HR' & M' & L').
    set (o := OSubbuild f sa skw (op_subs co) (op_ret co) false false) in *.
    destruct (use_cached_gen T' wd o HR') as (we & Eu & HRe & Oe).
    + unfold o. cbn [assert_no_repeats orb]. rewrite N3, N1, Hunc. cbn [negb andb].
      assert (K: forallb (reusable (w_fs w) (w_new w) (w_cachefile w)) (op_subs co) = true) by exact Hreu.
      clear -K. induction (op_subs co) as [|s rest IH]; cbn [forallb] in *; [reflexivity|].
      apply andb_true_iff in K. destruct K as [H1 H2]. rewrite (reusable_no_repeats _ _ _ _ H1), (IH H2). reflexivity.
    + intros a Ha. unfold o in Ha. cbn [regp] in Ha.
      assert (G: In a (flat_map adopted (op_subs co)) \/ lexists (w_fs w) a = false).
      { clear -Hreu Ha. induction (op_subs co) as [|s rest IH]; cbn [flat_map forallb] in *; [destruct Ha|].
        apply andb_true_iff in Hreu. destruct Hreu as [H1 H2]. apply in_app_iff in Ha. destruct Ha as [Ha|Ha].
        - destruct (regp_cases _ _ _ _ H1 a Ha) as [K|K]; [left; apply in_or_app; left; exact K|right; exact K].
        - destruct (IH H2 Ha) as [K|K]; [left; apply in_or_app; right; exact K|right; exact K]. }
      destruct G as [G|G]; [left; apply L'; exact G|right].
      rewrite F3, F1. unfold lexists in G. unfold isfile. destruct (lookup (w_fs w) a); [discriminate|reflexivity].
    + apply bind_inv in H. unfold attempt in H. rewrite Eu in H.
      destruct H as [[wf [r0 [E0 H]]]|[e [E0 _]]]; [|discriminate]. inversion E0; subst wf r0. inversion H; subst.
      exists T'. split; [exact HRe|]. split; [exact M'|congruence].
  - apply bind_inv in H.
    assert (Hst: forall wb x, new_start_subbuild (subbuild_key f sa skw) wl = (wb, x) -> RInv T wb /\ w_old wb = w_old wl).
    { intros wb x Hs. unfold new_start_subbuild, new_assert_no_subbuild, bind, get, modify in Hs.
      destruct (cache_has_subbuild (w_new wl) _); cbn in Hs; inversion Hs; subst; [auto|].
      split; [apply subs_change_RInv; [exact HRl|reflexivity]|reflexivity]. }
    destruct H as [[wb [u' [E2 H]]]|[e [E2 _]]].
    + inversion H; subst. destruct (Hst _ _ E2) as [A B]. exists T. split; [exact A|]. split; [apply msub_refl|congruence].
    + destruct (Hst _ _ E2) as [A B]. exists T. split; [exact A|]. split; [apply msub_refl|congruence].
Qed.

Print Assumptions sbhit_core.
